"""Seeded changes for the C18 self-test: name -> (file, old text, new text, kind).  Applied to $VERIF_REPO by tools in selftest/run_mutants.py."""
M = {}
M["M1_colcheck_after_write_multi"] = ("fastparquet/api.py", '''        if isinstance(data, pd.DataFrame):
            self_cols = sorted(self.columns + partition_on)
            if self_cols != sorted(data.columns):
                diff_cols = set(data.columns) ^ set(self_cols)
                raise ValueError(
                    f'Column names of new data are {sorted(data.columns)}. '
                    f'But column names in existing file are {self_cols}. '
                    f'{diff_cols} are columns being either only in existing '
                     'file or only in new data. This is not possible.')
        if (self.file_scheme == 'simple'
            or (self.file_scheme == 'empty' and self.fn[-9:] != '_metadata')):
            # Case 'simple'.
            write_simple(self.fn, data, self.fmd,
                         row_group_offsets=row_group_offsets,
                         compression=compression, open_with=open_with,
                         has_nulls=None, append=True, stats=stats)
        else:
            # Case 'hive' or 'drill'.
            write_multi(self.basepath, data, self.fmd,
                        row_group_offsets=row_group_offsets,
                        compression=compression,
                        # No row group left: the scheme cannot be read from
                        # the paths; only hive datasets can be appended to.
                        file_scheme=('hive' if self.file_scheme == 'empty'
                                     else self.file_scheme),
                        write_fmd=False, open_with=open_with, mkdirs=mkdirs,
                        partition_on=partition_on, append=True, stats=stats)
''', '''        if (self.file_scheme == 'simple'
            or (self.file_scheme == 'empty' and self.fn[-9:] != '_metadata')):
            # Case 'simple'.
            write_simple(self.fn, data, self.fmd,
                         row_group_offsets=row_group_offsets,
                         compression=compression, open_with=open_with,
                         has_nulls=None, append=True, stats=stats)
        else:
            # Case 'hive' or 'drill'.
            write_multi(self.basepath, data, self.fmd,
                        row_group_offsets=row_group_offsets,
                        compression=compression,
                        # No row group left: the scheme cannot be read from
                        # the paths; only hive datasets can be appended to.
                        file_scheme=('hive' if self.file_scheme == 'empty'
                                     else self.file_scheme),
                        write_fmd=False, open_with=open_with, mkdirs=mkdirs,
                        partition_on=partition_on, append=True, stats=stats)
        if isinstance(data, pd.DataFrame):
            self_cols = sorted(self.columns + partition_on)
            if self_cols != sorted(data.columns):
                diff_cols = set(data.columns) ^ set(self_cols)
                raise ValueError(
                    f'Column names of new data are {sorted(data.columns)}. '
                    f'But column names in existing file are {self_cols}. '
                    f'{diff_cols} are columns being either only in existing '
                     'file or only in new data. This is not possible.')
''', "M")
M["M2_scheme_check_removed"] = ("fastparquet/writer.py", '''            if pf.file_scheme not in ['hive', 'empty', 'flat']:
                raise ValueError(f'Requested file scheme is {file_scheme}, but'
                                  ' existing file scheme is not.')
''', "", "M")
M["M3_fix_reverted"] = ("fastparquet/writer.py", '''            try:
                write_row_groups_and_footer(f)
            except BaseException:
                f.seek(foot_start)
                f.write(old_foot)
                f.truncate()
                raise
''', '''            write_row_groups_and_footer(f)
''', "M")
M["M4_fix_without_truncate"] = ("fastparquet/writer.py", '''                f.write(old_foot)
                f.truncate()
''', '''                f.write(old_foot)
''', "M")
M["M5_fix_restores_at_wrong_place"] = ("fastparquet/writer.py", '''            except BaseException:
                f.seek(foot_start)
''', '''            except BaseException:
                f.seek(foot_start + 4)
''', "M")
M["M6_partition_check_removed"] = ("fastparquet/writer.py", '''            if tuple(partition_on) != tuple(pf.partition_names):
                raise ValueError('When appending, partitioning columns must '
                                 'match existing data')
''', "", "M")
M["M7_append_offset_zero"] = ("fastparquet/writer.py", '''        i_offset = find_max_part(fmd.row_groups)
''', '''        i_offset = 0
''', "M")
M["M8_check_column_names_removed"] = ("fastparquet/writer.py", '''        check_column_names(data.columns, partition_on, fixed_text,
                           object_encoding, has_nulls)
''', "", "M")
M["M9_duplicate_check_removed"] = ("fastparquet/writer.py", '''    if not data.columns.is_unique:
        raise ValueError('Cannot create parquet dataset with duplicate'
                         ' column names (%s)' % data.columns)
''', "", "M")
M["M10_simple_scheme_check_removed"] = ("fastparquet/writer.py", '''            if pf.file_scheme not in ['simple', 'empty']:
                raise ValueError( 'File scheme requested is simple, but '
                                 f'existing file scheme is {pf.file_scheme}.')
''', "            pass\n", "M")
M["M11_selection_check_removed"] = ("fastparquet/api.py", '''        check_column_names(self.columns + list(self.cats), columns, categories)
''', "", "M")
M["N1_truncate_with_explicit_size"] = ("fastparquet/writer.py", '''                f.write(old_foot)
                f.truncate()
''', '''                f.write(old_foot)
                f.truncate(foot_start + len(old_foot))
''', "N")
M["N2_checks_reordered"] = ("fastparquet/writer.py", '''            if pf.file_scheme not in ['hive', 'empty', 'flat']:
                raise ValueError(f'Requested file scheme is {file_scheme}, but'
                                  ' existing file scheme is not.')
            if tuple(partition_on) != tuple(pf.partition_names):
                raise ValueError('When appending, partitioning columns must '
                                 'match existing data')
''', '''            if tuple(partition_on) != tuple(pf.partition_names):
                raise ValueError('When appending, partitioning columns must '
                                 'match existing data')
            if pf.file_scheme not in ('hive', 'empty', 'flat'):
                raise ValueError(f'Requested file scheme is {file_scheme}, but'
                                  ' existing file scheme is not.')
''', "N")
M["N3_restore_whole_tail_earlier"] = ("fastparquet/writer.py", '''            foot_start = f.tell()
            old_foot = f.read()
            f.seek(foot_start)
            try:
                write_row_groups_and_footer(f)
            except BaseException:
                f.seek(foot_start)
                f.write(old_foot)
                f.truncate()
                raise
''', '''            foot_start = f.tell()
            f.seek(foot_start - 4)
            old_tail = f.read()
            f.seek(foot_start)
            try:
                write_row_groups_and_footer(f)
            except BaseException:
                f.seek(foot_start - 4)
                f.write(old_tail)
                f.truncate()
                raise
''', "N")
M["N4_single_with_in_part_file"] = ("fastparquet/writer.py", '''            with open_with(partname, 'wb') as f2:
                rg = make_part_file(f2, row_group, fmd.schema,
                                    compression=compression, fmd=fmd,
                                    stats=stats)
''', '''            f2 = open_with(partname, 'wb')
            rg = make_part_file(f2, row_group, fmd.schema,
                                compression=compression, fmd=fmd,
                                stats=stats)
''', "N")
M["M12_merge_schema_check_removed"] = ("fastparquet/util.py", '''                if pf._schema != pfs[0]._schema:
                    raise ValueError('Incompatible schemas')
''', '''                pass
''', "M")
M["M13_filter_check_last_or_group_only"] = ("fastparquet/api.py", '''    known = [ands[0] in as_cols for ors in filters for ands in ors]
''', '''    for ors in filters:
        known = [ands[0] in as_cols for ands in ors]
''', "M")
M["M14_selection_check_first_column_only"] = ("fastparquet/api.py", '''        check_column_names(self.columns + list(self.cats), columns, categories)
''', '''        check_column_names(self.columns + list(self.cats), columns[:1] if columns else columns, categories)
''', "M")
M["M15_find_type_accepts_kind_O_extension_dtypes"] = ("fastparquet/writer.py", '''                                       None, dtype.itemsize)
    elif dtype == "O":
        if object_encoding == 'infer':
            object_encoding = infer_object_encoding(data)
''', '''                                       None, dtype.itemsize)
    elif dtype.kind == "O" and "str" not in str(dtype):
        if object_encoding == 'infer':
            object_encoding = infer_object_encoding(data)
''', "M")
