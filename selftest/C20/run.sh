#!/bin/bash
# selftest/C20/run.sh <mutant-name> [seed]   (names: see patch.py)
# copies $VERIF_REPO (default /repo) fastparquet sources to a scratch directory, applies the change there,
# runs the quick check of C20 against the copy, removes the copy.  Never touches $VERIF_REPO itself.
set -e
V=$(cd "$(dirname "$0")/../.." && pwd)
SRC=${VERIF_REPO:-/repo}
d=$(mktemp -d /tmp/verif-C20-selftest-XXXXXX)
trap 'rm -rf "$d"' EXIT
rsync -a --exclude '*.so' --exclude '__pycache__' --exclude test "$SRC/fastparquet" "$d/"
ln -s "$SRC/test-data" "$d/test-data"
/venv/bin/python "$V/selftest/C20/patch.py" "$1" "$d"
cd "$V" && VERIF_REPO="$d" VERIF_SEED=${2:-0} ./check C20 --tier quick 2>&1 | grep -E "VIOLATION|KNOWN|C20 quick"
