import sys
name, root = sys.argv[1], sys.argv[2]
def sub(fn, a, b, count=1):
    p = root + '/fastparquet/' + fn
    s = open(p).read()
    assert s.count(a) >= 1, (fn, a)
    s = s.replace(a, b, count)
    open(p, 'w').write(s)
if name == "revert":
    sub("api.py", '''        self.schema = (helper if helper is not None
                       else schema.SchemaHelper(self._schema))''', '''        self.schema = schema.SchemaHelper(self._schema)''')
elif name == "sharedkey":      # B: converted_max cached under a key shared by all columns (on the row group)
    sub("api.py", '''                    if not hasattr(s, "converted_max"):''', '''                    if rg.get("converted_max") is None:''')
    sub("api.py", '''                        s["converted_max"] = vmax
                    vmax = s["converted_max"]''', '''                        rg["converted_max"] = vmax
                    vmax = rg["converted_max"]''')
elif name == "views":          # B: output views kept in self._views and reused across calls
    sub("api.py", '''        df, views = self.pre_allocate(size, columns, categories, index, dtypes=dtypes)
        if "PANDAS_ATTRS"''', '''        vkey = (size, tuple(columns), repr(categories), repr(index))
        if getattr(self, "_views", None) is None or self._views[0] != vkey:
            self._views = (vkey,) + tuple(self.pre_allocate(size, columns, categories, index, dtypes=dtypes))
        df, views = self._views[1], self._views[2]
        if "PANDAS_ATTRS"''')
elif name == "statsreorder":   # N: statistics property: compute into a local, assign once, reordered
    sub("api.py", '''        if not hasattr(self, '_statistics') or self._statistics is None:
            self._statistics = statistics(self)
        return self._statistics''', '''        st = getattr(self, '_statistics', None)
        if st is None:
            st = statistics(self)
            self._statistics = st
        return st''')
elif name == "basedtype":      # _dtypes mutates the memoised base table in place
    sub("api.py", '''        dtype = self._base_dtype.copy()
        categories = self.check_categories(categories)''', '''        dtype = self._base_dtype
        categories = self.check_categories(categories)''')
elif name == "partnocopy":     # make_part_file writes through the shared metadata object
    sub("writer.py", '''            fmd = copy(fmd)
            fmd.row_groups = [rg]''', '''            fmd.row_groups = [rg]''')
elif name == "statspublish":   # statistics published before it is filled
    sub("api.py", '''        if not hasattr(self, '_statistics') or self._statistics is None:
            self._statistics = statistics(self)
        return self._statistics''', '''        if not hasattr(self, '_statistics') or self._statistics is None:
            self._statistics = {}
            for k_, v_ in statistics(self).items():
                self._statistics[k_] = v_
        return self._statistics''')
elif name == "kvmreset":       # key_value_metadata cache reset on every slice (destructive write on the parent)
    sub("api.py", '''        new_rgs = self.row_groups[item]''', '''        self._kvm = None
        self._pdm = None
        new_rgs = self.row_groups[item]''')
elif name == "memolocal":      # N: converted_max computed into a local first (same memo discipline)
    sub("api.py", '''                        s["converted_max"] = vmax
                    vmax = s["converted_max"]''', '''                        s["converted_max"] = vmax
                    else:
                        vmax = s["converted_max"]''')
elif name == "rgsort":         # row groups list of the parent sorted in place when slicing
    sub("api.py", '''        new_rgs = self.row_groups[item]''', '''        self.row_groups.reverse()
        self.row_groups.reverse()
        new_rgs = self.row_groups[item]''')
elif name == "views0":         # B (literal): views allocated once per handle
    sub("api.py", '''        df, views = self.pre_allocate(size, columns, categories, index, dtypes=dtypes)
        if "PANDAS_ATTRS"''', '''        if getattr(self, "_views", None) is None:
            self._views = self.pre_allocate(size, columns, categories, index, dtypes=dtypes)
        df, views = self._views
        if "PANDAS_ATTRS"''')
elif name == "nocopyfmd":      # slicing writes the selected row groups into the parent's metadata object
    sub("api.py", '''        fmd = copy.copy(self.fmd)
        fmd.row_groups = new_rgs''', '''        fmd = self.fmd
        fmd.row_groups = new_rgs''')
elif name == "memoplaceholder":   # memo entry published before its value is known
    sub("api.py", '''                    if not hasattr(s, "converted_max"):
                        b = ensure_bytes(max)''', '''                    if not hasattr(s, "converted_max"):
                        s["converted_max"] = 0
                        b = ensure_bytes(max)''')
elif name == "oneline":        # reset and restore of a parent attribute inside ONE source line (invisible at line granularity)
    sub("api.py", '''        new_rgs = self.row_groups[item]''', '''        kv = self._kvm; self._kvm = None; self._kvm = kv
        new_rgs = self.row_groups[item]''')
elif name == "segv":           # the reader dies (NULL dereference) for one slice
    sub("api.py", '''        new_rgs = self.row_groups[item]''', '''        if item == slice(1, None, None):
            import ctypes
            ctypes.string_at(0)
        new_rgs = self.row_groups[item]''')
elif name == "spin":           # statistics never returns
    sub("api.py", '''        if not hasattr(self, '_statistics') or self._statistics is None:
            self._statistics = statistics(self)''', '''        while not hasattr(self, '_never'):
            pass
        if not hasattr(self, '_statistics') or self._statistics is None:
            self._statistics = statistics(self)''')
elif name == "sharedfile":     # the open data file is kept on the handle and reused by every read (shared file position)
    sub("api.py", '''            infile = self.open(self.fn, 'rb')
        else:
            infile = None
        for rg, sel in zip(rgs, selected):''', '''            if getattr(self, "_infile", None) is None:
                self._infile = self.open(self.fn, 'rb')
            infile = self._infile
        else:
            infile = None
        for rg, sel in zip(rgs, selected):''')
elif name == "globalbuf":      # writer: one module-level scratch list reused by every encode_plain call
    sub("writer.py", '''def encode_plain(data, se):
    """PLAIN encoding; returns byte representation"""
    out = convert(data, se)
    if se.type == parquet_thrift.Type.BYTE_ARRAY:
        return pack_byte_array(list(out))''', '''_scratch = []


def encode_plain(data, se):
    """PLAIN encoding; returns byte representation"""
    out = convert(data, se)
    if se.type == parquet_thrift.Type.BYTE_ARRAY:
        del _scratch[:]
        for x in out:
            _scratch.append(x)
        return pack_byte_array(_scratch)''')
elif name == "classcache":     # statistics cached on the CLASS, keyed by file name only (shared by all handles)
    sub("api.py", '''        if not hasattr(self, '_statistics') or self._statistics is None:
            self._statistics = statistics(self)
        return self._statistics''', '''        cache = ParquetFile.__dict__.get("_stat_cache")
        if cache is None:
            ParquetFile._stat_cache = cache = {}
        if self.fn not in cache:
            cache[self.fn] = statistics(self)
        return cache[self.fn]''')
elif name == "rawfirst":       # seeded #1: helper stores the RAW decoded statistic first, then overwrites it with the converted value
    sub("api.py", '''                        vmax = encoding.read_plain(
                            b, column.meta_data.type, 1, stat=True)
                        if se.converted_type is not None or se.logicalType is not None:
                            vmax = converted_types.convert(vmax, se)
                        s["converted_max"] = vmax''', '''                        vmax = encoding.read_plain(
                            b, column.meta_data.type, 1, stat=True)
                        s["converted_max"] = vmax
                        if se.converted_type is not None or se.logicalType is not None:
                            vmax = converted_types.convert(vmax, se)
                        s["converted_max"] = vmax''')
elif name == "partrestore":    # seeded #2: make_part_file sets and restores the shared FileMetaData instead of copying it
    sub("writer.py", '''            fmd = copy(fmd)
            fmd.row_groups = [rg]
            fmd.num_rows = rg.num_rows
            foot_size = write_thrift(f, fmd)
            f.write(struct.pack(b"<I", foot_size))''', '''            old_rgs, old_n = fmd.row_groups, fmd.num_rows
            fmd.row_groups = [rg]
            fmd.num_rows = rg.num_rows
            foot_size = write_thrift(f, fmd)
            fmd.row_groups, fmd.num_rows = old_rgs, old_n
            f.write(struct.pack(b"<I", foot_size))''')
elif name == "scratchattr":    # per-call state parked on the handle: the column list of the running read
    sub("api.py", '''        check_column_names(self.columns + list(self.cats), columns, categories)
        if row_filter is not False:''', '''        check_column_names(self.columns + list(self.cats), columns, categories)
        self._cols = columns
        if row_filter is not False:''')
    sub("api.py", '''            self.read_row_group_file(rg, columns, categories, index,
                                     assign=parts,''', '''            self.read_row_group_file(rg, self._cols, categories, index,
                                     assign=parts,''')
elif name == "catoverwrite":   # a caller's categories dict replaces the handle's memoised categories
    sub("api.py", '''        if isinstance(cats, dict):
            return cats
        out = {k: v for k, v in categ.items() if k in cats}''', '''        if isinstance(cats, dict):
            self._categories = cats
            return cats
        out = {k: v for k, v in categ.items() if k in cats}''')
elif name == "iterrestore":    # iter_row_groups narrows the parent's row-group list per step and restores it
    sub("api.py", '''            i = self.row_groups.index(rg)
            df = self[i].to_pandas(filters=filters, **kwargs)''', '''            saved = self.row_groups
            self.row_groups = [rg]
            try:
                df = self.to_pandas(filters=filters, **kwargs)
            finally:
                self.row_groups = saved''')
elif name == "treelocal":      # N: schema_tree fills a local dict and attaches it once
    sub("schema.py", '''    root = schema[i]
    root["children"] = OrderedDict()
    while len(root["children"]) < root.num_children:
        i += 1
        s = schema[i]
        root["children"][s.name] = s
        if s.num_children not in [None, 0]:
            i = schema_tree(schema, i)''', '''    root = schema[i]
    children = OrderedDict()
    while len(children) < root.num_children:
        i += 1
        s = schema[i]
        children[s.name] = s
        if s.num_children not in [None, 0]:
            i = schema_tree(schema, i)
    root["children"] = children''')
elif name == "getitemlocal":   # N: __getitem__ builds the state in a local first, statements reordered
    sub("api.py", '''        new_pf = object.__new__(ParquetFile)
        fmd = copy.copy(self.fmd)
        fmd.row_groups = new_rgs
        new_pf.__setstate__(
            {"fn": self.fn, "open": self.open, "fmd": fmd,
             "pandas_nulls": self.pandas_nulls, "_base_dtype": self._base_dtype,
             "tz": self.tz, "_columns_dtype": self._columns_dtype},
            helper=self.schema
        )''', '''        fmd = copy.copy(self.fmd)
        fmd.row_groups = new_rgs
        state = {"_columns_dtype": self._columns_dtype, "tz": self.tz, "_base_dtype": self._base_dtype,
                 "pandas_nulls": self.pandas_nulls, "fmd": fmd, "open": self.open, "fn": self.fn}
        new_pf = object.__new__(ParquetFile)
        new_pf.__setstate__(state, helper=self.schema)''')
# ---- wave 3: shared state outside the handle, file position, derived-handle aliasing -------------------------------
elif name == "defaultbuf":     # writer: the 10-byte run-header array lives in a DEFAULT ARGUMENT (shared by all calls)
    sub("writer.py", '''def make_definitions(data, no_nulls, datapage_version=1):''',
        '''def make_definitions(data, no_nulls, datapage_version=1, _hdr=np.empty(10, dtype=np.uint8)):''')
    sub("writer.py", '''    buf = np.empty(10, dtype=np.uint8)
    temp = NumpyIO(buf)

    if no_nulls:''', '''    buf = _hdr
    temp = NumpyIO(buf)

    if no_nulls:''')
elif name == "funcattrbuf":    # writer: the run-header array is an attribute of the function object
    sub("writer.py", '''    buf = np.empty(10, dtype=np.uint8)
    temp = NumpyIO(buf)

    if no_nulls:''', '''    buf = make_definitions._hdr
    temp = NumpyIO(buf)

    if no_nulls:''')
    sub("writer.py", '''DATAPAGE_VERSION = 2 if''', '''make_definitions._hdr = np.empty(10, dtype=np.uint8)
DATAPAGE_VERSION = 2 if''')
elif name == "rgcache":        # api: filter_row_groups memoises its answer in a module-level dict keyed by the handle only
    sub("api.py", '''PART_ID = re.compile''', '''_RG_SEL = {}
PART_ID = re.compile''')
    sub("api.py", '''    if as_idx:
        return [i for i, rg in enumerate(pf.row_groups) if any([''', '''    if as_idx:
        if id(pf) not in _RG_SEL:
            _RG_SEL[id(pf)] = [i for i, rg in enumerate(pf.row_groups) if any([
                   not(filter_out_stats(rg, and_filters, pf.schema)) and
                   not(filter_out_cats(rg, and_filters, pf.partition_meta))
                   for and_filters in filters])]
        return _RG_SEL[id(pf)]
        return [i for i, rg in enumerate(pf.row_groups) if any([''')
elif name == "modfile":        # api: open data files kept in a module-level dict keyed by path (one file position for all)
    sub("api.py", '''PART_ID = re.compile''', '''_OPEN_FILES = {}
PART_ID = re.compile''')
    sub("api.py", '''            infile = self.open(self.fn, 'rb')
        else:
            infile = None
        for rg, sel in zip(rgs, selected):''', '''            if self.fn not in _OPEN_FILES:
                _OPEN_FILES[self.fn] = self.open(self.fn, 'rb')
            infile = _OPEN_FILES[self.fn]
        else:
            infile = None
        for rg, sel in zip(rgs, selected):''')
elif name == "closurefile":    # api: the open data file lives in the closure of a callable kept on the handle
    sub("api.py", '''            infile = self.open(self.fn, 'rb')
        else:
            infile = None
        for rg, sel in zip(rgs, selected):''', '''            if getattr(self, "_opener", None) is None:
                f_ = self.open(self.fn, 'rb')
                self._opener = lambda: f_
            infile = self._opener()
        else:
            infile = None
        for rg, sel in zip(rgs, selected):''')
elif name == "slicealias":     # api: a derived handle inherits (aliases) the parent's statistics cache
    sub("api.py", '''        new_pf._set_attrs(self.schema)
        return new_pf''', '''        new_pf._set_attrs(self.schema)
        new_pf._statistics = self._statistics
        return new_pf''')
elif name == "globalcount":    # api: a module-level call counter bumped by every read (augmented assignment on a global)
    sub("api.py", '''PART_ID = re.compile''', '''_READS = 0
PART_ID = re.compile''')
    sub("api.py", '''        rgs = filter_row_groups(self, filters) if filters else self.row_groups''', '''        global _READS
        _READS += 1
        rgs = filter_row_groups(self, filters) if filters else self.row_groups''')
elif name == "defaultnone":    # N: a mutable default replaced by the None idiom
    sub("api.py", '''def filter_out_cats(rg, filters, partition_meta={}):''', '''def filter_out_cats(rg, filters, partition_meta=None):
    partition_meta = {} if partition_meta is None else partition_meta''')
elif name == "sepscache":      # N: the regex memo of util.ex_from_sep rewritten with dict.setdefault
    sub("util.py", '''    if sep not in seps:''', '''    if seps.get(sep) is None:''')
elif name == "nocopyhook":     # revert the __copy__ fix: what copy.copy does by default (new object + __setstate__(__getstate__()))
    sub("api.py", '''        return self[:]

    def __len__(self):''', '''        new = object.__new__(type(self))
        new.__setstate__(self.__getstate__())
        return new

    def __len__(self):''')
elif name == "schemadefault":  # revert fix 188c30f: indentation stack of schema_to_text in a mutable default argument
    sub("schema.py", '''def schema_to_text(root, indent=None):''', '''def schema_to_text(root, indent=[]):''')
    sub("schema.py", '''    if indent is None:
        indent = []
''', '''''')
else:
    raise SystemExit("unknown mutant " + name)
print("patched", name)
