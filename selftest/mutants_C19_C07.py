#!/venv/bin/python
"""Self-test of the C19 / C07 checks: a table of textual mutants (M) and neutral rewrites (N) of the anchored code.
Each one is applied to the working tree of $W/repo, `./check <prop> --tier quick` runs, one concrete replay is re-executed on the
mutated tree, the tree is reverted (git checkout).  Usage: W=/work/dsedit selftest/mutants_C19_C07.py [names or property ids...]
Results of the last complete run: notes/C19.md, notes/C07.md."""
import sys, subprocess, os, json, glob, shutil, time
W = os.environ.get("W", "/work/dsedit")
LOGDIR = __import__("tempfile").mkdtemp(prefix="verif-mutants-", dir="/tmp")
T = []   # (prop, name, kind, file, old, new)
def m(prop, name, kind, f, old, new): T.append((prop, name, kind, f, old, new))

WM_CALL_OLD = """                        write_fmd=False, open_with=open_with, mkdirs=mkdirs,
                        partition_on=partition_on, append=True, stats=stats)
            if sort_key:"""
# ---- C19
m("C19", "M1b_summary_before_parts", "M", "api.py", """            write_multi(self.basepath, data, self.fmd,
                        row_group_offsets=row_group_offsets,
                        compression=compression, file_scheme=self.file_scheme,
                        write_fmd=False,""", """            self._write_common_metadata(open_with)
            write_multi(self.basepath, data, self.fmd,
                        row_group_offsets=row_group_offsets,
                        compression=compression, file_scheme=self.file_scheme,
                        write_fmd=False,""")
m("C19", "M2_ioffset0", "M", "writer.py", "        i_offset = find_max_part(fmd.row_groups)", "        i_offset = 0")
m("C19", "M3_maxpart_reuse", "M", "writer.py", "        return max(pids) + 1", "        return max(pids)")
m("C19", "M4_touch_existing_first", "M", "writer.py", """    rg_list = fmd.row_groups
    for i, row_group in enumerate(data):
        part = 'part.%i.parquet' % (i + i_offset)""", """    rg_list = fmd.row_groups
    if append and rg_list:
        with open_with(join_path(dn, rg_list[0].columns[0].file_path), 'ab') as f0:
            pass
    for i, row_group in enumerate(data):
        part = 'part.%i.parquet' % (i + i_offset)""")
m("C19", "M5_md_open_while_part_open", "M", "writer.py", """            with open_with(partname, 'wb') as f2:
                rg = make_part_file(f2, row_group, fmd.schema,
                                    compression=compression, fmd=fmd,
                                    stats=stats)
            for chunk in rg.columns:
                chunk.file_path = part
            rg_list.append(rg)""", """            with open_with(partname, 'wb') as f2:
                rg = make_part_file(f2, row_group, fmd.schema,
                                    compression=compression, fmd=fmd,
                                    stats=stats)
                for chunk in rg.columns:
                    chunk.file_path = part
                rg_list.append(rg)
                if append:
                    fmd.row_groups = rg_list
                    write_common_metadata(join_path(dn, '_metadata'), fmd, open_with, no_row_groups=False)""")
m("C19", "M4b_touch_existing_builtin_open", "M", "writer.py", """    rg_list = fmd.row_groups
    for i, row_group in enumerate(data):
        part = 'part.%i.parquet' % (i + i_offset)""", """    rg_list = fmd.row_groups
    if append and rg_list:
        import os as _os
        _p = join_path(dn, rg_list[0].columns[0].file_path)
        _os.rename(_p, _p + '.tmp')
        _os.rename(_p + '.tmp', _p)
    for i, row_group in enumerate(data):
        part = 'part.%i.parquet' % (i + i_offset)""")
m("C19", "N4_summary_files_swapped", "N", "api.py", """        write_common_metadata(self.fn, fmd, open_with, no_row_groups=False)
        # replace '_metadata' with '_common_metadata'
        fn = f'{self.fn[:-9]}_common_metadata'
        write_common_metadata(fn, fmd, open_with)""", """        # replace '_metadata' with '_common_metadata'
        fn = f'{self.fn[:-9]}_common_metadata'
        write_common_metadata(fn, fmd, open_with)
        write_common_metadata(self.fn, fmd, open_with, no_row_groups=False)""")
m("C19", "N1_fstring_partname", "N", "writer.py", "        part = 'part.%i.parquet' % (i + i_offset)", "        part = f'part.{i + i_offset}.parquet'")
m("C19", "N2_swap_independent", "N", "writer.py", """        relname = join_path(path, partname)
        mkdirs(join_path(root_path, path))""", """        mkdirs(join_path(root_path, path))
        relname = join_path(path, partname)""")
m("C19", "N3_maxpart_default", "N", "writer.py", """    if pids:
        return max(pids) + 1
    else:
        return 0""", """    return max(pids, default=-1) + 1""")
# ---- C07
m("C07", "M1_maxpart_reuse", "M", "writer.py", "        return max(pids) + 1", "        return max(pids)")
m("C07", "M2_seek12", "M", "writer.py", "            f.seek(-(head_size+8), 2)", "            f.seek(-(head_size+12), 2)")
m("C07", "M3_mode_wb", "M", "writer.py", "    mode = 'rb+' if append else 'wb'", "    mode = 'wb+' if append else 'wb'")
m("C07", "M4_drop_old_rgs", "M", "writer.py", """    def write_row_groups_and_footer(f):
        rgs = fmd.row_groups
""", """    def write_row_groups_and_footer(f):
        rgs = [] if append else fmd.row_groups
""")
m("C07", "M5_new_rgs_first", "M", "writer.py", "            rg_list.append(rg)\n        fmd.row_groups = rg_list", "            rg_list.insert(0, rg)\n        fmd.row_groups = rg_list")
m("C07", "M6_sort_pnames", "M", "writer.py", "                            sort_pnames=False, compression=compression,", "                            sort_pnames=True, compression=compression,")
m("C07", "M7_seek_4", "M", "writer.py", "            f.seek(-(head_size+8), 2)", "            f.seek(-(head_size+4), 2)")
m("C07", "M8_ioffset0", "M", "writer.py", "        i_offset = find_max_part(fmd.row_groups)", "        i_offset = 0")
m("C07", "M9_numrows_new_only", "M", "writer.py", """        fmd.row_groups = rgs
        fmd.num_rows = sum(rg.num_rows for rg in rgs)""", """        fmd.row_groups = rgs
        fmd.num_rows = sum(rg.num_rows for rg in rgs[-1:])""")
m("C07", "M10_positional_column", "M", "writer.py", "                coldata = data[column.name]\n            if isinstance(stats, int):", "                coldata = data.iloc[:, len(cols)]\n            if isinstance(stats, int):")
m("C07", "M11_partition_ignored", "M", "api.py", """        from .writer import write_simple, write_multi
        partition_on = list(self.cats)""", """        from .writer import write_simple, write_multi
        partition_on = []""")
m("C07", "M12_no_reset_index", "M", "writer.py", "        pf = ParquetFile(filename, open_with=open_with)\n        if pf._get_index():\n", "        pf = ParquetFile(filename, open_with=open_with)\n        if False:\n")
m("C07", "M13_wrg_check_unsorted", "N", "api.py", "            if self_cols != sorted(data.columns):", "            if set(self_cols) != set(data.columns) or len(self_cols) != len(data.columns):")
m("C07", "N1_seek_abs", "N", "writer.py", "            f.seek(-8, 2)\n            head_size", "            f.seek(f.seek(0, 2) - 8)\n            head_size")
m("C07", "N2_maxpart_default", "N", "writer.py", """    if pids:
        return max(pids) + 1
    else:
        return 0""", """    return max(pids, default=-1) + 1""")
m("C07", "N3_fstring_partname", "N", "writer.py", "        part = 'part.%i.parquet' % (i + i_offset)", "        part = f'part.{i + i_offset}.parquet'")

m("C19", "S1_seeded_maxpart_str", "M", "PATCH", W + "/verif/seeded/C19-1/patch.diff", "")
m("C19", "S2_seeded_finally_md", "M", "PATCH", W + "/verif/seeded/C19-2/patch.diff", "")
sel = sys.argv[1:]
res = []
for prop, name, kind, f, old, new in T:
    if sel and name not in sel and prop not in sel:
        continue
    if f == "PATCH":
        if subprocess.run(["git", "-C", W + "/repo", "apply", old]).returncode != 0:
            print("SKIP %s/%s: patch does not apply" % (prop, name)); continue
    else:
        p = os.path.join(W, "repo", "fastparquet", f)
        s = open(p).read()
        if s.count(old) != 1:
            print("SKIP %s/%s: pattern occurs %d times" % (prop, name, s.count(old))); continue
        open(p, "w").write(s.replace(old, new))
    shutil.rmtree(W + "/verif/replays/" + prop, ignore_errors=True)
    t = time.time()
    try:
        env = dict(os.environ, VERIF_REPO=W + "/repo")
        log = os.path.join(LOGDIR, "mut_%s_%s.log" % (prop, name))
        with open(log, "w") as lf:
            pr = subprocess.Popen(["./check", prop, "--tier", "quick"], cwd=W + "/verif", env=env, stdout=lf, stderr=subprocess.STDOUT, start_new_session=True)
            try:
                rc = pr.wait(timeout=700)
            except subprocess.TimeoutExpired:
                os.killpg(pr.pid, 9); rc = "timeout"
        lines = [l for l in open(log, errors="replace").read().split("\n") if "Corrupted thrift" not in l and l.strip()]
        viol = [l for l in lines if l.startswith("VIOLATION")]
        concrete = [l for l in viol if "no-failing-input-found" not in l]
        syms = {}
        for fn in glob.glob(W + "/verif/replays/" + prop + "/*.json"):
            try:
                r = json.load(open(fn))
                if r.get("kind") == "failing-input":
                    syms[r["class"].get("symptom")] = syms.get(r["class"].get("symptom"), 0) + 1
                else:
                    for b in r.get("no_longer_checks", []):
                        syms["broken:" + b["name"][:50]] = syms.get("broken:" + b["name"][:50], 0) + 1
            except Exception as e:
                pass
        # replay one concrete case on the mutant
        rp = ""
        if concrete:
            fn = concrete[0].split("replay=")[1].split()[0]
            q = subprocess.run(["./check", prop, "--replay", fn], cwd=W + "/verif", env=env, stdout=subprocess.PIPE, stderr=subprocess.STDOUT, timeout=300)
            rp = "replay rc=%d" % q.returncode
        print("%s %-28s %s rc=%s %.0fs violations=%d concrete=%d %s %s" % (prop, name, kind, rc, time.time() - t, len(viol), len(concrete), json.dumps(syms), rp), flush=True)
        print("      " + (lines[-1][:300] if lines else ""), flush=True)
    finally:
        subprocess.run(["git", "-C", W + "/repo", "checkout", "--", "."])
        shutil.rmtree(W + "/verif/replays/" + prop, ignore_errors=True)

shutil.rmtree(LOGDIR, ignore_errors=True)
