(* Proofs over the handle inventory REGENERATED from fastparquet/api.py + writer.py on every run
   (translators/handle2coq.py -> PqGen.GenHandle.gen_inv).

   gen_inventory_ok        the decidable inventory condition holds on the regenerated inventory: every attribute an
                           operation keeps is computed from ground components that operation does not write (a memoised
                           attribute that a mutator / failed mutator does not reset, or a cache that a derivation copies,
                           leaves this obligation open), and no derivation writes what a derived handle must inherit
                           (the row groups the column dtypes were derived from, pandas_nulls, fn, open, schema, key-value
                           metadata, created_by, version).
   gen_handle_coherence    hence, for EVERY program over live handles (observers, derivations, mutators and their failed
                           variants), the memoising implementation answers what the memo-free specification answers.
   gen_slice_inherits      the attributes a selection must inherit (_base_dtype, tz, _columns_dtype) have the parent's
                           value on every derived handle.
   A harmless change (new local names, reordered independent statements, a new property without a cache, a new eager
   attribute assigned in _set_attrs) regenerates an inventory that still satisfies the condition.                 *)
From Coq Require Import List String Bool.
From Pq Require Import Dataset.Handle Proofs.HandleProofs.
From PqGen Require Import GenHandle.
Import ListNotations.
Open Scope string_scope.

Theorem gen_inventory_ok : inventory_ok gen_inv = true.
Proof. vm_compute. reflexivity. Qed.

Theorem gen_no_offenders : offenders gen_inv = [].
Proof. vm_compute. reflexivity. Qed.

Theorem gen_handle_coherence :
  forall (X A : Type) (compute : name -> ground X -> X) (eff : name -> A -> ground X -> ground X),
  (forall a g g', (forall c, In c (deps gen_inv a) -> g c = g' c) -> compute a g = compute a g') ->
  (forall o arg g c, In o (all_ops gen_inv) -> ~ In c (op_writes o) -> eff (op_name o) arg g c = g c) ->
  forall p st st' ans,
    Forall (step_ok gen_inv X A) p -> Forall (coherent X compute) st ->
    run gen_inv X A compute eff p st = (st', ans) ->
    run_spec X A compute eff p (map gr st) = (map gr st', ans) /\ Forall (coherent X compute) st'.
Proof.
  intros X A compute eff Hd Hf. exact (run_refines_spec gen_inv X A compute eff Hd Hf gen_inventory_ok).
Qed.

(* the third clause on its own: no observer (method of ParquetFile, or function of api.py / core.py that receives the handle or
   objects reached from it) mutates in place an object it got from the handle - the model's observers are not assumed pure *)
Theorem gen_observers_do_not_write :
  forallb (fun p => match snd p with [] => true | _ => false end) (inv_obs_writes gen_inv) = true.
Proof. vm_compute. reflexivity. Qed.

(* what a selection inherits is computed from preserved components only *)
Theorem gen_inherited_deps_preserved :
  forallb (fun a => forallb (fun c => mem c (inv_preserved gen_inv)) (deps gen_inv a))
          ["_base_dtype"; "tz"; "_columns_dtype"] = true.
Proof. vm_compute. reflexivity. Qed.

Theorem gen_slice_inherits :
  forall (X A : Type) (compute : name -> ground X -> X) (eff : name -> A -> ground X -> ground X),
  (forall a g g', (forall c, In c (deps gen_inv a) -> g c = g' c) -> compute a g = compute a g') ->
  (forall o arg g c, In o (all_ops gen_inv) -> ~ In c (op_writes o) -> eff (op_name o) arg g c = g c) ->
  forall o arg h a, In o (inv_derivs gen_inv) -> In a ["_base_dtype"; "tz"; "_columns_dtype"] ->
    compute a (gr (apply_op gen_inv X A compute eff o arg h)) = compute a (gr h).
Proof.
  intros X A compute eff Hd Hf o arg h a Ho Ha.
  apply (derive_inherits gen_inv X A compute eff Hd Hf gen_inventory_ok); [exact Ho|].
  intros c Hc. pose proof gen_inherited_deps_preserved as H. rewrite forallb_forall in H.
  specialize (H a Ha). rewrite forallb_forall in H. apply mem_In. apply H. exact Hc.
Qed.

(* the operations the program search exercises are in the inventory *)
Theorem gen_ops_present :
  forallb (fun n => existsb (fun o => String.eqb (op_name o) n) (all_ops gen_inv))
          ["__getitem__"; "pickle"; "copy"; "deepcopy"; "write_row_groups#1"; "remove_row_groups#1";
           "write_row_groups!fails-in-write_simple"; "write_row_groups!fails-in-write_multi"] = true.
Proof. vm_compute. reflexivity. Qed.
