(* Re-proved on every run over the tables the translators regenerate from the working tree:
   GenIdl (fastparquet/parquet.thrift), GenSpecs (cencoding.pyx specs/children), GenCallsites
   (writer.py, util.py, api.py).  Finite tables: vm_compute of a boolean checker is a proof.   *)
From Coq Require Import NArith List String Bool.
From Pq Require Import Thrift.Idl Thrift.IdlPinned Thrift.Tables.
From PqGen Require Import GenIdl GenSpecs GenCallsites.

(* the repository's IDL copy still is the pinned Parquet IDL (ids, requiredness, names, types) *)
Theorem gen_idl_is_pinned : GenIdl.table = pinned.
Proof. vm_compute. reflexivity. Qed.
Print Assumptions gen_idl_is_pinned.

(* every struct of cencoding.pyx's `specs` is an IDL struct with exactly the IDL's field names and ids *)
Theorem gen_specs_agree_with_idl : specs_ok pinned GenSpecs.specs = true.
Proof. vm_compute. reflexivity. Qed.
Print Assumptions gen_specs_agree_with_idl.

(* every nested-struct name in `children` is the IDL's type of that field *)
Theorem gen_children_agree_with_idl : children_ok pinned GenSpecs.children = true.
Proof. vm_compute. reflexivity. Qed.
Print Assumptions gen_children_agree_with_idl.

(* every construction site sets only declared fields; for each integer field the marker-selected wire
   type is the IDL's; no integer/enum field is given a boolean expression; i32list ids are i32 fields *)
Theorem gen_callsites_markers_conform : forallb (site_ok pinned) GenCallsites.callsites = true.
Proof. vm_compute. reflexivity. Qed.
Print Assumptions gen_callsites_markers_conform.

Example gen_callsites_nonvacuous :
  Nat.leb 30 (List.length (filter (site_judged pinned) GenCallsites.callsites)) = true.
Proof. vm_compute. reflexivity. Qed.
