(* Re-proved on every run over the inventory REGENERATED from compression.py / core.py / encoding.py / converted_types.py
   (PqGen.GenViews, translators/views2coq.py): no module-level / thread-local buffer escapes from a function of the reader, hence
   (Impl/RAlias.v) for every sequence of pages of a chunk no page is decoded over the dictionary read_col holds. *)
From Coq Require Import List Bool String.
From Pq Require Import Impl.RAlias Proofs.RAliasProofs.
From PqGen Require Import GenViews.
Import ListNotations.

Lemma no_module_buffer_escapes : escaping = [].
Proof. reflexivity. Qed.

Theorem gen_dictionary_lifetime : forall kinds, dict_intact None (map (fun k => (k, origin_of escaping)) kinds) = true.
Proof. intro kinds. apply empty_inventory_keeps_dictionary. exact no_module_buffer_escapes. Qed.
Print Assumptions gen_dictionary_lifetime.
