(* Re-proved on every run against the REGENERATED text of fastparquet.util.update_custom_metadata (PqGen.GenKV):
   one iteration of its loop is the faithful step `update1_keys` (position looked up in the spare key list, both lists
   kept in step on removal, the entry list alone extended on append), for every state and every (key, value) of the
   update dict; the function is the fold of that step; and from a state where the spare list is the key list, one
   iteration yields exactly the model step `update1` that the C16 theorems are about. *)
From Coq Require Import NArith Arith List Bool.
From Pq Require Import Base.Bytes Proofs.BytesProofs Impl.KV Impl.KVRead Impl.PyList Proofs.PyListProofs Proofs.KVFoldProofs.
From PqGen Require Import GenKV.
Import ListNotations.

Definition enc1 (kv : pstr * option pstr) : bytes * option (option bytes) :=
  (ensure_bytes (fst kv), option_map (fun v => Some (ensure_bytes v)) (snd kv)).

Theorem gen_kv_loop_body_is_step : forall st kv, loop_body st kv = update1_keys bytes_eqb st (enc1 kv).
Proof.
  intros [kvm keys] [key value]. unfold loop_body, update1_keys, enc1. cbn [fst snd]. cbv zeta.
  rewrite py_in_index.
  destruct (py_index bytes_eqb (ensure_bytes key) keys) as [i|]; destruct value as [v|]; cbn [option_map];
    try reflexivity.
  all: repeat (match goal with |- context [match ?x with _ => _ end] => destruct x end); try reflexivity.
Qed.
Print Assumptions gen_kv_loop_body_is_step.

Theorem gen_kv_function_is_fold : forall kvm0 u,
  update_custom_metadata kvm0 u =
  option_map fst (fold_left (fun acc kv => match acc with None => None | Some st => update1_keys bytes_eqb st (enc1 kv) end) u
                            (let l := match kvm0 with None => [] | Some l => l end in Some (l, map fst l))).
Proof.
  intros kvm0 u. unfold update_custom_metadata. cbv zeta.
  set (s0 := Some (match kvm0 with None => [] | Some l => l end, map fst match kvm0 with None => [] | Some l => l end)).
  assert (E : fold_left (fun acc kv => match acc with None => None | Some st => loop_body st kv end) u s0 =
              fold_left (fun acc kv => match acc with None => None | Some st => update1_keys bytes_eqb st (enc1 kv) end) u s0).
  { generalize s0. induction u as [|kv u IH]; intros s; [reflexivity|]. cbn [fold_left].
    destruct s as [st|]; [rewrite gen_kv_loop_body_is_step|]; apply IH. }
  rewrite E. clear E.
  match goal with |- context [fold_left ?f u s0] => destruct (fold_left f u s0) as [[a b]|] end; reflexivity.
Qed.
Print Assumptions gen_kv_function_is_fold.

Theorem gen_kv_first_step_is_model : forall l kv,
  option_map fst (loop_body (l, map fst l) kv) = Some (update1 bytes_eqb l (enc1 kv)).
Proof. intros l kv. rewrite gen_kv_loop_body_is_step. apply update1_keys_exact. Qed.
Print Assumptions gen_kv_first_step_is_model.

(* THE WHOLE FUNCTION: for every footer entry list (absent = empty; values possibly absent; keys possibly repeated) and every
   update dict whose encoded keys are distinct, the regenerated function never raises and returns the model's update_kvo -
   the function all C16 merge theorems (C16_kv_spec, _kv_others_keep_order, _read_after_update, _remove_valueless) are about. *)
Lemma fold_left_map_enc {S} (f : S -> bytes * option (option bytes) -> S) (u : list (pstr * option pstr)) : forall s,
  fold_left (fun acc kv => f acc (enc1 kv)) u s = fold_left f (map enc1 u) s.
Proof. induction u as [|kv u IH]; intros s; [reflexivity|]. cbn. apply IH. Qed.

Theorem gen_kv_function_is_model : forall kvm0 u, NoDup (map fst (enc_u u)) ->
  update_custom_metadata kvm0 u = Some (update_kvo (match kvm0 with None => [] | Some l => l end) u).
Proof.
  intros kvm0 u Hnd. rewrite gen_kv_function_is_fold. cbv zeta.
  set (l := match kvm0 with None => [] | Some l => l end).
  rewrite (fold_left_map_enc (fun acc e => match acc with None => None | Some st => update1_keys bytes_eqb st e end)).
  change (map enc1 u) with (enc_u u).
  exact (fold_update1_keys_start _ _ bytes_eqb bytes_eqb_spec (enc_u u) l Hnd).
Qed.
Print Assumptions gen_kv_function_is_model.
