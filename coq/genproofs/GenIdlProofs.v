(* Re-proved on every run over the table idl2coq regenerates from fastparquet/parquet.thrift:
   the repository's IDL copy still is the pinned Parquet IDL (ids, requiredness, names, types). *)
From Coq Require Import List String.
From Pq Require Import Thrift.Idl Thrift.IdlPinned.
From PqGen Require Import GenIdl.

Theorem gen_idl_is_pinned : GenIdl.table = pinned.
Proof. vm_compute. reflexivity. Qed.
Print Assumptions gen_idl_is_pinned.
