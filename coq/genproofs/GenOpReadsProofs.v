(* Proofs over the table "operation -> slots read / slots written" REGENERATED from the fastparquet sources on every run
   (translators/opreads.py -> PqGen.OpReads).  Compiled per run with -Q <gen_dir> PqGen. *)
From Coq Require Import NArith List Bool String.
From Pq Require Import Conc.Interleave Conc.Footprint Conc.OpTable Proofs.FootprintProofs Proofs.OpTableProofs.
From PqGen Require Import OpReads.
Import ListNotations.

(* the regenerated discipline obligation over reads AND writes: no operation of the quantifier reads a slot that any
   operation writes at a site of a refuted (non-idempotent) pattern *)
Theorem gen_table_disciplined : table_disciplined op_rows = true.
Proof. vm_compute. reflexivity. Qed.

(* C20_api_ops_disciplined on the REGENERATED table: every operation, as the program its row denotes (reads of never-written
   slots, memo use of idempotently written slots - published where the operation has a write site, peeked otherwise - then
   its non-idempotent writes), is disciplined under the classification the whole table induces, with a pure function of
   the frozen slots as result - for any value space, memo function and result function *)
Theorem gen_api_ops_disciplined :
  forall (V R : Type) (f : N -> list (option V) -> V) (jv : N -> V) (err : R) (out : list (option V) -> R) (base : store V)
         (i : nat) (r : oprow) pv kn,
    In r op_rows ->
    okp (cls_tbl V f base op_rows) base i pv kn (row_prog V R f jv err out op_rows r) (row_pure V R f out base op_rows r) pv.
Proof. intros. apply row_prog_disciplined; [exact gen_table_disciplined|assumption]. Qed.
Print Assumptions gen_api_ops_disciplined.

(* ... hence any number of threads running any operations of the regenerated table, EVERY schedule: the pure function *)
Theorem gen_api_ops_confluent :
  forall (V R : Type) (f : N -> list (option V) -> V) (jv : N -> V) (err : R) (out : list (option V) -> R) (base : store V)
         (rows : nat -> oprow) (s0 : store V),
    (forall i, In (rows i) op_rows) -> consistentc (cls_tbl V f base op_rows) base s0 ->
    forall sched i r,
      result (exec sched (init (fun j => row_prog V R f jv err out op_rows (rows j)) s0)) i = Some r ->
      r = row_pure V R f out base op_rows (rows i).
Proof. intros V R f jv err out base rows s0 Hin C. apply table_ops_confluent; [exact gen_table_disciplined|exact Hin|exact C]. Qed.
Print Assumptions gen_api_ops_confluent.

(* the table is not empty and names the operations of the quantifier *)
Theorem gen_table_has_ops : 10 <= List.length op_rows.
Proof. vm_compute. repeat constructor. Qed.
