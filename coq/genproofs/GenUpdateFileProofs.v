(* Re-proved on every run against the REGENERATED text of fastparquet.writer.update_file_custom_metadata (PqGen.GenUpdateFile,
   translators/fileops2coq.py): its seek / read / write / truncate arithmetic is the repaired in-place rewrite of Impl/KV.v
   (`rewrite_footer true`) at the place `footer_loc` names, for EVERY file, both file kinds and every new footer
   (thrift = serialise o update o parse is opaque); hence C16_valid_after_any_updates, C16_data_untouched and
   C16_reader_finds_last_footer hold for the regenerated function (gen_update_file_framed / _sequence below).          *)
From Coq Require Import NArith ZArith List Bool Arith Lia.
From Pq Require Import Base.Bytes Proofs.BytesProofs Impl.KV Proofs.KVProofs Impl.PyFile Proofs.PyFileProofs Impl.ParseHeader Proofs.ParseHeaderProofs.
From PqGen Require Import GenUpdateFile.
Import ListNotations.

Ltac finish Hsz :=
  rewrite f_write_pair; cbv beta iota;
  rewrite pack_I_len by exact Hsz; cbv beta iota;
  rewrite f_write_pair; cbv beta iota;
  rewrite f_write_pair; cbv beta iota;
  f_equal; rewrite rewrite_footer_eq by lia;
  apply below_truncate; rewrite !app_assoc;
  repeat apply below_write; apply below_open_at; lia.

Theorem gen_update_file_refines : forall md thrift file loc,
  footer_loc md file = Some loc -> (loc <= length file)%nat ->
  (N.of_nat (length (thrift (skipn loc file))) < 2 ^ 32)%N ->
  update_file_gen md thrift file = Some (rewrite_footer true file loc (thrift (skipn loc file))).
Proof.
  intros md thrift file loc Hloc Hle Hsz. unfold update_file_gen.
  cbv beta iota zeta delta [f_open f_seek f_read content pos].
  cbn [Z.eqb Pos.eqb Z.add Z.opp Z.ltb Z.compare Nat.add].
  destruct md.
  - (* pure metadata file: the footer starts 4 bytes in *)
    cbn in Hloc. assert (loc = 4%nat) by congruence. subst loc. change (Z.to_nat 4) with 4%nat.
    finish Hsz.
  - destruct (footer_loc_data _ _ Hloc) as [H8 [_ EZ]].
    replace (Z.of_nat (length file) + -8 <? 0)%Z with false by (symmetry; apply Z.ltb_ge; lia).
    replace (Z.to_nat (Z.of_nat (length file) + -8)) with (length file - 8)%nat by lia.
    cbv beta iota. change (Z.to_nat 4) with 4%nat. rewrite EZ.
    replace (Z.of_nat loc <? 0)%Z with false by (symmetry; apply Z.ltb_ge; lia).
    rewrite Nat2Z.id. cbv beta iota.
    finish Hsz.
Qed.
Print Assumptions gen_update_file_refines.

(* on a well-formed file: the regenerated function leaves  data ++ footer' ++ le32 |footer'| ++ PAR1 *)
Theorem gen_update_file_framed : forall thrift data footer,
  (N.of_nat (length footer) < 2 ^ 32)%N ->
  let tail := footer ++ le_enc 4 (N.of_nat (length footer)) ++ magic in
  (N.of_nat (length (thrift tail)) < 2 ^ 32)%N ->
  update_file_gen false thrift (framed data footer) = Some (framed data (thrift tail)).
Proof.
  intros thrift data footer H1 tail H2.
  assert (Esk : skipn (length data) (framed data footer) = tail) by (unfold framed; apply skipn_app_exact).
  rewrite (gen_update_file_refines false thrift (framed data footer) (length data)).
  - rewrite Esk. now rewrite rewrite_framed.
  - now apply footer_loc_framed.
  - rewrite framed_length. lia.
  - now rewrite Esk.
Qed.
Print Assumptions gen_update_file_framed.

(* the bytes before the footer are untouched by the regenerated function *)
Theorem gen_update_file_prefix : forall md thrift file loc out,
  footer_loc md file = Some loc -> (loc <= length file)%nat ->
  (N.of_nat (length (thrift (skipn loc file))) < 2 ^ 32)%N ->
  update_file_gen md thrift file = Some out -> firstn loc out = firstn loc file.
Proof.
  intros md thrift file loc out H1 H2 H3 E. rewrite (gen_update_file_refines _ _ _ loc H1 H2 H3) in E.
  assert (E' : out = rewrite_footer true file loc (thrift (skipn loc file))) by congruence.
  rewrite E'. now apply rewrite_prefix_untouched.
Qed.
Print Assumptions gen_update_file_prefix.

(* ANY SEQUENCE of updates through the regenerated function (C16_valid_after_any_updates lifted onto the regenerated text):
   each update k is an arbitrary function thrift_k from the bytes read at the footer (old footer ++ length ++ magic) to the
   new footer; the file stays  data ++ footer_k ++ le32 |footer_k| ++ PAR1  with the SAME data, whatever the footer sizes do. *)
Definition next_footer (ft : bytes) (thrift : bytes -> bytes) : bytes :=
  thrift (ft ++ le_enc 4 (N.of_nat (length ft)) ++ magic).

Fixpoint run_updates (ts : list (bytes -> bytes)) (file : bytes) : option bytes :=
  match ts with
  | [] => Some file
  | t :: r => match update_file_gen false t file with None => None | Some f => run_updates r f end
  end.

Theorem gen_update_file_sequence : forall (ts : list (bytes -> bytes)) data footer,
  (N.of_nat (length footer) < 2 ^ 32)%N ->
  (forall t x, In t ts -> (N.of_nat (length (t x)) < 2 ^ 32)%N) ->
  run_updates ts (framed data footer) = Some (framed data (fold_left next_footer ts footer)).
Proof.
  induction ts as [|t r IH]; intros data footer H1 H2; [reflexivity|].
  cbn [run_updates fold_left].
  rewrite gen_update_file_framed; [|exact H1|apply H2; now left].
  apply IH; [apply H2; now left|]. intros t' x Hin. apply H2. now right.
Qed.
Print Assumptions gen_update_file_sequence.

(* ... the data part is byte-identical and the reader (hand model of _parse_header, proved equal to ITS regenerated text in
   GenParseHeaderProofs) hands the last footer to the parser *)
Theorem gen_update_file_sequence_data_and_reader : forall (ts : list (bytes -> bytes)) data footer out verify,
  (N.of_nat (length footer) < 2 ^ 32)%N ->
  (forall t x, In t ts -> (N.of_nat (length (t x)) < 2 ^ 32)%N) ->
  (verify = true -> exists d', data = magic ++ d') ->
  run_updates ts (framed data footer) = Some out ->
  firstn (length data) out = data /\
  parse_header false verify out = Some (fold_left next_footer ts footer, N.of_nat (length (fold_left next_footer ts footer))).
Proof.
  intros ts data footer out verify H1 H2 Hm E. rewrite gen_update_file_sequence in E by assumption.
  assert (E' : out = framed data (fold_left next_footer ts footer)) by congruence. subst out. split.
  - unfold framed. apply firstn_app_exact.
  - apply parse_header_framed.
    + clear E. revert footer H1. induction ts as [|t r IH]; intros footer H1; [exact H1|].
      cbn [fold_left]. apply IH; [intros t' x Hin; apply H2; now right|]. unfold next_footer. apply H2. now left.
    + intros Hv. destruct (Hm Hv) as [d' Ed]. subst data. reflexivity.
Qed.
Print Assumptions gen_update_file_sequence_data_and_reader.
