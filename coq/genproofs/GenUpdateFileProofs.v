(* Re-proved on every run against the REGENERATED text of fastparquet.writer.update_file_custom_metadata (PqGen.GenUpdateFile,
   translators/fileops2coq.py): its seek / read / write / truncate arithmetic is the repaired in-place rewrite of Impl/KV.v
   (`rewrite_footer true`) at the place `footer_loc` names, for EVERY file, both file kinds and every new footer
   (thrift = serialise o update o parse is opaque); hence C16_valid_after_any_updates, C16_data_untouched and
   C16_reader_finds_last_footer hold for the regenerated function (gen_update_file_framed / _sequence below).          *)
From Coq Require Import NArith ZArith List Bool Arith Lia.
From Pq Require Import Base.Bytes Proofs.BytesProofs Impl.KV Proofs.KVProofs Impl.PyFile Proofs.PyFileProofs.
From PqGen Require Import GenUpdateFile.
Import ListNotations.

Ltac finish Hsz :=
  rewrite f_write_pair; cbv beta iota;
  rewrite pack_I_len by exact Hsz; cbv beta iota;
  rewrite f_write_pair; cbv beta iota;
  rewrite f_write_pair; cbv beta iota;
  f_equal; rewrite rewrite_footer_eq by lia;
  apply below_truncate; rewrite !app_assoc;
  repeat apply below_write; apply below_open_at; lia.

Theorem gen_update_file_refines : forall md thrift file loc,
  footer_loc md file = Some loc -> (loc <= length file)%nat ->
  (N.of_nat (length (thrift (skipn loc file))) < 2 ^ 32)%N ->
  update_file_gen md thrift file = Some (rewrite_footer true file loc (thrift (skipn loc file))).
Proof.
  intros md thrift file loc Hloc Hle Hsz. unfold update_file_gen.
  cbv beta iota zeta delta [f_open f_seek f_read content pos].
  cbn [Z.eqb Pos.eqb Z.add Z.opp Z.ltb Z.compare Nat.add].
  destruct md.
  - (* pure metadata file: the footer starts 4 bytes in *)
    cbn in Hloc. assert (loc = 4%nat) by congruence. subst loc. change (Z.to_nat 4) with 4%nat.
    finish Hsz.
  - destruct (footer_loc_data _ _ Hloc) as [H8 [_ EZ]].
    replace (Z.of_nat (length file) + -8 <? 0)%Z with false by (symmetry; apply Z.ltb_ge; lia).
    replace (Z.to_nat (Z.of_nat (length file) + -8)) with (length file - 8)%nat by lia.
    cbv beta iota. change (Z.to_nat 4) with 4%nat. rewrite EZ.
    replace (Z.of_nat loc <? 0)%Z with false by (symmetry; apply Z.ltb_ge; lia).
    rewrite Nat2Z.id. cbv beta iota.
    finish Hsz.
Qed.
Print Assumptions gen_update_file_refines.

(* on a well-formed file: the regenerated function leaves  data ++ footer' ++ le32 |footer'| ++ PAR1 *)
Theorem gen_update_file_framed : forall thrift data footer,
  (N.of_nat (length footer) < 2 ^ 32)%N ->
  let tail := footer ++ le_enc 4 (N.of_nat (length footer)) ++ magic in
  (N.of_nat (length (thrift tail)) < 2 ^ 32)%N ->
  update_file_gen false thrift (framed data footer) = Some (framed data (thrift tail)).
Proof.
  intros thrift data footer H1 tail H2.
  assert (Esk : skipn (length data) (framed data footer) = tail) by (unfold framed; apply skipn_app_exact).
  rewrite (gen_update_file_refines false thrift (framed data footer) (length data)).
  - rewrite Esk. now rewrite rewrite_framed.
  - now apply footer_loc_framed.
  - rewrite framed_length. lia.
  - now rewrite Esk.
Qed.
Print Assumptions gen_update_file_framed.

(* the bytes before the footer are untouched by the regenerated function *)
Theorem gen_update_file_prefix : forall md thrift file loc out,
  footer_loc md file = Some loc -> (loc <= length file)%nat ->
  (N.of_nat (length (thrift (skipn loc file))) < 2 ^ 32)%N ->
  update_file_gen md thrift file = Some out -> firstn loc out = firstn loc file.
Proof.
  intros md thrift file loc out H1 H2 H3 E. rewrite (gen_update_file_refines _ _ _ loc H1 H2 H3) in E.
  assert (E' : out = rewrite_footer true file loc (thrift (skipn loc file))) by congruence.
  rewrite E'. now apply rewrite_prefix_untouched.
Qed.
Print Assumptions gen_update_file_prefix.
