(* Re-proved on every run against the table REGENERATED from fastparquet/writer.py (PqGen.GenScratch, translators/scratch2coq.py):
   every scratch buffer reachable from make_definitions / encode_dict holds a five-byte run header and the byte written
   next to it, hence (coq/props/C01_headers.v) for every page of fewer than 2^31 rows the blocks built in those buffers are
   the blocks of Impl/WLevels.v, which coq/props/C01_pages.v proves readable by the specification's decoder.          *)
From Coq Require Import NArith Arith List String Bool.
From Pq Require Import Base.Bytes Codec.Varint Impl.WLevels Impl.WScratch Proofs.WScratchProofs.
From PqGen Require Import GenScratch.
Import ListNotations.

Lemma caps_enough : forallb (fun e => Nat.leb cap_needed (snd e)) scratch_caps = true.
Proof. vm_compute. reflexivity. Qed.

Lemma both_roots : existsb (fun e => String.eqb (fst (fst e)) "make_definitions") scratch_caps &&
                   existsb (fun e => String.eqb (fst (fst e)) "encode_dict") scratch_caps = true.
Proof. vm_compute. reflexivity. Qed.

Theorem gen_scratch_blocks : forall root f cap, In (root, f, cap) scratch_caps ->
  forall n, (n < 2 ^ 31)%N ->
    wr_defs_nonull_v2_cap cap n = wr_defs_nonull_v2 n /\
    wr_defs_nonull_v1_cap cap n = wr_defs_nonull_v1 n /\
    wr_defs_nulls_head_cap cap n = uleb_enc (2 * n + 1) /\
    (forall k, wr_dict_head_cap cap k n = wr_dict_head k n).
Proof.
  intros root f cap HI n Hn.
  pose proof caps_enough as A. rewrite forallb_forall in A. specialize (A _ HI). cbn [snd] in A.
  apply Nat.leb_le in A.
  destruct (defs_nonull_cap_fits cap n A Hn) as [E2 E1].
  repeat split; [exact E2|exact E1| |].
  - apply defs_nulls_head_fits; [unfold cap_needed in A; apply (Nat.le_trans _ 6); [repeat constructor|exact A]|exact Hn].
  - intro k. apply dict_head_fits; assumption.
Qed.
Print Assumptions gen_scratch_blocks.
