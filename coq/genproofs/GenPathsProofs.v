(* Obligations over the Gallina text that translators/paths2coq.py regenerates from fastparquet/util.py and
   fastparquet/writer.py on every run (Gen/GenPaths.v, logical root PqGen): the pure path functions of C08 / C14.

   For each translated function: (1) it IS the hand model the big theorems are about (so C14_basepath, C14_partition_columns,
   C08_multiset_* ... speak about today's source text), and (2) the headline statements re-proved directly on the regenerated
   text.  The scripts do not name the statement order of the generated text beyond what `unfold` exposes; a change of meaning
   (another slice bound, another comparison, a guess moved or dropped, another separator) leaves an open goal.            *)
(* Blocks: a line `(* @needs u1 u2 *)` starts a block that is compiled only when the translator produced the units u1, u2 (it fails
   closed PER FUNCTION); `(* @needs *)` = always.  harness/partlib.paths_translator filters the blocks. *)
From Coq Require Import NArith ZArith Bool Ascii String Arith List Lia.
From Pq Require Import Base.Bytes Impl.Partition Impl.Paths Impl.PyPaths Impl.PartMeta Dataset.Merge Proofs.PartitionStr Proofs.PartitionProofs Proofs.PathsProofs.
From PqGen Require Import GenPaths.
Import ListNotations.
Local Open Scope nat_scope.

(* @needs analyse *)
(* ------------------------------------------------------------------------------------------------ analyse_paths *)
Lemma find_break_first_mismatch : forall (b p : list str) k j,
  py_find_break (fun '(x, y) => negb (str_eqb x y)) (combine b p) k j
  = match first_mismatch b p k with Some i => i | None => j end.
Proof.
  induction b as [|x b IH]; intros [|y p] k j; cbn [combine py_find_break first_mismatch]; try reflexivity.
  destruct (str_eqb x y); cbn [negb]; [apply IH|reflexivity].
Qed.

Lemma fold_left_ext_l {A B} (f g : A -> B -> A) : (forall a b, f a b = g a b) -> forall l a, fold_left f l a = fold_left g l a.
Proof. intros H l. induction l as [|x l IH]; intros a; cbn; [reflexivity|]. rewrite H. apply IH. Qed.

Theorem gen_analyse_paths_is_model : forall file_list root, gen_analyse_paths file_list root = analyse_paths file_list root.
Proof.
  intros fl root. unfold gen_analyse_paths, analyse_paths.
  change (map (fun fn => split_on "/"%char (join_path [fn])) fl) with (map parts_of fl).
  destruct root as [r|].
  - change (split_on "/"%char (join_path [r])) with (parts_of r). cbv zeta. rewrite ?Nat.add_0_r, ?Nat.add_0_l, ?Nat.sub_0_r.
    destruct (forallb _ (map parts_of fl)); reflexivity.
  - destruct (map parts_of fl) as [|p0 pl] eqn:E; [reflexivity|]. cbv zeta.
    assert (Hb : fold_left (fun (basepath path_parts : list str) =>
                   firstn (py_find_break (fun '(base_part, path_part) => negb (str_eqb base_part path_part))
                                         (combine basepath path_parts) 0 (length path_parts - 1)) basepath)
                 (p0 :: pl) (removelast p0) = base_of (p0 :: pl) p0).
    { unfold base_of. apply fold_left_ext_l. intros a b. unfold shrink. rewrite find_break_first_mismatch. reflexivity. }
    rewrite ?Nat.add_0_r, ?Nat.add_0_l, ?Nat.sub_0_r. rewrite Hb. reflexivity.
Qed.

(* C14_basepath on the regenerated text: without a root, for EVERY non-empty list of paths, the first component is the
   '/'-join of a list of parts `base` that is a prefix of the directory part of every path, contains every common prefix of
   all directory parts (the longest one), and base ++ relative parts = the parts of the path; the second component holds the
   '/'-joined relative parts in the order of the input *)
Theorem gen_basepath : forall file_list, file_list <> [] ->
  exists base,
    gen_analyse_paths file_list None
    = AOk (join_with c_slash base) (map (fun fn => join_with c_slash (skipn (length base) (parts_of fn))) file_list) /\
    (forall fn, In fn file_list -> prefix base (removelast (parts_of fn))) /\
    (forall q, (forall fn, In fn file_list -> prefix q (removelast (parts_of fn))) -> prefix q base) /\
    (forall fn, In fn file_list -> base ++ skipn (length base) (parts_of fn) = parts_of fn).
Proof.
  intros fl Hne. rewrite gen_analyse_paths_is_model. destruct fl as [|f0 fl]; [congruence|].
  set (pl := map parts_of (f0 :: fl)).
  assert (Hin0 : In (parts_of f0) pl) by (left; reflexivity).
  destruct (base_of_spec pl (parts_of f0) Hin0) as [H1 [H2 H3]].
  exists (base_of pl (parts_of f0)). split; [|split; [|split]].
  - unfold analyse_paths. fold pl. cbn [map] in pl. unfold pl at 1. unfold rel_of. f_equal. subst pl.
    change (parts_of f0 :: map parts_of fl) with (map parts_of (f0 :: fl)). rewrite map_map. reflexivity.
  - intros fn Hin. apply H1. apply in_map. exact Hin.
  - intros q Hq. apply H2. intros p Hp. apply in_map_iff in Hp. destruct Hp as [fn [E Hin]]. subst p. apply Hq. exact Hin.
  - intros fn Hin. apply H3. apply in_map. exact Hin.
Qed.

(* ... and on the strings: base path + '/' + relative path spells the path as join_path normalises it *)
Theorem gen_basepath_string : forall file_list fn base rels, In fn file_list ->
  gen_analyse_paths file_list None = AOk base rels ->
  exists bparts, base = join_with c_slash bparts /\
                 join_with c_slash (bparts ++ skipn (length bparts) (parts_of fn)) = join_path [fn].
Proof.
  intros fl fn base rels Hin H. rewrite gen_analyse_paths_is_model in H. unfold analyse_paths in H.
  destruct (map parts_of fl) as [|p0 pl] eqn:E; [discriminate|]. injection H as Hb _.
  exists (base_of (p0 :: pl) p0). split; [symmetry; exact Hb|].
  apply base_rel_string; rewrite <- E; [|apply in_map; exact Hin].
  destruct fl as [|f0 fl']; [discriminate|]. cbn [map] in E. injection E as E0 _. subst p0. left. reflexivity.
Qed.

(* @needs fastrel *)
(* ------------------------------------------------------------------------------------------------ metadata_from_many, fast path *)
(* the first-chunk path the footer fast path stores = fast_rel of the merge model (about which C14_fast_slice and
   C14_fast_equals_legacy speak): for base = join of parts and f = join (base parts ++ rest) it is the join of rest *)
Theorem gen_fast_rel_is_model : forall basepath f, gen_fast_rel basepath f = fast_rel basepath f.
Proof. reflexivity. Qed.

Theorem gen_fast_slice : forall (base rest : list str), rest <> [] -> Forall (fun s => s <> [] /\ ~ In c_slash s) rest ->
  gen_fast_rel (join_with c_slash base) (join_with c_slash (base ++ rest)) = join_with c_slash rest.
Proof. intros base rest H1 H2. rewrite gen_fast_rel_is_model. apply fast_rel_agrees; assumption. Qed.

(* @needs verify *)
(* ------------------------------------------------------------------------------------------------ metadata_from_many: verify_schema *)
From Pq Require Import Dataset.SchemaEq Proofs.SchemaEqProofs.

Lemma existsb_negb_forallb {A} (f : A -> bool) l : existsb (fun x => negb (f x)) l = negb (forallb f l).
Proof. induction l as [|x l IH]; [reflexivity|]. cbn. rewrite IH. destruct (f x); reflexivity. Qed.

(* the regenerated verification raises exactly when the merge model does: every file after the first is compared with the first *)
Theorem gen_verify_is_model : forall (S X : Type) (seqb : S -> S -> bool) (pf0 : pfile S X) rest,
  gen_verify_raises (fun a b => negb (seqb a b)) (map (pf_schema S X) (pf0 :: rest))
  = negb (forallb (fun pf => seqb (pf_schema S X pf) (pf_schema S X pf0)) rest).
Proof.
  intros S X seqb pf0 rest. unfold gen_verify_raises. cbn [map skipn nth_error].
  destruct rest as [|p r]; [reflexivity|]. cbn [map]. rewrite <- existsb_negb_forallb.
  change (pf_schema S X p :: map (pf_schema S X) r) with (map (pf_schema S X) (p :: r)).
  induction (p :: r) as [|q l IH]; [reflexivity|]. cbn [map existsb]. rewrite IH. reflexivity.
Qed.

(* ... hence, with `!=` on the lists of SchemaElement objects (Dataset/SchemaEq.v: schema_eqb, proved to be element-wise, attribute-wise
   equality), verification of the regenerated text raises iff some later file's schema is not equivalent to the first file's *)
Theorem gen_verify_rejects_iff : forall (X : Type) (pf0 : pfile (list elem) X) rest,
  gen_verify_raises (fun a b => negb (schema_eqb a b)) (map (pf_schema (list elem) X) (pf0 :: rest)) = true
  <-> exists pf, In pf rest /\ ~ schema_equiv (pf_schema (list elem) X pf) (pf_schema (list elem) X pf0).
Proof.
  intros X pf0 rest. rewrite gen_verify_is_model. rewrite negb_true_iff. split.
  - intros E. assert (Hex : existsb (fun pf => negb (schema_eqb (pf_schema (list elem) X pf) (pf_schema (list elem) X pf0))) rest = true)
      by (rewrite existsb_negb_forallb, E; reflexivity).
    apply existsb_exists in Hex. destruct Hex as [pf [Hin Hn]]. exists pf. split; [exact Hin|].
    intros Heq. apply schema_eqb_iff in Heq. rewrite Heq in Hn. discriminate.
  - intros [pf [Hin Hn]]. destruct (forallb _ rest) eqn:E; [|reflexivity]. rewrite forallb_forall in E.
    exfalso. apply Hn, schema_eqb_iff, E, Hin.
Qed.
Print Assumptions gen_verify_rejects_iff.

(* @needs strip *)
(* ------------------------------------------------------------------------------------------------ _strip_path_tail *)
Lemma split_on_no_char : forall c s, has_char c s = false -> split_on c s = [s].
Proof.
  intros c. induction s as [|a r IH]; intros H; [reflexivity|].
  unfold has_char in H. cbn [existsb] in H. apply orb_false_iff in H. destruct H as [Ha Hr].
  cbn [split_on]. rewrite Ascii.eqb_sym, Ha. rewrite (IH Hr). reflexivity.
Qed.

Theorem gen_strip_tail_is_model : forall p, gen_strip_tail p = strip_tail p.
Proof.
  intros p. unfold gen_strip_tail, strip_tail, py_rsplit1_head. fold c_slash.
  destruct (has_char c_slash p) eqn:E; [reflexivity|]. rewrite (split_on_no_char _ _ E). reflexivity.
Qed.

(* @needs cats *)
(* ------------------------------------------------------------------------------------------------ paths_to_cats *)
Lemma forallb_ext_l {A} (f g : A -> bool) l : (forall x, f x = g x) -> forallb f l = forallb g l.
Proof. intros H. induction l as [|x l IH]; cbn; [reflexivity|]. rewrite H, IH. reflexivity. Qed.

Lemma two_distinct_length {A} (l : list A) x y : In x l -> In y l -> x <> y -> 2 <= length l.
Proof.
  destruct l as [|a [|b r]]; cbn; intros Hx Hy Hn; try lia; try contradiction.
  destruct Hx as [<-|[]], Hy as [<-|[]]. congruence.
Qed.

(* len(set(l)) > 1 on numbers: not all elements are equal *)
Lemma distinct_count_gt1 l : (1 <? py_distinct_count l) = negb (all_eq_nat l).
Proof.
  unfold py_distinct_count, all_eq_nat. destruct l as [|x r]; [reflexivity|].
  destruct (forallb (Nat.eqb x) r) eqn:E; cbn [negb].
  - apply Nat.ltb_ge. induction r as [|y r IH]; [cbn; lia|].
    cbn [forallb] in E. apply andb_true_iff in E. destruct E as [Exy Er]. apply Nat.eqb_eq in Exy. subst y.
    cbn [nodup]. destruct (in_dec Nat.eq_dec x (x :: r)) as [_|Hn]; [exact (IH Er)|exfalso; apply Hn; left; reflexivity].
  - apply Nat.ltb_lt.
    assert (Hy : exists y, In y r /\ y <> x).
    { clear -E. induction r as [|y r IH]; [discriminate|]. cbn [forallb] in E. apply andb_false_iff in E. destruct E as [E|E].
      - exists y. split; [left; reflexivity|]. apply Nat.eqb_neq in E. congruence.
      - destruct (IH E) as [z [Hz Hn]]. exists z. split; [right; exact Hz|exact Hn]. }
    destruct Hy as [y [Hy Hn]].
    apply (two_distinct_length (nodup Nat.eq_dec (x :: r)) x y).
    + apply nodup_In. left. reflexivity.
    + apply nodup_In. right. exact Hy.
    + congruence.
Qed.

Section GenCatsProofs.
  Variables F T D : Type.
  Variable feqb : F -> F -> bool.
  Variable teqb : T -> T -> bool.
  Variable deqb : D -> D -> bool.
  Variable f_eq_Z : F -> Z -> bool.
  Variable parse_float : bool -> str -> option F.
  Variable parse_time_np : bool -> str -> option T.
  Variable parse_time_fmt parse_time_pd : str -> option T.
  Variable parse_delta : str -> option D.
  Notation path_to_cats := (path_to_cats F T D feqb teqb deqb f_eq_Z parse_float parse_time_np parse_time_fmt parse_time_pd parse_delta).
  Notation paths_to_cats := (paths_to_cats F T D feqb teqb deqb f_eq_Z parse_float parse_time_np parse_time_fmt parse_time_pd parse_delta).

  (* api.paths_to_cats as regenerated from the source = the model the C08 end-to-end theorems (and C14_partition_columns) read with:
     same guards in the same order, same scheme names, hive attempt first, drill attempt only after a ValueError and without metadata *)
  Theorem gen_paths_to_cats_is_model : forall pm paths dirs,
    gen_paths_to_cats F T D path_to_cats pm paths dirs = paths_to_cats pm paths dirs.
  Proof.
    intros pm paths dirs. unfold GenPaths.gen_paths_to_cats, Partition.paths_to_cats.
    destruct paths as [|p ps]; [reflexivity|]. cbn [length Nat.eqb].
    rewrite (forallb_ext_l (fun p0 => mem_str p0 [[]; []]) (fun p0 => negb (nonempty p0))) by (intros [|a r]; reflexivity).
    destruct (forallb (fun p0 => negb (nonempty p0)) (p :: ps)); [reflexivity|]. cbv zeta.
    change (fun path : str => split_on "/"%char path) with (split_on c_slash).
    change (fun path : str => nonempty path) with nonempty.
    change (fun part : list str => length part) with (@length str).
    destruct (filter nonempty dirs) as [|d ds] eqn:Ed; [reflexivity|]. cbn [map py_nonempty_list negb orb].
    assert (Hl : (list_max (length (split_on c_slash d) :: map (@length str) (map (split_on c_slash) ds)) <? 1) = false).
    { apply Nat.ltb_ge. cbn [list_max fold_right]. pose proof (split_on_nonnil c_slash d) as Hn.
      destruct (split_on c_slash d) as [|x0 l0]; [congruence|]. cbn [length].
      pose proof (Nat.le_max_l (S (length l0)) (fold_right Init.Nat.max 0 (map (@length str) (map (split_on c_slash) ds)))). lia. }
    rewrite Hl. change (length (split_on c_slash d) :: map (@length str) (map (split_on c_slash) ds))
      with (map (@length str) (split_on c_slash d :: map (split_on c_slash) ds)).
    rewrite distinct_count_gt1. reflexivity.
  Qed.
  (* ---------------------------------------------------------------------------------------------- _path_to_cats *)
  Notation val_to_num := (val_to_num F T D parse_float parse_time_np parse_time_fmt parse_time_pd parse_delta).
  Notation cats_add := (cats_add F T D feqb teqb deqb f_eq_Z).
  Notation add_hit := (add_hit F T D feqb teqb deqb f_eq_Z parse_float parse_time_np parse_time_fmt parse_time_pd parse_delta).
  Notation gen_add_hit := (gen_add_hit F T D val_to_num cats_add).
  Notation gen_path_to_cats := (gen_path_to_cats F T D val_to_num cats_add).

  Lemma gen_hive_hits_is_model : forall dir,
    match gen_hive_hits dir with Some hits => res_of_opt (all_some (map pair_of hits)) | None => VErr end
    = res_of_opt (hive_hits dir).
  Proof.
    intros dir. unfold gen_hive_hits, hive_hits. cbv zeta.
    change (fun p : str => has_char "="%char p) with (has_char c_eq).
    change (split_on "/"%char dir) with (split_on c_slash dir).
    destruct (filter (has_char c_eq) (split_on c_slash dir)) as [|x l]; [reflexivity|].
    cbn [map py_nonempty_list negb]. rewrite map_map. reflexivity.
  Qed.

  Lemma gen_drill_hits_is_model : forall parts, gen_drill_hits parts = drill_hits parts.
  Proof. reflexivity. Qed.

  Lemma gen_path_hits_is_model : forall hive pp, gen_path_hits hive pp = path_hits hive pp.
  Proof.
    intros hive pp. unfold GenPaths.gen_path_hits, path_hits. destruct hive; [apply gen_hive_hits_is_model|].
    rewrite gen_drill_hits_is_model. reflexivity.
  Qed.

  (* the body of the inner loop, as symbolically executed from the source, is the step function of the model: the `seen` test first,
     the conversion with the text metadata for levels already known to be text, then the four container updates *)
  Lemma gen_add_hit_is_model : forall pm st kv, gen_add_hit pm st kv = add_hit pm st kv.
  Proof.
    intros pm [st| |] [key val]; reflexivity.
  Qed.

  Lemma gen_final_cats_is_model : forall st, gen_final_cats F T D st = final_cats F T D st.
  Proof.
    intros st. unfold GenPaths.gen_final_cats, final_cats. apply map_ext. intros [key v]. reflexivity.
  Qed.

  Lemma fold_left_ext_both {A B} (f g : A -> B -> A) : (forall a b, f a b = g a b) -> forall l a, fold_left f l a = fold_left g l a.
  Proof. intros H l. induction l as [|x l IH]; intros a; cbn; [reflexivity|]. rewrite H. apply IH. Qed.

  (* api._path_to_cats as regenerated = the reader-side model of the C08 theorems (invariant Inv over its state, read_cell ...) *)
  Theorem gen_path_to_cats_is_model : forall hive pm pps, gen_path_to_cats hive pm pps = path_to_cats hive pm pps.
  Proof.
    intros hive pm pps. unfold GenPaths.gen_path_to_cats, Partition.path_to_cats.
    rewrite (fold_left_ext_both _ (fun st pp => match st with
                                   | Ok _ => match path_hits hive pp with
                                             | Ok hits => fold_left (add_hit pm) hits st
                                             | VErr => VErr
                                             | OErr => OErr
                                             end
                                   | e => e
                                   end)).
    - destruct (fold_left _ pps (Ok (st0 F T D))); cbn [res_map]; try reflexivity. rewrite gen_final_cats_is_model. reflexivity.
    - intros [st| |] pp; try reflexivity. rewrite gen_path_hits_is_model. destruct (path_hits hive pp); try reflexivity.
      apply fold_left_ext_both. apply gen_add_hit_is_model.
  Qed.

  (* the two regenerated functions composed = the model's paths_to_cats: everything between the row-group paths and (scheme, cats) *)
  Theorem gen_paths_to_cats_composed : forall pm paths dirs,
    gen_paths_to_cats F T D gen_path_to_cats pm paths dirs = paths_to_cats pm paths dirs.
  Proof.
    intros pm paths dirs. rewrite <- gen_paths_to_cats_is_model. unfold GenPaths.gen_paths_to_cats.
    rewrite !gen_path_to_cats_is_model. reflexivity.
  Qed.
End GenCatsProofs.
Print Assumptions gen_paths_to_cats_is_model.
Print Assumptions gen_path_to_cats_is_model.
Print Assumptions gen_paths_to_cats_composed.

(* @needs booltexts *)
(* ------------------------------------------------------------------------------------------------ val_from_meta: the bool literals *)
Lemma mem_str_incl l1 l2 : forallb (fun t => mem_str t l2) l1 = true -> forall x, mem_str x l1 = true -> mem_str x l2 = true.
Proof.
  intros H x Hx. unfold mem_str in Hx. apply existsb_exists in Hx. destruct Hx as [t [Ht Hxt]].
  rewrite forallb_forall in H. destruct (str_eqb_spec x t) as [->|]; [|discriminate]. apply H. exact Ht.
Qed.

(* the texts util.val_from_meta reads as True for a bool column ARE the model's (as a set: the order of the literal list is free) *)
Theorem gen_bool_texts_is_model : forall x,
  mem_str x gen_bool_true_texts = mem_str x [s_ "true"; s_ "True"; s_ "t"; s_ "T"; s_ "1"].
Proof.
  intros x.
  assert (H1 : forallb (fun t => mem_str t [s_ "true"; s_ "True"; s_ "t"; s_ "T"; s_ "1"]) gen_bool_true_texts = true) by (vm_compute; reflexivity).
  assert (H2 : forallb (fun t => mem_str t gen_bool_true_texts) [s_ "true"; s_ "True"; s_ "t"; s_ "T"; s_ "1"] = true) by (vm_compute; reflexivity).
  destruct (mem_str x gen_bool_true_texts) eqn:E1, (mem_str x [s_ "true"; s_ "True"; s_ "t"; s_ "T"; s_ "1"]) eqn:E2; try reflexivity.
  - rewrite (mem_str_incl _ _ H1 x E1) in E2. discriminate.
  - rewrite (mem_str_incl _ _ H2 x E2) in E1. discriminate.
Qed.

(* what the round trip of a boolean key needs of the literal list: str(True) is in it, str(False) is not *)
Theorem gen_bool_texts_roundtrip : mem_str (s_ "True") gen_bool_true_texts = true /\ mem_str (s_ "False") gen_bool_true_texts = false.
Proof. vm_compute. split; reflexivity. Qed.
Print Assumptions gen_bool_texts_is_model.

(* @needs valfrommeta booltexts *)
(* ------------------------------------------------------------------------------------------------ val_from_meta: the dispatch *)
Lemma dt64ns_kind nt : str_eqb nt dt64ns = true -> kind_of_numpy nt = KTime true.
Proof. intros H. destruct (str_eqb_spec nt dt64ns) as [E|E]; [rewrite E; reflexivity|discriminate]. Qed.

Lemma kind_time_dt64ns nt ns : kind_of_numpy nt = KTime ns -> str_eqb nt dt64ns = ns.
Proof.
  unfold kind_of_numpy, numpy_kinds. cbn [alist_get].
  repeat match goal with
         | |- context [if str_eqb nt ?c then _ else _] => let E := fresh "E" in destruct (str_eqb_spec nt c) as [E|E]; [rewrite E|]
         end; intros H; inversion H; subst; try reflexivity.
  all: destruct (str_eqb_spec nt dt64ns) as [E'|E']; [exfalso; unfold dt64ns in E'; congruence|reflexivity].
Qed.

Lemma kind_of_numpy_not_cat nt l : kind_of_numpy nt <> KCat l.
Proof.
  unfold kind_of_numpy, numpy_kinds. cbn [alist_get].
  repeat match goal with
         | |- context [if str_eqb nt ?c then _ else _] => destruct (str_eqb nt c)
         end; discriminate.
Qed.

Section GenMetaProofs.
  Variables F T D : Type.
  Variable parse_float : bool -> str -> option F.
  Variable parse_time_np : bool -> str -> option T.
  Variable parse_time_fmt : str -> option T.
  Notation value := (value F T D).
  Notation parse_base := (parse_base F T D parse_float parse_time_np parse_time_fmt).
  Notation parse_with_meta := (parse_with_meta F T D parse_float parse_time_np parse_time_fmt).
  Notation gen_vfm := (gen_val_from_meta F T D (np_scalar_model F T D parse_float parse_time_np parse_time_fmt)
                                         (timestamp_tz_model F T D parse_time_np) (to_datetime_fmt_model F T D parse_time_fmt)).

  Lemma gen_vfm_simple : forall m x, pm_simple m = true -> gen_vfm x m = parse_base (kind_of_pmeta m) x.
  Proof.
    intros [pt nt labels] x Hs. unfold pm_simple in Hs. apply andb_true_iff in Hs. destruct Hs as [Hc Ht].
    apply negb_true_iff in Hc. cbn [GenPaths.gen_val_from_meta kind_of_pmeta]. rewrite Hc. change (s_ "datetime64[ns]") with dt64ns.
    destruct (str_eqb pt (s_ "datetimetz")) eqn:Etz.
    - cbn [andb] in Ht. apply negb_true_iff in Ht. rewrite Ht. unfold timestamp_tz_model. cbn [parse_base Partition.parse_base].
      destruct (parse_time_np true x); reflexivity.
    - destruct (str_eqb nt (s_ "bool")) eqn:Eb.
      + destruct (str_eqb_spec nt (s_ "bool")) as [E|E]; [rewrite E|discriminate]. rewrite gen_bool_texts_is_model. reflexivity.
      + unfold np_scalar_model. destruct (kind_of_numpy nt) as [sg bits| | |sgl|ns| |lk] eqn:Ek.
        * assert (Hn : str_eqb nt dt64ns = false).
          { destruct (str_eqb nt dt64ns) eqn:E; [|reflexivity]. rewrite (dt64ns_kind nt E) in Ek. discriminate. }
          fold dt64ns. rewrite Hn. destruct (parse_base (KInt sg bits) x); reflexivity.
        * assert (Hn : str_eqb nt dt64ns = false).
          { destruct (str_eqb nt dt64ns) eqn:E; [|reflexivity]. rewrite (dt64ns_kind nt E) in Ek. discriminate. }
          fold dt64ns. rewrite Hn. reflexivity.
        * fold dt64ns. reflexivity.
        * assert (Hn : str_eqb nt dt64ns = false).
          { destruct (str_eqb nt dt64ns) eqn:E; [|reflexivity]. rewrite (dt64ns_kind nt E) in Ek. discriminate. }
          fold dt64ns. rewrite Hn. destruct (parse_base (KFloat sgl) x); reflexivity.
        * fold dt64ns. rewrite (kind_time_dt64ns nt ns Ek). unfold to_datetime_fmt_model. cbn [Partition.parse_base].
          destruct (parse_time_np false x); [reflexivity|]. cbn. destruct ns; reflexivity.
        * assert (Hn : str_eqb nt dt64ns = false).
          { destruct (str_eqb nt dt64ns) eqn:E; [|reflexivity]. rewrite (dt64ns_kind nt E) in Ek. discriminate. }
          fold dt64ns. rewrite Hn. destruct (parse_base KTimeTz x); reflexivity.
        * assert (Hn : str_eqb nt dt64ns = false).
          { destruct (str_eqb nt dt64ns) eqn:E; [|reflexivity]. rewrite (dt64ns_kind nt E) in Ek. discriminate. }
          fold dt64ns. rewrite Hn. reflexivity.
  Qed.

  (* util.val_from_meta as regenerated (dispatch order: categorical with / without recorded label type, tz-aware, bool, numpy scalar;
     the ValueError handler with its datetime64[ns] fallback) = parse_with_meta of the model on the kind of the metadata block, for every
     block as fastparquet writes it (pm_wf) and every text, with numpy's / pandas' conversions as modelled in Impl/PartMeta.v *)
  Theorem gen_val_from_meta_is_model : forall m x, pm_wf m = true -> gen_vfm x m = parse_with_meta (kind_of_pmeta m) x.
  Proof.
    intros [pt nt labels] x Hw. unfold pm_wf in Hw. destruct (str_eqb pt (s_ "categorical")) eqn:Ec.
    - apply andb_true_iff in Hw. destruct Hw as [Hn Hl]. apply negb_true_iff in Hn.
      cbn [GenPaths.gen_val_from_meta kind_of_pmeta]. rewrite Ec. fold dt64ns. rewrite Hn.
      destruct labels as [l|]; [|reflexivity]. cbn [Partition.parse_with_meta].
      change (GenPaths.gen_val_from_meta F T D _ _ _ x l) with (gen_vfm x l). rewrite (gen_vfm_simple l x Hl).
      destruct (parse_base (kind_of_pmeta l) x); reflexivity.
    - rewrite (gen_vfm_simple (PMeta pt nt labels) x Hw). cbn [kind_of_pmeta]. rewrite Ec.
      destruct (str_eqb pt (s_ "datetimetz")); [reflexivity|]. destruct (kind_of_numpy nt) eqn:Ek; try reflexivity.
      exfalso. exact (kind_of_numpy_not_cat nt _ Ek).
  Qed.
End GenMetaProofs.
Print Assumptions gen_val_from_meta_is_model.

(* @needs rowfill *)
(* ------------------------------------------------------------------------------------------------ read_row_group: partition columns *)
Lemma gen_drill_partitions l : forall k,
  map (fun '(i, v) => [s_ "dir" ++ show_nat i; v]) (mapi_from (fun i (v : str) => (i, v)) k l)
  = map (fun kv : str * str => [fst kv; snd kv]) (mapi_from (fun i v => (dir_name i, v)) k l).
Proof. induction l as [|x l IH]; intros k; [reflexivity|]. cbn [mapi_from map]. rewrite IH. reflexivity. Qed.

Lemma gen_row_partitions_is_model hive path : gen_row_partitions hive path = row_partitions hive path.
Proof.
  unfold gen_row_partitions, row_partitions. destruct hive; [reflexivity|]. unfold py_enumerate, drill_hits.
  apply gen_drill_partitions.
Qed.

Section GenRowProofs.
  Variables F T D : Type.
  Variable feqb : F -> F -> bool.
  Variable teqb : T -> T -> bool.
  Variable deqb : D -> D -> bool.
  Variable f_eq_Z : F -> Z -> bool.
  Variable parse_float : bool -> str -> option F.
  Variable parse_time_np : bool -> str -> option T.
  Variable parse_time_fmt parse_time_pd : str -> option T.
  Variable parse_delta : str -> option D.
  Notation val_to_num := (val_to_num F T D parse_float parse_time_np parse_time_fmt parse_time_pd parse_delta).
  Notation veqb := (veqb F T D feqb teqb deqb f_eq_Z).
  Notation row_value := (row_value F T D parse_float parse_time_np parse_time_fmt parse_time_pd parse_delta).
  Notation row_cell := (row_cell F T D feqb teqb deqb f_eq_Z parse_float parse_time_np parse_time_fmt parse_time_pd parse_delta).

  Lemma gen_row_value_is_model hive pm cat labels path :
    gen_row_value F T D val_to_num hive pm cat labels path = row_value hive pm cat labels path.
  Proof.
    unfold GenPaths.gen_row_value, Partition.row_value. rewrite gen_row_partitions_is_model.
    destruct (filter _ (row_partitions hive path)) as [|p ps]; [reflexivity|].
    destruct (pair_of p) as [[k v]|]; [|reflexivity]. destruct (forallb (is_vstr F T D) labels); reflexivity.
  Qed.

  (* the code a row group gets for a partition column, as regenerated from core.read_row_group, = row_cell of the reader model (about
     which the invariant of the C08 end-to-end proofs and C08_index_lookup speak) *)
  Theorem gen_row_cell_is_model : forall hive pm path c,
    gen_row_cell F T D val_to_num veqb hive pm path c = row_cell hive pm path c.
  Proof.
    intros hive pm path c. unfold GenPaths.gen_row_cell, Partition.row_cell. rewrite gen_row_value_is_model. reflexivity.
  Qed.
End GenRowProofs.
Print Assumptions gen_row_cell_is_model.

(* @needs *)
Section GenValueProofs.
  Variables F T D : Type.
  Variable show_float : F -> str.
  Variable show_time_iso show_time_str : T -> str.
  Variable parse_float : bool -> str -> option F.
  Variable parse_time_np : bool -> str -> option T.
  Variable parse_time_fmt parse_time_pd : str -> option T.
  Variable parse_delta : str -> option D.
  Notation value := (value F T D).
  Notation show := (show F T D show_float show_time_iso show_time_str).
  Notation parse_with_meta := (parse_with_meta F T D parse_float parse_time_np parse_time_fmt).

(* @needs pathstring *)
  Notation gen_path_string := (gen_path_string F T D show_float show_time_iso show_time_str).
  (* ---------------------------------------------------------------------------------------------- path_string *)
  Theorem gen_path_string_is_show : forall o : value, gen_path_string o = show true o.
  Proof.
    intros o. unfold GenPaths.gen_path_string.
    induction o as [z|b|s|f|t|d|l IH]; cbn [py_is_timestamp py_isoformat py_str Partition.show] in *; try reflexivity.
    destruct (py_is_timestamp F T D l); exact IH.
  Qed.

  (* C08_int_text_roundtrip / C08_bool_text_roundtrip on the regenerated writer-side text: the directory text of an
     in-range integer / a boolean converts back to it under the metadata of its column *)
  Theorem gen_int_text_roundtrip : forall sg bits z, in_range sg bits z = true ->
    parse_with_meta (KInt sg bits) (gen_path_string (VInt z)) = Ok (VInt z).
  Proof.
    intros sg bits z H. rewrite gen_path_string_is_show.
    exact (roundtrip_int F T D show_float parse_float show_time_iso show_time_str parse_time_np parse_time_fmt sg bits z true H).
  Qed.

  Theorem gen_bool_text_roundtrip : forall b, parse_with_meta KBool (gen_path_string (VBool b)) = Ok (VBool b).
  Proof.
    intros b. rewrite gen_path_string_is_show.
    exact (roundtrip_bool F T D show_float parse_float show_time_iso show_time_str parse_time_np parse_time_fmt b true).
  Qed.

(* @needs valtonum *)
  Notation gen_val_to_num := (gen_val_to_num F T D parse_float parse_time_pd parse_delta).
  (* ---------------------------------------------------------------------------------------------- _val_to_num *)
  Theorem gen_val_to_num_is_model : forall x, gen_val_to_num x = parse_guess F T D parse_float parse_time_pd parse_delta x.
  Proof.
    intros x. unfold GenPaths.gen_val_to_num, parse_guess. rewrite ?andb_true_l.
    repeat match goal with
           | |- context [if ?c then _ else _] => destruct c; try reflexivity
           | |- context [match ?c with Some _ => _ | None => _ end] => destruct c; try reflexivity
           end.
  Qed.

  (* C08_guess_int on the regenerated text: in a drill level the text of every integer is guessed back as that integer *)
  Theorem gen_guess_int : forall z, gen_val_to_num (show_Z z) = VInt z.
  Proof. intros z. rewrite gen_val_to_num_is_model. exact (guess_int F T D parse_float parse_time_pd parse_delta z). Qed.

(* @needs naming pathstring *)
  Notation gen_dir_path := (gen_dir_path F T D show_float show_time_iso show_time_str).
  (* ---------------------------------------------------------------------------------------------- directory naming *)
  Lemma gen_hive_segments : forall (names : list str) (key : list value),
    map (fun '(name, val) => py_format [[]; s_ "="; []] [name; gen_path_string val]) (combine names key)
    = dir_segments F T D show_float show_time_iso show_time_str true names key.
  Proof.
    induction names as [|n ns IH]; intros [|v vs]; cbn [combine map dir_segments]; try reflexivity.
    rewrite IH. f_equal. unfold segment. rewrite gen_path_string_is_show. cbn [py_format app]. rewrite app_nil_r. reflexivity.
  Qed.

  Lemma gen_drill_segments : forall (key : list value) (names : list str), length key <= length names ->
    map (fun val => py_format [[]; []] [py_str F T D show_float show_time_iso show_time_str val]) key
    = dir_segments F T D show_float show_time_iso show_time_str false names key.
  Proof.
    induction key as [|v vs IH]; intros names Hl; [destruct names; reflexivity|].
    destruct names as [|n ns]; [cbn in Hl; lia|]. cbn [map dir_segments]. rewrite (IH ns) by (cbn in Hl; lia).
    f_equal. unfold segment, py_str. cbn [py_format app]. rewrite app_nil_r. reflexivity.
  Qed.

  (* the file of a key is where the model of the writer (Impl/Partition.v: rel_path, about which C08_placement_* speak) puts
     it - hive for any column names, drill when there are at least as many names as key values (the drill text ignores them) *)
  Theorem gen_relname_is_model : forall hive names (key : list value) part, (hive = false -> length key <= length names) ->
    gen_relname (gen_dir_path hive names key) part
    = rel_path F T D show_float show_time_iso show_time_str hive names key part.
  Proof.
    intros hive names key part Hlen. unfold gen_relname, GenPaths.gen_dir_path, rel_path, dir_path.
    destruct hive.
    - rewrite gen_hive_segments. reflexivity.
    - rewrite (gen_drill_segments key names) by (apply Hlen; reflexivity). reflexivity.
  Qed.
(* @needs *)
End GenValueProofs.

(* @needs analyse *)
Print Assumptions gen_analyse_paths_is_model.
Print Assumptions gen_basepath.
Print Assumptions gen_basepath_string.
(* @needs strip *)
Print Assumptions gen_strip_tail_is_model.
(* @needs pathstring *)
Print Assumptions gen_path_string_is_show.
Print Assumptions gen_int_text_roundtrip.
(* @needs valtonum *)
Print Assumptions gen_val_to_num_is_model.
Print Assumptions gen_guess_int.
(* @needs naming pathstring *)
Print Assumptions gen_relname_is_model.

(* @needs strip pathstring naming cats rowfill *)
(* ------------------------------------------------------------------------------------------------ end to end, hive, on regenerated text
   Writer: pandas' group-by (model `group_by`, premise) with the file of each group named by the REGENERATED naming statements of
   writer.partition_on_columns; reader: the REGENERATED _strip_path_tail, paths_to_cats and _path_to_cats, then the model of
   core.read_row_group.  C08_multiset_hive holds for this composition.                                                             *)
From Coq Require Import Permutation.
From Pq Require Import Proofs.PartitionE2E.

Section GenE2E.
  Variables F T D : Type.
  Variable feqb : F -> F -> bool.
  Variable teqb : T -> T -> bool.
  Variable deqb : D -> D -> bool.
  Variable f_eq_Z : F -> Z -> bool.
  Variable show_float : F -> str.
  Variable parse_float : bool -> str -> option F.
  Variable show_time_iso show_time_str : T -> str.
  Variable parse_time_np : bool -> str -> option T.
  Variable parse_time_fmt parse_time_pd : str -> option T.
  Variable parse_delta : str -> option D.
  Hypothesis feqb_spec : forall a b, reflect (a = b) (feqb a b).
  Hypothesis teqb_spec : forall a b, reflect (a = b) (teqb a b).
  Hypothesis deqb_spec : forall a b, reflect (a = b) (deqb a b).
  Variable P : Type.
  Notation row := (row F T D P).
  Notation value := (value F T D).
  Notation val_to_num := (val_to_num F T D parse_float parse_time_np parse_time_fmt parse_time_pd parse_delta).
  Notation cats_add := (cats_add F T D feqb teqb deqb f_eq_Z).
  Notation read_files := (read_files F T D feqb teqb deqb f_eq_Z parse_float parse_time_np parse_time_fmt parse_time_pd parse_delta P).
  Notation veqb := (veqb F T D feqb teqb deqb f_eq_Z).
  Notation read_model := (read_model F T D feqb teqb deqb f_eq_Z parse_float parse_time_np parse_time_fmt parse_time_pd parse_delta P).
  Notation write_model := (write_model F T D feqb teqb deqb f_eq_Z show_float show_time_iso show_time_str P).
  Notation group_by := (group_by F T D feqb teqb deqb f_eq_Z P).

  (* one file per (row group i, key present in it), named by the regenerated statements *)
  Definition gen_write_chunk (hive : bool) (names : list str) (i : nat) (rows : list row) : list (str * list row) :=
    map (fun g => (gen_relname (gen_dir_path F T D show_float show_time_iso show_time_str hive names (fst g)) (part_name i), snd g)) (group_by rows).
  Definition gen_write_model (hive : bool) (names : list str) (chunks : list (list row)) : list (str * list row) :=
    concat (mapi_from (gen_write_chunk hive names) O chunks).

  (* every row of the row group stored at `fst f` gets the cells the regenerated fill computes from that path *)
  Definition gen_read_files (hive : bool) (pm : list (str * kind)) (cats : list (str * list value)) (files : list (str * list row))
    : option (list (list (str * value) * P)) :=
    option_map (@concat _)
      (all_some (map (fun f => option_map (fun cells => map (fun r => (cells, snd r)) (snd f))
                                          (all_some (map (gen_row_cell F T D val_to_num veqb hive pm (fst f)) cats))) files)).

  (* ParquetFile(dir).to_pandas(): scheme and cats through the regenerated functions, cells through the regenerated fill *)
  Definition gen_read_model (pm : list (str * kind)) (ord : list str -> list str) (files : list (str * list row))
    : option (scheme * list (list (str * value) * P)) :=
    let paths := map fst files in
    match gen_paths_to_cats F T D (gen_path_to_cats F T D val_to_num cats_add) pm paths (ord (dedup_str (map gen_strip_tail paths))) with
    | Ok (Hive, c) => option_map (pair Hive) (gen_read_files true pm c files)
    | Ok (Drill, c) => option_map (pair Drill) (gen_read_files false [] c files)
    | Ok (s, _) => Some (s, concat (map (fun f => map (fun r => ([], snd r)) (snd f)) files))
    | _ => None
    end.

  Lemma gen_read_files_is_model hive pm c files : gen_read_files hive pm c files = read_files hive pm c files.
  Proof.
    unfold gen_read_files, Partition.read_files, row_cells. f_equal. f_equal. apply map_ext. intros f. f_equal. f_equal.
    apply map_ext. intros cc. apply gen_row_cell_is_model.
  Qed.

  Lemma gen_read_model_is_model pm ord files : gen_read_model pm ord files = read_model pm ord files.
  Proof.
    unfold gen_read_model, Partition.read_model. cbv zeta.
    rewrite (gen_paths_to_cats_composed F T D feqb teqb deqb f_eq_Z parse_float parse_time_np parse_time_fmt parse_time_pd parse_delta).
    rewrite (map_ext gen_strip_tail strip_tail gen_strip_tail_is_model).
    destruct (Partition.paths_to_cats _ _ _ _ _ _ _ _ _ _ _ _ _ _ _) as [[[] c]| |]; try reflexivity; rewrite gen_read_files_is_model; reflexivity.
  Qed.

  Lemma mapi_from_ext {A B} (f g : nat -> A -> B) : (forall i x, f i x = g i x) -> forall l i, mapi_from f i l = mapi_from g i l.
  Proof. intros H l. induction l as [|x l IH]; intros i; cbn; [reflexivity|]. rewrite H, IH. reflexivity. Qed.

  Lemma gen_write_model_hive names chunks : gen_write_model true names chunks = write_model true names chunks.
  Proof.
    unfold gen_write_model, Partition.write_model. f_equal. apply mapi_from_ext. intros i rows.
    unfold gen_write_chunk, Partition.write_chunk. apply map_ext. intros g. f_equal.
    apply (gen_relname_is_model F T D show_float show_time_iso show_time_str). discriminate.
  Qed.

  (* C08_multiset_hive on the regenerated text *)
  Theorem gen_multiset_hive :
    forall (pm : list (str * kind)) (names : list str), NoDup names -> names <> [] -> Forall legal names ->
    forall ord : list str -> list str, (forall l x, In x (ord l) <-> In x l) ->
    forall chunks : list (list row),
    frame_ok F T D P names (Pv_hive F T D show_float parse_float show_time_iso show_time_str parse_time_np parse_time_fmt pm) (concat chunks) ->
    exists sch out,
      gen_read_model pm ord (gen_write_model true names chunks) = Some (sch, out) /\
      Permutation out (map (expect F T D P names (unwrap F T D)) (filter (nonnull F T D P) (concat chunks))) /\
      (filter (nonnull F T D P) (concat chunks) <> [] -> sch = Hive).
  Proof.
    intros pm names Hnd Hne Hleg ord Hord chunks Hok. rewrite gen_write_model_hive, gen_read_model_is_model.
    exact (hive_e2e F T D feqb teqb deqb f_eq_Z show_float parse_float show_time_iso show_time_str
             parse_time_np parse_time_fmt parse_time_pd parse_delta feqb_spec teqb_spec deqb_spec P pm names Hnd Hne Hleg ord Hord chunks Hok).
  Qed.

  (* C08_placement_hive on the regenerated naming: every stored row has non-null keys and lies in the file the REGENERATED statements
     name for its key; the stored rows are, as a multiset, the rows with non-null keys *)
  Theorem gen_placement_hive :
    forall (pm : list (str * kind)) (names : list str) (chunks : list (list row)),
    frame_ok F T D P names (Pv_hive F T D show_float parse_float show_time_iso show_time_str parse_time_np parse_time_fmt pm) (concat chunks) ->
    let files := gen_write_model true names chunks in
    Permutation (concat (map snd files)) (filter (nonnull F T D P) (concat chunks)) /\
    forall f r, In f files -> In r (snd f) ->
      nonnull F T D P r = true /\
      exists i, fst f = gen_relname (gen_dir_path F T D show_float show_time_iso show_time_str true names (key_of F T D P r)) (part_name i).
  Proof.
    intros pm names chunks Hok. cbv zeta. rewrite gen_write_model_hive.
    destruct (hive_placement F T D feqb teqb deqb f_eq_Z show_float parse_float show_time_iso show_time_str
                parse_time_np parse_time_fmt parse_time_pd parse_delta feqb_spec teqb_spec deqb_spec P pm names chunks Hok) as [H1 H2].
    split; [exact H1|]. intros f r Hf Hr. destruct (H2 f r Hf Hr) as [Hn [i Hi]]. split; [exact Hn|]. exists i. rewrite Hi.
    symmetry. apply (gen_relname_is_model F T D show_float show_time_iso show_time_str). discriminate.
  Qed.
End GenE2E.
Print Assumptions gen_multiset_hive.
Print Assumptions gen_placement_hive.
