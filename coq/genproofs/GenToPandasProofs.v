(* to_pandas' row-group loop.  Obligations over the Gallina text that translators/readloops.py regenerates from fastparquet/api.py on
   every run (Gen/GenHead.v, Gen/GenToPandas.v, logical root PqGen).  Proof scripts avoid naming the
   comparison operator or the order of independent statements so that equivalent rewrites still go through
   (e.g. `total_rows > nrows` instead of `>=` reads one more group and yields the same first n rows). *)
From Coq Require Import List ZArith Arith Bool Lia ZifyBool.
From Pq Require Import Base.Bytes Dataset.Read Dataset.PyPrelude Proofs.ReadProofs.
From PqGen Require Import GenToPandas.
Import ListNotations.
Close Scope N_scope.
Local Open Scope nat_scope.

Lemma firstn_app_exact : forall A (l m : list A) k, firstn (length l + k) (l ++ m) = l ++ firstn k m.
Proof. intros. apply firstn_app_2. Qed.

Section GenToPandasProofs.
  Variables D R Name : Type.
  Variable neqb : Name -> Name -> bool.
  Variable rows : D -> list R.
  Variable nrows : D -> nat.
  Let num_rows (d : D) : Z := Z.of_nat (nrows d).
  Notation wf := (wf D R rows nrows).

  (* ------------------------------------------------------------------ to_pandas: the row-group loop *)

  Lemma write_slice_assign : forall (s len : nat) (xs : list R) out, length xs = len -> s <= length out ->
    write_slice (Z.of_nat s) (Z.of_nat s + Z.of_nat len)%Z xs out = assign_slice s len xs out.
  Proof.
    intros s len xs out Hl Hs. unfold write_slice, np_slice, assign_slice.
    destruct (Nat.leb_spec (s + len) (length out)) as [Hle|Hgt].
    - assert (E1 : (Z.of_nat s <? 0)%Z = false) by lia. assert (E2 : (Z.of_nat s + Z.of_nat len <? 0)%Z = false) by lia.
      rewrite E1, E2.
      replace (Z.min (Z.of_nat s) (Z.of_nat (length out))) with (Z.of_nat s) by lia.
      replace (Z.min (Z.of_nat s + Z.of_nat len) (Z.of_nat (length out))) with (Z.of_nat s + Z.of_nat len)%Z by lia.
      replace (Z.max 0 (Z.of_nat s + Z.of_nat len - Z.of_nat s)) with (Z.of_nat len) by lia.
      rewrite Hl, Z.eqb_refl, Nat.eqb_refl. cbn [andb].
      rewrite Nat2Z.id. replace (Z.to_nat (Z.of_nat s + Z.of_nat len)) with (s + len) by lia. reflexivity.
    - cbn [andb].
      assert (E1 : (Z.of_nat s <? 0)%Z = false) by lia. assert (E2 : (Z.of_nat s + Z.of_nat len <? 0)%Z = false) by lia.
      rewrite E1, E2.
      assert (E : (Z.of_nat (length xs) =?
                   Z.max 0 (Z.min (Z.of_nat s + Z.of_nat len) (Z.of_nat (length out)) - Z.min (Z.of_nat s) (Z.of_nat (length out))))%Z = false) by lia.
      rewrite E. reflexivity.
  Qed.

  (* the regenerated loop is the loop of the hand model: same slice, same order (fill, then advance by the same amount) *)
  Lemma assign_slice_room : forall (s len : nat) (xs : list R) out out',
    assign_slice s len xs out = Some out' -> s + len <= length out /\ length out' = length out.
  Proof.
    intros s len xs out out' H. unfold assign_slice in H.
    destruct (Nat.leb_spec (s + len) (length out)) as [Hle|Hgt]; cbn [andb] in H; [|discriminate].
    destruct (Nat.eqb_spec (length xs) len) as [El|El]; [|discriminate]. injection H as <-.
    split; [exact Hle|]. rewrite !app_length, map_length, firstn_length, skipn_length. lia.
  Qed.

  Lemma gen_tp_loop_fill : forall rgs (s : nat) tl out, wf rgs -> s <= length out ->
    tp_loop D R num_rows rows rgs (Some (Z.of_nat s)) tl out = fill rows nrows rgs s out.
  Proof.
    induction rgs as [|d rgs IH]; intros s tl out H Hs; [reflexivity|].
    assert (Hd : nrows d = length (rows d)) by (apply H; left; reflexivity).
    assert (H' : wf rgs) by (eapply wf_incl; [exact H|apply incl_tl, incl_refl]).
    cbn [tp_loop Read.fill]. unfold ocmp, oadd, o2. cbn beta iota.
    repeat rewrite Z.eqb_refl. cbn beta iota.
    unfold num_rows at 1 2. rewrite write_slice_assign by first [symmetry; exact Hd | exact Hs].
    destruct (assign_slice s (nrows d) (rows d) out) as [out'|] eqn:Ea; [|reflexivity].
    apply assign_slice_room in Ea. destruct Ea as [Ea1 Ea2].
    unfold num_rows. rewrite <- Nat2Z.inj_add. apply IH; [exact H'|lia].
  Qed.

  (* GEN: what to_pandas' loop (as regenerated from the source) leaves in the pre-allocated output is the
     concatenation of the row groups' rows, in order - for every dataset *)
  Theorem gen_to_pandas_full_is_concat : forall rgs, wf rgs ->
    tp_read D R num_rows rows rgs = Some (map Some (concat (map rows rgs))).
  Proof.
    intros rgs H. unfold tp_read. cbn beta iota.
    change (Some 0%Z) with (Some (Z.of_nat 0)). rewrite gen_tp_loop_fill by first [exact H | lia].
    assert (E : Z.to_nat (fold_right Z.add 0%Z (map num_rows rgs)) = sum (map nrows rgs)).
    { clear H. induction rgs as [|d l IHl]; [reflexivity|]. cbn [map fold_right sum]. fold (sum (map nrows l)).
      rewrite <- IHl. unfold num_rows at 1.
      assert (0 <= fold_right Z.add 0 (map num_rows l))%Z.
      { clear IHl. induction l as [|x l IHx]; cbn; [lia|]. unfold num_rows at 1. lia. }
      lia. }
    rewrite E. apply (read_rows_full D R rows nrows rgs H).
  Qed.

  Theorem gen_to_pandas_is_model : forall rgs, wf rgs ->
    tp_read D R num_rows rows rgs = read_rows rows nrows rgs.
  Proof.
    intros rgs H. rewrite gen_to_pandas_full_is_concat by exact H. symmetry. apply (read_rows_full D R rows nrows rgs H).
  Qed.

End GenToPandasProofs.

Print Assumptions gen_to_pandas_full_is_concat.
Print Assumptions gen_to_pandas_is_model.
