(* Re-proved on every run against the REGENERATED text of writer.find_max_part, the part-name computation of
   writer.write_multi, util.join_path, util.path_string and api.PART_ID (PqGen.GenPartNames, translators/partnames2coq.py).

   The theorems tie the regenerated functions to the hand models of Dataset/FsPaths.v that every theorem of C07 / C09 /
   C19 about file names is stated with (so those theorems hold for the code as it is NOW), and re-prove the one fact
   all of them rest on directly on the regenerated text: a file name the append computes is never a referenced one.   *)
From Coq Require Import NArith Arith List Lia Bool.
From Pq Require Import Base.Bytes Dataset.FS Dataset.FsPaths Dataset.Ops Dataset.PathPrelude Proofs.OpsProofs.
From PqGen Require Import GenPartNames.
Import ListNotations.
Open Scope N_scope.

(* writer.find_max_part (regenerated) applied to the ids of the referenced paths = FsPaths.find_max_part *)
Theorem gen_find_max_part_is_model : forall refs l,
  part_ids refs = Some l -> find_max_part refs = Some (gen_find_max_part l).
Proof.
  intros refs l H. unfold find_max_part, gen_find_max_part. rewrite H.
  destruct l as [|n r]; unfold py_truthy, py_max; cbv beta iota; f_equal; lia.
Qed.
Print Assumptions gen_find_max_part_is_model.

(* the regenerated part-file name of row group i = FsPaths.part_name (i + offset) *)
Theorem gen_part_name_is_model : forall i off, gen_part_name i off = part_name (i + off).
Proof.
  intros i off. unfold gen_part_name.
  (* the number may be written i + i_offset, i_offset + i, ... : normalise it, then the texts must agree literally *)
  match goal with |- py_fmt_i ?p ?s ?n = _ => replace n with (i + off) by lia end.
  reflexivity.
Qed.
Print Assumptions gen_part_name_is_model.

(* a fresh dataset numbers its files from 0; an append from the regenerated find_max_part *)
Theorem gen_i_offset_cases : forall l, gen_i_offset false l = 0 /\ gen_i_offset true l = gen_find_max_part l.
Proof. intros l. unfold gen_i_offset. split; reflexivity || lia. Qed.
Print Assumptions gen_i_offset_cases.

(* FRESH NAMES on the regenerated text: whatever row-group number i and partition directory d (free of newlines), the
   file the append creates is none of the referenced files - for EVERY list of referenced paths *)
Theorem gen_names_fresh : forall refs l i d,
  part_ids refs = Some l -> good_dir d = true ->
  ~ In (join d (gen_part_name i (gen_i_offset true l))) refs.
Proof.
  intros refs l i d Hl Hd Hin.
  destruct (gen_i_offset_cases l) as [_ Ho]. rewrite Ho in Hin.
  pose proof (gen_find_max_part_is_model refs l Hl) as Hm.
  rewrite gen_part_name_is_model in Hin.
  destruct (find_max_part_bound refs _ Hm _ Hin) as [m [Hid Hlt]].
  rewrite (part_id_join d _ Hd) in Hid. inversion Hid. lia.
Qed.
Print Assumptions gen_names_fresh.

(* and none of the two summary files *)
Theorem gen_names_not_summary : forall i off d, good_dir d = true ->
  join d (gen_part_name i off) <> md_name /\ join d (gen_part_name i off) <> cmd_name.
Proof.
  intros i off d Hd. rewrite gen_part_name_is_model.
  destruct part_id_md as [H1 H2].
  split; intros E; pose proof (part_id_join d (i + off) Hd) as P; rewrite E in P; congruence.
Qed.
Print Assumptions gen_names_not_summary.

(* the regular expression is the one FsPaths.part_id mirrors (inventory; part_id itself is tied to PART_ID.match by the
   function-against-function correspondence of the C19 check) *)
Theorem gen_part_re_is_pinned : gen_part_re = pinned_part_re.
Proof. reflexivity. Qed.
Print Assumptions gen_part_re_is_pinned.

(* util.join_path (regenerated) on a directory and a file name = FsPaths.join, for text without '\' whose components
   do not end with '/' (partition directories and part names never do) *)
Lemma replace1_id a b s : ~ In a s -> py_replace1 a b s = s.
Proof.
  unfold py_replace1. induction s as [|x r IH]; intros H; [reflexivity|].
  cbn [map]. destruct (N.eqb_spec x a) as [E|E]; [exfalso; apply H; left; exact E|].
  f_equal. apply IH. intros Hin. apply H. right. exact Hin.
Qed.

Lemma rstrip1_id c s : no_trailing c s -> py_rstrip1 c s = s.
Proof.
  unfold no_trailing, py_rstrip1. destruct (rev s) as [|x r] eqn:E; intros H.
  - cbn. apply (f_equal (@rev N)) in E. rewrite rev_involutive in E. now rewrite E.
  - cbn [drop_while_eq]. rewrite H. rewrite <- E. apply rev_involutive.
Qed.

Theorem gen_join_path_is_model : forall d f,
  ~ In 92 d -> ~ In 92 f -> no_trailing 47 d -> no_trailing 47 f -> f <> [] ->
  gen_join_path [d; f] = join d f.
Proof.
  intros d f Hd Hf Td Tf Hne. unfold gen_join_path, join.
  destruct d as [|x d']; destruct f as [|y f']; try congruence;
    cbn [filter py_truthy map py_join];
    rewrite ?replace1_id by assumption; rewrite ?rstrip1_id by (rewrite ?replace1_id by assumption; assumption);
    reflexivity.
Qed.
Print Assumptions gen_join_path_is_model.

(* util.path_string: one function gives the text of a partition value both when a directory is named and when overwrite
   looks for the partitions to replace (fix e42523f); on values that are not timestamps it is str *)
Theorem gen_path_string_cases : forall (V : Type) (is_ts : V -> bool) (iso str : V -> bytes) o,
  (is_ts o = false -> gen_path_string is_ts iso str o = str o) /\ (is_ts o = true -> gen_path_string is_ts iso str o = iso o).
Proof. intros V is_ts iso str o. unfold gen_path_string. split; intros H; rewrite H; reflexivity. Qed.
Print Assumptions gen_path_string_cases.

Example gen_paths_nonvacuous :
  gen_find_max_part [0; 10; 9] = 11 /\ gen_part_name 2 11 = part_name 13 /\
  gen_join_path [[107; 61; 49]; gen_part_name 0 0] = [107; 61; 49; 47] ++ part_name 0 /\
  gen_join_path [[]; gen_part_name 0 0] = part_name 0.
Proof. vm_compute. repeat split; reflexivity. Qed.
