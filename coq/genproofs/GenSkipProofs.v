(* Re-proved on every run against the REGENERATED text of core.skip_definition_bytes (PqGen.GenSkip):
   the cursor displacement equals the length of the definition-level block that the writer emits for a
   page without nulls (data page v1): 4-byte length + varint(num << 1) + one value byte - for EVERY num.
   The 64 / 8192 / 2^20 ... framing boundaries of the quantifier are instances.                       *)
From Coq Require Import NArith Arith List Lia Bool.
From Pq Require Import Base.Bytes Codec.Varint Impl.While Proofs.WhileProofs.
From PqGen Require Import GenSkip.
Open Scope N_scope.

(* fold closed arithmetic that a rewritten source may leave behind (2 ^ 6, 0 + 4 + 2, ...) *)
Ltac closedP p := lazymatch p with xH => idtac | xO ?q => closedP q | xI ?q => closedP q end.
Ltac closedN k := lazymatch k with N0 => idtac | Npos ?p => closedP p end.
Ltac fold_consts :=
  repeat match goal with
  | |- context [N.pow ?a ?b] => closedN a; closedN b; let v := eval vm_compute in (N.pow a b) in change (N.pow a b) with v
  | |- context [N.add ?a ?b] => closedN a; closedN b; let v := eval vm_compute in (N.add a b) in change (N.add a b) with v
  | |- context [N.mul ?a ?b] => closedN a; closedN b; let v := eval vm_compute in (N.mul a b) in change (N.mul a b) with v
  end.

Theorem skip_is_block_len : forall num,
  skip_definition_bytes num = Some (4 + N.of_nat (length (uleb_enc (2 * num))) + 1).
Proof.
  intros num. unfold skip_definition_bytes. cbv zeta.
  rewrite ?N.shiftr_div_pow2, ?N.shiftl_mul_pow2. fold_consts.
  erewrite (while_ext _ vcond _ (vbody 1 128)).
  - replace (num / 64) with ((2 * num) / 128) by
      (change 128 with (2 * 64); rewrite N.div_mul_cancel_l by lia; reflexivity).
    rewrite loop_uleb_enc by (pose proof (size_double_le num); lia).
    assert (1 <= N.of_nat (length (uleb_enc (2 * num)))).
    { unfold uleb_enc. destruct (N.to_nat (N.size (2 * num))); cbn [uleb_enc_f]; [cbn; lia|].
      destruct (2 * num <? 128); cbn [length]; lia. }
    f_equal. lia.
  - intros [c n]. unfold vcond. cbn [snd]. rewrite ?N.shiftr_div_pow2. reflexivity.
  - intros [c n]. unfold vbody. cbn [fst snd]. rewrite ?N.shiftr_div_pow2. reflexivity.
Qed.
Print Assumptions skip_is_block_len.

Example skip_nonvacuous :
  skip_definition_bytes 0 = Some 6 /\ skip_definition_bytes 63 = Some 6 /\ skip_definition_bytes 64 = Some 7
  /\ skip_definition_bytes 8191 = Some 7 /\ skip_definition_bytes 8192 = Some 8.
Proof. repeat split; vm_compute; reflexivity. Qed.
