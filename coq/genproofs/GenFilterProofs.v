(* C05 tie: soundness of the leaf decisions re-proved on the text translators/py2coq.py regenerates
   from fastparquet/api.py on every run (PqGen.GenFilter).  Same script as
   theories/Proofs/FilterLeafProofs.v; nothing in it depends on the shape of the code. *)
From Coq Require Import ZArith List String Bool Lia.
From Pq Require Import Base.PyVal Impl.Filter Proofs.PyValProofs Proofs.PyValStrProofs Proofs.FilterTactics Proofs.FilterTacticsStr Proofs.FilterProofs.
From PqGen Require Import GenFilter.
Import ListNotations.
Open Scope string_scope.
Open Scope Z_scope.

Theorem leaf_scalar_int_sound : forall op, In op scalar_ops -> forall v vmin vmax z,
  lo_ok_int vmin z -> hi_ok_int vmax z ->
  ok_true (filter_val (PStr op) (PInt v) vmin vmax) = true -> sat op (PInt z) (PInt v) = false.
Proof.
  intros op Hop. cbn [scalar_ops In] in Hop.
  repeat (destruct Hop as [<-|Hop];
          [intros v vmin vmax z Hlo Hhi H;
           match goal with |- sat ?o _ _ = _ =>
             assert (forall lo hi, lo_core lo z -> hi_core hi z ->
                       ok_true (filter_val (PStr o) (PInt v) lo hi) = true -> sat o (PInt z) (PInt v) = false) as core
               by (clear; intros lo hi Hlo Hhi H; core_shapes Hlo Hhi; solve [leaf_scalar_int H])
           end;
           solve [lift_core core Hlo Hhi H]|]).
  contradiction.
Qed.

Theorem leaf_in_int_sound : forall vs vmin vmax z,
  lo_ok_int vmin z -> hi_ok_int vmax z ->
  ok_true (filter_val (PStr "in") (ints vs) vmin vmax) = true -> sat "in" (PInt z) (ints vs) = false.
Proof.
  intros vs vmin vmax z Hlo Hhi H.
  assert (forall lo hi, lo_core lo z -> hi_core hi z ->
            ok_true (filter_val (PStr "in") (ints vs) lo hi) = true -> sat "in" (PInt z) (ints vs) = false) as core
    by (clear; intros lo hi Hlo Hhi H; core_shapes Hlo Hhi; solve [leaf_list_int H]).
  solve [lift_core core Hlo Hhi H].
Qed.

Theorem leaf_not_in_int_sound : forall vs vmin vmax z,
  lo_ok_int vmin z -> hi_ok_int vmax z ->
  ok_true (filter_val (PStr "not in") (ints vs) vmin vmax) = true -> sat "not in" (PInt z) (ints vs) = false.
Proof.
  intros vs vmin vmax z Hlo Hhi H.
  assert (forall lo hi, lo_core lo z -> hi_core hi z ->
            ok_true (filter_val (PStr "not in") (ints vs) lo hi) = true -> sat "not in" (PInt z) (ints vs) = false) as core
    by (clear; intros lo hi Hlo Hhi H; core_shapes Hlo Hhi; solve [leaf_list_int H]).
  solve [lift_core core Hlo Hhi H].
Qed.

(* ---------- str cells ------------------------------------------------------------------------ *)

Theorem leaf_scalar_str_sound : forall op, In op scalar_ops -> forall v vmin vmax z,
  lo_ok_str vmin z -> hi_ok_str vmax z ->
  ok_true (filter_val (PStr op) (PStr v) vmin vmax) = true -> sat op (PStr z) (PStr v) = false.
Proof.
  intros op Hop. cbn [scalar_ops In] in Hop.
  repeat (destruct Hop as [<-|Hop];
          [intros v vmin vmax z Hlo Hhi H;
           match goal with |- sat ?o _ _ = _ =>
             assert (forall lo hi, slo_core lo z -> shi_core hi z ->
                       ok_true (filter_val (PStr o) (PStr v) lo hi) = true -> sat o (PStr z) (PStr v) = false) as core
               by (clear; intros lo hi Hlo Hhi H; score_shapes Hlo Hhi; solve [sleaf_scalar H])
           end;
           solve [slift_core core Hlo Hhi H]|]).
  contradiction.
Qed.

Theorem leaf_in_str_sound : forall vs vmin vmax z,
  lo_ok_str vmin z -> hi_ok_str vmax z ->
  ok_true (filter_val (PStr "in") (strs vs) vmin vmax) = true -> sat "in" (PStr z) (strs vs) = false.
Proof.
  intros vs vmin vmax z Hlo Hhi H.
  assert (forall lo hi, slo_core lo z -> shi_core hi z ->
            ok_true (filter_val (PStr "in") (strs vs) lo hi) = true -> sat "in" (PStr z) (strs vs) = false) as core
    by (clear; intros lo hi Hlo Hhi H; score_shapes Hlo Hhi; solve [sleaf_list H]).
  solve [slift_core core Hlo Hhi H].
Qed.

Theorem leaf_not_in_str_sound : forall vs vmin vmax z,
  lo_ok_str vmin z -> hi_ok_str vmax z ->
  ok_true (filter_val (PStr "not in") (strs vs) vmin vmax) = true -> sat "not in" (PStr z) (strs vs) = false.
Proof.
  intros vs vmin vmax z Hlo Hhi H.
  assert (forall lo hi, slo_core lo z -> shi_core hi z ->
            ok_true (filter_val (PStr "not in") (strs vs) lo hi) = true -> sat "not in" (PStr z) (strs vs) = false) as core
    by (clear; intros lo hi Hlo Hhi H; score_shapes Hlo Hhi; solve [sleaf_list H]).
  solve [slift_core core Hlo Hhi H].
Qed.

Definition all_ops (op : string) : Prop := In op ops.

Theorem leaf_all_sound : leaf_sound all_ops filter_val.
Proof.
  intros op c vmin vmax x Hop [[z [-> [Hc [Hlo Hhi]]]]|[z [-> [Hc [Hlo Hhi]]]]] H.
  - destruct Hc as [[Hs [v ->]]|[Hl [vs ->]]].
    + exact (leaf_scalar_int_sound op Hs v vmin vmax z Hlo Hhi H).
    + cbn [list_ops In] in Hl. destruct Hl as [<-|[<-|[]]].
      * exact (leaf_in_int_sound vs vmin vmax z Hlo Hhi H).
      * exact (leaf_not_in_int_sound vs vmin vmax z Hlo Hhi H).
  - destruct Hc as [[Hs [v ->]]|[Hl [vs ->]]].
    + exact (leaf_scalar_str_sound op Hs v vmin vmax z Hlo Hhi H).
    + cbn [list_ops In] in Hl. destruct Hl as [<-|[<-|[]]].
      * exact (leaf_in_str_sound vs vmin vmax z Hlo Hhi H).
      * exact (leaf_not_in_str_sound vs vmin vmax z Hlo Hhi H).
Qed.

(* ---------- totality: well-typed arguments never make the decision raise --------------------- *)

Theorem leaf_total_int : forall op c vmin vmax z, In op ops -> const_ok_int op c ->
  lo_ok_int vmin z -> hi_ok_int vmax z -> exists b, filter_val (PStr op) c vmin vmax = Ok b.
Proof.
  intros op c vmin vmax z Hop Hc Hlo Hhi.
  assert (forall lo hi, lo_core lo z -> hi_core hi z -> exists b, filter_val (PStr op) c lo hi = Ok b) as core.
  { clear Hlo Hhi vmin vmax. intros lo hi Hlo Hhi.
    destruct Hc as [[Hs [v ->]]|[Hl [vs ->]]].
    - cbn [scalar_ops In] in Hs.
      repeat (destruct Hs as [<-|Hs]; [clear Hop; core_shapes Hlo Hhi; solve [split_res]|]). contradiction.
    - cbn [list_ops In] in Hl.
      repeat (destruct Hl as [<-|Hl]; [clear Hop; core_shapes Hlo Hhi; solve [split_res]|]). contradiction. }
  lift_total core Hlo Hhi.
Qed.

Theorem leaf_total_str : forall op c vmin vmax z, In op ops -> const_ok_str op c ->
  lo_ok_str vmin z -> hi_ok_str vmax z -> exists b, filter_val (PStr op) c vmin vmax = Ok b.
Proof.
  intros op c vmin vmax z Hop Hc Hlo Hhi.
  assert (forall lo hi, slo_core lo z -> shi_core hi z -> exists b, filter_val (PStr op) c lo hi = Ok b) as core.
  { clear Hlo Hhi vmin vmax. intros lo hi Hlo Hhi.
    destruct Hc as [[Hs [v ->]]|[Hl [vs ->]]].
    - cbn [scalar_ops In] in Hs.
      repeat (destruct Hs as [<-|Hs]; [clear Hop; score_shapes Hlo Hhi; solve [ssplit_res]|]). contradiction.
    - cbn [list_ops In] in Hl.
      repeat (destruct Hl as [<-|Hl]; [clear Hop; score_shapes Hlo Hhi; solve [ssplit_res]|]). contradiction. }
  lift_total core Hlo Hhi.
Qed.

Theorem leaf_all_total : forall op c vmin vmax x, In op ops -> covered op c vmin vmax x ->
  exists b, filter_val (PStr op) c vmin vmax = Ok b.
Proof.
  intros op c vmin vmax x Hop [[z [-> [Hc [Hlo Hhi]]]]|[z [-> [Hc [Hlo Hhi]]]]].
  - exact (leaf_total_int op c vmin vmax z Hop Hc Hlo Hhi).
  - exact (leaf_total_str op c vmin vmax z Hop Hc Hlo Hhi).
Qed.

(* the row-group level theorem instantiated with the regenerated leaf *)
Theorem gen_prune_sound : forall (R : Type) (cell : R -> string -> pv) conv known rgs f kept,
  prog_good all_ops (normalize f) ->
  (forall rg, In rg rgs -> rg_valid R cell conv (normalize f) rg) ->
  filter_row_groups R filter_val conv known rgs f = Ok kept ->
  (exists keepf, kept = filter keepf rgs) /\
  (forall rg r, In rg rgs -> In r (rg_rows rg) -> sat_dnf R cell r (normalize f) = true -> In rg kept).
Proof. intros R cell conv. exact (prune_sound R cell filter_val conv all_ops leaf_all_sound). Qed.
Print Assumptions leaf_all_sound.
Print Assumptions gen_prune_sound.
