(* C05 — "fresh bounds per column": what the regenerated filter_out_stats does for one column does not depend on
   the state the iterations over the earlier columns left behind (the position of `vmax, vmin = None, None`:
   when the reset is hoisted out of the loop over rg.columns the bounds become loop-carried and this fails). *)
From Coq Require Import ZArith List String.
From Pq Require Import Base.PyVal Base.PyObj.
From PqGen Require Import GenFilterLoop.

Theorem gen_bounds_fresh_per_column : forall ext filter_val, filter_out_stats_loop1_fresh ext filter_val.
Proof.
  unfold filter_out_stats_loop1_fresh. intros.
  repeat match goal with s : unit |- _ => destruct s end. reflexivity.
Qed.
Print Assumptions gen_bounds_fresh_per_column.

(* ... and likewise for the partition directories of filter_out_cats *)
Theorem gen_cats_fresh_per_directory : forall ext filter_val, filter_out_cats_loop1_fresh ext filter_val.
Proof.
  unfold filter_out_cats_loop1_fresh. intros.
  repeat match goal with s : unit |- _ => destruct s end. reflexivity.
Qed.
