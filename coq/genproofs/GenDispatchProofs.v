(* Re-proved on every run against the REGENERATED text of encoding.read_plain / DECODE_TYPEMAP and of the
   index-decoder dispatch of core.read_data_page / read_data_page_v2 (PqGen.GenDispatch, translators/dispatch2coq.py).

   1. read_plain picks, for every physical type of the format, the decoder the format prescribes - and therefore
      (plain_leaf_correct, hand-proved over the impl models of the native codecs) returns the PLAIN decoding of the page.
   2. each of the three (bit width, selfmade) chains is ADEQUATE on the whole width lattice 0..32 x {foreign, selfmade}:
      own pages (one bit-packed run of whole bytes, 8/16/32 bits) take the array view, every other width goes to the
      generic decoder with an item that holds the width and with the SAME item size for the allocation and for the
      decoder, width 0 needs no decoder - and therefore (generic_leaf_correct / fast_leaf_correct) every page that can
      arrive at a leaf decodes to the spec values and the decoder writes at most the bytes the caller allocated.
   3. the DELTA_BINARY_PACKED caller allocates items of the size it tells the decoder.                          *)
From Coq Require Import NArith Arith List Bool Lia.
From Pq Require Import Base.Bytes Base.Err Base.ListX Codec.Varint Codec.Hybrid Codec.Plain Impl.CBitpack Impl.CHybrid
  Impl.PyPack Impl.Dispatch Proofs.HybridProofs Proofs.CBitpackProofs Proofs.CHybridProofs Proofs.CPlainProofs
  Proofs.DispatchProofs Proofs.ListXProofs Proofs.CodecProofs Proofs.CBoolProofs Codec.Bitpack.
From PqGen Require Import GenDispatch.
Import ListNotations.
Open Scope N_scope.

(* ---- 1. encoding.read_plain ---------------------------------------------------------------------------------- *)
(* guards: a FIXED_LEN_BYTE_ARRAY page has a width (only statistics values come without: exactly one value) *)
Theorem read_plain_dispatch_is_spec : forall t count width rawlen utf stat,
  t <= 7 ->
  (t = 7 -> stat = false -> width <> 0 \/ count <> 1) ->
  (t = 7 -> stat = true -> count = 1) ->
  read_plain_dispatch t count width rawlen utf stat = spec_plain_dispatch t count width rawlen utf stat.
Proof.
  intros t count width rawlen utf stat Ht G1 G2.
  assert (Hc : t = 0 \/ t = 1 \/ t = 2 \/ t = 3 \/ t = 4 \/ t = 5 \/ t = 6 \/ t = 7) by lia.
  destruct Hc as [E|[E|[E|[E|[E|[E|[E|E]]]]]]]; subst t;
    unfold read_plain_dispatch, spec_plain_dispatch, in_tab, tab_get, decode_typemap, plain_width;
    cbn [assocN N.eqb Pos.eqb andb orb negb];
    destruct stat, utf; cbn [andb orb negb]; try reflexivity.
  all: try (rewrite (G2 eq_refl eq_refl); cbn; reflexivity).
  all: destruct (G1 eq_refl eq_refl) as [Hw|Hc];
    [apply N.eqb_neq in Hw; rewrite Hw | apply N.eqb_neq in Hc; rewrite Hc]; cbn; rewrite ?andb_false_r; reflexivity.
Qed.
Print Assumptions read_plain_dispatch_is_spec.

Theorem read_plain_correct : forall t count width utf stat raw,
  t <= 7 -> bytes_ok raw ->
  (t = 7 -> stat = false -> width <> 0 \/ count <> 1) ->
  (t = 7 -> stat = true -> count = 1) ->
  (t = 0 -> (count + 7) / 8 <= lenN raw) ->
  (t = 6 -> stat = false -> exists xs, raw = ba_enc xs /\ count = N.of_nat (length xs) /\ Forall item_ok xs) ->
  run_pdec (read_plain_dispatch t count width (lenN raw) utf stat) raw = spec_plain t count width stat raw.
Proof.
  intros t count width utf stat raw Ht Hok G1 G2 Hb Hba.
  rewrite read_plain_dispatch_is_spec by assumption.
  apply plain_leaf_correct; assumption.
Qed.
Print Assumptions read_plain_correct.

(* encoding.read_plain_boolean (count handed to read_bitpacked1, allocation of the output array, returned slice - all three
   regenerated): the PLAIN boolean decoding of the page, every count, every page holding at least ceil(count/8) bytes *)
Theorem read_plain_boolean_gen_correct : forall raw count,
  bytes_ok raw -> (count + 7) / 8 <= N.of_nat (length raw) ->
  read_plain_boolean_gen raw count = Ok (bool_dec count raw).
Proof.
  intros raw count Hok Hlen. unfold read_plain_boolean_gen.
  rewrite read_bitpacked1_correct by (try exact Hok; rewrite ?N.min_id; exact Hlen).
  cbn [d_vals]. rewrite ?N.min_id. f_equal.
  rewrite takeN_ok. apply firstn_all2. unfold bool_dec. rewrite bp_dec_length. lia.
Qed.
Print Assumptions read_plain_boolean_gen_correct.

(* ---- 2. the index decoders ----------------------------------------------------------------------------------- *)
Theorem v1_index_dispatch_adequate : dispatch_adequate (v1_index_dispatch true) = true.
Proof. vm_compute. reflexivity. Qed.
Print Assumptions v1_index_dispatch_adequate.

Theorem v2_cat_dispatch_adequate : dispatch_adequate (v2_cat_dispatch true) = true.
Proof. vm_compute. reflexivity. Qed.
Print Assumptions v2_cat_dispatch_adequate.

Theorem v2_deref_dispatch_adequate : dispatch_adequate (v2_deref_dispatch true) = true.
Proof. vm_compute. reflexivity. Qed.
Print Assumptions v2_deref_dispatch_adequate.

Definition chains : list (N -> bool -> bool -> idec) := [v1_index_dispatch true; v2_cat_dispatch true; v2_deref_dispatch true].

Lemma chains_adequate f : In f chains -> dispatch_adequate f = true.
Proof.
  intros [<-|[<-|[<-|[]]]]; [apply v1_index_dispatch_adequate | apply v2_cat_dispatch_adequate | apply v2_deref_dispatch_adequate].
Qed.

(* every page reader, every width 0..32, foreign or self-made, one bit-packed run or any other run structure: the leaf
   that is reached decodes what can arrive there *)
Theorem index_decoders_correct : forall f w selfmade one_run, In f chains -> w <= 32 ->
  match f w selfmade one_run with
  | DFast =>
      selfmade = true /\ own_width w = true /\ one_run = true /\
      forall k h vals, w = 8 * N.of_nat k -> h < 2 ^ 64 -> Forall (fun v => v < 256 ^ N.of_nat k) vals ->
        fast_read w (uleb_enc h ++ fixed_enc k vals) (N.of_nat (length vals)) = Some vals
  | DGeneric a isz =>
      takes_view w selfmade one_run = false /\ 0 < w <= 8 * isz /\
      forall n rs, Forall (irun_ok w isz) rs -> rs <> [] ->
        exists r, c_read_hybrid (hyb_enc w rs) w (lenN (hyb_enc w rs)) (n * a) isz = Ok r /\
                  d_vals r = map (tr isz) (firstn (N.to_nat (N.min (lenN (allvals rs)) n)) (allvals rs)) /\
                  d_written r = isz * N.min (lenN (allvals rs)) n /\
                  d_written r <= n * a
  | DZeros => w = 0
  | DNone => False
  end.
Proof.
  intros f w sm one Hf Hw.
  pose proof (dispatch_adequate_spec f (chains_adequate f Hf) w sm one Hw) as Had.
  pose proof (adequate_facts w sm one (f w sm one) Had) as F.
  destruct (f w sm one) as [|a isz| |] eqn:E.
  - destruct F as [F1 [F2 F3]]. repeat split; try assumption.
    intros k h vals -> Hh Hv.
    assert (Hk : (k = 1 \/ k = 2 \/ k = 4)%nat).
    { unfold own_width in F2. apply orb_prop in F2. destruct F2 as [F2|F2]; [apply orb_prop in F2; destruct F2 as [F2|F2]|];
        apply N.eqb_eq in F2; lia. }
    apply fast_leaf_correct; assumption.
  - destruct F as [-> [Hisz [Hwr Hown]]]. repeat split; try assumption; try (apply Hwr).
    intros n rs Hrs Hne. apply (generic_leaf_correct w sm one isz isz n rs Had Hrs Hne).
  - exact F.
  - exact F.
Qed.
Print Assumptions index_decoders_correct.

(* a self-made page of whole bytes in ONE bit-packed run (what encode_dict writes: unpadded, up to 32 bits) never reaches the
   generic decoder; any other run structure never takes the view, whatever created_by says *)
Theorem own_pages_take_the_view : forall f w, In f chains -> own_width w = true ->
  f w true true = DFast /\ f w true false <> DFast /\ f w false true <> DFast.
Proof.
  intros f w Hf Ho.
  assert (Hw : w <= 32).
  { unfold own_width in Ho. apply orb_prop in Ho. destruct Ho as [Ho|Ho]; [apply orb_prop in Ho; destruct Ho as [Ho|Ho]|];
      apply N.eqb_eq in Ho; lia. }
  pose proof (fun sm one => adequate_facts w sm one (f w sm one) (dispatch_adequate_spec f (chains_adequate f Hf) w sm one Hw)) as F.
  repeat split.
  - specialize (F true true). destruct (f w true true) as [|a isz| |]; [reflexivity| | |contradiction].
    + destruct F as [_ [_ [_ Hn]]]. unfold takes_view in Hn. rewrite Ho in Hn. discriminate.
    + subst w. discriminate.
  - specialize (F true false). intros E. rewrite E in F. destruct F as [_ [_ F]]. discriminate.
  - specialize (F false true). intros E. rewrite E in F. destruct F as [F _]. discriminate.
Qed.
Print Assumptions own_pages_take_the_view.

(* core._is_one_bitpacked_run says `one run` exactly when the header is a bit-packed run header (odd) whose groups hold at least
   the page's values - only then are the nval whole-byte indices the little-endian integers right behind the header *)
Theorem one_run_check_spec : forall header nval,
  one_run_check header nval = true <-> (header mod 2 = 1 /\ nval <= 8 * (header / 2)).
Proof.
  intros header nval. unfold one_run_check.
  rewrite ?N.shiftr_div_pow2. change (2 ^ 1) with 2.
  assert (L : N.land header 1 = header mod 2) by (change 1 with (N.ones 1); rewrite N.land_ones; reflexivity).
  rewrite ?L.
  pose proof (N.mod_upper_bound header 2 ltac:(lia)) as Hm.
  (* whatever way the source spells the two comparisons *)
  repeat match goal with
  | |- context [?a =? ?b] => destruct (N.eqb_spec a b)
  | |- context [?a <=? ?b] => destruct (N.leb_spec a b)
  | |- context [?a <? ?b] => destruct (N.ltb_spec a b)
  end; cbn [negb andb orb]; split; intros Hx; try discriminate; try (destruct Hx); try split; try lia; try reflexivity.
Qed.
Print Assumptions one_run_check_spec.

(* ---- 3. DELTA_BINARY_PACKED: the allocation's item size is the one the decoder is told ------------------------ *)
Theorem v1_delta_alloc_consistent : forall t,
  fst (v1_delta_alloc t) = if snd (v1_delta_alloc t) then 8 else 4.
Proof. intros t. unfold v1_delta_alloc. cbn [fst snd]. destruct (t =? 2); reflexivity. Qed.
Print Assumptions v1_delta_alloc_consistent.

Example dispatch_nonvacuous :
  v1_index_dispatch true 32 true true = DFast /\ v2_cat_dispatch true 32 true true = DFast /\ v2_deref_dispatch true 32 true true = DFast /\
  v1_index_dispatch true 9 false false = DGeneric 4 4 /\ v2_cat_dispatch true 8 false true = DGeneric 1 1 /\
  v2_deref_dispatch true 16 true false = DGeneric 4 4 /\
  read_plain_dispatch 6 5 0 100 false false = PUnpack 5 false /\ read_plain_dispatch 3 5 0 100 false false = PFixed 12 5.
Proof. repeat split; vm_compute; reflexivity. Qed.
