(* STATIC clauses over the regenerated inventory (translators/sharedstate.py -> PqGen.SharedInv), re-proved on every run.
   These clauses are HEURISTICS over write sites / keyed memos; none of them is a premise the confluence theorems are instantiated
   with (that premise is table_disciplined of GenOpReadsProofs.v, which is a hard obligation).  They are ADVISORY for the verdict: a clause that no longer holds is recorded, starts the site search, and only a concrete
   divergent run makes the check report a violation (a new module-level cache is not by itself a violation of "threads
   using ONE handle obtain what they obtain alone").  While they hold they are obligations like any other. *)
From Coq Require Import NArith List Bool String.
From Pq Require Import Conc.Interleave Conc.Footprint Proofs.FootprintProofs.
From PqGen Require Import SharedInv.
Import ListNotations.

(* no store into module-level / default-argument / class-level state after import time follows a refuted pattern *)
Theorem inv_sites_static_ok : forallb site_static_ok inv_sites = true.
Proof. vm_compute. reflexivity. Qed.

Theorem inv_static_shared_sites_not_refuted : forall s, In s inv_sites ->
  s_import s = false -> base_static_shared (s_base s) = true -> pat_refuted (s_pat s) = false.
Proof.
  intros s Hin Hi Hb. pose proof inv_sites_static_ok as H. rewrite forallb_forall in H.
  destruct (site_static_ok_spec s (H s Hin)) as [X|[X|X]]; congruence.
Qed.

(* every keyed memo store into a container that outlives the call stores a FUNCTION OF THE KEY: what the guarded block
   computes the value from is named by the key expression (or is the owner of the container), and the key uses no identity /
   rendering (id, repr, str, hash) - the premise under which a check-then-act store is an idempotent publication
   (C20_check_then_act_confluent; refuted otherwise: C20_key_not_determining_refuted) *)
Theorem inv_memo_keys_determine_values : forallb memo_key_ok inv_memo_keys = true.
Proof. vm_compute. reflexivity. Qed.
