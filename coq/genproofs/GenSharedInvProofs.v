(* Proofs over the inventory of shared state REGENERATED from the fastparquet sources on every run
   (translators/sharedstate.py -> PqGen.SharedInv).  Compiled per run with -Q <gen_dir> PqGen.
   Hard obligations only: the tables are well formed.  The static footprint clauses live in GenSharedInvAdvisory.v. *)
From Coq Require Import NArith List Bool String.
From Pq Require Import Conc.Interleave Conc.Footprint Proofs.FootprintProofs.
From PqGen Require Import SharedInv.
Import ListNotations.

Theorem inv_location_ids_distinct : ids_distinct (map l_id inv_locations) = true.
Proof. vm_compute. reflexivity. Qed.

Theorem inv_site_ids_distinct : ids_distinct (map s_id inv_sites) = true.
Proof. vm_compute. reflexivity. Qed.
