(* Proofs over the inventory of shared state REGENERATED from the fastparquet sources on every run
   (translators/sharedstate.py -> PqGen.SharedInv).  Compiled per run with -Q <gen_dir> PqGen. *)
From Coq Require Import NArith List Bool String.
From Pq Require Import Conc.Interleave Conc.Footprint Proofs.FootprintProofs.
From PqGen Require Import SharedInv.
Import ListNotations.

(* the tables are well formed: ids are keys *)
Theorem inv_location_ids_distinct : ids_distinct (map l_id inv_locations) = true.
Proof. vm_compute. reflexivity. Qed.

Theorem inv_site_ids_distinct : ids_distinct (map s_id inv_sites) = true.
Proof. vm_compute. reflexivity. Qed.

(* the static footprint condition holds for EVERY write site of the package: no store into module-level /
   default-argument / class-level state after import time follows a refuted pattern (augmented assignment,
   read-modify-write, set-and-restore, publish-then-update, delete, builtin mutating call) *)
Theorem inv_sites_static_ok : forallb site_static_ok inv_sites = true.
Proof. vm_compute. reflexivity. Qed.

Theorem inv_static_shared_sites_not_refuted : forall s, In s inv_sites ->
  s_import s = false -> base_static_shared (s_base s) = true -> pat_refuted (s_pat s) = false.
Proof.
  intros s Hin Hi Hb. pose proof inv_sites_static_ok as H. rewrite forallb_forall in H.
  destruct (site_static_ok_spec s (H s Hin)) as [X|[X|X]]; congruence.
Qed.
Print Assumptions inv_static_shared_sites_not_refuted.
