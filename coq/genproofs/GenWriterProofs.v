(* Re-proved on every run against the REGENERATED text of writer.make_definitions and writer.encode_dict
   (PqGen.GenWriter, translators/writer2coq.py: the header bytes assembled in the 10-byte NumpyIO scratch buffer - checked
   writes, so the capacity is part of the text - glued to the body):
     1. the regenerated functions ARE the blocks of Impl/WLevels.v (length prefix, run header arithmetic, value byte), for
        every row count below 2^62 / every mask / every list of codes: the scratch buffer never overflows;
     2. hence every block decodes through the SPEC hybrid decoder (strict or lenient, anything may follow) to the
        definition levels / the not-null mask / the dictionary codes - the round-trip and size theorems of the writer's
        encoders, on the text the repository holds now.                                                              *)
From Coq Require Import NArith Arith List Bool Lia.
From Coq Require Import ZArith.
From Pq Require Import Base.Bytes Base.ListX Codec.Varint Codec.Bitpack Codec.Hybrid Codec.Plain Impl.WLevels Impl.Dispatch
  Proofs.ListXProofs Proofs.CodecProofs Proofs.WLevelsProofs Proofs.DispatchProofs.
From PqGen Require Import GenWriter GenDispatch GenDispatchProofs.
Import ListNotations.
Open Scope N_scope.

Lemma shiftl1 x : N.shiftl x 1 = 2 * x.
Proof. rewrite N.shiftl_mul_pow2. change (2 ^ 1) with 2. lia. Qed.

Lemma lor_shiftl1 x : N.lor (N.shiftl x 1) 1 = 2 * x + 1.
Proof. destruct x as [|p]; reflexivity. Qed.

Lemma takeN_all {A} n (l : list A) : lenN l <= n -> takeN n l = l.
Proof. intros H. rewrite takeN_ok. apply firstn_all2. rewrite lenN_ok in H. lia. Qed.

Lemma uleb_len9 m : m < 2 ^ 63 -> (length (uleb_enc m) <= 9)%nat.
Proof. intros H. unfold uleb_enc. apply uleb_enc_f_len; [lia|]. exact H. Qed.

Lemma header_fits m : m < 2 ^ 63 -> lenN (uleb_enc m ++ [1]) <= 10.
Proof. intros H. rewrite lenN_ok, app_length. cbn [length]. pose proof (uleb_len9 m H). lia. Qed.

(* ---- 1. regenerated text = the blocks of Impl/WLevels.v ------------------------------------------------------- *)
Theorem gen_defs_nonull_is_block : forall version n (mask : bytes), n < 2 ^ 62 ->
  gen_make_definitions true version n mask = if version =? 1 then wr_defs_nonull_v1 n else wr_defs_nonull_v2 n.
Proof.
  intros version n mask Hn. unfold gen_make_definitions. rewrite ?shiftl1. rewrite ?(N.mul_comm n 2).
  assert (H2 : 2 * n < 2 ^ 63) by (change (2 ^ 63) with (2 * 2 ^ 62); lia).
  rewrite !(takeN_all 10 _ (header_fits _ H2)).
  unfold wr_defs_nonull_v1, wr_defs_nonull_v2. rewrite lenN_ok. destruct (version =? 1); reflexivity.
Qed.
Print Assumptions gen_defs_nonull_is_block.

(* `packed` = encode_plain(data.notnull(), BOOLEAN): ANY byte string (the writer's boolean packing has its own theorem /
   relation: it decodes to the mask) *)
Definition nulls_body (packed : bytes) : bytes := uleb_enc (2 * N.of_nat (length packed) + 1) ++ packed.

Theorem gen_defs_nulls_is_block : forall version n packed, N.of_nat (length packed) < 2 ^ 61 ->
  gen_make_definitions false version n packed =
  if version =? 1 then le_enc 4 (N.of_nat (length (nulls_body packed))) ++ nulls_body packed else nulls_body packed.
Proof.
  intros version n packed Hm. unfold gen_make_definitions. rewrite ?lor_shiftl1.
  assert (Hh : 2 * lenN packed + 1 < 2 ^ 63).
  { rewrite lenN_ok. change (2 ^ 63) with (4 * 2 ^ 61). lia. }
  assert (Hf : lenN (uleb_enc (2 * lenN packed + 1)) <= 10).
  { rewrite lenN_ok. pose proof (uleb_len9 _ Hh). lia. }
  rewrite !(takeN_all 10 _ Hf).
  unfold nulls_body. rewrite !lenN_ok.
  destruct (version =? 1); [|reflexivity].
  rewrite app_length, Nat2N.inj_add, <- app_assoc. reflexivity.
Qed.
Print Assumptions gen_defs_nulls_is_block.

(* with the writer's own packing of the mask (Impl/WLevels.wr_bools) these are the blocks of Impl/WLevels.v *)
Theorem gen_defs_nulls_is_wlevels : forall version n mask, N.of_nat (length mask) < 2 ^ 61 ->
  gen_make_definitions false version n (wr_bools mask) = if version =? 1 then wr_defs_nulls_v1 mask else wr_defs_nulls_v2 mask.
Proof.
  intros version n mask Hm.
  assert (Hl : N.of_nat (length (wr_bools mask)) = N.of_nat (length mask) / 8 + 1) by apply wr_bools_length.
  assert (N.of_nat (length mask) / 8 <= N.of_nat (length mask)) by (apply N.div_le_upper_bound; lia).
  rewrite gen_defs_nulls_is_block by (rewrite Hl; change (2 ^ 61) with 2305843009213693952 in *; lia).
  reflexivity.
Qed.
Print Assumptions gen_defs_nulls_is_wlevels.

Theorem gen_encode_dict_is_block : forall k codes, N.of_nat (length codes) < 2 ^ 62 ->
  gen_encode_dict k codes = wr_dict_indices k codes.
Proof.
  intros k codes Hc. unfold gen_encode_dict. rewrite ?lor_shiftl1, ?lenN_ok.
  set (h := 2 * ((N.of_nat (length codes) + 7) / 8) + 1).
  assert (Hh : h < 2 ^ 63).
  { unfold h. assert ((N.of_nat (length codes) + 7) / 8 <= N.of_nat (length codes) + 7) by (apply N.div_le_upper_bound; lia).
    change (2 ^ 63) with (2 * 2 ^ 62). change (2 ^ 62) with 4611686018427387904 in *. lia. }
  rewrite takeN_all.
  - rewrite wr_dict_indices_shape. fold h. cbn [app]. rewrite (N.mul_comm (N.of_nat k) 8). reflexivity.
  - rewrite lenN_ok. cbn [app length]. pose proof (uleb_len9 h Hh). lia.
Qed.
Print Assumptions gen_encode_dict_is_block.

(* the buffer capacities that are part of the regenerated text (checked NumpyIO writes drop what does not fit) never bite: for
   EVERY page size below 2^31 rows, on BOTH branches, the block is the complete WLevels block - in particular on the nulls branch
   the run header varint(groups << 1 | 1) (1, 2, 3, ... bytes from 64, 8192, 2^20 ... groups) and every byte of the packed mask
   are there and the v1 length prefix counts all of them *)
Theorem gen_defs_capacity_suffices : forall version n mask, n < 2 ^ 31 -> N.of_nat (length mask) < 2 ^ 31 ->
  gen_make_definitions true version n (wr_bools mask) = (if version =? 1 then wr_defs_nonull_v1 n else wr_defs_nonull_v2 n) /\
  gen_make_definitions false version n (wr_bools mask) = (if version =? 1 then wr_defs_nulls_v1 mask else wr_defs_nulls_v2 mask) /\
  length (gen_make_definitions false 2 n (wr_bools mask)) =
    (length (uleb_enc (2 * (N.of_nat (length mask) / 8 + 1) + 1)) + N.to_nat (N.of_nat (length mask) / 8 + 1))%nat.
Proof.
  intros version n mask Hn Hm.
  assert (n < 2 ^ 62) by (eapply N.lt_trans; [exact Hn|reflexivity]).
  assert (N.of_nat (length mask) < 2 ^ 61) by (eapply N.lt_trans; [exact Hm|reflexivity]).
  split; [apply gen_defs_nonull_is_block; assumption|].
  split; [apply gen_defs_nulls_is_wlevels; assumption|].
  rewrite gen_defs_nulls_is_wlevels by assumption. cbn [N.eqb Pos.eqb].
  unfold wr_defs_nulls_v2. rewrite app_length.
  pose proof (wr_bools_length mask) as G. rewrite G.
  f_equal. rewrite <- G. rewrite Nat2N.id. reflexivity.
Qed.
Print Assumptions gen_defs_capacity_suffices.

(* ---- 1b. encode_dict and fastparquet's own reader ---------------------------------------------------------------- *)
(* the width byte is the item size k of what follows (the pandas codes or any whole-byte cast of them that holds them); the
   created_by-keyed shortcut of the page readers views the indices with core._index_dtype (REGENERATED: PqGen.GenDispatch.
   index_view_signed - signed or unsigned from the width and the dictionary's size): every code addresses the dictionary
   (c < n = len(dic)), so the view gives the codes back - whichever of the two representations the encoder chose *)
Theorem gen_encode_dict_own_reader : forall k codes n,
  (k = 1 \/ k = 2 \/ k = 4)%nat -> N.of_nat (length codes) < 2 ^ 62 ->
  Forall (fun c => c < n) codes -> n <= 2 ^ (8 * N.of_nat k) ->
  exists body, gen_encode_dict k codes = (8 * N.of_nat k) :: body /\
    option_map (map (view_value (index_view_signed (8 * N.of_nat k) (Some n)) k))
               (fast_read (8 * N.of_nat k) body (N.of_nat (length codes))) = Some (map Z.of_N codes).
Proof.
  intros k codes n Hk Hl Hc Hn. rewrite gen_encode_dict_is_block by exact Hl. rewrite wr_dict_indices_shape.
  eexists. split; [reflexivity|].
  assert (Hh : 2 * ((N.of_nat (length codes) + 7) / 8) + 1 < 2 ^ 64).
  { assert ((N.of_nat (length codes) + 7) / 8 <= N.of_nat (length codes) + 7) by (apply N.div_le_upper_bound; lia).
    change (2 ^ 64) with (4 * 2 ^ 62). change (2 ^ 62) with 4611686018427387904 in *. lia. }
  assert (Hc' : Forall (fun v => v < 256 ^ N.of_nat k) codes).
  { eapply Forall_impl; [|exact Hc]. intros a Ha.
    replace (256 ^ N.of_nat k) with (2 ^ (8 * N.of_nat k)) by (change 256 with (2 ^ 8); rewrite <- N.pow_mul_r; reflexivity).
    eapply N.lt_le_trans; [exact Ha | exact Hn]. }
  change (wr_codes k codes) with (fixed_enc k codes).
  rewrite (fast_leaf_correct k _ codes Hk Hh Hc'). cbn [option_map]. f_equal.
  apply map_ext_in. intros a Ha.
  rewrite Forall_forall in Hc. specialize (Hc a Ha).
  apply index_view_holds_every_index; assumption.
Qed.
Print Assumptions gen_encode_dict_own_reader.

(* ---- 2. round trips through the SPEC decoder, on the regenerated text ------------------------------------------ *)
Theorem gen_defs_nonull_roundtrip : forall strict n mask rest, 0 < n -> n < 2 ^ 62 ->
  hyb_dec_len strict 1 n (gen_make_definitions true 1 n mask ++ rest) = Some (repeat 1 (N.to_nat n), rest) /\
  hyb_dec strict 1 n (gen_make_definitions true 2 n mask ++ rest) = Some (repeat 1 (N.to_nat n), rest).
Proof.
  intros strict n mask rest H0 Hn. rewrite !gen_defs_nonull_is_block by exact Hn. cbn [N.eqb Pos.eqb].
  split; [apply defs_nonull_v1_dec | apply defs_nonull_v2_dec]; try assumption.
  eapply N.lt_trans; [exact Hn|]. reflexivity.
Qed.
Print Assumptions gen_defs_nonull_roundtrip.

(* nulls: ONE bit-packed run of width 1 whose header counts the bytes of `packed` as groups: the spec decoder (strict or
   lenient, anything may follow) returns exactly the PLAIN-boolean decoding of `packed` - for ANY packed bytes holding the n bits
   (so a different but valid padding of the mask changes nothing); with the writer's packing that is the mask itself *)
Theorem gen_defs_nulls_roundtrip_any : forall strict n n' packed rest,
  0 < n -> n <= 8 * N.of_nat (length packed) -> N.of_nat (length packed) < 2 ^ 28 ->
  hyb_dec_len strict 1 n (gen_make_definitions false 1 n' packed ++ rest) = Some (bp_dec 1 n packed, rest) /\
  hyb_dec strict 1 n (gen_make_definitions false 2 n' packed ++ rest) = Some (bp_dec 1 n packed, rest).
Proof.
  intros strict n n' packed rest H0 Hn Hl.
  assert (Hm : N.of_nat (length packed) < 2 ^ 61) by (eapply N.lt_trans; [exact Hl|reflexivity]).
  rewrite !gen_defs_nulls_is_block by exact Hm. cbn [N.eqb Pos.eqb].
  assert (D : forall r, hyb_dec strict 1 n (nulls_body packed ++ r) = Some (bp_dec 1 n packed, r)).
  { intros r. unfold nulls_body. rewrite <- app_assoc. rewrite hyb_dec_bp_single.
    - rewrite N.mul_1_r, takeN_app_exact, dropN_app_exact. reflexivity.
    - exact H0.
    - exact Hn.
    - rewrite lenN_ok, app_length, N.mul_1_r. unfold bp_nbytes. rewrite N.mul_1_r.
      assert ((n + 7) / 8 <= N.of_nat (length packed)).
      { assert ((n + 7) / 8 < N.of_nat (length packed) + 1) by (apply N.div_lt_upper_bound; lia). lia. }
      destruct strict; lia. }
  split; [|apply D].
  rewrite <- app_assoc. apply hyb_dec_len_framed.
  - unfold nulls_body. rewrite app_length.
    assert (H2 : 2 * N.of_nat (length packed) + 1 < 2 ^ 63).
    { change (2 ^ 63) with (4 * 2 ^ 61). lia. }
    pose proof (uleb_len9 _ H2). change (2 ^ 32) with 4294967296. change (2 ^ 28) with 268435456 in Hl. lia.
  - specialize (D []). rewrite app_nil_r in D. exact D.
Qed.
Print Assumptions gen_defs_nulls_roundtrip_any.

Theorem gen_defs_nulls_roundtrip : forall strict n mask rest,
  is_bits mask -> (0 < length mask)%nat -> N.of_nat (length mask) < 2 ^ 30 ->
  hyb_dec_len strict 1 (N.of_nat (length mask)) (gen_make_definitions false 1 n (wr_bools mask) ++ rest) = Some (mask, rest) /\
  hyb_dec strict 1 (N.of_nat (length mask)) (gen_make_definitions false 2 n (wr_bools mask) ++ rest) = Some (mask, rest).
Proof.
  intros strict n mask rest Hb H0 Hl.
  assert (Hlen : N.of_nat (length (wr_bools mask)) = N.of_nat (length mask) / 8 + 1) by apply wr_bools_length.
  assert (N.of_nat (length mask) / 8 <= N.of_nat (length mask)) by (apply N.div_le_upper_bound; lia).
  pose proof (N.div_mod (N.of_nat (length mask)) 8 ltac:(lia)).
  pose proof (N.mod_upper_bound (N.of_nat (length mask)) 8 ltac:(lia)).
  destruct (gen_defs_nulls_roundtrip_any strict (N.of_nat (length mask)) n (wr_bools mask) rest) as [R1 R2].
  - lia.
  - rewrite Hlen. lia.
  - rewrite Hlen. change (2 ^ 28) with 268435456. change (2 ^ 30) with 1073741824 in Hl. lia.
  - pose proof (wr_bools_dec mask [] Hb) as W. rewrite app_nil_r in W. rewrite W in R1, R2. split; assumption.
Qed.
Print Assumptions gen_defs_nulls_roundtrip.

(* encode_dict: width byte = 8 * code size; behind it ONE bit-packed run that the lenient spec decoder reads back as the codes *)
Theorem gen_encode_dict_roundtrip : forall k codes rest,
  (0 < length codes)%nat -> N.of_nat (length codes) < 2 ^ 62 -> Forall (fun c => c < 256 ^ N.of_nat k) codes ->
  exists body, gen_encode_dict k codes = (8 * N.of_nat k) :: body /\
    option_map fst (hyb_dec false (8 * N.of_nat k) (N.of_nat (length codes)) (body ++ rest)) = Some codes.
Proof.
  intros k codes rest H0 Hl Hc. rewrite gen_encode_dict_is_block by exact Hl. rewrite wr_dict_indices_shape.
  eexists. split; [reflexivity|]. rewrite <- app_assoc. apply dict_indices_dec; assumption.
Qed.
Print Assumptions gen_encode_dict_roundtrip.

(* sizes: the v1 length prefix covers the block exactly *)
Theorem gen_defs_v1_prefix_covers : forall no_nulls n (mask : bytes), n < 2 ^ 62 -> N.of_nat (length mask) < 2 ^ 61 ->
  exists body, gen_make_definitions no_nulls 1 n mask = le_enc 4 (N.of_nat (length body)) ++ body /\
               gen_make_definitions no_nulls 2 n mask = body.
Proof.
  intros [|] n mask Hn Hm.
  - rewrite !gen_defs_nonull_is_block by exact Hn. cbn [N.eqb Pos.eqb]. eexists. split; reflexivity.
  - rewrite !gen_defs_nulls_is_block by exact Hm. cbn [N.eqb Pos.eqb]. eexists. split; reflexivity.
Qed.
Print Assumptions gen_defs_v1_prefix_covers.

Example writer_nonvacuous :
  gen_make_definitions true 1 5 [] = [2; 0; 0; 0; 10; 1] /\ gen_make_definitions false 2 3 [5] = [3; 5] /\
  gen_encode_dict 1 [7; 8; 9] = [8; 3; 7; 8; 9].
Proof. repeat split; vm_compute; reflexivity. Qed.
