(* Re-proved on every run over the enum classes enums2coq reads from fastparquet/parquet_thrift/parquet/ttypes.py. *)
From Coq Require Import NArith ZArith List String Bool.
From Pq Require Import Thrift.Idl Thrift.IdlPinned Thrift.Tables.
From PqGen Require Import GenEnums.

(* the integer constants the code uses for enum members are the IDL's: same enums, same names, same values *)
Theorem gen_enum_constants_are_idl : enums_agree pinned GenEnums.enums = true.
Proof. vm_compute. reflexivity. Qed.
Print Assumptions gen_enum_constants_are_idl.
