(* Re-proved on every run against the REGENERATED text of fastparquet.api.ParquetFile._parse_header (PqGen.GenParseHeader,
   translators/fileops2coq.py): for EVERY file, file kind and verify flag, the bytes handed to the thrift parser and
   _head_size are those of the hand model Impl/ParseHeader.v - hence C10_parse_header_hands_footer & co. hold for the
   regenerated function (gen_parse_header_hands_footer below).                                                       *)
From Coq Require Import NArith ZArith List Bool Arith Lia.
From Pq Require Import Base.Bytes Proofs.BytesProofs Impl.KV Impl.PyFile Impl.ParseHeader Proofs.ParseHeaderProofs.
From PqGen Require Import GenParseHeader.
Import ListNotations.

Definition zres (r : option (bytes * N)) : option (bytes * Z) := option_map (fun p => (fst p, Z.of_N (snd p))) r.

Lemma py_slice_4_m8 b : py_slice (Some 4%Z) (Some (Z.opp 8%Z)) b = firstn (length b - 8 - 4) (skipn 4 b).
Proof.
  unfold py_slice. cbn [Z.ltb Z.compare Z.opp].
  set (n := length b).
  destruct (Nat.ltb_spec n 12) as [H|H].
  - replace (n - 8 - 4)%nat with 0%nat by lia.
    replace (Z.to_nat (Z.max 0 (-8 + Z.of_nat n) - Z.min 4 (Z.of_nat n))) with 0%nat by lia.
    reflexivity.
  - cbn [Z.ltb Z.compare].
    replace (Z.to_nat (Z.max 0 (-8 + Z.of_nat n) - Z.min 4 (Z.of_nat n))) with (n - 8 - 4)%nat by lia.
    replace (Z.to_nat (Z.min 4 (Z.of_nat n))) with 4%nat by lia. reflexivity.
Qed.

Ltac fin := repeat match goal with |- context [bytes_eqb ?a ?b] => destruct (bytes_eqb a b) end; cbn; try reflexivity.

Theorem gen_parse_header_refines : forall md v file, parse_header_gen md v file = zres (parse_header md v file).
Proof.
  intros md v file. unfold parse_header_gen, parse_header, zres.
  cbv beta iota zeta delta [f_open f_seek f_read content pos py_len].
  cbn [Z.eqb Pos.eqb Z.add Z.opp Z.ltb Z.compare Nat.add skipn].
  change (Z.to_nat 4) with 4%nat. change (Z.to_nat 0) with 0%nat. cbn [skipn].
  change ([80; 65; 82; 49]%N : bytes) with magic.
  destruct md.
  - (* pure metadata file *)
    rewrite py_slice_4_m8. cbn [option_map fst snd]. now rewrite nat_N_Z.
  - set (n := length file).
    destruct (Nat.ltb_spec n 8) as [Hs|Hs].
    + (* shorter than its own trailer: the seek to -8 raises *)
      replace (Z.of_nat n + -8 <? 0)%Z with true by (symmetry; apply Z.ltb_lt; lia).
      destruct v; fin.
    + replace (Z.of_nat n + -8 <? 0)%Z with false by (symmetry; apply Z.ltb_ge; lia).
      replace (Z.to_nat (Z.of_nat n + -8)) with (n - 8)%nat by lia.
      cbv beta iota.
      assert (L4 : length (firstn 4 (skipn (n - 8) file)) = 4%nat)
        by (rewrite firstn_length, skipn_length; fold n; lia).
      unfold unpack_I. rewrite L4. cbn [Nat.eqb]. cbv beta iota. fold n.
      set (X := le2n (firstn 4 (skipn (n - 8) file))).
      replace (Z.of_N X <? 0)%Z with false by (symmetry; apply Z.ltb_ge; lia).
      replace (n - 8 + 4)%nat with (n - 4)%nat by lia.
      destruct (Nat.ltb_spec n (N.to_nat X + 8)) as [Hh|Hh].
      * replace (Z.of_nat n + - (Z.of_N X + 8) <? 0)%Z with true by (symmetry; apply Z.ltb_lt; lia).
        destruct v; fin.
      * replace (Z.of_nat n + - (Z.of_N X + 8) <? 0)%Z with false by (symmetry; apply Z.ltb_ge; lia).
        replace (Z.to_nat (Z.of_nat n + - (Z.of_N X + 8))) with (n - (N.to_nat X + 8))%nat by lia.
        replace (Z.to_nat (Z.of_N X)) with (N.to_nat X) by lia.
        destruct v; fin; now rewrite N2Nat.id.
Qed.
Print Assumptions gen_parse_header_refines.

(* C10_parse_header_hands_footer on the regenerated function *)
Theorem gen_parse_header_hands_footer : forall (data footer : bytes) verify,
  (N.of_nat (length footer) < 2 ^ 32)%N ->
  (verify = true -> firstn 4 (data ++ footer) = magic) ->
  parse_header_gen false verify (framed data footer) = Some (footer, Z.of_nat (length footer)).
Proof.
  intros data footer v H1 H2. rewrite gen_parse_header_refines, parse_header_framed by assumption.
  cbn. now rewrite nat_N_Z.
Qed.
Print Assumptions gen_parse_header_hands_footer.

Theorem gen_parse_header_metadata_file : forall (footer : bytes) verify,
  parse_header_gen true verify (framed_md footer) = Some (footer, Z.of_nat (length footer)).
Proof. intros. rewrite gen_parse_header_refines, parse_header_md. cbn. now rewrite nat_N_Z. Qed.
Print Assumptions gen_parse_header_metadata_file.
