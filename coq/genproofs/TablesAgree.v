(* Proofs over the tables REGENERATED from the live fastparquet modules (translators/tables2coq.py ->
   PqGen.GenTables, written on every run).  Compiled per run: a change of converted_types.simple / complex /
   nullable / pandas_nullable, writer.typemap / revmap or encoding.DECODE_TYPEMAP that alters the mapping breaks
   an obligation here; a reordering of entries or a comment does not (tables are emitted sorted by key). *)
From Coq Require Import NArith List Bool.
From Pq Require Import Base.Bytes Impl.Dtypes Proofs.DtypesProofs.
From PqGen Require Import GenTables.
Import ListNotations.

(* the model's `pinned` tables ARE the live tables, so every theorem of props/C17.v speaks about the live code *)
Theorem live_tables_are_pinned : live = pinned.
Proof. vm_compute. reflexivity. Qed.

Theorem live_writer_tables_are_pinned :
  w_typemap = pinned_w_typemap /\ w_revmap = pinned_w_revmap /\ decode_typemap = pinned_decode_typemap.
Proof. repeat split; vm_compute; reflexivity. Qed.

(* independently of `pinned`: the finite round trip of the dtype <-> parquet type mapping on the live tables *)
Theorem live_written_roundtrip : written_roundtrip_ok live w_typemap = true.
Proof. vm_compute. reflexivity. Qed.

Theorem live_decode_consistent :
  decode_consistent live decode_typemap = true /\ decode_consistent live w_revmap = true.
Proof. split; vm_compute; reflexivity. Qed.

(* the unbounded theorems restated on the live tables *)
Theorem live_realise_fixpoint : forall has_md pn se md loc rgs as_cat d,
  (se_type se < 8)%N ->
  predict live has_md pn se md loc rgs as_cat = ROk d -> realise (md_tzflag md) d = d.
Proof. rewrite live_tables_are_pinned. exact realise_fixpoint. Qed.

Theorem live_null_evidence_sound : forall R has_md pn se md loc rgs d,
  (se_type se < 8)%N ->
  base_dtype_gen R live has_md pn se md loc rgs = ROk d ->
  np_int_or_bool d = true -> has_md && md_claims_gen (r_cat_md R) md = false ->
  Forall (no_evidence_rg (r_absent_counts R) loc) rgs.
Proof. rewrite live_tables_are_pinned. exact null_evidence_sound. Qed.
