(* C12's share of the regenerated dispatch (PqGen.GenDispatch, translators/dispatch2coq.py): only what matters for
   MEMORY safety.  The hybrid decoder clamps its output to the capacity it is handed for every allocation
   (C12_safe_partial, last conjunct), so the callers' allocation arithmetic cannot make it write outside - what the
   callers must guarantee is that the decoder is entered only inside the region where the model is proved safe:
   never with width 0 (a bit-packed run of width 0 reads a byte it does not own: open finding), only with the item
   sizes 1 and 4 it implements, and an own page of whole bytes (unpadded last group: the generic decoder would walk
   through the whole group, past the page) takes the array view.  Value-level adequacy (item holds the width,
   allocation item = itemsize argument) is C11's obligation (GenDispatchProofs.v). *)
From Coq Require Import NArith List Bool Lia.
From Pq Require Import Impl.Dispatch.
From PqGen Require Import GenDispatch.
Import ListNotations.
Open Scope N_scope.

Definition mem_safe (w : N) (selfmade one_run : bool) (d : idec) : bool :=
  match d with
  | DFast => takes_view w selfmade one_run
  | DGeneric a isz => ((isz =? 1) || (isz =? 4)) && (0 <? w) && negb (takes_view w selfmade one_run)
  | DZeros => true
  | DNone => true
  end.

Definition chain_safe (f : N -> bool -> bool -> idec) : bool :=
  forallb (fun w => all_flags (fun sm one => mem_safe w sm one (f w sm one))) widths_0_32.

Theorem index_leaves_memory_safe :
  chain_safe (v1_index_dispatch true) = true /\ chain_safe (v2_cat_dispatch true) = true /\
  chain_safe (v2_deref_dispatch true) = true.
Proof. repeat split; vm_compute; reflexivity. Qed.
Print Assumptions index_leaves_memory_safe.
