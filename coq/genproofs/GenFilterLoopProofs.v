From Coq Require Import ZArith List String Bool Lia.
From Pq Require Import Base.PyVal Base.PyObj Impl.Filter Impl.FilterLoop Proofs.PyObjProofs Proofs.FilterProofs.
From PqGen Require Import GenFilterLoop.
Import ListNotations.
Open Scope string_scope.
Open Scope Z_scope.

Section Loop.
  Variable ext : string -> list pv -> res pv.
  Variable schema : pv.
  (* the leaf decision is a parameter of the loop (instantiated with the regenerated GenFilter.filter_val by the check) *)
  Variable filter_val : pv -> pv -> pv -> pv -> res pv.
  Variables (eb : pv -> pv) (rp : pv -> pv -> pv) (cv : pv -> pv -> pv) (se_ct se_lt : string -> pv).
  Definition se_obj (name : string) : pv := obj [("converted_type", se_ct name); ("logicalType", se_lt name)].
  Hypothesis H_se : forall name, ext ".schema_element" [schema; PStr name] = Ok (se_obj name).
  Hypothesis H_utc : forall v, ext "_naive_utc" [v] = Ok v.
  Hypothesis H_eb : forall x, ext "ensure_bytes" [x] = Ok (eb x).
  Hypothesis H_rp : forall b t, ext "encoding.read_plain,stat" [b; t; PInt 1; PBool true] = Ok (rp b t).
  Hypothesis H_cv : forall v se, ext "converted_types.convert" [v; se] = Ok (cv v se).

  Definition dec (name : string) (t raw : pv) : pv :=
    let v := rp (eb raw) t in
    if negb (is_none (se_ct name)) || negb (is_none (se_lt name)) then cv v (se_obj name) else v.


  Ltac ext_step :=
    first [rewrite H_se | rewrite H_utc | rewrite H_eb | rewrite H_rp | rewrite H_cv].
  Ltac split_if :=
    match goal with
    | |- context [if ?b then _ else _] => destruct b eqn:?
    end.

  Definition Inv (c : lcolumn) (st : pv * pv) : Prop :=
    match l_stats c with
    | None => True
    | Some s => (is_none (raw_of (l_max s) (l_max_value s)) = true -> fst st = PNone) /\
                (is_none (raw_of (l_min s) (l_min_value s)) = true -> snd st = PNone)
    end.

  Lemma truthy_not_none x : truthy x = true -> is_none x = false.
  Proof. destruct x; cbn; congruence. Qed.
  Ltac split_atom :=
    match goal with
    | |- context [truthy ?x] => is_var x; destruct (truthy x) eqn:?
    | H : truthy ?x = true |- context [is_none ?x] => rewrite (truthy_not_none x H)
    | |- context [is_none ?x] => destruct (is_none x) eqn:?
    | |- context [Z.eqb ?a ?b] => destruct (Z.eqb a b) eqn:?
    end.
  Ltac use_eqs := repeat match goal with H : _ = true |- _ => progress rewrite H | H : _ = false |- _ => progress rewrite H end.
  Ltac crunch := repeat first [progress cbn | ext_step | split_atom].

  Lemma inner_body (c : lcolumn) (f : cond) (st : pv * pv) (body : pv -> pv * pv -> res (step (pv * pv))) : True.
  Proof. exact I. Qed.

  (* statistics objects as read from the footer (nothing memoised), columns without converted / logical type *)
  Theorem gen_stats_refines_fresh_plain :
    (forall n, se_ct n = PNone) -> (forall n, se_lt n = PNone) ->
    forall (R : Type) (rg : lrowgroup R) (fs : list cond),
    filter_out_stats ext filter_val (emb_rg (map_cols fresh_col rg)) (PList (map emb_cond fs)) schema
    = bind (Filter.filter_out_stats R filter_val (abs_rg dec (map_cols fresh_col rg)) fs) (fun b => Ok (PBool b)).
  Proof.
    intros Hct Hlt.
    intros R rg fs. unfold filter_out_stats, filter_out_stats_loop1, Filter.filter_out_stats.
    cbn [emb_rg map_cols lg_num_rows lg_columns obj map fst snd py_attr obj_get String.eqb Ascii.eqb Bool.eqb bind py_eq pv_eqb truthy abs_rg rg_num_rows rg_columns].
    destruct (lg_num_rows rg =? 0) eqn:En; [reflexivity|].
    destruct fs as [|f0 fs']; [reflexivity|]. remember (f0 :: fs') as fs1 eqn:Efs.
    assert (Hlen : bind (py_len (PList (map emb_cond fs1))) (fun t => py_eq t (PInt 0)) = Ok (PBool false))
      by (subst fs1; cbn; reflexivity).
    rewrite Hlen. cbn [bind truthy py_iter elems]. clear Hlen.
    rewrite !map_map. rewrite (any_res_map (fun c => abs_col dec (fresh_col c))).
    match goal with |- context [py_for (map ?emb ?l) tt ?body] =>
      assert (Hbody : forall a (s : unit), True -> exists s' : unit, True /\
                body (emb a) s = bind (any_res (stats_one filter_val (abs_col dec (fresh_col a))) (app_filters (c_name (abs_col dec (fresh_col a))) fs1))
                                      (fun b => if b then Ok (Ret (PBool true)) else Ok (Cont s')))
    end.
    { intros c [] _. exists tt. split; [exact I|].
      cbn [emb_col fresh_col l_name l_num_values l_type obj map fst snd py_attr obj_get String.eqb Ascii.eqb Bool.eqb bind py_join elems strs_of String.concat abs_col c_name].
      erewrite (listcomp_filter_map emb_cond (fun f => String.eqb (cname f) (l_name c)) emb_tail);
        [ | intros [[n o] v]; cbn; reflexivity | intros [[n o] v]; cbn; reflexivity ].
      cbn [bind py_iter elems]. unfold app_filters.
      match goal with |- context [py_for (map emb_tail ?l) ?s0 ?body] =>
        assert (Hin : forall f st, Inv (fresh_col c) st -> exists st', Inv (fresh_col c) st' /\
                  body (emb_tail f) st = bind (stats_one filter_val (abs_col dec (fresh_col c)) f)
                                              (fun b => if b then Ok (Ret (PBool true)) else Ok (Cont st')))
      end.
      { intros [[n o] v] [vmax vmin] Hinv. unfold stats_one, Inv, abs_col, fresh_col in *.
        cbn [c_stats c_num_values cop cval fst snd emb_tail py_unpack2 bind l_stats l_name l_type l_num_values] in *.
        rewrite H_se, H_utc. cbn [bind].
        destruct (l_stats c) as [s|].
        2:{ exists (vmax, vmin). split; [exact I|]. cbn. reflexivity. }
        destruct s as [nc mx mxv mn mnv cmx cmn]. unfold abs_stats, bound, dec, raw_of, fresh_stats in *. unfold se_obj in *; rewrite ?Hct, ?Hlt in *.
        cbn [l_null_count l_max l_max_value l_min l_min_value l_cmax l_cmin st_max st_min st_null_count fst snd] in *.
        destruct Hinv as [Hx Hn]. revert Hx Hn.
        destruct nc as [n0|]; crunch; intros Hx Hn;
          try rewrite (Hx eq_refl); try rewrite (Hn eq_refl);
          try (match goal with |- context [filter_val ?a ?b ?c0 ?d] => destruct (filter_val a b c0 d) as [r|e] end;
               cbn [bind]; [destruct (truthy r) eqn:?|]); cbn [bind];
          (first [ match goal with |- exists st', _ /\ Ok (Cont ?x) = _ => exists x end | exists (PNone, PNone) ]);
          (split; [cbn; split; intros; solve [reflexivity | discriminate | auto] | reflexivity]). }
      destruct (py_for_any emb_tail _ (Inv (fresh_col c)) _ Hin (filter (fun f => String.eqb (cname f) (l_name c)) fs1) (PNone, PNone)) as [st' [_ E]].
      { unfold Inv. destruct (l_stats (fresh_col c)); [split; reflexivity|exact I]. }
      rewrite E. destruct st' as [sa sb]. destruct (any_res _ _) as [[|]|]; reflexivity. }
    destruct (py_for_any _ _ (fun _ : unit => True) _ Hbody (lg_columns rg) tt I) as [s' [_ E]].
    rewrite E. destruct (any_res _ _) as [[|]|]; reflexivity.
  Qed.

  (* skip answers of the regenerated loop are sound: the row-group level theorem of C05 through the refinement *)
  Theorem gen_stats_skip_sound_fresh_plain :
    (forall n, se_ct n = PNone) -> (forall n, se_lt n = PNone) ->
    forall (R : Type) (cell : R -> string -> pv) (rg : lrowgroup R) (g : list cond) (r : R),
    leaf_sound (fun op => In op ops) filter_val -> (forall f, In f g -> In (cop f) ops) ->
    (lg_num_rows rg = 0 -> lg_rows rg = []) ->
    (forall f, In f g -> stats_valid R cell (abs_rg dec (map_cols fresh_col rg)) f) ->
    In r (lg_rows rg) -> sat_and R cell r g = true ->
    filter_out_stats ext filter_val (emb_rg (map_cols fresh_col rg)) (PList (map emb_cond g)) schema <> Ok (PBool true).
  Proof.
    intros Hct Hlt R cell rg g r Hleaf Hops Hz Hv Hr Hs H.
    rewrite (gen_stats_refines_fresh_plain Hct Hlt) in H.
    destruct (Filter.filter_out_stats R filter_val (abs_rg dec (map_cols fresh_col rg)) g) as [b|e] eqn:E; [|discriminate].
    injection H as ->.
    apply (stats_keep R cell filter_val (fun op => In op ops) Hleaf (abs_rg dec (map_cols fresh_col rg)) g r); try assumption.
    intros f Hf. split; [exact (Hops f Hf)|exact (Hv f Hf)].
  Qed.

  (* ---------- filter_out_cats: partition directories ------------------------------------------------- *)
  (* the typing glue stays external: the path regex (identity on the embedded pairs), val_to_num with and without
     metadata, _val_as_partition, partition_meta (its keys `pm_keys`, .get = `meta`) *)
  Variables (sep_tok : pv) (pm_keys : list pv) (meta vtn : pv -> pv) (vtnm vap : pv -> pv -> pv).
  Hypothesis H_sep : ext "ex_from_sep" [PStr "/"] = Ok sep_tok.
  Hypothesis H_findall : forall x, ext ".findall" [sep_tok; x] = Ok x.
  Hypothesis H_get : forall c, ext ".get" [PList pm_keys; c] = Ok (meta c).
  Hypothesis H_vtn : forall v, ext "val_to_num" [v] = Ok (vtn v).
  Hypothesis H_vtnm : forall v m, ext "val_to_num,meta" [v; m] = Ok (vtnm v m).
  Hypothesis H_vap : forall v m, ext "_val_as_partition" [v; m] = Ok (vap v m).

  Definition is_strb (x : pv) : bool := match x with PStr _ => true | _ => false end.
  Definition strish (val : pv) : bool :=
    match val with
    | PStr _ => true
    | PList l => forallb truthy (map (fun x => PBool (is_strb x)) l)
    | _ => false
    end.
  (* what filter_out_cats hands to filter_val for the directory (cat, v) and the constant val *)
  Definition conv_g (cat v : string) (val : pv) : pv * pv :=
    let v0 := if strish val then PStr v else vtn (PStr v) in
    if existsb (pv_eqb (PStr cat)) pm_keys
    then (vap val (meta (PStr cat)), vtnm v0 (meta (PStr cat)))
    else (val, v0).

  Ltac ext_step2 := first [rewrite H_sep | rewrite H_findall | rewrite H_get | rewrite H_vtn | rewrite H_vtnm | rewrite H_vap].

  Theorem gen_cats_refines : forall (R : Type) (rg : lrowgroup R) (fs : list cond),
    lg_columns rg <> [] ->
    filter_out_cats ext filter_val (emb_rg rg) (PList (map emb_cond fs)) (PList pm_keys)
    = bind (Filter.filter_out_cats R filter_val conv_g (abs_rg dec rg) fs) (fun b => Ok (PBool b)).
  Proof.
    intros R rg fs Hne. unfold filter_out_cats, filter_out_cats_loop1, Filter.filter_out_cats.
    destruct (lg_columns rg) as [|c0 cols] eqn:Ecols; [congruence|]. clear Hne.
    cbn [emb_rg obj map fst snd py_attr obj_get String.eqb Ascii.eqb Bool.eqb bind abs_rg rg_parts]. rewrite Ecols.
    destruct fs as [|f0 fs']; [reflexivity|]. remember (f0 :: fs') as fs1 eqn:Efs.
    assert (Hlen : bind (py_len (PList (map emb_cond fs1))) (fun t => py_eq t (PInt 0)) = Ok (PBool false))
      by (subst fs1; cbn; reflexivity).
    rewrite Hlen. clear Hlen.
    assert (Hfs : match fs1 with [] => True | _ => True end) by (destruct fs1; exact I).
    replace (match fs1 with [] => Ok false | _ :: _ => match lg_parts rg with Some pairs => any_res (fun p : string * string => any_res (cats_one filter_val conv_g (fst p) (snd p)) (app_filters (fst p) fs1)) pairs | None => Ok false end end)
      with (match lg_parts rg with Some pairs => any_res (fun p : string * string => any_res (cats_one filter_val conv_g (fst p) (snd p)) (app_filters (fst p) fs1)) pairs | None => Ok false end)
      by (subst fs1; reflexivity).
    cbn [map]. rewrite !py_index0_cons.
    cbn [emb_col obj map fst snd bind py_attr obj_get String.eqb Ascii.eqb Bool.eqb truthy py_is_none].
    destruct (lg_parts rg) as [pairs|]; cbn [emb_fp is_none truthy bind]; [|reflexivity].
    rewrite H_sep. cbn [bind]. rewrite H_findall. cbn [bind py_iter elems].
    rewrite (listcomp_filter_map emb_pair (fun _ => true) emb_pair);
      [ | intros a; reflexivity | intros [a b]; cbn; reflexivity ].
    assert (Hft : forall (l : list (string * string)), filter (fun _ => true) l = l)
      by (intros l; induction l as [|x l IH]; [reflexivity|cbn; rewrite IH; reflexivity]).
    rewrite Hft. cbn [bind py_iter elems].
    match goal with |- context [py_for (map emb_pair ?l) tt ?body] =>
      assert (Hbody : forall a (s : unit), True -> exists s' : unit, True /\
                body (emb_pair a) s = bind (any_res (cats_one filter_val conv_g (fst a) (snd a)) (app_filters (fst a) fs1))
                                         (fun b => if b then Ok (Ret (PBool true)) else Ok (Cont s')))
    end.
    { intros [cat v] [] _. exists tt. split; [exact I|].
      cbn [emb_pair fst snd py_unpack2 bind py_iter elems].
      erewrite (listcomp_filter_map emb_cond (fun f => String.eqb (cname f) cat) emb_tail);
        [ | intros [[n o] v1]; cbn; reflexivity | intros [[n o] v1]; cbn; reflexivity ].
      cbn [bind py_iter elems]. unfold app_filters.
      match goal with |- context [py_for (map emb_tail ?l) tt ?body] =>
        assert (Hin : forall f (st : unit), True -> exists st' : unit, True /\
                  body (emb_tail f) st = bind (cats_one filter_val conv_g cat v f)
                                             (fun b => if b then Ok (Ret (PBool true)) else Ok (Cont st')))
      end.
      { intros [[n o] val] [] _. exists tt. split; [exact I|].
        unfold cats_one, conv_g. cbn [emb_tail py_unpack2 bind cop cval fst snd].
        unfold py_in.
        destruct val as [ | bb | z | str | l | l];
          cbn [py_isinstance_str py_isinstance_list bind truthy py_iter elems strish];
          try (rewrite (listcomp_all_map (fun x => PBool (is_strb x))); [|intros x; reflexivity]; cbn [bind py_all elems truthy]);
          try match goal with |- context [forallb ?f ?l0] => destruct (forallb f l0) end;
          cbn [bind truthy]; rewrite ?H_vtn; cbn [bind truthy elems];
          destruct (existsb (pv_eqb (PStr cat)) pm_keys); cbn [bind truthy]; rewrite ?H_get; cbn [bind]; rewrite ?H_vap; cbn [bind]; rewrite ?H_get; cbn [bind]; rewrite ?H_vtnm; cbn [bind];
          match goal with |- context [filter_val ?a ?b ?c0 ?d] => destruct (filter_val a b c0 d) as [r|e] end;
          cbn [bind]; try reflexivity; destruct (truthy r); reflexivity. }
      destruct (py_for_any emb_tail _ (fun _ : unit => True) _ Hin (filter (fun f => String.eqb (cname f) cat) fs1) tt I) as [st' [_ E]].
      rewrite E. destruct st'. destruct (any_res _ _) as [[|]|]; reflexivity. }
    destruct (py_for_any emb_pair _ (fun _ : unit => True) _ Hbody pairs tt I) as [s' [_ E]].
    rewrite E. destruct (any_res _ _) as [[|]|]; reflexivity.
  Qed.

  (* ---------- the OR / AND structure of filter_row_groups: the decision about one row group -------------- *)
  Definition pf_obj : pv := obj [("schema", schema); ("partition_meta", PList pm_keys)].

  Theorem gen_keep_rg_refines_fresh_plain :
    (forall n, se_ct n = PNone) -> (forall n, se_lt n = PNone) ->
    forall (R : Type) (rg : lrowgroup R) (dnf : list (list cond)), lg_columns rg <> [] ->
    keep_rg ext filter_val (emb_rg (map_cols fresh_col rg)) (PList (map emb_group dnf)) pf_obj
    = bind (Filter.keep_rg R filter_val conv_g dnf (abs_rg dec (map_cols fresh_col rg))) (fun b => Ok (PBool b)).
  Proof.
    intros Hct Hlt R rg dnf Hne. unfold keep_rg, Filter.keep_rg. cbn [bind py_iter elems].
    erewrite (listcomp_map_res emb_group (keep_group R filter_val conv_g (abs_rg dec (map_cols fresh_col rg)))).
    2:{ intros g. unfold pf_obj, emb_group.
        cbn [obj map fst snd py_attr obj_get String.eqb Ascii.eqb Bool.eqb bind].
        rewrite (gen_stats_refines_fresh_plain Hct Hlt).
        assert (Hne' : lg_columns (map_cols fresh_col rg) <> []) by (cbn; destruct (lg_columns rg); [congruence|discriminate]).
        rewrite (gen_cats_refines R (map_cols fresh_col rg) g Hne').
        unfold keep_group.
        destruct (Filter.filter_out_stats R filter_val (abs_rg dec (map_cols fresh_col rg)) g) as [[|]|e]; cbn; try reflexivity.
        destruct (Filter.filter_out_cats R filter_val conv_g (abs_rg dec (map_cols fresh_col rg)) g) as [[|]|e]; reflexivity. }
    destruct (map_res _ dnf) as [bs|e]; cbn [bind]; [|reflexivity].
    unfold py_any. cbn [elems bind]. rewrite existsb_truthy_PBool. reflexivity.
  Qed.

  Definition gen_keep {R} (f : filters) (rg : lrowgroup R) : res bool :=
    bind (keep_rg ext filter_val (emb_rg (map_cols fresh_col rg)) (PList (map emb_group (normalize f))) pf_obj) (fun v => Ok (truthy v)).

  (* C05_prune_sound over the regenerated loop text, end to end (statistics loop, partition loop, OR of ANDs): every row
     group that holds a row satisfying the program is among the kept ones *)
  Theorem gen_prune_sound_fresh_plain :
    (forall n, se_ct n = PNone) -> (forall n, se_lt n = PNone) ->
    forall (R : Type) (cell : R -> string -> pv) (rgs : list (lrowgroup R)) (f : filters) (kept : list (lrowgroup R)),
    leaf_sound (fun op => In op ops) filter_val ->
    prog_good (fun op => In op ops) (normalize f) ->
    (forall rg, In rg rgs -> lg_columns rg <> [] /\
                             rg_valid R cell conv_g (normalize f) (abs_rg dec (map_cols fresh_col rg))) ->
    filter_res (gen_keep f) rgs = Ok kept ->
    (exists keepf, kept = filter keepf rgs) /\
    forall rg r, In rg rgs -> In r (lg_rows rg) -> sat_dnf R cell r (normalize f) = true -> In rg kept.
  Proof.
    intros Hct Hlt R cell rgs f kept Hleaf Hgood Hv H.
    apply filter_res_spec in H. destruct H as [-> Hall]. split; [eexists; reflexivity|].
    intros rg r Hrg Hr Hs. rewrite filter_In. split; [exact Hrg|].
    destruct (Hall rg Hrg) as [b Hb]. unfold decided. rewrite Hb.
    destruct (Hv rg Hrg) as [Hne Hval].
    unfold gen_keep in Hb. rewrite (gen_keep_rg_refines_fresh_plain Hct Hlt R rg (normalize f) Hne) in Hb.
    destruct (Filter.keep_rg R filter_val conv_g (normalize f) (abs_rg dec (map_cols fresh_col rg))) as [b'|e] eqn:K; cbn in Hb; [|discriminate].
    injection Hb as <-.
    rewrite (keep_rg_sat R cell filter_val conv_g (fun op => In op ops) Hleaf (normalize f) (abs_rg dec (map_cols fresh_col rg)) r b' Hgood Hval Hr Hs K).
    reflexivity.
  Qed.

(* ---- THOROUGH ONLY ---- *)
  (* full generality: memoised bounds present or not, any schema element *)
  Theorem gen_stats_refines : forall (R : Type) (rg : lrowgroup R) (fs : list cond),
    filter_out_stats ext filter_val (emb_rg (map_cols (fun c => c) rg)) (PList (map emb_cond fs)) schema
    = bind (Filter.filter_out_stats R filter_val (abs_rg dec (map_cols (fun c => c) rg)) fs) (fun b => Ok (PBool b)).
  Proof.
    intros R rg fs. unfold filter_out_stats, filter_out_stats_loop1, Filter.filter_out_stats.
    cbn [emb_rg map_cols lg_num_rows lg_columns obj map fst snd py_attr obj_get String.eqb Ascii.eqb Bool.eqb bind py_eq pv_eqb truthy abs_rg rg_num_rows rg_columns].
    destruct (lg_num_rows rg =? 0) eqn:En; [reflexivity|].
    destruct fs as [|f0 fs']; [reflexivity|]. remember (f0 :: fs') as fs1 eqn:Efs.
    assert (Hlen : bind (py_len (PList (map emb_cond fs1))) (fun t => py_eq t (PInt 0)) = Ok (PBool false))
      by (subst fs1; cbn; reflexivity).
    rewrite Hlen. cbn [bind truthy py_iter elems]. clear Hlen.
    rewrite !map_map. rewrite (any_res_map (fun c => abs_col dec ((fun c : lcolumn => c) c))).
    match goal with |- context [py_for (map ?emb ?l) tt ?body] =>
      assert (Hbody : forall a (s : unit), True -> exists s' : unit, True /\
                body (emb a) s = bind (any_res (stats_one filter_val (abs_col dec ((fun c : lcolumn => c) a))) (app_filters (c_name (abs_col dec ((fun c : lcolumn => c) a))) fs1))
                                      (fun b => if b then Ok (Ret (PBool true)) else Ok (Cont s')))
    end.
    { intros c [] _. exists tt. split; [exact I|].
      cbn [emb_col fresh_col l_name l_num_values l_type obj map fst snd py_attr obj_get String.eqb Ascii.eqb Bool.eqb bind py_join elems strs_of String.concat abs_col c_name].
      erewrite (listcomp_filter_map emb_cond (fun f => String.eqb (cname f) (l_name c)) emb_tail);
        [ | intros [[n o] v]; cbn; reflexivity | intros [[n o] v]; cbn; reflexivity ].
      cbn [bind py_iter elems]. unfold app_filters.
      match goal with |- context [py_for (map emb_tail ?l) ?s0 ?body] =>
        assert (Hin : forall f st, Inv ((fun c : lcolumn => c) c) st -> exists st', Inv ((fun c : lcolumn => c) c) st' /\
                  body (emb_tail f) st = bind (stats_one filter_val (abs_col dec ((fun c : lcolumn => c) c)) f)
                                              (fun b => if b then Ok (Ret (PBool true)) else Ok (Cont st')))
      end.
      { intros [[n o] v] [vmax vmin] Hinv. unfold stats_one, Inv, abs_col, fresh_col in *.
        cbn [c_stats c_num_values cop cval fst snd emb_tail py_unpack2 bind l_stats l_name l_type l_num_values] in *.
        rewrite H_se, H_utc. cbn [bind].
        destruct (l_stats c) as [s|].
        2:{ exists (vmax, vmin). split; [exact I|]. cbn. reflexivity. }
        destruct s as [nc mx mxv mn mnv cmx cmn]. unfold abs_stats, bound, dec, raw_of, fresh_stats in *.
        cbn [l_null_count l_max l_max_value l_min l_min_value l_cmax l_cmin st_max st_min st_null_count fst snd] in *.
        destruct Hinv as [Hx Hn]. revert Hx Hn.
        destruct nc as [n0|]; try (destruct cmx as [cx|]); try (destruct cmn as [cn|]); crunch; intros Hx Hn;
          try rewrite (Hx eq_refl); try rewrite (Hn eq_refl);
          try (match goal with |- context [filter_val ?a ?b ?c0 ?d] => destruct (filter_val a b c0 d) as [r|e] end;
               cbn [bind]; [destruct (truthy r) eqn:?|]); cbn [bind];
          (first [ match goal with |- exists st', _ /\ Ok (Cont ?x) = _ => exists x end | exists (PNone, PNone) ]);
          (split; [cbn; split; intros; solve [reflexivity | discriminate | auto] | reflexivity]). }
      destruct (py_for_any emb_tail _ (Inv ((fun c : lcolumn => c) c)) _ Hin (filter (fun f => String.eqb (cname f) (l_name c)) fs1) (PNone, PNone)) as [st' [_ E]].
      { unfold Inv. destruct (l_stats ((fun c : lcolumn => c) c)); [split; reflexivity|exact I]. }
      rewrite E. destruct st' as [sa sb]. destruct (any_res _ _) as [[|]|]; reflexivity. }
    destruct (py_for_any _ _ (fun _ : unit => True) _ Hbody (lg_columns rg) tt I) as [s' [_ E]].
    rewrite E. destruct (any_res _ _) as [[|]|]; reflexivity.
  Qed.
End Loop.

(* the regenerated loops instantiated with the regenerated leaf decision and ITS soundness proof (GenFilterProofs, same run) *)
From PqGen Require GenFilter GenFilterProofs.
Theorem gen_loop_prune_sound :
  forall ext schema eb rp cv se_ct se_lt sep_tok pm_keys meta vtn vtnm vap,
  (forall name, ext ".schema_element" [schema; PStr name] = Ok (se_obj se_ct se_lt name)) ->
  (forall v, ext "_naive_utc" [v] = Ok v) -> (forall x, ext "ensure_bytes" [x] = Ok (eb x)) ->
  (forall b t, ext "encoding.read_plain,stat" [b; t; PInt 1; PBool true] = Ok (rp b t)) ->
  (forall v se, ext "converted_types.convert" [v; se] = Ok (cv v se)) ->
  ext "ex_from_sep" [PStr "/"] = Ok sep_tok -> (forall x, ext ".findall" [sep_tok; x] = Ok x) ->
  (forall c, ext ".get" [PList pm_keys; c] = Ok (meta c)) -> (forall v, ext "val_to_num" [v] = Ok (vtn v)) ->
  (forall v m, ext "val_to_num,meta" [v; m] = Ok (vtnm v m)) -> (forall v m, ext "_val_as_partition" [v; m] = Ok (vap v m)) ->
  (forall n, se_ct n = PNone) -> (forall n, se_lt n = PNone) ->
  forall (R : Type) (cell : R -> string -> pv) (rgs : list (lrowgroup R)) (f : filters) (kept : list (lrowgroup R)),
  prog_good (fun op => In op ops) (normalize f) ->
  (forall rg, In rg rgs -> lg_columns rg <> [] /\
      rg_valid R cell (conv_g pm_keys meta vtn vtnm vap) (normalize f) (abs_rg (dec eb rp cv se_ct se_lt) (map_cols fresh_col rg))) ->
  filter_res (gen_keep ext schema GenFilter.filter_val pm_keys f) rgs = Ok kept ->
  (exists keepf, kept = filter keepf rgs) /\
  forall rg r, In rg rgs -> In r (lg_rows rg) -> sat_dnf R cell r (normalize f) = true -> In rg kept.
Proof.
  intros ext schema eb rp cv se_ct se_lt sep_tok pm_keys meta vtn vtnm vap H1 H2 H3 H4 H5 H6 H7 H8 H9 H10 H11 Hct Hlt R cell rgs f kept Hg Hv H.
  eapply gen_prune_sound_fresh_plain with (cell := cell) (eb := eb) (rp := rp) (cv := cv) (se_ct := se_ct) (se_lt := se_lt)
    (sep_tok := sep_tok) (meta := meta) (vtn := vtn) (vtnm := vtnm) (vap := vap); try eassumption.
  exact GenFilterProofs.leaf_all_sound.
Qed.
Print Assumptions gen_loop_prune_sound.

(* the loop instantiated with the regenerated leaf decision and its soundness (GenFilterProofs, same run) *)
Theorem gen_loop_skip_sound :
  forall ext schema eb rp cv se_ct se_lt,
  (forall name, ext ".schema_element" [schema; PStr name] = Ok (se_obj se_ct se_lt name)) ->
  (forall v, ext "_naive_utc" [v] = Ok v) -> (forall x, ext "ensure_bytes" [x] = Ok (eb x)) ->
  (forall b t, ext "encoding.read_plain,stat" [b; t; PInt 1; PBool true] = Ok (rp b t)) ->
  (forall v se, ext "converted_types.convert" [v; se] = Ok (cv v se)) ->
  (forall n, se_ct n = PNone) -> (forall n, se_lt n = PNone) ->
  forall (R : Type) (cell : R -> string -> pv) (rg : lrowgroup R) (g : list cond) (r : R),
  (forall f, In f g -> In (cop f) ops) ->
  (lg_num_rows rg = 0 -> lg_rows rg = []) ->
  (forall f, In f g -> stats_valid R cell (abs_rg (dec eb rp cv se_ct se_lt) (map_cols fresh_col rg)) f) ->
  In r (lg_rows rg) -> sat_and R cell r g = true ->
  filter_out_stats ext GenFilter.filter_val (emb_rg (map_cols fresh_col rg)) (PList (map emb_cond g)) schema <> Ok (PBool true).
Proof.
  intros ext schema eb rp cv se_ct se_lt H1 H2 H3 H4 H5 Hct Hlt R cell rg g r Hops Hz Hv Hr Hs.
  eapply gen_stats_skip_sound_fresh_plain with (cell := cell) (r := r) (eb := eb) (rp := rp) (cv := cv) (se_ct := se_ct) (se_lt := se_lt);
    try eassumption; exact GenFilterProofs.leaf_all_sound.
Qed.
Print Assumptions gen_loop_skip_sound.
