From Coq Require Import ZArith List String Bool Lia.
From Pq Require Import Base.PyVal Base.PyObj Impl.Filter Impl.FilterLoop Proofs.PyObjProofs Proofs.FilterProofs.
From PqGen Require Import GenFilterLoop.
Import ListNotations.
Open Scope string_scope.
Open Scope Z_scope.

Section Loop.
  Variable ext : string -> list pv -> res pv.
  Variable schema : pv.
  (* the leaf decision is a parameter of the loop (instantiated with the regenerated GenFilter.filter_val by the check) *)
  Variable filter_val : pv -> pv -> pv -> pv -> res pv.
  Variables (eb : pv -> pv) (rp : pv -> pv -> pv) (cv : pv -> pv -> pv) (se_ct se_lt : string -> pv).
  Definition se_obj (name : string) : pv := obj [("converted_type", se_ct name); ("logicalType", se_lt name)].
  Hypothesis H_se : forall name, ext ".schema_element" [schema; PStr name] = Ok (se_obj name).
  Hypothesis H_utc : forall v, ext "_naive_utc" [v] = Ok v.
  Hypothesis H_eb : forall x, ext "ensure_bytes" [x] = Ok (eb x).
  Hypothesis H_rp : forall b t, ext "encoding.read_plain,stat" [b; t; PInt 1; PBool true] = Ok (rp b t).
  Hypothesis H_cv : forall v se, ext "converted_types.convert" [v; se] = Ok (cv v se).

  Definition dec (name : string) (t raw : pv) : pv :=
    let v := rp (eb raw) t in
    if negb (is_none (se_ct name)) || negb (is_none (se_lt name)) then cv v (se_obj name) else v.


  Ltac ext_step :=
    first [rewrite H_se | rewrite H_utc | rewrite H_eb | rewrite H_rp | rewrite H_cv].
  Ltac split_if :=
    match goal with
    | |- context [if ?b then _ else _] => destruct b eqn:?
    end.

  Definition Inv (c : lcolumn) (st : pv * pv) : Prop :=
    match l_stats c with
    | None => True
    | Some s => (is_none (raw_of (l_max s) (l_max_value s)) = true -> fst st = PNone) /\
                (is_none (raw_of (l_min s) (l_min_value s)) = true -> snd st = PNone)
    end.

  Lemma any_res_map {A B} (g : A -> B) (f : B -> res bool) l : any_res f (map g l) = any_res (fun a => f (g a)) l.
  Proof. induction l as [|a l IH]; [reflexivity|]. cbn [map any_res]. rewrite IH. reflexivity. Qed.

  Lemma truthy_not_none x : truthy x = true -> is_none x = false.
  Proof. destruct x; cbn; congruence. Qed.
  Ltac split_atom :=
    match goal with
    | |- context [truthy ?x] => is_var x; destruct (truthy x) eqn:?
    | H : truthy ?x = true |- context [is_none ?x] => rewrite (truthy_not_none x H)
    | |- context [is_none ?x] => destruct (is_none x) eqn:?
    | |- context [Z.eqb ?a ?b] => destruct (Z.eqb a b) eqn:?
    end.
  Ltac use_eqs := repeat match goal with H : _ = true |- _ => progress rewrite H | H : _ = false |- _ => progress rewrite H end.
  Ltac crunch := repeat first [progress cbn | ext_step | split_atom].

  Lemma inner_body (c : lcolumn) (f : cond) (st : pv * pv) (body : pv -> pv * pv -> res (step (pv * pv))) : True.
  Proof. exact I. Qed.

  (* statistics objects as read from the footer (nothing memoised), columns without converted / logical type *)
  Theorem gen_stats_refines_fresh_plain :
    (forall n, se_ct n = PNone) -> (forall n, se_lt n = PNone) ->
    forall (R : Type) (rg : lrowgroup R) (fs : list cond),
    filter_out_stats ext filter_val (emb_rg (map_cols fresh_col rg)) (PList (map emb_cond fs)) schema
    = bind (Filter.filter_out_stats R filter_val (abs_rg dec (map_cols fresh_col rg)) fs) (fun b => Ok (PBool b)).
  Proof.
    intros Hct Hlt.
    intros R rg fs. unfold filter_out_stats, Filter.filter_out_stats.
    cbn [emb_rg map_cols lg_num_rows lg_columns obj map fst snd py_attr obj_get String.eqb Ascii.eqb Bool.eqb bind py_eq pv_eqb truthy abs_rg rg_num_rows rg_columns].
    destruct (lg_num_rows rg =? 0) eqn:En; [reflexivity|].
    destruct fs as [|f0 fs']; [reflexivity|]. remember (f0 :: fs') as fs1 eqn:Efs.
    assert (Hlen : bind (py_len (PList (map emb_cond fs1))) (fun t => py_eq t (PInt 0)) = Ok (PBool false))
      by (subst fs1; cbn; reflexivity).
    rewrite Hlen. cbn [bind truthy py_iter elems]. clear Hlen.
    rewrite !map_map. rewrite (any_res_map (fun c => abs_col dec (fresh_col c))).
    match goal with |- context [py_for (map ?emb ?l) tt ?body] =>
      assert (Hbody : forall a (s : unit), True -> exists s' : unit, True /\
                body (emb a) s = bind (any_res (stats_one filter_val (abs_col dec (fresh_col a))) (app_filters (c_name (abs_col dec (fresh_col a))) fs1))
                                      (fun b => if b then Ok (Ret (PBool true)) else Ok (Cont s')))
    end.
    { intros c [] _. exists tt. split; [exact I|].
      cbn [emb_col fresh_col l_name l_num_values l_type obj map fst snd py_attr obj_get String.eqb Ascii.eqb Bool.eqb bind py_join elems strs_of String.concat abs_col c_name].
      erewrite (listcomp_filter_map emb_cond (fun f => String.eqb (cname f) (l_name c)) emb_tail);
        [ | intros [[n o] v]; cbn; reflexivity | intros [[n o] v]; cbn; reflexivity ].
      cbn [bind py_iter elems]. unfold app_filters.
      match goal with |- context [py_for (map emb_tail ?l) ?s0 ?body] =>
        assert (Hin : forall f st, Inv (fresh_col c) st -> exists st', Inv (fresh_col c) st' /\
                  body (emb_tail f) st = bind (stats_one filter_val (abs_col dec (fresh_col c)) f)
                                              (fun b => if b then Ok (Ret (PBool true)) else Ok (Cont st')))
      end.
      { intros [[n o] v] [vmax vmin] Hinv. unfold stats_one, Inv, abs_col, fresh_col in *.
        cbn [c_stats c_num_values cop cval fst snd emb_tail py_unpack2 bind l_stats l_name l_type l_num_values] in *.
        rewrite H_se, H_utc. cbn [bind].
        destruct (l_stats c) as [s|].
        2:{ exists (vmax, vmin). split; [exact I|]. cbn. reflexivity. }
        destruct s as [nc mx mxv mn mnv cmx cmn]. unfold abs_stats, bound, dec, raw_of, fresh_stats in *. unfold se_obj in *; rewrite ?Hct, ?Hlt in *.
        cbn [l_null_count l_max l_max_value l_min l_min_value l_cmax l_cmin st_max st_min st_null_count fst snd] in *.
        destruct Hinv as [Hx Hn]. revert Hx Hn.
        destruct nc as [n0|]; crunch; intros Hx Hn;
          try rewrite (Hx eq_refl); try rewrite (Hn eq_refl);
          try (match goal with |- context [filter_val ?a ?b ?c0 ?d] => destruct (filter_val a b c0 d) as [r|e] end;
               cbn [bind]; [destruct (truthy r) eqn:?|]); cbn [bind];
          (first [ match goal with |- exists st', _ /\ Ok (Cont ?x) = _ => exists x end | exists (PNone, PNone) ]);
          (split; [cbn; split; intros; solve [reflexivity | discriminate | auto] | reflexivity]). }
      destruct (py_for_any emb_tail _ (Inv (fresh_col c)) _ Hin (filter (fun f => String.eqb (cname f) (l_name c)) fs1) (PNone, PNone)) as [st' [_ E]].
      { unfold Inv. destruct (l_stats (fresh_col c)); [split; reflexivity|exact I]. }
      rewrite E. destruct st' as [sa sb]. destruct (any_res _ _) as [[|]|]; reflexivity. }
    destruct (py_for_any _ _ (fun _ : unit => True) _ Hbody (lg_columns rg) tt I) as [s' [_ E]].
    rewrite E. destruct (any_res _ _) as [[|]|]; reflexivity.
  Qed.

  (* skip answers of the regenerated loop are sound: the row-group level theorem of C05 through the refinement *)
  Theorem gen_stats_skip_sound_fresh_plain :
    (forall n, se_ct n = PNone) -> (forall n, se_lt n = PNone) ->
    forall (R : Type) (cell : R -> string -> pv) (rg : lrowgroup R) (g : list cond) (r : R),
    leaf_sound (fun op => In op ops) filter_val -> (forall f, In f g -> In (cop f) ops) ->
    (lg_num_rows rg = 0 -> lg_rows rg = []) ->
    (forall f, In f g -> stats_valid R cell (abs_rg dec (map_cols fresh_col rg)) f) ->
    In r (lg_rows rg) -> sat_and R cell r g = true ->
    filter_out_stats ext filter_val (emb_rg (map_cols fresh_col rg)) (PList (map emb_cond g)) schema <> Ok (PBool true).
  Proof.
    intros Hct Hlt R cell rg g r Hleaf Hops Hz Hv Hr Hs H.
    rewrite (gen_stats_refines_fresh_plain Hct Hlt) in H.
    destruct (Filter.filter_out_stats R filter_val (abs_rg dec (map_cols fresh_col rg)) g) as [b|e] eqn:E; [|discriminate].
    injection H as ->.
    apply (stats_keep R cell filter_val (fun op => In op ops) Hleaf (abs_rg dec (map_cols fresh_col rg)) g r); try assumption.
    intros f Hf. split; [exact (Hops f Hf)|exact (Hv f Hf)].
  Qed.

(* ---- THOROUGH ONLY ---- *)
  (* full generality: memoised bounds present or not, any schema element *)
  Theorem gen_stats_refines : forall (R : Type) (rg : lrowgroup R) (fs : list cond),
    filter_out_stats ext filter_val (emb_rg (map_cols (fun c => c) rg)) (PList (map emb_cond fs)) schema
    = bind (Filter.filter_out_stats R filter_val (abs_rg dec (map_cols (fun c => c) rg)) fs) (fun b => Ok (PBool b)).
  Proof.
    intros R rg fs. unfold filter_out_stats, Filter.filter_out_stats.
    cbn [emb_rg map_cols lg_num_rows lg_columns obj map fst snd py_attr obj_get String.eqb Ascii.eqb Bool.eqb bind py_eq pv_eqb truthy abs_rg rg_num_rows rg_columns].
    destruct (lg_num_rows rg =? 0) eqn:En; [reflexivity|].
    destruct fs as [|f0 fs']; [reflexivity|]. remember (f0 :: fs') as fs1 eqn:Efs.
    assert (Hlen : bind (py_len (PList (map emb_cond fs1))) (fun t => py_eq t (PInt 0)) = Ok (PBool false))
      by (subst fs1; cbn; reflexivity).
    rewrite Hlen. cbn [bind truthy py_iter elems]. clear Hlen.
    rewrite !map_map. rewrite (any_res_map (fun c => abs_col dec ((fun c : lcolumn => c) c))).
    match goal with |- context [py_for (map ?emb ?l) tt ?body] =>
      assert (Hbody : forall a (s : unit), True -> exists s' : unit, True /\
                body (emb a) s = bind (any_res (stats_one filter_val (abs_col dec ((fun c : lcolumn => c) a))) (app_filters (c_name (abs_col dec ((fun c : lcolumn => c) a))) fs1))
                                      (fun b => if b then Ok (Ret (PBool true)) else Ok (Cont s')))
    end.
    { intros c [] _. exists tt. split; [exact I|].
      cbn [emb_col fresh_col l_name l_num_values l_type obj map fst snd py_attr obj_get String.eqb Ascii.eqb Bool.eqb bind py_join elems strs_of String.concat abs_col c_name].
      erewrite (listcomp_filter_map emb_cond (fun f => String.eqb (cname f) (l_name c)) emb_tail);
        [ | intros [[n o] v]; cbn; reflexivity | intros [[n o] v]; cbn; reflexivity ].
      cbn [bind py_iter elems]. unfold app_filters.
      match goal with |- context [py_for (map emb_tail ?l) ?s0 ?body] =>
        assert (Hin : forall f st, Inv ((fun c : lcolumn => c) c) st -> exists st', Inv ((fun c : lcolumn => c) c) st' /\
                  body (emb_tail f) st = bind (stats_one filter_val (abs_col dec ((fun c : lcolumn => c) c)) f)
                                              (fun b => if b then Ok (Ret (PBool true)) else Ok (Cont st')))
      end.
      { intros [[n o] v] [vmax vmin] Hinv. unfold stats_one, Inv, abs_col, fresh_col in *.
        cbn [c_stats c_num_values cop cval fst snd emb_tail py_unpack2 bind l_stats l_name l_type l_num_values] in *.
        rewrite H_se, H_utc. cbn [bind].
        destruct (l_stats c) as [s|].
        2:{ exists (vmax, vmin). split; [exact I|]. cbn. reflexivity. }
        destruct s as [nc mx mxv mn mnv cmx cmn]. unfold abs_stats, bound, dec, raw_of, fresh_stats in *.
        cbn [l_null_count l_max l_max_value l_min l_min_value l_cmax l_cmin st_max st_min st_null_count fst snd] in *.
        destruct Hinv as [Hx Hn]. revert Hx Hn.
        destruct nc as [n0|]; try (destruct cmx as [cx|]); try (destruct cmn as [cn|]); crunch; intros Hx Hn;
          try rewrite (Hx eq_refl); try rewrite (Hn eq_refl);
          try (match goal with |- context [filter_val ?a ?b ?c0 ?d] => destruct (filter_val a b c0 d) as [r|e] end;
               cbn [bind]; [destruct (truthy r) eqn:?|]); cbn [bind];
          (first [ match goal with |- exists st', _ /\ Ok (Cont ?x) = _ => exists x end | exists (PNone, PNone) ]);
          (split; [cbn; split; intros; solve [reflexivity | discriminate | auto] | reflexivity]). }
      destruct (py_for_any emb_tail _ (Inv ((fun c : lcolumn => c) c)) _ Hin (filter (fun f => String.eqb (cname f) (l_name c)) fs1) (PNone, PNone)) as [st' [_ E]].
      { unfold Inv. destruct (l_stats ((fun c : lcolumn => c) c)); [split; reflexivity|exact I]. }
      rewrite E. destruct st' as [sa sb]. destruct (any_res _ _) as [[|]|]; reflexivity. }
    destruct (py_for_any _ _ (fun _ : unit => True) _ Hbody (lg_columns rg) tt I) as [s' [_ E]].
    rewrite E. destruct (any_res _ _) as [[|]|]; reflexivity.
  Qed.
End Loop.

(* the loop instantiated with the regenerated leaf decision and its soundness (GenFilterProofs, same run) *)
From PqGen Require GenFilter GenFilterProofs.
Theorem gen_loop_skip_sound :
  forall ext schema eb rp cv se_ct se_lt,
  (forall name, ext ".schema_element" [schema; PStr name] = Ok (se_obj se_ct se_lt name)) ->
  (forall v, ext "_naive_utc" [v] = Ok v) -> (forall x, ext "ensure_bytes" [x] = Ok (eb x)) ->
  (forall b t, ext "encoding.read_plain,stat" [b; t; PInt 1; PBool true] = Ok (rp b t)) ->
  (forall v se, ext "converted_types.convert" [v; se] = Ok (cv v se)) ->
  (forall n, se_ct n = PNone) -> (forall n, se_lt n = PNone) ->
  forall (R : Type) (cell : R -> string -> pv) (rg : lrowgroup R) (g : list cond) (r : R),
  (forall f, In f g -> In (cop f) ops) ->
  (lg_num_rows rg = 0 -> lg_rows rg = []) ->
  (forall f, In f g -> stats_valid R cell (abs_rg (dec eb rp cv se_ct se_lt) (map_cols fresh_col rg)) f) ->
  In r (lg_rows rg) -> sat_and R cell r g = true ->
  filter_out_stats ext GenFilter.filter_val (emb_rg (map_cols fresh_col rg)) (PList (map emb_cond g)) schema <> Ok (PBool true).
Proof.
  intros ext schema eb rp cv se_ct se_lt H1 H2 H3 H4 H5 Hct Hlt R cell rg g r Hops Hz Hv Hr Hs.
  eapply gen_stats_skip_sound_fresh_plain with (cell := cell) (r := r) (eb := eb) (rp := rp) (cv := cv) (se_ct := se_ct) (se_lt := se_lt);
    try eassumption; exact GenFilterProofs.leaf_all_sound.
Qed.
Print Assumptions gen_loop_skip_sound.
