(* Re-proved on every run against the REGENERATED text of ParquetFile._sort_part_names (PqGen.GenSortNames,
   translators/sortnames2coq.py): the regenerated two-pass renumbering IS the hand model Edit.sort_pnames_fixed, hence
   C09_sort_part_names (it never fails on a state satisfying the invariant, keeps the invariant, the content and the
   partitioning) and with it C09_history hold for the code as it is now.                                            *)
From Coq Require Import NArith ZArith List Bool.
From Pq Require Import Base.Bytes Dataset.FS Dataset.FsPaths Dataset.PathPrelude Dataset.Edit Proofs.CrashProofs Proofs.EditRename.
From PqGen Require Import GenSortNames.
Import ListNotations.
Open Scope N_scope.

Lemma join_app d a b : join d (a ++ b) = join d a ++ b.
Proof. unfold join. destruct d; [reflexivity|]. now rewrite <- !app_assoc. Qed.

Lemma fmt_final i : py_fmt_i [112; 97; 114; 116; 46] [46; 112; 97; 114; 113; 117; 101; 116] i = part_name i.
Proof. reflexivity. Qed.

Lemma fmt_tmp i : py_fmt_i [112; 97; 114; 116; 46] [46; 112; 97; 114; 113; 117; 101; 116; 46; 116; 109; 112] i = part_name i ++ s_tmp.
Proof. unfold py_fmt_i, part_name, s_part, s_parquet, dot, s_tmp. cbn [app]. now rewrite <- !app_assoc. Qed.

Theorem gen_new_path_is_model ip : gen_new_path ip = final_name (fst ip) (snd ip).
Proof. unfold gen_new_path, final_name. now rewrite ?fmt_final. Qed.

Theorem gen_pass1_is_model ip : gen_pass1 ip = (snd ip, tmp_name (fst ip) (snd ip)).
Proof. unfold gen_pass1, tmp_name, final_name. now rewrite ?fmt_tmp, ?fmt_final, ?join_app. Qed.

Theorem gen_pass2_is_model ip : gen_pass2 ip = (tmp_name (fst ip) (snd ip), final_name (fst ip) (snd ip)).
Proof. unfold gen_pass2, tmp_name, final_name. now rewrite ?fmt_tmp, ?fmt_final, ?join_app. Qed.

Theorem gen_renames_is_model sum : gen_renames sum = renames sum.
Proof. reflexivity. Qed.

Lemma gen_relabel_is_model rn e : gen_relabel rn e = relabel rn e.
Proof.
  unfold gen_relabel, relabel. induction rn as [|x rn IH]; cbn [find]; [reflexivity|].
  match goal with |- context [if ?b then Some x else _] => destruct b eqn:F end; [|apply IH].
  apply bytes_eqb_true in F. rewrite gen_new_path_is_model.
  apply (f_equal (fun p => (final_name (fst x) p, snd e))). exact F.
Qed.

(* the regenerated method = the hand model the C09 theorems are stated with *)
Theorem gen_sort_pnames_is_model s : gen_sort_pnames s = sort_pnames_fixed s.
Proof.
  unfold gen_sort_pnames, sort_pnames_fixed. rewrite gen_renames_is_model.
  destruct (renames (st_sum s)) as [rn|]; [|reflexivity].
  rewrite (map_ext _ _ gen_pass1_is_model), (map_ext _ _ gen_pass2_is_model).
  destruct (rename_all _ (st_dir s)) as [d1|]; [|reflexivity].
  destruct (rename_all _ d1) as [d2|]; [|reflexivity].
  now rewrite (map_ext _ _ (gen_relabel_is_model rn)).
Qed.
Print Assumptions gen_sort_pnames_is_model.

(* C09_sort_part_names on the regenerated text *)
Theorem gen_sort_part_names_ok : forall s, inv s ->
  exists s', gen_sort_pnames s = Some s' /\ inv s' /\ abs s' = abs s /\ st_part s' = st_part s.
Proof. intros s H. rewrite gen_sort_pnames_is_model. now apply sort_pnames_fixed_ok. Qed.
Print Assumptions gen_sort_part_names_ok.
