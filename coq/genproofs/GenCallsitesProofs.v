(* Re-proved on every run over the construction sites callsites2coq extracts from writer.py, util.py, api.py. *)
From Coq Require Import NArith List String Bool.
From Pq Require Import Thrift.Idl Thrift.IdlPinned Thrift.Tables.
From PqGen Require Import GenCallsites.

(* every construction site sets only declared fields; for each integer field the marker-selected wire
   type is the IDL's; no integer/enum field is given a boolean expression; i32list ids are i32 fields *)
Theorem gen_callsites_markers_conform : forallb (site_ok pinned) GenCallsites.callsites = true.
Proof. vm_compute. reflexivity. Qed.
Print Assumptions gen_callsites_markers_conform.

(* every `parquet_thrift.<Enum>.<NAME>` the files mention is a declared member; an enum-typed field given such a
   constant gets a member of its own declared enum; an integer literal given to an enum-typed field is in range *)
Theorem gen_enum_uses_declared :
  forallb (fun u => enum_member pinned (fst u) (snd u)) GenCallsites.enum_uses = true.
Proof. vm_compute. reflexivity. Qed.
Print Assumptions gen_enum_uses_declared.

Theorem gen_callsites_enums_in_range : forallb (site_enums_ok pinned) GenCallsites.callsites = true.
Proof. vm_compute. reflexivity. Qed.
Print Assumptions gen_callsites_enums_in_range.

Example gen_callsites_nonvacuous :
  Nat.leb 30 (List.length (filter (site_judged pinned) GenCallsites.callsites)) = true.
Proof. vm_compute. reflexivity. Qed.
