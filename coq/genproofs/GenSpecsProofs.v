(* Re-proved on every run over the tables specs2coq regenerates from cencoding.pyx (`specs`, `children`). *)
From Coq Require Import NArith List String Bool.
From Pq Require Import Thrift.Idl Thrift.IdlPinned Thrift.Tables.
From PqGen Require Import GenSpecs.

(* every struct of cencoding.pyx's `specs` is an IDL struct with exactly the IDL's field names and ids *)
Theorem gen_specs_agree_with_idl : specs_ok pinned GenSpecs.specs = true.
Proof. vm_compute. reflexivity. Qed.
Print Assumptions gen_specs_agree_with_idl.

(* every nested-struct name in `children` is the IDL's type of that field *)
Theorem gen_children_agree_with_idl : children_ok pinned GenSpecs.children = true.
Proof. vm_compute. reflexivity. Qed.
Print Assumptions gen_children_agree_with_idl.
