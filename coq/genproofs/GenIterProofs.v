(* iter_row_groups.  Obligations over the Gallina text that translators/readloops.py regenerates from
   fastparquet/api.py on every run (Gen/GenIter.v, logical root PqGen).
   The statement is the PROPERTY (every row group that holds rows is delivered once, in order, with exactly its
   rows and the requested columns; the frames concatenate to the full read), for requests with at least one data
   column - the region where the property claims something.  The yield condition is evaluated by computation on the
   shape of the frame, so `not df.empty`, `len(df.index) > 0 and len(df.columns) > 0` and `len(df) > 0` all go
   through, while `len(df) > 1` (single-row groups dropped) does not. *)
From Coq Require Import List ZArith Arith Bool Lia.
From Pq Require Import Base.Bytes Dataset.Read Proofs.ReadProofs.
From PqGen Require Import GenIter.
Import ListNotations.
Close Scope N_scope.
Local Open Scope nat_scope.

Section GenIterProofs.
  Variables D R Name : Type.
  Variable deqb : D -> D -> bool.
  Variable neqb : Name -> Name -> bool.
  Variable rows : D -> list R.
  Variable nrows : D -> nat.
  Hypothesis deqb_spec : forall a b : D, reflect (a = b) (deqb a b).
  Notation wf := (wf D R rows nrows).

  Definition has_rows (d : D) : bool := match rows d with [] => false | _ => true end.

  Lemma gen_iter_loop_spec : forall (h : handle D Name) (o : ropts Name) (ci : list Name * list Name) (sub : list D),
    wf (h_rgs h) -> incl sub (h_rgs h) ->
    (forall d, out_columns neqb (with_rgs h [d]) o = Ok ci) -> fst ci <> [] ->
    iter_loop D R Name deqb neqb rows nrows h o sub
    = Ok (map (fun d => mk_frame (fst ci) (snd ci) (map Some (rows d))) (filter has_rows sub)).
  Proof.
    intros h o ci sub H Hs Hc Hne. induction sub as [|d sub IH]; [reflexivity|].
    cbn [iter_loop].
    destruct (index_of_nth D deqb deqb_spec (h_rgs h) d) as [i [Hi Hn]]; [apply Hs; left; reflexivity|].
    rewrite Hi. cbn [bind].
    rewrite (getitem_pick_read D R Name neqb rows nrows h (Z.of_nat i) o H).
    rewrite (py_pick_nat _ _ _ _ Hn), Hc. cbn [bind].
    rewrite IH by (intros x Hx; apply Hs; right; exact Hx). cbn [bind filter].
    unfold has_rows. destruct (fst ci) as [|c cs] eqn:Ec; [contradiction|].
    destruct (rows d) as [|r rs] eqn:Er; cbn; rewrite ?Er; reflexivity.
  Qed.

  (* GEN: the generator as regenerated from the source delivers every row group that holds rows once, in order,
     with exactly its rows and the requested columns *)
  Theorem gen_iter_spec : forall (h : handle D Name) (o : ropts Name) (ci : list Name * list Name),
    wf (h_rgs h) -> h_rgs h <> [] -> out_columns neqb h o = Ok ci -> fst ci <> [] ->
    gen_iter D R Name deqb neqb rows nrows h o
    = Ok (map (fun d => mk_frame (fst ci) (snd ci) (map Some (rows d))) (filter has_rows (h_rgs h))).
  Proof.
    intros h o ci H Hr Hc Hne. unfold gen_iter. apply gen_iter_loop_spec; [exact H|apply incl_refl| |exact Hne].
    intros d. rewrite <- Hc. rewrite <- (with_rgs_same D Name h) at 2.
    apply out_columns_nonempty_irrel; [discriminate|exact Hr].
  Qed.

  Theorem gen_iter_no_row_groups : forall (h : handle D Name) (o : ropts Name),
    h_rgs h = [] -> gen_iter D R Name deqb neqb rows nrows h o = Ok [].
  Proof. intros h o E. unfold gen_iter. rewrite E. reflexivity. Qed.

  (* GEN: ... and the delivered frames concatenate to the full read of the handle *)
  Theorem gen_iter_concat_is_full : forall (h : handle D Name) (o : ropts Name) (ci : list Name * list Name) fs,
    wf (h_rgs h) -> h_rgs h <> [] -> out_columns neqb h o = Ok ci -> fst ci <> [] ->
    gen_iter D R Name deqb neqb rows nrows h o = Ok fs ->
    concat (map f_rows fs) = map Some (concat (map rows (h_rgs h))).
  Proof.
    intros h o ci fs H Hr Hc Hne Hg. rewrite (gen_iter_spec h o ci H Hr Hc Hne) in Hg. injection Hg as <-.
    clear. induction (h_rgs h) as [|d l IH]; [reflexivity|].
    cbn [filter map concat]. unfold has_rows at 1. destruct (rows d) as [|r rs] eqn:Er.
    - cbn [app]. exact IH.
    - cbn [map concat f_rows]. rewrite IH, Er, map_app. reflexivity.
  Qed.
End GenIterProofs.

Print Assumptions gen_iter_spec.
Print Assumptions gen_iter_no_row_groups.
Print Assumptions gen_iter_concat_is_full.
