(* iter_row_groups.  Obligations over the Gallina text that translators/readloops.py regenerates from
   fastparquet/api.py on every run (Gen/GenIter.v, logical root PqGen).  The yield condition is compared with the
   model's `not df.empty` by computation on the shape of the frame, so an equivalent spelling
   (`len(df.index) > 0 and len(df.columns) > 0`) still goes through while `len(df) > 1` does not. *)
From Coq Require Import List ZArith Arith Bool Lia.
From Pq Require Import Base.Bytes Dataset.Read Proofs.ReadProofs.
From PqGen Require Import GenIter.
Import ListNotations.
Close Scope N_scope.
Local Open Scope nat_scope.

Section GenIterProofs.
  Variables D R Name : Type.
  Variable deqb : D -> D -> bool.
  Variable neqb : Name -> Name -> bool.
  Variable rows : D -> list R.
  Variable nrows : D -> nat.

  Lemma gen_iter_loop_model : forall (h : handle D Name) (o : ropts Name) (sub : list D),
    iter_loop D R Name deqb neqb rows nrows h o sub =
    bind (mapM (fun rg => match index_of deqb rg (h_rgs h) with
                          | None => Fail ValueError
                          | Some i => bind (getitem_pick h (Z.of_nat i)) (fun h' => to_pandas neqb rows nrows h' o)
                          end) sub)
         (fun fs => Ok (filter (fun f => negb (frame_empty f)) fs)).
  Proof.
    intros h o sub. induction sub as [|rg rest IH]; [reflexivity|].
    cbn [iter_loop mapM]. rewrite IH. clear IH.
    destruct (index_of deqb rg (h_rgs h)) as [i|]; cbn [bind]; [|reflexivity].
    destruct (getitem_pick h (Z.of_nat i)) as [h1|e]; cbn [bind]; [|reflexivity].
    destruct (to_pandas neqb rows nrows h1 o) as [df|e]; cbn [bind]; [|reflexivity].
    destruct (mapM _ rest) as [fs|e]; cbn [bind filter]; [|reflexivity].
    destruct df as [c ix r]; destruct c, r; reflexivity.
  Qed.

  (* GEN: the generator as regenerated from the source is the model's iter_row_groups *)
  Theorem gen_iter_is_model : forall (h : handle D Name) (o : ropts Name),
    gen_iter D R Name deqb neqb rows nrows h o = iter_row_groups deqb neqb rows nrows h o.
  Proof. intros h o. unfold gen_iter, iter_row_groups. apply gen_iter_loop_model. Qed.

  (* GEN: hence every non-empty row group is delivered once, in order, with exactly its rows *)
  Theorem gen_iter_spec :
    (forall a b : D, reflect (a = b) (deqb a b)) ->
    forall (h : handle D Name) (o : ropts Name),
    (forall d, In d (h_rgs h) -> nrows d = length (rows d)) ->
    gen_iter D R Name deqb neqb rows nrows h o =
    match h_rgs h with
    | [] => Ok []
    | _ => bind (out_columns neqb h o) (fun ci =>
             Ok (filter (fun f => negb (frame_empty f))
                        (map (fun d => mk_frame (fst ci) (snd ci) (map Some (rows d))) (h_rgs h))))
    end.
  Proof. intros Hd h o H. rewrite gen_iter_is_model. apply iter_spec; assumption. Qed.
End GenIterProofs.

Print Assumptions gen_iter_is_model.
Print Assumptions gen_iter_spec.
