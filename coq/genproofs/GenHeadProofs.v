(* head's prefix-sum loop and slice.  Obligations over the Gallina text that translators/readloops.py regenerates from fastparquet/api.py on
   every run (Gen/GenHead.v, Gen/GenToPandas.v, logical root PqGen).  Proof scripts avoid naming the
   comparison operator or the order of independent statements so that equivalent rewrites still go through
   (e.g. `total_rows > nrows` instead of `>=` reads one more group and yields the same first n rows). *)
From Coq Require Import List ZArith Arith Bool Lia ZifyBool.
From Pq Require Import Base.Bytes Dataset.Read Dataset.PyPrelude Proofs.ReadProofs.
From PqGen Require Import GenHead.
Import ListNotations.
Close Scope N_scope.
Local Open Scope nat_scope.

Lemma firstn_app_exact : forall A (l m : list A) k, firstn (length l + k) (l ++ m) = l ++ firstn k m.
Proof. intros. apply firstn_app_2. Qed.

Section GenHeadProofs.
  Variables D R Name : Type.
  Variable neqb : Name -> Name -> bool.
  Variable rows : D -> list R.
  Variable nrows : D -> nat.
  Let num_rows (d : D) : Z := Z.of_nat (nrows d).
  Notation wf := (wf D R rows nrows).

  (* ------------------------------------------------------------------ head *)

  Ltac split_if := lazymatch goal with |- context [if ?c then _ else _] => destruct c eqn:?E end.

  (* every boolean test of the regenerated loop condition is decided by case analysis; each resulting goal is either the
     "stop here" or the "go on" branch *)
  Ltac split_conds := repeat lazymatch goal with |- context [if ?c then _ else _] => destruct c eqn:? end.

  Lemma gen_head_loop_spec : forall rgs (k : nat) (t n : Z), wf rgs -> (0 <= n)%Z ->
    exists t' z,
      head_loop D num_rows rgs (Z.of_nat k) (Some n) (Some t) (Some (Z.of_nat k - 1)%Z) = Some (Some t', Some z) /\
      (Z.of_nat k - 1 <= z)%Z /\ (rgs <> [] -> (Z.of_nat k <= z)%Z) /\
      firstn (Z.to_nat (n - t)) (concat (map rows (firstn (Z.to_nat (z + 1) - k) rgs)))
      = firstn (Z.to_nat (n - t)) (concat (map rows rgs)).
  Proof.
    induction rgs as [|d rgs IH]; intros k t n H Hn.
    - exists t, (Z.of_nat k - 1)%Z. cbn [head_loop]. repeat split; try lia; try congruence.
      rewrite firstn_nil. reflexivity.
    - assert (Hd : nrows d = length (rows d)) by (apply H; left; reflexivity).
      assert (H' : wf rgs) by (eapply wf_incl; [exact H|apply incl_tl, incl_refl]).
      destruct (IH (S k) (t + num_rows d)%Z n H' Hn) as [t' [z [Hz [H1 [H2 H3]]]]].
      cbn [head_loop]. unfold oandb, oorb, ocmp, oadd, osub, oneg, o2, option_map. cbn beta iota.
      split_conds;
      first
      [ (* the loop stops at this group: it already holds the first n - t rows of what remains *)
        exists (t + num_rows d)%Z, (Z.of_nat k); split; [reflexivity|];
        repeat split; try lia;
        replace (Z.to_nat (Z.of_nat k + 1) - k) with 1 by lia;
        cbn [firstn map concat]; rewrite app_nil_r;
        assert (Hm : Z.to_nat (n - t) <= length (rows d)) by (unfold num_rows in *; lia);
        rewrite firstn_app; replace (Z.to_nat (n - t) - length (rows d)) with 0 by lia;
        cbn [firstn]; rewrite app_nil_r; reflexivity
      | (* the loop goes on *)
        replace (Z.of_nat k + 1)%Z with (Z.of_nat (S k)) by lia;
        replace (Some (Z.of_nat k)) with (Some (Z.of_nat (S k) - 1)%Z) by (f_equal; lia);
        exists t', z; split; [exact Hz|]; split; [lia|]; split; [intros _; lia|];
        replace (Z.to_nat (z + 1) - k) with (S (Z.to_nat (z + 1) - S k)) by lia;
        cbn [firstn map concat];
        destruct (Nat.le_gt_cases (Z.to_nat (n - t)) (length (rows d))) as [Hle|Hgt];
        [ (* going on although this group already holds the rows asked for (a later stop is always safe) *)
          rewrite !firstn_app; replace (Z.to_nat (n - t) - length (rows d)) with 0 by lia; cbn [firstn]; reflexivity
        | assert (Hm : Z.to_nat (n - t) = length (rows d) + Z.to_nat (n - (t + num_rows d))) by (unfold num_rows in *; lia);
          rewrite Hm, !firstn_app_exact; f_equal; exact H3 ] ].
  Qed.

  (* GEN: a NEGATIVE n ("all but the last -n rows") never stops the loop: every row group is selected, so head(n) is
     DataFrame.head(n) of the full read (the pinned loop stopped at the first group: fix 85ccef2) *)
  Lemma gen_head_loop_negative : forall rgs (k : nat) (t n : Z), (n < 0)%Z -> (0 <= t)%Z ->
    exists t',
      head_loop D num_rows rgs (Z.of_nat k) (Some n) (Some t) (Some (Z.of_nat k - 1)%Z)
      = Some (Some t', Some (Z.of_nat k + Z.of_nat (length rgs) - 1)%Z) /\ (0 <= t')%Z.
  Proof.
    induction rgs as [|d rgs IH]; intros k t n Hn Ht.
    - exists t. cbn [head_loop length]. split; [do 3 f_equal; lia|exact Ht].
    - assert (Ht2 : (0 <= t + num_rows d)%Z) by (unfold num_rows; lia).
      destruct (IH (S k) (t + num_rows d)%Z n Hn Ht2) as [t' [Hz Ht']].
      cbn [head_loop]. unfold oandb, oorb, ocmp, oadd, osub, oneg, o2, option_map. cbn beta iota.
      split_conds; try (exfalso; unfold num_rows in *; lia).
      all: exists t'; split; [|exact Ht'].
      all: replace (Z.of_nat k + 1)%Z with (Z.of_nat (S k)) by lia.
      all: replace (Some (Z.of_nat k)) with (Some (Z.of_nat (S k) - 1)%Z) by (f_equal; lia).
      all: rewrite Hz; cbn [length]; do 3 f_equal; lia.
  Qed.

  Theorem gen_head_negative_selects_everything : forall (rgs : list D) (n : Z), (n < 0)%Z ->
    head_stop D num_rows rgs n = Some (Z.of_nat (length rgs)).
  Proof.
    intros rgs n Hn. unfold head_stop. cbn beta iota. unfold oneg. cbn [option_map].
    destruct (gen_head_loop_negative rgs 0 0%Z n Hn (Z.le_refl 0)) as [t' [Hz _]].
    change (Z.of_nat 0) with 0%Z in Hz. change (0 - 1)%Z with (-1)%Z in Hz. change (- (1))%Z with (-1)%Z.
    rewrite Hz. unfold oadd, o2. f_equal. lia.
  Qed.

  Definition gen_head (h : handle D Name) (n : nat) (o : ropts Name) : res (frame R Name) :=
    match head_stop D num_rows (h_rgs h) (Z.of_nat n) with
    | None => Fail UnboundLocalError
    | Some z =>
      bind (getitem_slice h (mk_slice None (Some z) None)) (fun h' =>
      bind (to_pandas neqb rows nrows h' o) (fun f => Ok (frame_head n f)))
    end.

  (* GEN: head(n), with the loop and the slice bound as regenerated from the source, returns the first n rows of
     the full read - every n, every dataset including one without row groups *)
  Theorem gen_head_is_firstn_of_full : forall (h : handle D Name) n o, wf (h_rgs h) ->
    gen_head h n o = bind (to_pandas neqb rows nrows h o) (fun f => Ok (frame_head n f)).
  Proof.
    intros h n o H. unfold gen_head, head_stop. cbn beta iota. unfold oneg. cbn [option_map].
    destruct (gen_head_loop_spec (h_rgs h) 0 0%Z (Z.of_nat n) H (Nat2Z.is_nonneg n)) as [t' [z [Hz [H1 [H2 H3]]]]].
    change (Z.of_nat 0) with 0%Z in Hz. change (0 - 1)%Z with (-1)%Z in Hz. change (- (1))%Z with (-1)%Z.
    rewrite Hz. unfold oadd, o2.
    assert (Hz0 : (0 <= z + 1)%Z) by lia.
    unfold getitem_slice. rewrite py_slice_prefix by exact Hz0. cbn [bind].
    set (pre := firstn (Z.to_nat (z + 1)) (h_rgs h)).
    assert (Hpre : wf pre) by (eapply wf_incl; [exact H|apply firstn_incl]).
    rewrite (to_pandas_wf D R Name neqb rows nrows (with_rgs h pre) o) by exact Hpre.
    rewrite (to_pandas_wf D R Name neqb rows nrows h o) by exact H.
    assert (Hcols : out_columns neqb (with_rgs h pre) o = out_columns neqb h o).
    { destruct (h_rgs h) as [|d0 l0] eqn:E.
      - subst pre. rewrite firstn_nil. rewrite <- E. rewrite with_rgs_same. reflexivity.
      - rewrite <- (with_rgs_same D Name h) at 2. apply out_columns_nonempty_irrel; [|rewrite E; discriminate].
        subst pre. assert (0 <= z)%Z by (apply H2; discriminate).
        replace (Z.to_nat (z + 1)) with (S (Z.to_nat z)) by lia. cbn. discriminate. }
    rewrite Hcols. destruct (out_columns neqb h o) as [ci|e]; [|reflexivity]. cbn [bind].
    unfold frame_head. cbn [f_cols f_index f_rows]. f_equal. f_equal.
    rewrite Z.sub_0_r, Nat2Z.id, Nat.sub_0_r in H3. fold pre in H3.
    unfold full. change (h_rgs (with_rgs h pre)) with pre. rewrite !firstn_map, H3. reflexivity.
  Qed.
End GenHeadProofs.

Print Assumptions gen_head_is_firstn_of_full.
Print Assumptions gen_head_negative_selects_everything.
