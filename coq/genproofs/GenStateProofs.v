(* Re-proved on every run against the REGENERATED inventory of module-level state touched by the Python-level codec functions
   (PqGen.GenState, translators/state2coq.py - an inventory, it never refuses a source): every codec function of encoding.py and the
   encoders of writer.py computes its result from its arguments alone - none declares or stores to a module-level name, none uses a
   module-level mutable container / array / thread-local (read-only tables that nothing in the module ever writes excepted), so
   no returned value can be a view of a buffer that outlives the call.  The functions the other theorems talk about exist. *)
From Coq Require Import List String Bool.
From PqGen Require Import GenState.
Import ListNotations.
Open Scope string_scope.

Definition mem (s : string) (l : list string) : bool := existsb (String.eqb s) l.

Theorem codec_functions_keep_no_state :
  global_writes = [] /\ mutable_state_used = [] /\ thread_locals = [].
Proof. repeat split; reflexivity. Qed.
Print Assumptions codec_functions_keep_no_state.

Theorem codec_functions_present :
  forallb (fun f => mem f codec_functions)
    ["encoding.read_plain_boolean"; "encoding.read_plain"; "writer.encode_plain"; "writer.encode_dict"; "writer.make_definitions"; "writer.convert"] = true.
Proof. vm_compute. reflexivity. Qed.
Print Assumptions codec_functions_present.
