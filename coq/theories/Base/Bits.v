(* Bit-level arithmetic facts on N used by all codec proofs.  No fastparquet content. *)
From Coq Require Import NArith List Lia Bool.
From Pq Require Import Base.Bytes.
Import ListNotations.
Open Scope N_scope.

Lemma pow2_nz n : 2 ^ n <> 0.
Proof. apply N.pow_nonzero; lia. Qed.
Global Hint Resolve pow2_nz : core.

Lemma pow2_pos n : 0 < 2 ^ n.
Proof. pose proof (pow2_nz n); lia. Qed.

Lemma div_div_pow a x y : a / 2 ^ x / 2 ^ y = a / 2 ^ (x + y).
Proof. rewrite N.div_div by auto. now rewrite N.pow_add_r. Qed.

Lemma mod_pow_div a l r : r <= l -> (a mod 2 ^ l) / 2 ^ r = (a / 2 ^ r) mod 2 ^ (l - r).
Proof.
  intros H. replace l with (r + (l - r)) at 1 by lia.
  rewrite N.pow_add_r.
  rewrite N.mod_mul_r by auto.
  rewrite N.mul_comm, N.div_add by auto.
  rewrite N.div_small by (apply N.mod_upper_bound; auto).
  reflexivity.
Qed.

Lemma mod_mod_pow a x y : y <= x -> (a mod 2 ^ x) mod 2 ^ y = a mod 2 ^ y.
Proof.
  intros H. replace x with (y + (x - y)) by lia. rewrite N.pow_add_r.
  rewrite N.mod_mul_r by auto.
  rewrite N.mul_comm, N.mod_add by auto.
  apply N.mod_mod. auto.
Qed.

(* a * 2^l has no bit below l; x mod 2^l has no bit from l on: their lor is their sum *)
Lemma lor_disjoint_add x a l : N.lor (x mod 2 ^ l) (a * 2 ^ l) = x mod 2 ^ l + a * 2 ^ l.
Proof.
  assert (D : N.land (x mod 2 ^ l) (a * 2 ^ l) = 0).
  { apply N.bits_inj_0. intros n. rewrite N.land_spec.
    destruct (N.ltb_spec n l).
    - rewrite N.mul_pow2_bits_low by lia. apply andb_false_r.
    - rewrite N.mod_pow2_bits_high by lia. reflexivity. }
  rewrite <- N.lxor_lor by exact D.
  symmetry. apply N.add_nocarry_lxor. exact D.
Qed.

Lemma mod_pow_split a l k : a mod 2 ^ (l + k) = a mod 2 ^ l + 2 ^ l * ((a / 2 ^ l) mod 2 ^ k).
Proof. rewrite N.pow_add_r. apply N.mod_mul_r; auto. Qed.

Lemma land_ones_mod a w : N.land a (N.ones w) = a mod 2 ^ w.
Proof. apply N.land_ones. Qed.

Lemma shiftr_div a n : N.shiftr a n = a / 2 ^ n.
Proof. apply N.shiftr_div_pow2. Qed.

Lemma shiftl_mul a n : N.shiftl a n = a * 2 ^ n.
Proof. apply N.shiftl_mul_pow2. Qed.

Lemma le2n_cons b r : le2n (b :: r) = b + 256 * le2n r.
Proof. reflexivity. Qed.

Lemma le2n_app a b : le2n (a ++ b) = le2n a + 256 ^ N.of_nat (length a) * le2n b.
Proof.
  induction a as [|x a IH]; cbn [app le2n length].
  - change (N.of_nat 0) with 0. rewrite N.pow_0_r. lia.
  - rewrite IH. replace (N.of_nat (S (length a))) with (1 + N.of_nat (length a)) by lia.
    rewrite N.pow_add_r, N.pow_1_r. lia.
Qed.

Lemma le2n_bound l : bytes_ok l -> le2n l < 256 ^ N.of_nat (length l).
Proof.
  induction 1 as [|x l Hx Hl IH]; cbn [le2n length].
  - change (N.of_nat 0) with 0. rewrite N.pow_0_r. lia.
  - replace (N.of_nat (S (length l))) with (1 + N.of_nat (length l)) by lia.
    rewrite N.pow_add_r, N.pow_1_r. nia.
Qed.

Lemma pow256 n : 256 ^ n = 2 ^ (8 * n).
Proof. change 256 with (2 ^ 8). now rewrite <- N.pow_mul_r. Qed.

(* tail-recursive le2n for the extracted code *)
Definition le2n_tr (l : bytes) : N :=
  fold_left (fun acc b => b + N.shiftl acc 8) (rev_append l []) 0.

Lemma le2n_tr_ok l : le2n_tr l = le2n l.
Proof.
  unfold le2n_tr. rewrite rev_append_rev, app_nil_r.
  rewrite <- fold_left_rev_right, rev_involutive.
  induction l as [|b r IH]; cbn [fold_right le2n]; [reflexivity|].
  rewrite IH, shiftl_mul. change (2 ^ 8) with 256. lia.
Qed.
