(* A small universe of Python values with an error monad: the target of translators/py2coq.py.
   No fastparquet content.  The claim of this file (trusted, DESIGN section 5) is that on ints,
   bools, str, None, lists and one-dimensional numpy arrays of those, the operations below mean
   what Python 3 / numpy mean:  ==, !=, <, <=, >, >=, in, not in, not, truthiness, len, sorted,
   x[i] for a constant i, np.searchsorted(side=left|right), isinstance(x, np.ndarray).
   Numbers are exact integers (the harness scales dyadic floats to integers before calling the
   model; NaN never enters the model).  str is a byte string in UTF-8; Python compares str by
   code point, which is the byte-wise lexicographic order of the UTF-8 encodings.              *)
From Coq Require Import ZArith List String Ascii Bool.
Import ListNotations.
Open Scope Z_scope.

Inductive pv :=
| PNone
| PBool (b : bool)
| PInt (z : Z)
| PStr (s : string)
| PList (l : list pv)
| PArr (l : list pv).          (* numpy.ndarray, one dimension *)

Inductive res (A : Type) := Ok (a : A) | Err (e : string).
Arguments Ok {A} a.
Arguments Err {A} e.

Definition bind {A B} (r : res A) (f : A -> res B) : res B :=
  match r with Ok a => f a | Err e => Err e end.

Definition TypeError {A} : res A := Err "TypeError"%string.
Definition IndexError {A} : res A := Err "IndexError"%string.

(* bool is a subtype of int in Python *)
Definition num_of (v : pv) : option Z :=
  match v with PInt z => Some z | PBool b => Some (if b then 1 else 0) | _ => None end.

Definition truthy (v : pv) : bool :=
  match v with
  | PNone => false
  | PBool b => b
  | PInt z => negb (z =? 0)
  | PStr s => negb (String.eqb s EmptyString)
  | PList l => match l with [] => false | _ => true end
  | PArr l => match l with [_] => true | _ => false end     (* only used on size-1 arrays here *)
  end.

Definition is_none (v : pv) : bool := match v with PNone => true | _ => false end.
Definition is_ndarray (v : pv) : bool := match v with PArr _ => true | _ => false end.

(* structural equality as Python's == sees it on this universe (numbers compare by value) *)
Fixpoint pv_eqb (a b : pv) {struct a} : bool :=
  let fix leq (x y : list pv) {struct x} : bool :=
    match x, y with
    | [], [] => true
    | p :: x', q :: y' => pv_eqb p q && leq x' y'
    | _, _ => false
    end in
  match a, b with
  | PNone, PNone => true
  | PStr s, PStr t => String.eqb s t
  | PList x, PList y => leq x y
  | PArr x, PArr y => leq x y
  | PInt x, PInt y => x =? y
  | PInt x, PBool c => x =? (if c then 1 else 0)
  | PBool c, PInt y => (if c then 1 else 0) =? y
  | PBool c, PBool d => Bool.eqb c d
  | _, _ => false
  end.

Definition py_eq (a b : pv) : res pv := Ok (PBool (pv_eqb a b)).
Definition py_ne (a b : pv) : res pv := Ok (PBool (negb (pv_eqb a b))).

(* ordering: numbers with numbers, str with str, anything else raises TypeError *)
Definition py_ord (fz : Z -> Z -> bool) (fs : string -> string -> bool) (a b : pv) : res pv :=
  match a, b with
  | PStr s, PStr t => Ok (PBool (fs s t))
  | _, _ => match num_of a, num_of b with
            | Some x, Some y => Ok (PBool (fz x y))
            | _, _ => TypeError
            end
  end.

Definition str_ltb (s t : string) : bool := match String.compare s t with Lt => true | _ => false end.
Definition str_leb (s t : string) : bool := match String.compare s t with Gt => false | _ => true end.
Definition str_gtb (s t : string) : bool := str_ltb t s.
Definition str_geb (s t : string) : bool := str_leb t s.

Definition py_lt := py_ord Z.ltb str_ltb.
Definition py_le := py_ord Z.leb str_leb.
Definition py_gt := py_ord Z.gtb str_gtb.
Definition py_ge := py_ord Z.geb str_geb.

Definition py_not (a : pv) : res pv := Ok (PBool (negb (truthy a))).
Definition py_is_none (a : pv) : res pv := Ok (PBool (is_none a)).
Definition py_is_not_none (a : pv) : res pv := Ok (PBool (negb (is_none a))).
Definition py_isinstance_ndarray (a : pv) : res pv := Ok (PBool (is_ndarray a)).

Definition elems (v : pv) : res (list pv) :=
  match v with PList l => Ok l | PArr l => Ok l | _ => TypeError end.

Definition py_in (x c : pv) : res pv := bind (elems c) (fun l => Ok (PBool (existsb (pv_eqb x) l))).
Definition py_not_in (x c : pv) : res pv := bind (elems c) (fun l => Ok (PBool (negb (existsb (pv_eqb x) l)))).
Definition py_len (c : pv) : res pv := bind (elems c) (fun l => Ok (PInt (Z.of_nat (List.length l)))).

(* x[i] for an integer i (negative counts from the end) *)
Definition py_index (c i : pv) : res pv :=
  bind (elems c) (fun l =>
    match i with
    | PInt z =>
      let n := Z.of_nat (List.length l) in
      let j := if z <? 0 then z + n else z in
      if (j <? 0) || (n <=? j) then IndexError
      else match nth_error l (Z.to_nat j) with Some v => Ok v | None => IndexError end
    | _ => TypeError
    end).

(* a < b as a bool inside the monad *)
Definition lt_b (a b : pv) : res bool := bind (py_lt a b) (fun r => Ok (truthy r)).

(* sorted(): stable insertion sort by <; raises what < raises *)
Fixpoint insert_sorted (x : pv) (l : list pv) : res (list pv) :=
  match l with
  | [] => Ok [x]
  | y :: r => bind (lt_b x y) (fun b => if b then Ok (x :: y :: r)
                                       else bind (insert_sorted x r) (fun r' => Ok (y :: r')))
  end.
Fixpoint sort_list (l : list pv) : res (list pv) :=
  match l with
  | [] => Ok []
  | x :: r => bind (sort_list r) (insert_sorted x)
  end.
Definition py_sorted (c : pv) : res pv := bind (elems c) (fun l => bind (sort_list l) (fun s => Ok (PList s))).

(* np.searchsorted(a, v, side): a is assumed sorted; left = number of leading elements < v,
   right = number of leading elements <= v (what the binary search returns on a sorted a). *)
Fixpoint count_while (f : pv -> res bool) (l : list pv) : res Z :=
  match l with
  | [] => Ok 0
  | y :: r => bind (f y) (fun b => if b then bind (count_while f r) (fun n => Ok (1 + n)) else Ok 0)
  end.
Definition le_b (a b : pv) : res bool := bind (py_le a b) (fun r => Ok (truthy r)).
Definition py_searchsorted_left (a v : pv) : res pv :=
  bind (elems a) (fun l => bind (count_while (fun y => lt_b y v) l) (fun n => Ok (PInt n))).
Definition py_searchsorted_right (a v : pv) : res pv :=
  bind (elems a) (fun l => bind (count_while (fun y => le_b y v) l) (fun n => Ok (PInt n))).

(* show: one-line rendering used by the correspondence check *)
Definition show_res_bool (r : res pv) : string :=
  match r with
  | Ok v => if truthy v then "T" else "F"
  | Err e => append "E:" e
  end%string.
