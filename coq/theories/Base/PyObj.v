(* Objects, loops with early return and comprehensions over the Python-value universe of Base/PyVal.v:
   the target of translators/py2coq.py for the row-group loop of api.py (filter_out_stats ...).
   No fastparquet content.  An object is the list of its (attribute, value) pairs
   `PList [PList [PStr name; value]; ...]` (first match wins, so an update prepends); attribute access,
   hasattr, item read/assignment on such an object mean what Python means for a thrift object / dict.
   A `for` loop is a fold whose body answers `Cont state` (fall through / continue with the variables
   assigned in the body) or `Ret v` (a `return v` inside the loop).                                   *)
From Coq Require Import ZArith List String Bool.
From Pq Require Import Base.PyVal.
Import ListNotations.
Open Scope string_scope.

Fixpoint obj_get (l : list pv) (k : string) : option pv :=
  match l with
  | [] => None
  | PList [PStr k'; v] :: r => if String.eqb k' k then Some v else obj_get r k
  | _ :: r => obj_get r k
  end.

Definition py_attr (o : pv) (k : string) : res pv :=
  match o with
  | PList l => match obj_get l k with Some v => Ok v | None => Err "AttributeError" end
  | _ => Err "AttributeError"
  end.

Definition py_hasattr (o : pv) (k : string) : res pv :=
  match o with
  | PList l => Ok (PBool (match obj_get l k with Some _ => true | None => false end))
  | _ => Ok (PBool false)
  end.

(* o[k] = v on a local name: the name is rebound to the updated object *)
Definition py_setitem (o : pv) (k : string) (v : pv) : res pv :=
  match o with
  | PList l => Ok (PList (PList [PStr k; v] :: l))
  | _ => TypeError
  end.

Inductive step (S : Type) := Cont (s : S) | Ret (v : pv).
Arguments Cont {S} s.
Arguments Ret {S} v.

Fixpoint py_for {S : Type} (l : list pv) (s : S) (body : pv -> S -> res (step S)) : res (step S) :=
  match l with
  | [] => Ok (Cont s)
  | x :: r => bind (body x s) (fun st => match st with Cont s' => py_for r s' body | Ret v => Ok (Ret v) end)
  end.

Definition py_iter (v : pv) : res (list pv) := elems v.

(* a, b = x *)
Definition py_unpack2 (v : pv) : res (pv * pv) :=
  match v with
  | PList [a; b] => Ok (a, b)
  | PArr [a; b] => Ok (a, b)
  | PList _ | PArr _ => Err "ValueError"
  | _ => TypeError
  end.

(* x[n:] *)
Definition py_slice_from (v : pv) (n : nat) : res pv :=
  match v with
  | PList l => Ok (PList (skipn n l))
  | PArr l => Ok (PArr (skipn n l))
  | _ => TypeError
  end.

(* sep.join(x) for a list of str *)
Fixpoint strs_of (l : list pv) : option (list string) :=
  match l with
  | [] => Some []
  | PStr s :: r => match strs_of r with Some ss => Some (s :: ss) | None => None end
  | _ => None
  end.
Definition py_join (sep : string) (v : pv) : res pv :=
  bind (elems v) (fun l => match strs_of l with Some ss => Ok (PStr (String.concat sep ss)) | None => TypeError end).

(* [elt(x) for x in l if cond(x)] *)
Fixpoint py_listcomp (l : list pv) (cond elt : pv -> res pv) : res (list pv) :=
  match l with
  | [] => Ok []
  | x :: r =>
    bind (cond x) (fun c =>
      if truthy c
      then bind (elt x) (fun e => bind (py_listcomp r cond elt) (fun es => Ok (e :: es)))
      else py_listcomp r cond elt)
  end.

(* any(l) / all(l) on a fully built list *)
Definition py_any (v : pv) : res pv := bind (elems v) (fun l => Ok (PBool (existsb truthy l))).
Definition py_all (v : pv) : res pv := bind (elems v) (fun l => Ok (PBool (forallb truthy l))).

Definition py_isinstance_str (a : pv) : res pv := Ok (PBool (match a with PStr _ => true | _ => false end)).
Definition py_isinstance_list (a : pv) : res pv := Ok (PBool (match a with PList _ => true | _ => false end)).
