(* Bytes as lists of N; little-endian fixed-width integers.  No fastparquet content. *)
From Coq Require Import NArith List Lia Bool.
Import ListNotations.
Open Scope N_scope.

Definition byte := N.
Definition bytes := list N.
Definition bytes_ok (l : bytes) : Prop := Forall (fun b => b < 256) l.

(* little-endian natural denoted by a byte string *)
Fixpoint le2n (l : bytes) : N :=
  match l with [] => 0 | b :: r => b + 256 * le2n r end.

(* k-byte little-endian encoding of n (n mod 256^k) *)
Fixpoint le_enc (k : nat) (n : N) : bytes :=
  match k with O => [] | S k' => (n mod 256) :: le_enc k' (n / 256) end.

Definition le_dec (k : nat) (l : bytes) : option (N * bytes) :=
  if Nat.leb k (length l) then Some (le2n (firstn k l), skipn k l) else None.

Fixpoint list_eqb {A} (eqb : A -> A -> bool) (a b : list A) : bool :=
  match a, b with
  | [], [] => true
  | x :: a', y :: b' => eqb x y && list_eqb eqb a' b'
  | _, _ => false
  end.

Definition bytes_eqb := list_eqb N.eqb.

Definition magic : bytes := [80; 65; 82; 49].   (* "PAR1" *)
