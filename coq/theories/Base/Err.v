(* Result type of the machine-level models (Ok / out-of-bounds access / undefined behaviour /
   fuel exhausted) and the binary-fuel loop combinator used by every executable `while` loop.
   No fastparquet content. *)
From Coq Require Import NArith List.
Import ListNotations.

Inductive res (A : Type) := Ok (a : A) | OOB | UB | Fuel.
Arguments Ok {A}. Arguments OOB {A}. Arguments UB {A}. Arguments Fuel {A}.

Definition bind {A B} (r : res A) (f : A -> res B) : res B :=
  match r with Ok a => f a | OOB => OOB | UB => UB | Fuel => Fuel end.

Notation "'do' x <- r ; k" := (bind r (fun x => k)) (at level 200, x pattern, r at level 100, k at level 200).

Definition is_ok {A} (r : res A) : bool := match r with Ok _ => true | _ => false end.

Section Loop.
  Variable St : Type.
  Variable done : St -> bool.
  Variable step : St -> res St.

  (* runs `step` until `done`, at most 2^(depth p) times; depth is logarithmic in the fuel so
     the extracted code never builds a deep stack *)
  Fixpoint loop (p : positive) (s : St) : res St :=
    if done s then Ok s else
    match p with
    | xH => step s
    | xO q | xI q => match loop q s with Ok s' => loop q s' | e => e end
    end.

  (* the unary reading used in proofs *)
  Fixpoint iter (n : nat) (s : St) : res St :=
    if done s then Ok s else
    match n with
    | O => Ok s
    | S k => match step s with Ok s' => iter k s' | e => e end
    end.

  Fixpoint depth (p : positive) : nat := match p with xH => O | xO q | xI q => S (depth q) end.

  (* loop, then insist that the loop really ended *)
  Definition run_loop (p : positive) (s : St) : res St :=
    match loop p s with Ok s' => if done s' then Ok s' else Fuel | e => e end.
End Loop.
Arguments loop {St}. Arguments iter {St}. Arguments run_loop {St}.

(* 2^62 iterations: more than any 32-bit count times any per-value constant *)
Definition big_fuel : positive := Pos.shiftl 1 62.
