(* List functions with N counters that are tail-recursive after extraction (no deep stacks, no
   unary numbers of data size).  No fastparquet content. *)
From Coq Require Import NArith List.
Import ListNotations.
Open Scope N_scope.

Definition lenN {A} (l : list A) : N := fold_left (fun a _ => N.succ a) l 0.

Fixpoint take_rev {A} (l : list A) (n : N) (acc : list A) : list A :=
  match l with
  | [] => acc
  | x :: r => if n =? 0 then acc else take_rev r (N.pred n) (x :: acc)
  end.
Definition takeN {A} (n : N) (l : list A) : list A := rev_append (take_rev l n []) [].

Fixpoint dropN {A} (n : N) (l : list A) : list A :=
  match l with
  | [] => []
  | x :: r => if n =? 0 then l else dropN (N.pred n) r
  end.

Definition app_tr {A} (a b : list A) : list A := rev_append (rev_append a []) b.
Definition concat_tr {A} (ls : list (list A)) : list A :=
  rev_append (fold_left (fun acc l => rev_append l acc) ls []) [].
Definition repN {A} (v : A) (k : N) (acc : list A) : list A := N.iter k (cons v) acc.
