(* Prelude of translators/fileops2coq.py: a binary file opened for reading / updating ('rb', 'rb+') as Python's
   buffered file objects behave on a local file: a byte string and a cursor.
   seek before the start raises (None); read past the end returns what is there; write overwrites in place, extends the
   file when it runs past the end (a gap is zero-filled); truncate() cuts at the cursor.  Integers are Z.            *)
From Coq Require Import NArith ZArith List Bool Arith.
From Pq Require Import Base.Bytes.
Import ListNotations.

Record fh := mkfh { content : bytes; pos : nat }.

Definition f_open (b : bytes) : fh := mkfh b 0.

Definition f_seek (h : fh) (off whence : Z) : option (fh * Z) :=
  let base := if (whence =? 0)%Z then Some 0%Z
              else if (whence =? 1)%Z then Some (Z.of_nat (pos h))
              else if (whence =? 2)%Z then Some (Z.of_nat (length (content h))) else None in
  match base with
  | None => None
  | Some b => let p := (b + off)%Z in
              if (p <? 0)%Z then None else Some (mkfh (content h) (Z.to_nat p), p)
  end.

Definition f_read (h : fh) (n : option Z) : fh * bytes :=
  let rest := skipn (pos h) (content h) in
  let out := match n with
             | None => rest
             | Some z => if (z <? 0)%Z then rest else firstn (Z.to_nat z) rest
             end in
  (mkfh (content h) (pos h + length out), out).

Definition f_write (h : fh) (b : bytes) : fh * Z :=
  (mkfh (firstn (pos h) (content h) ++ repeat 0%N (pos h - length (content h)) ++ b
         ++ skipn (pos h + length b) (content h)) (pos h + length b),
   Z.of_nat (length b)).

Definition f_truncate (h : fh) : fh :=
  mkfh (firstn (pos h) (content h) ++ repeat 0%N (pos h - length (content h))) (pos h).

Definition f_tell (h : fh) : Z := Z.of_nat (pos h).

Definition py_len (b : bytes) : Z := Z.of_nat (length b).

(* b[lo:hi], step 1, CPython's clamping *)
Definition py_slice (lo hi : option Z) (b : bytes) : bytes :=
  let n := Z.of_nat (length b) in
  let adj v := if (v <? 0)%Z then Z.max 0 (v + n) else Z.min v n in
  let a := match lo with None => 0%Z | Some v => adj v end in
  let e := match hi with None => n | Some v => adj v end in
  firstn (Z.to_nat (e - a)) (skipn (Z.to_nat a) b).

(* struct.unpack('<I', b)[0]: struct.error unless exactly 4 bytes *)
Definition unpack_I (b : bytes) : option Z := if Nat.eqb (length b) 4 then Some (Z.of_N (le2n b)) else None.
(* int.from_bytes(b, "little") *)
Definition int_from_le (b : bytes) : Z := Z.of_N (le2n b).
(* struct.pack('<I', n): struct.error outside 0 .. 2^32-1 *)
Definition pack_I (n : Z) : option bytes :=
  if ((0 <=? n) && (n <? 4294967296))%Z then Some (le_enc 4 (Z.to_N n)) else None.
