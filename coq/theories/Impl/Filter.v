(* C05 — row-group pruning.  Impl model of api.filter_out_stats / filter_out_cats /
   filter_row_groups over abstract row groups, parametrised by the leaf decision `filter_val`
   (instantiated with the text py2coq regenerates from api.py on every run, and with the committed
   copy Impl/FilterLeaf.v), plus the specification side: what a predicate means on a row.       *)
From Coq Require Import ZArith List String Bool.
From Pq Require Import Base.PyVal.
Import ListNotations.
Open Scope string_scope.
Open Scope Z_scope.
Local Notation "a =s b" := (String.eqb a b) (at level 70).

(* ---------- specification: meaning of a condition on one cell ------------------------------ *)

Definition ok_true (r : res pv) : bool := match r with Ok v => truthy v | Err _ => false end.

Definition scalar_ops := ["=="; "="; "!="; "<"; "<="; ">"; ">="].
Definition list_ops := ["in"; "not in"].
Definition ops := (scalar_ops ++ list_ops)%list.

(* A NULL / NaN cell (PNone) satisfies nothing: the weakest reading of the property, and the only
   one under which "an all-null chunk is skipped" is right.  Otherwise the Python comparison of
   the cell with the constant; a comparison that raises is not satisfied. *)
Definition sat (op : string) (x c : pv) : bool :=
  if is_none x then false else
  if (op =s "==") || (op =s "=") then ok_true (py_eq x c) else
  if op =s "!=" then ok_true (py_ne x c) else
  if op =s "<" then ok_true (py_lt x c) else
  if op =s "<=" then ok_true (py_le x c) else
  if op =s ">" then ok_true (py_gt x c) else
  if op =s ">=" then ok_true (py_ge x c) else
  if op =s "in" then ok_true (py_in x c) else
  if op =s "not in" then ok_true (py_not_in x c) else false.

Definition ints (vs : list Z) : pv := PList (map PInt vs).

(* typing of a (cell, constant) pair the statement covers: integer cell against integer constant(s) *)
Definition const_ok_int (op : string) (c : pv) : Prop :=
  (In op scalar_ops /\ exists v, c = PInt v) \/ (In op list_ops /\ exists vs, c = ints vs).

(* a bound as filter_out_stats hands it to filter_val: absent, a scalar, or a length-1 ndarray *)
Definition bound_of (b m : pv) : Prop := b = m \/ b = PArr [m].

Definition lo_ok_int (vmin : pv) (x : Z) : Prop := vmin = PNone \/ exists m, bound_of vmin (PInt m) /\ m <= x.
Definition hi_ok_int (vmax : pv) (x : Z) : Prop := vmax = PNone \/ exists m, bound_of vmax (PInt m) /\ x <= m.

Definition strs (vs : list string) : pv := PList (map PStr vs).
Definition const_ok_str (op : string) (c : pv) : Prop :=
  (In op scalar_ops /\ exists v, c = PStr v) \/ (In op list_ops /\ exists vs, c = strs vs).
(* str bounds: Python orders str by code point = byte-wise order of the UTF-8 text (str_leb) *)
Definition lo_ok_str (vmin : pv) (x : string) : Prop := vmin = PNone \/ exists m, bound_of vmin (PStr m) /\ str_leb m x = true.
Definition hi_ok_str (vmax : pv) (x : string) : Prop := vmax = PNone \/ exists m, bound_of vmax (PStr m) /\ str_leb x m = true.

(* "the statistics are valid bounds of this cell, and the constant is comparable with it".
   Integer cells against integer constants cover every numeric / temporal / boolean column (the
   harness scales dyadic floats to integers); str cells against str constants. *)
Definition covered (op : string) (c vmin vmax x : pv) : Prop :=
  (exists z, x = PInt z /\ const_ok_int op c /\ lo_ok_int vmin z /\ hi_ok_int vmax z) \/
  (exists s, x = PStr s /\ const_ok_str op c /\ lo_ok_str vmin s /\ hi_ok_str vmax s).

(* soundness of a leaf decision: it may answer "skip" only if no covered cell satisfies the condition *)
Definition leaf_sound_int (fv : pv -> pv -> pv -> pv -> res pv) : Prop :=
  forall op c vmin vmax z, const_ok_int op c -> lo_ok_int vmin z -> hi_ok_int vmax z ->
    ok_true (fv (PStr op) c vmin vmax) = true -> sat op (PInt z) c = false.
(* `good` = the operators for which the claim is made (all nine on a tree where filter_not_in is
   repaired; all but "not in" on the pinned tree, see C05_not_in_refuted) *)
Definition leaf_sound (good : string -> Prop) (fv : pv -> pv -> pv -> pv -> res pv) : Prop :=
  forall op c vmin vmax x, good op -> covered op c vmin vmax x ->
    ok_true (fv (PStr op) c vmin vmax) = true -> sat op x c = false.

(* ---------- impl model ---------------------------------------------------------------------- *)

Record stats := { st_null_count : option Z; st_min : pv; st_max : pv }.   (* PNone = not present *)
Record column := { c_name : string; c_num_values : Z; c_stats : option stats }.
Definition cond := (string * string * pv)%type.       (* (column, op, constant) *)
Definition cname (f : cond) := fst (fst f).
Definition cop (f : cond) := snd (fst f).
Definition cval (f : cond) := snd f.

Inductive filters := Flat (l : list cond) | Dnf (l : list (list cond)).

(* filters = filters or [[]];  if filters[0] and isinstance(filters[0][0], str): filters = [filters] *)
Definition normalize (f : filters) : list (list cond) :=
  match f with
  | Flat [] => [[]]
  | Flat l => [l]
  | Dnf [] => [[]]
  | Dnf l => l
  end.

Fixpoint any_res {A} (f : A -> res bool) (l : list A) : res bool :=
  match l with
  | [] => Ok false
  | a :: r => bind (f a) (fun b => if b then Ok true else any_res f r)
  end.

Fixpoint map_res {A B} (f : A -> res B) (l : list A) : res (list B) :=
  match l with
  | [] => Ok []
  | a :: r => bind (f a) (fun b => bind (map_res f r) (fun bs => Ok (b :: bs)))
  end.

Section Model.
  Variable R : Type.                                      (* what a row group holds (rows), opaque to the code *)
  Variable filter_val : pv -> pv -> pv -> pv -> res pv.   (* the leaf decision *)
  (* typing glue of filter_out_cats (val_to_num, partition_meta): partition name, raw text from the
     path, the condition's constant  |->  (constant as compared, partition value as compared) *)
  Variable conv : string -> string -> pv -> pv * pv.

  Record rowgroup := { rg_num_rows : Z; rg_columns : list column;
                       rg_parts : option (list (string * string));   (* None: file_path is None *)
                       rg_rows : list R }.

  (* [f[1:] for f in filters if f[0] == name] *)
  Definition app_filters (name : string) (fs : list cond) : list cond :=
    filter (fun f => cname f =s name) fs.

  Definition stats_one (c : column) (f : cond) : res bool :=
    match c_stats c with
    | None => Ok false
    | Some s =>
      if match st_null_count s with Some n => n =? c_num_values c | None => false end then Ok true
      else bind (filter_val (PStr (cop f)) (cval f) (st_min s) (st_max s)) (fun r => Ok (truthy r))
    end.

  Definition filter_out_stats (rg : rowgroup) (fs : list cond) : res bool :=
    if rg_num_rows rg =? 0 then Ok true else
    match fs with
    | [] => Ok false
    | _ => any_res (fun c => any_res (stats_one c) (app_filters (c_name c) fs)) (rg_columns rg)
    end.

  Definition cats_one (cat v : string) (f : cond) : res bool :=
    let '(val', v0) := conv cat v (cval f) in
    bind (filter_val (PStr (cop f)) val' v0 v0) (fun r => Ok (truthy r)).

  Definition filter_out_cats (rg : rowgroup) (fs : list cond) : res bool :=
    match fs, rg_parts rg with
    | [], _ => Ok false
    | _, None => Ok false
    | _, Some pairs => any_res (fun p => any_res (cats_one (fst p) (snd p)) (app_filters (fst p) fs)) pairs
    end.

  (* not filter_out_stats(...) and not filter_out_cats(...) *)
  Definition keep_group (rg : rowgroup) (g : list cond) : res bool :=
    bind (filter_out_stats rg g) (fun a =>
      if a then Ok false else bind (filter_out_cats rg g) (fun b => Ok (negb b))).

  (* any([... for and_filters in filters]) : the list is built completely first *)
  Definition keep_rg (dnf : list (list cond)) (rg : rowgroup) : res bool :=
    bind (map_res (keep_group rg) dnf) (fun l => Ok (existsb (fun b => b) l)).

  Fixpoint filter_res {A} (f : A -> res bool) (l : list A) : res (list A) :=
    match l with
    | [] => Ok []
    | a :: r => bind (f a) (fun b => bind (filter_res f r) (fun r' => Ok (if b then a :: r' else r')))
    end.

  Definition filter_row_groups (known_cols : list string) (rgs : list rowgroup) (f : filters)
    : res (list rowgroup) :=
    let dnf := normalize f in
    if forallb (fun c => existsb (String.eqb (cname c)) known_cols) (List.concat dnf)
    then filter_res (keep_rg dnf) rgs
    else Err "ValueError".

  (* to_pandas(filters=..., row_filter=False): the rows of the kept row groups, in order *)
  Definition read_filtered (known_cols : list string) (rgs : list rowgroup) (f : filters) : res (list R) :=
    bind (filter_row_groups known_cols rgs f) (fun kept => Ok (flat_map rg_rows kept)).
End Model.

Arguments rg_num_rows {R}.
Arguments rg_columns {R}.
Arguments rg_parts {R}.
Arguments rg_rows {R}.

(* the typing glue of filter_out_cats as a finite table (the harness fills it by calling the real
   util.val_to_num): (partition name, raw text, constant) |-> (constant as compared, value as compared) *)
Definition conv_table (t : list (string * string * pv * (pv * pv))) (cat v : string) (c : pv) : pv * pv :=
  match find (fun e => String.eqb (fst (fst (fst e))) cat && String.eqb (snd (fst (fst e))) v && pv_eqb (snd (fst e)) c) t with
  | Some e => snd e
  | None => (c, PStr v)
  end.

(* index lists of the kept row groups, for the correspondence check *)
Definition kept_indices (fv : pv -> pv -> pv -> pv -> res pv) (t : list (string * string * pv * (pv * pv)))
  (known : list string) (rgs : list (rowgroup Z)) (f : filters) : res (list Z) :=
  read_filtered Z fv (conv_table t) known rgs f.
