(* Impl model of fastparquet/cencoding.pyx: write_thrift / write_list / ThriftObject.to_bytes,
   read_thrift / read_list / from_buffer, dict_eq.  Mirrors the code:
   - field loop `for i in range(1, 14)` (ids13), `i not in data` / `val is None` skipped;
   - type nibble by isinstance order (bool, int, float, bytes, str, list, else struct), the
     "i32" / "i32list" side channel choosing nibble 5 or 6 (i32list wins when both present);
   - write_list: type from the FIRST element, `cdef int i` truncation check for int elements,
     all int lists written with element type 5, short header for l <= 14, empty list = one 0 byte;
   - the buffer: write_byte silently ignores writes at loc >= nbytes, memcpy / double store are
     NOT checked (modelled as out-of-bounds = None), to_bytes returns data[:loc];
   - read_thrift: short-form headers only, markers restored from the nibbles seen.
   The writer is factored as the TRACE of buffer calls (`op`: WB = write_byte, Raw = unchecked copy),
   which does not depend on the buffer state in the code either, then `run` against a buffer of
   capacity `cap` (a parameter; to_bytes computes it from counts, see harness).
   Outside the model (None): Python-level exceptions (int beyond int64, heterogeneous lists, list
   int element beyond C int), long-form field headers / ids > 127 / type nibbles 0,7,10,11,13-15
   on the read side (read_thrift mis-reads doubles and prints 'Corrupted' for unknown nibbles).  *)
From Coq Require Import NArith ZArith List Bool.
From Pq Require Import Base.Bytes Thrift.Varint Thrift.Compact.
Import ListNotations.
Open Scope N_scope.

Inductive pv :=
| PNone
| PBool (b : bool)
| PInt (z : Z)
| PFloat (bits : N)
| PBytes (l : bytes)
| PStr (l : bytes)                      (* a Python str, given by its UTF-8 encoding *)
| PList (l : list pv)
| PDict (i32 : bool) (i32l : option (list Z)) (fs : list (Z * pv)).
   (* int-keyed entries in insertion order; i32 = the key "i32" is present; i32l = value of "i32list" *)

(* `len`, `take` (n bytes off the front) are the generic list utilities of Thrift/Compact.v *)

(* ---- buffer call trace --------------------------------------------------------------------- *)
Inductive op := WB (b : N) | Raw (l : bytes).

Fixpoint flat (ops : list op) : bytes :=
  match ops with
  | [] => []
  | WB b :: r => b :: flat r
  | Raw l :: r => l ++ flat r
  end.

(* encode_unsigned_varint on a uint64: `while x > 127: write_byte((x & 0x7F) | 0x80); x >>= 7` *)
Fixpoint c_varint_fuel (f : nat) (x : N) : bytes :=
  match f with
  | O => []
  | S f' => if x <=? 127 then [x] else N.lor (N.land x 127) 128 :: c_varint_fuel f' (N.shiftr x 7)
  end.
Definition c_varint (x : N) : bytes := c_varint_fuel 10 x.
Definition wvarint (x : N) : list op := map WB (c_varint x).

Definition in_i64 (z : Z) : bool := ((- 2 ^ 63 <=? z) && (z <? 2 ^ 63))%Z.
Definition in_cint (z : Z) : bool := ((- 2 ^ 31 <=? z) && (z <? 2 ^ 31))%Z.

Fixpoint lookup (i : Z) (fs : list (Z * pv)) : option pv :=
  match fs with [] => None | (k, v) :: r => if (k =? i)%Z then Some v else lookup i r end.

Definition ids13 : list Z := [1; 2; 3; 4; 5; 6; 7; 8; 9; 10; 11; 12; 13]%Z.     (* range(1, 14): the pinned code *)
Definition ids14 : list Z := [1; 2; 3; 4; 5; 6; 7; 8; 9; 10; 11; 12; 13; 14]%Z. (* range(1, 15): the REPAIRED field loop *)
(* The field-id list the loop runs over is a parameter `ids` of the writer model: the pinned code is the
   instance ids13; ids14 is the repaired serialiser (every id the Parquet IDL declares), a proved target for a
   future Cython rebuild. *)

Definition int_nib (i32 : bool) (i32l : option (list Z)) (i : Z) : N :=
  match i32l with
  | Some l => if existsb (Z.eqb i) l then 5 else 6
  | None => if i32 then 5 else 6
  end.

Definition hdr (delt : Z) (t : N) : op := WB (Z.to_N delt * 16 + t).      (* (delt << 4) | t *)
Definition w_str (l : bytes) : list op := wvarint (len l) ++ [Raw l].
Definition list_hdr (t n : N) : list op :=
  if 14 <? n then WB (t + 240) :: wvarint n else [WB (t + n * 16)].      (* t | 0xf0 ; t | (l << 4) *)

Fixpoint w_items (f : pv -> option (list op)) (l : list pv) : option (list op) :=
  match l with
  | [] => Some []
  | x :: r => match f x, w_items f r with Some a, Some b => Some (a ++ b) | _, _ => None end
  end.

Fixpoint w_fields (wf : Z -> Z -> pv -> option (list op)) (ids : list Z) (prev : Z) (fs : list (Z * pv))
  : option (list op) :=
  match ids with
  | [] => Some [WB 0]
  | i :: r =>
    match lookup i fs with
    | None => w_fields wf r prev fs
    | Some PNone => w_fields wf r prev fs
    | Some v => match wf (i - prev)%Z i v, w_fields wf r i fs with
                | Some a, Some b => Some (a ++ b)
                | _, _ => None
                end
    end
  end.

Definition w_int_elem (x : pv) : option (list op) :=      (* `for i in data` with `cdef int i` *)
  match x with
  | PInt z => if in_cint z then Some (wvarint (zz z)) else None
  | PBool b => Some (wvarint (zz (if b then 1 else 0)))
  | _ => None
  end.
Definition w_bytes_elem (x : pv) : option (list op) := match x with PBytes b => Some (w_str b) | _ => None end.
Definition w_str_elem (x : pv) : option (list op) := match x with PStr b => Some (w_str b) | _ => None end.

Definition w_list_with (w_dict : pv -> option (list op)) (l : list pv) : option (list op) :=
  match l with
  | [] => Some [WB 0]                                        (* encode_unsigned_varint(0) *)
  | first :: _ =>
    match first with
    | PBool _ => option_map (app (list_hdr 5 (len l))) (w_items w_int_elem l)
    | PInt _ => option_map (app (list_hdr 5 (len l))) (w_items w_int_elem l)
    | PBytes _ => option_map (app (list_hdr 8 (len l))) (w_items w_bytes_elem l)
    | PStr _ => option_map (app (list_hdr 8 (len l))) (w_items w_str_elem l)
    | _ => option_map (app (list_hdr 12 (len l))) (w_items w_dict l)
    end
  end.

(* one present field: header byte(s) with the type nibble, then the value *)
Definition w_field (w_dict : pv -> option (list op)) (i32 : bool) (i32l : option (list Z)) (delt i : Z) (v : pv)
  : option (list op) :=
  match v with
  | PNone => Some []
  | PBool b => Some [hdr delt (if b then 1 else 2)]
  | PInt z => if in_i64 z then Some (hdr delt (int_nib i32 i32l i) :: wvarint (zz z)) else None
  | PFloat bits => Some [hdr delt 7; Raw (le_enc 8 bits)]
  | PBytes l => Some (hdr delt 8 :: w_str l)
  | PStr l => Some (hdr delt 8 :: w_str l)
  | PList l => option_map (cons (hdr delt 9)) (w_list_with w_dict l)
  | PDict _ _ _ => option_map (cons (hdr delt 12)) (w_dict v)
  end.

Fixpoint w_thrift (ids : list Z) (d : nat) (i32 : bool) (i32l : option (list Z)) (fs : list (Z * pv)) {struct d}
  : option (list op) :=
  match d with
  | O => None
  | S d' =>
    let w_dict := fun v : pv => match v with PDict a b c => w_thrift ids d' a b c | _ => None end in
    w_fields (w_field w_dict i32 i32l) ids 0%Z fs
  end.

Definition w_depth : nat := 64.
Definition w_top (ids : list Z) (v : pv) : option (list op) :=
  match v with PDict a b c => w_thrift ids w_depth a b c | _ => None end.

(* the bytes a large enough buffer would receive *)
Definition ser (ids : list Z) (v : pv) : option bytes := option_map flat (w_top ids v).

(* ---- the fixed buffer ---------------------------------------------------------------------- *)
Record st := mkSt { loc : N; out : bytes (* reversed *) }.

Fixpoint run_ops (cap : N) (ops : list op) (s : st) : option st :=       (* None = copy past the end *)
  match ops with
  | [] => Some s
  | WB b :: r => run_ops cap r (if cap <=? loc s then s else mkSt (loc s + 1) (b :: out s))
  | Raw l :: r => if loc s + len l <=? cap
                  then run_ops cap r (mkSt (loc s + len l) (rev_append l (out s)))
                  else None
  end.

Inductive outcome := OBytes (b : bytes) | OExc | OOob.

(* ThriftObject.to_bytes with a buffer of `cap` bytes: write_thrift(self.data, o); return o.so_far() *)
Definition to_bytes (ids : list Z) (cap : N) (v : pv) : outcome :=
  match w_top ids v with
  | None => OExc
  | Some ops => match run_ops cap ops (mkSt 0 []) with
                | None => OOob
                | Some s => OBytes (rev_append (out s) [])
                end
  end.

(* ---- the REPAIRED buffer: bounds-checked, grows when a write does not fit ----------------------
   Every write first makes room (`ensure`: double the capacity until loc + n <= cap), so nothing is
   ever dropped or copied past the end.  `gcap` is the current capacity; the initial one may be anything. *)
Record gst := mkG { gcap : N; gloc : N; gout : bytes (* reversed *) }.

Fixpoint grow (fuel : nat) (cap need : N) : N :=        (* smallest doubling of max(cap,1) that is >= need *)
  match fuel with
  | O => need
  | S f => if need <=? cap then cap else grow f (2 * N.max cap 1) need
  end.
Definition ensure (s : gst) (n : N) : gst :=
  mkG (grow 64 (gcap s) (gloc s + n)) (gloc s) (gout s).

Fixpoint run_grow (ops : list op) (s : gst) : gst :=
  match ops with
  | [] => s
  | WB b :: r => let s' := ensure s 1 in run_grow r (mkG (gcap s') (gloc s' + 1) (b :: gout s'))
  | Raw l :: r => let s' := ensure s (len l) in run_grow r (mkG (gcap s') (gloc s' + len l) (rev_append l (gout s')))
  end.

Definition to_bytes_grow (ids : list Z) (cap0 : N) (v : pv) : outcome :=
  match w_top ids v with
  | None => OExc
  | Some ops => OBytes (rev_append (gout (run_grow ops (mkG cap0 0 []))) [])
  end.

(* ---- reader -------------------------------------------------------------------------------- *)
(* zigzag_long(read_unsigned_var_int(data)) *)
Definition r_int (bs : bytes) : option (pv * bytes) :=
  match unuleb bs with
  | Some (n, r) => if n <? 2 ^ 64 then Some (PInt (unzz n), r) else None
  | None => None
  end.
Definition r_size (bs : bytes) : option (N * bytes) :=
  match unuleb bs with
  | Some (n, r) => if n <? 2 ^ 31 then Some (n, r) else None
  | None => None
  end.
Definition r_bin (mk : bytes -> pv) (bs : bytes) : option (pv * bytes) :=
  match r_size bs with
  | Some (n, r) => match take n r with Some (s, r') => Some (mk s, r') | None => None end
  | None => None
  end.

Fixpoint r_elems (rdx : bytes -> option (pv * bytes)) (fuel : bytes) (n : N) (bs : bytes) {struct fuel}
  : option (list pv * bytes) :=
  if n =? 0 then Some ([], bs) else
  match fuel with
  | [] => None
  | _ :: fuel' =>
    match rdx bs with
    | Some (x, r) => match r_elems rdx fuel' (N.pred n) r with
                     | Some (l, r') => Some (x :: l, r')
                     | None => None
                     end
    | None => None
    end
  end.

Definition r_list_with (r_struct : bytes -> option (pv * bytes)) (bs : bytes) : option (pv * bytes) :=
  match bs with
  | [] => None
  | byte :: r =>
    match (if 240 <=? byte then r_size r else Some (byte / 16, r)) with
    | Some (size, r1) =>
      let typ := byte mod 16 in
      match r_elems (if (typ =? 5) || (typ =? 6) then r_int
                     else if typ =? 8 then r_bin PStr else r_struct) r1 size r1 with
      | Some (l, r2) => Some (PList l, r2)
      | None => None
      end
    | None => None
    end
  end.

Fixpoint r_fields (rv : N -> bytes -> option (pv * bytes)) (fuel : bytes) (id : Z) (bs : bytes)
  (acc : list (Z * pv)) (h32 h64 : bool) (l32 : list Z) {struct fuel} : option (pv * bytes) :=
  match fuel with
  | [] => None
  | _ :: fuel' =>
    match bs with
    | [] => None
    | byte :: r =>
      if byte =? 0 then
        Some (PDict (h32 && negb h64) (if h32 && h64 then Some (rev_append l32 []) else None)
                    (rev_append acc []), r)
      else
        let dl := byte / 16 in
        let bit := byte mod 16 in
        if dl =? 0 then None else
        let id' := (id + Z.of_N dl)%Z in
        if (127 <? id')%Z then None else
        match rv bit r with
        | Some (v, r') =>
          r_fields rv fuel' id' r' ((id', v) :: acc) (h32 || (bit =? 5)) (h64 || (bit =? 6))
                   (if bit =? 5 then id' :: l32 else l32)
        | None => None
        end
    end
  end.

(* one field value by its type nibble (read_thrift's if/elif chain); 7 (double, misread) and unknown
   nibbles are outside the model *)
Definition r_value (r_struct : bytes -> option (pv * bytes)) (bit : N) (bs : bytes) : option (pv * bytes) :=
  if bit =? 1 then Some (PBool true, bs) else
  if bit =? 2 then Some (PBool false, bs) else
  if bit =? 3 then match bs with b :: r => Some (PInt (Z.of_N b), r) | [] => None end else
  if (bit =? 4) || (bit =? 5) || (bit =? 6) then r_int bs else
  if bit =? 8 then r_bin PBytes bs else
  if bit =? 9 then r_list_with r_struct bs else
  if bit =? 12 then r_struct bs else None.

Fixpoint r_thrift (d : nat) (bs : bytes) {struct d} : option (pv * bytes) :=
  match d with
  | O => None
  | S d' => r_fields (r_value (r_thrift d')) bs 0%Z bs [] false false []
  end.

Definition from_buffer (bs : bytes) : option (pv * bytes) := r_thrift w_depth bs.

(* ---- dict_eq ------------------------------------------------------------------------------- *)
(* Python `==` between the scalar kinds that occur (bool is an int; bytes never equal str) *)
Definition py_eq (a b : pv) : bool :=
  match a, b with
  | PNone, PNone => true
  | PBool x, PBool y => Bool.eqb x y
  | PBool x, PInt y => ((if x then 1 else 0) =? y)%Z
  | PInt x, PBool y => (x =? (if y then 1 else 0))%Z
  | PInt x, PInt y => (x =? y)%Z
  | PFloat x, PFloat y => x =? y          (* bit patterns; NaN and -0.0 are outside the model *)
  | PBytes x, PBytes y => bytes_eqb x y
  | PStr x, PStr y => bytes_eqb x y
  | _, _ => false
  end.

Definition is_none (o : option pv) : bool := match o with None => true | Some PNone => true | _ => false end.
Definition keys_union (a b : list (Z * pv)) : list Z := map fst a ++ map fst b.

Fixpoint all2 (f : pv -> pv -> bool) (a b : list pv) : bool :=
  match a, b with
  | [], [] => true
  | x :: a', y :: b' => f x y && all2 f a' b'
  | _, _ => false
  end.

(* list elements: `not dict_eq(a, b) if isinstance(a, dict) else (a != b)` *)
Definition elem_eq (deq : list (Z * pv) -> list (Z * pv) -> bool) (x y : pv) : bool :=
  match x, y with
  | PDict _ _ a, PDict _ _ b => deq a b
  | PDict _ _ _, _ => false
  | _, _ => py_eq x y
  end.

(* one key of the union: d1.get(k) against d2.get(k) *)
Definition val_eq (deq : list (Z * pv) -> list (Z * pv) -> bool) (o1 o2 : option pv) : bool :=
  if is_none o1 then is_none o2 else
  if is_none o2 then false else
  match o1, o2 with
  | Some (PDict _ _ a), Some (PDict _ _ b) => deq a b
  | Some (PDict _ _ _), _ => false
  | Some (PList la), Some (PList lb) => all2 (elem_eq deq) la lb
  | Some (PList _), _ => false
  | Some (PStr s), Some (PBytes b) => bytes_eqb s b       (* d1[k] != s.decode() *)
  | Some x, Some y => py_eq x y
  | _, _ => false
  end.

Fixpoint dict_eq (d : nat) (f1 f2 : list (Z * pv)) {struct d} : bool :=
  match d with
  | O => false
  | S d' => forallb (fun k => val_eq (dict_eq d') (lookup k f1) (lookup k f2)) (keys_union f1 f2)
  end.

(* ThriftObject.__eq__ on two objects *)
Definition obj_eq (a b : pv) : bool :=
  match a, b with PDict _ _ f, PDict _ _ g => dict_eq w_depth f g | _, _ => false end.
