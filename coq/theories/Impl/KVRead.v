(* C16, READ side and value-less entries.

   1. What `ParquetFile.key_value_metadata` hands out for the list<KeyValue> of a footer:
        { ensure_str(k.key, ignore_error=True) : ensure_str(k.value, ignore_error=True)  for k in kvm }
      `ensure_str(b, ignore_error=True)` = b.decode('utf-8') when that succeeds, else b itself
      (None, for a KeyValue WITHOUT value - legal in the IDL - has no decode: it stays None).
      Key and value are decoded INDEPENDENTLY of each other.
   2. `utf8_valid`: well-formed UTF-8 (Unicode table 3-7 = what CPython's strict decoder accepts):
      no overlong forms, no surrogates, nothing above U+10FFFF, no truncated sequence.
   3. update_custom_metadata on entries whose value may be absent: the stored value type is
      `option bytes`; the update dict (keys and values str or bytes, None = remove) is first passed
      through ensure_bytes (`enc_u`).  A value-less entry is PRESENT (`lookup = Some None`), which is not
      the same as an absent key (`lookup = None`) - the distinction a `dict.get` cannot make.          *)
From Coq Require Import NArith List Bool Arith.
From Pq Require Import Base.Bytes Impl.KV.
Import ListNotations.
Open Scope N_scope.

Definition in_rng (lo hi b : N) : bool := (lo <=? b) && (b <=? hi).
Definition cont (b : N) : bool := in_rng 128 191 b.

Fixpoint utf8_valid (l : bytes) : bool :=
  match l with
  | [] => true
  | b0 :: r0 =>
    if b0 <=? 127 then utf8_valid r0 else
    match r0 with
    | [] => false
    | b1 :: r1 =>
      if in_rng 194 223 b0 then cont b1 && utf8_valid r1 else
      match r1 with
      | [] => false
      | b2 :: r2 =>
        if in_rng 224 239 b0 then
          (if b0 =? 224 then in_rng 160 191 b1 else if b0 =? 237 then in_rng 128 159 b1 else cont b1)
          && cont b2 && utf8_valid r2
        else
        match r2 with
        | [] => false
        | b3 :: r3 =>
          if in_rng 240 244 b0 then
            (if b0 =? 240 then in_rng 144 191 b1 else if b0 =? 244 then in_rng 128 143 b1 else cont b1)
            && cont b2 && cont b3 && utf8_valid r3
          else false
        end
      end
    end
  end.

(* a Python text value: str (held as its UTF-8 encoding) or bytes *)
Inductive pstr := PStr (utf8 : bytes) | PBytes (b : bytes).

Definition pstr_eqb (a b : pstr) : bool :=
  match a, b with
  | PStr x, PStr y => bytes_eqb x y
  | PBytes x, PBytes y => bytes_eqb x y
  | _, _ => false                               (* 'a' == b'a' is False *)
  end.

Definition ensure_bytes (x : pstr) : bytes := match x with PStr b => b | PBytes b => b end.

(* ensure_str(b, ignore_error=True) on a bytes object *)
Definition ensure_str_ie (b : bytes) : pstr := if utf8_valid b then PStr b else PBytes b.

(* a str is always valid; a bytes object given by the user comes back as str exactly when it decodes *)
Definition pstr_wf (x : pstr) : bool := match x with PStr b => utf8_valid b | PBytes _ => true end.
Definition canon (x : pstr) : pstr := ensure_str_ie (ensure_bytes x).

(* d[k] = v *)
Fixpoint dict_set {K V} (keqb : K -> K -> bool) (k : K) (v : V) (d : list (K * V)) : list (K * V) :=
  match d with
  | [] => [(k, v)]
  | (k', v') :: r => if keqb k k' then (k', v) :: r else (k', v') :: dict_set keqb k v r
  end.

Definition read_entry (e : bytes * option bytes) : pstr * option pstr :=
  (ensure_str_ie (fst e), option_map ensure_str_ie (snd e)).

(* the dict comprehension, in insertion order *)
Definition read_kvm (l : list (bytes * option bytes)) : list (pstr * option pstr) :=
  fold_left (fun d e => let '(k, v) := read_entry e in dict_set pstr_eqb k v d) l [].

(* the update dict as update_custom_metadata sees it after ensure_bytes; a stored value is Some bytes *)
Definition enc_u (u : list (pstr * option pstr)) : list (bytes * option (option bytes)) :=
  map (fun kv => (ensure_bytes (fst kv), option_map (fun v => Some (ensure_bytes v)) (snd kv))) u.

Definition update_kvo (old : list (bytes * option bytes)) (u : list (pstr * option pstr))
  : list (bytes * option bytes) := update_kv bytes_eqb old (enc_u u).
