(* IMPL MODEL (api._dtypes + core.read_col `piece[:] = convert(...)`): in which UNIT a timestamp column of a foreign file is
   allocated and what the assignment of convert()'s result into it does.

     _dtypes:  dt = typemap(schema)                       -- the stored unit (datetime64[ms|us|ns]; INT96 and DATE: ns)
               if the 'pandas' entry records numpy_type "datetime64[u]..." for the column: dt = that    (repaired: only then)
     read_col: piece[:] = convert(values, se)             -- numpy casts datetime64[stored] to datetime64[allocated]:
               NaT stays NaT; to a finer unit: multiplication; to a coarser unit: floor division

   Values are int64 counts (NaT = -2^63 excluded by the statements).  The key-value entry is application metadata: the instant
   must not depend on it (Proofs/RAllocProofs.v).                                                                          *)
From Coq Require Import ZArith Bool.
From Pq Require Import Impl.RConvert Impl.WConvert.
Local Open Scope Z_scope.

(* wunit of Impl/WConvert.v doubles as numpy's unit: WS | WMs | WUs | WNs, ns_per *)
Definition unit_of_stored (u : tunit) : wunit := match u with TMs => WMs | TUs => WUs | TNs => WNs end.

Definition alloc_unit (recorded : option wunit) (stored : tunit) : wunit :=
  match recorded with Some u => u | None => unit_of_stored stored end.

(* numpy: datetime64[from] value v assigned into a datetime64[to] array *)
Definition assign_cast (from to : wunit) (v : Z) : Z :=
  if v =? NATZ then NATZ
  else if ns_per to <=? ns_per from then v * (ns_per from / ns_per to)
  else v / (ns_per to / ns_per from).

(* what the reader returns for a stored timestamp: (unit of the column, count in that unit) *)
Definition read_ts (recorded : option wunit) (stored : tunit) (v : Z) : wunit * Z :=
  let a := alloc_unit recorded stored in (a, assign_cast (unit_of_stored stored) a v).

(* the rule of seeded C03-6: the stored count is VIEWED as the allocated unit *)
Definition read_ts_view (recorded : option wunit) (stored : tunit) (v : Z) : wunit * Z :=
  (alloc_unit recorded stored, v).

Definition instant_ns (r : wunit * Z) : Z := snd r * ns_per (fst r).
