(* IMPL model of the encoders of cencoding.c: encode_bitpacked (int32 accumulator `bits`, arithmetic
   shift right), encode_rle_bp, write_bitpacked1 (unchecked output!), width_from_max_int.
   Output writes through NumpyIO.write_byte / write_int are bounds-checked and silently dropped. *)
From Coq Require Import NArith ZArith List Bool.
From Pq Require Import Base.Bytes Base.Err Base.ListX Impl.CVarint.
Import ListNotations.
Open Scope bool_scope.
Open Scope N_scope.

(* an output NumpyIO seen by an encoder: bytes written so far (reversed), room left *)
Record wbuf := { wb_rev : bytes; wb_room : N }.
Definition wb_byte (o : wbuf) (b : N) : wbuf :=
  if wb_room o =? 0 then o else {| wb_rev := N.land b 255 :: wb_rev o; wb_room := wb_room o - 1 |}.
Fixpoint wb_bytes (o : wbuf) (bs : bytes) : wbuf :=
  match bs with [] => o | b :: r => wb_bytes (wb_byte o b) r end.

(* int32 >> 8 (arithmetic) on the 32-bit pattern *)
Definition sar8_32 (x : N) : N :=
  if N.testbit x 31 then N.lor (N.shiftr x 8) 4278190080 (* 0xFF000000 *) else N.shiftr x 8.

(* while bit >= 8: write_byte(bits & 0xff); bit -= 8; bits >>= 8     (at most 4+ rounds: bit <= 7+255) *)
Fixpoint flush (fuel : nat) (o : wbuf) (bit bits : N) : wbuf * N * N :=
  match fuel with
  | O => (o, bit, bits)
  | S f => if 8 <=? bit then flush f (wb_byte o (N.land bits 255)) (bit - 8) (sar8_32 bits) else (o, bit, bits)
  end.

(* the loop over the values; v << bit on int32 with bit <= 7: wraps (gcc -fwrapv), never UB *)
Fixpoint ebp_loop (vals : list N) (w : N) (o : wbuf) (bit bits : N) : res (wbuf * N * N) :=
  match vals with
  | [] => Ok (o, bit, bits)
  | v :: r =>
    if 32 <=? bit then UB else
    let bits1 := N.lor bits (N.land (N.shiftl (N.land v m32) bit) m32) in
    let '(o', bit', bits') := flush 40 o (bit + w) bits1 in
    if 8 <=? bit' then Fuel else ebp_loop r w o' bit' bits'
  end.

(* encode_bitpacked(values, width, o): returns bytes written (in order) and room left *)
Definition c_encode_bitpacked_wb (vals : list N) (w : N) (o : wbuf) : res wbuf :=
  let n := lenN vals in
  let header := N.lor (N.shiftl ((n + 7) / 8) 1) 1 in
  let o1 := wb_bytes o (fst (c_enc_varint header 10)) in
  match ebp_loop vals w o1 0 0 with
  | Ok (o2, bit, bits) => Ok (if bit =? 0 then o2 else wb_byte o2 bits)
  | OOB => OOB | UB => UB | Fuel => Fuel
  end.

Definition c_encode_bitpacked (vals : list N) (w cap : N) : res (bytes * N) :=
  match c_encode_bitpacked_wb vals w {| wb_rev := []; wb_room := cap |} with
  | Ok o => Ok (rev_append (wb_rev o) [], cap - wb_room o)
  | OOB => OOB | UB => UB | Fuel => Fuel
  end.

(* encode_rle_bp(data, width, o, withlength): with the length prefix the 4 bytes are skipped first
   (seek clamps to the end) and patched afterwards by a checked write_int.
   Returns (buffer content from position 0 as list of option byte = Some written | None untouched, final cursor) *)
Definition c_encode_rle_bp (vals : list N) (w cap : N) (withlength : bool) : res (list (option N) * N) :=
  if negb withlength then
    match c_encode_bitpacked vals w cap with
    | Ok (b, loc) => Ok (map Some b, loc)
    | OOB => OOB | UB => UB | Fuel => Fuel
    end
  else
    let start := 0 in
    let skip := N.min 4 cap in                        (* o.seek(4, 1) *)
    match c_encode_bitpacked vals w (cap - skip) with
    | Ok (b, n) =>
      let e := skip + n in                            (* end = o.tell() *)
      (* o.seek(start); o.write_int(end - start - 4) [needs 4 bytes of room]; o.seek(end) *)
      let lenv := Z.to_N ((Z.of_N e - 4) mod 2 ^ 32)%Z in
      let prefix := if 4 <=? cap then map Some (le_enc 4 lenv) else repeat None (N.to_nat skip) in
      Ok (prefix ++ map Some b, e)
    | OOB => OOB | UB => UB | Fuel => Fuel
    end.

(* width_from_max_int(int64 value), value given as its 64-bit pattern *)
Definition c_width_from_max_int (v : N) : N :=
  if N.testbit v 63 then 0        (* the loop never sees 0: falls out after 64 rounds, returns 0 *)
  else N.size v.

(* write_bitpacked1(file_obj, count, o): np.packbits order (first value in the MOST significant
   bit); 8 input bytes are fetched at once; the output pointer is written WITHOUT any bounds check *)
Fixpoint pack_msb (bs : list N) (acc : N) : N :=
  match bs with [] => acc | b :: r => pack_msb r (N.lor (N.land (N.shiftl acc 1) 255) (N.land b 1)) end.
Fixpoint pack_msb_nz (bs : list N) (acc : N) : N :=
  match bs with [] => acc | b :: r => pack_msb_nz r (N.lor (N.land (N.shiftl acc 1) 255) (if b =? 0 then 0 else 1)) end.

Fixpoint wb1_groups (fuel : bytes) (inp : bytes) (ngroups : N) (room : N) (acc : bytes) : res (bytes * bytes * N) :=
  if ngroups =? 0 then Ok (acc, inp, room) else
  match fuel with
  | [] => OOB
  | _ :: f =>
    if lenN inp <? 8 then OOB
    else if room =? 0 then OOB
    else wb1_groups f (dropN 8 inp) (ngroups - 1) (room - 1) (pack_msb (takeN 8 inp) 0 :: acc)
  end.

(* returns bytes written, input cursor advance, output cursor advance *)
Definition c_write_bitpacked1 (inp : bytes) (count cap : N) : res (bytes * N * N) :=
  match wb1_groups (0 :: inp) inp (count / 8) cap [] with
  | Ok (acc, rest, room) =>
    let r := count mod 8 in
    if r =? 0 then Ok (rev_append acc [], N.land (count * 4) m32, (count + 7) / 8)
    else if lenN rest <? r then OOB
    else if room =? 0 then OOB
    else Ok (rev_append (pack_msb_nz (takeN r rest) 0 :: acc) [], N.land (count * 4) m32, (count + 7) / 8)
  | OOB => OOB | UB => UB | Fuel => Fuel
  end.
