(* IMPL MODEL (writer.py + cencoding.pyx NumpyIO): the SCRATCH buffers the run headers are built in.

     buf = np.empty(cap, dtype=np.uint8); o = NumpyIO(buf)
     o.write_byte(b)                              -- ignored when the cursor is at the end of the buffer
     cencoding.encode_unsigned_varint(x, o)       -- byte by byte through write_byte
     o.so_far() / o.tell()                        -- what arrived

   Impl/WLevels.v describes the blocks WITHOUT a capacity (the header always arrives in full).  This file
   puts the capacity into the model: what arrives in a scratch buffer of `cap` bytes is the first `cap`
   bytes of the stream of writes.  Proofs/WScratchProofs.v shows when the two agree (the stream fits) and
   gives the witness when it does not (5-byte buffer, >= 2^27 rows).                                    *)
From Coq Require Import NArith List.
From Pq Require Import Base.Bytes Base.ListX Codec.Varint Impl.WLevels.
Import ListNotations.
Open Scope N_scope.

(* NumpyIO over `cap` bytes after the writes `stream` *)
Definition nio (cap : nat) (stream : bytes) : bytes := firstn cap stream.

(* make_definitions, no_nulls branch: varint(len << 1), write_byte(1) into ONE scratch buffer *)
Definition defs_nonull_stream (n : N) : bytes := uleb_enc (2 * n) ++ [1].
Definition wr_defs_nonull_v2_cap (cap : nat) (n : N) : bytes := nio cap (defs_nonull_stream n).
Definition wr_defs_nonull_v1_cap (cap : nat) (n : N) : bytes :=
  let b := wr_defs_nonull_v2_cap cap n in le_enc 4 (N.of_nat (length b)) ++ b.    (* struct.pack('<I', temp.tell()) *)

(* make_definitions, nulls branch: varint(len(out) << 1 | 1) alone in the scratch buffer; `outlen` = bytes of the packed mask *)
Definition defs_nulls_head_stream (outlen : N) : bytes := uleb_enc (2 * outlen + 1).
Definition wr_defs_nulls_head_cap (cap : nat) (outlen : N) : bytes := nio cap (defs_nulls_head_stream outlen).

(* encode_dict: write_byte(width), varint(groups << 1 | 1) into ONE scratch buffer; n = number of codes, k = bytes per code *)
Definition dict_head_stream (k : nat) (n : N) : bytes := (8 * N.of_nat k) :: uleb_enc (2 * ((n + 7) / 8) + 1).
Definition wr_dict_head_cap (cap : nat) (k : nat) (n : N) : bytes := nio cap (dict_head_stream k n).

(* the uncapped heads of Impl/WLevels.v, for the statements *)
Definition wr_dict_head (k : nat) (n : N) : bytes := dict_head_stream k n.

(* the capacity a scratch buffer needs for pages of fewer than 2^31 rows (page counts are i32: check_32):
   five varint bytes + the byte written next to the header *)
Definition cap_needed : nat := 6.
