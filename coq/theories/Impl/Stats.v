(* Impl model of the column statistics of fastparquet (property C04).

   writer.write_column (statistics part):
       max, min = data0.max(), data0.min()            pandas, skipna: nulls and NaN are not looked at
       if pd.isna(max): stats = False                 no ordered non-null value -> no min/max
       else max/min = PLAIN encoding of a one-element Series ([4:] strips the length of a BYTE_ARRAY)
       for each page: num_nulls = cells of the page that are null (0 for a REQUIRED column)
                      global_num_nulls += num_nulls
       Statistics(max, min, null_count=global_num_nulls)   or   Statistics(null_count=...) when not stats
     categorical columns (after the fix: commit): min/max over the label values present in the chunk;
     the pinned tree took them in CATEGORY order (data0.unique().as_ordered()) - cat_minmax_old below.
   writer.make_row_group: which columns get min/max (stats=True/False, 'auto', list of names).
   api.statistics: PLAIN-decodes the raw bytes again (read_plain(..., count=1, stat=True)).
   api.sorted_partitioned_columns: no None, sorted(min)==min, sorted(max)==max, all max_i < min_{i+1}.

   A chunk is a list of pages, a page a list of cells, a cell `None` (null) or `Some v`, v the
   PHYSICAL value as stored: the bit pattern of a fixed-width type as a natural number, or a byte
   string.  The Parquet orderings are `leb` functions on those physical values.                       *)
From Coq Require Import NArith ZArith List Bool Arith.
From Pq Require Import Base.Bytes.
Import ListNotations.

(* ------------------------------------------------------------------------------------------ *)
(* generic part: any value type with a comparison `leb` and an `ordered` test (false for NaN)   *)
(* ------------------------------------------------------------------------------------------ *)
Section Generic.
  Variable A : Type.
  Variable leb : A -> A -> bool.
  Variable ordered : A -> bool.

  Definition cells := list (option A).

  (* what pandas' skipna max()/min() look at: the non-null, non-NaN values, in order *)
  Fixpoint ordvals (l : cells) : list A :=
    match l with
    | [] => []
    | Some x :: r => if ordered x then x :: ordvals r else ordvals r
    | None :: r => ordvals r
    end.

  Definition pick_max (m x : A) : A := if leb m x then x else m.
  Definition pick_min (m x : A) : A := if leb x m then x else m.

  Definition max_of (l : list A) : option A :=
    match l with [] => None | x :: r => Some (fold_left pick_max r x) end.
  Definition min_of (l : list A) : option A :=
    match l with [] => None | x :: r => Some (fold_left pick_min r x) end.

  Definition is_none (c : option A) : bool := match c with None => true | Some _ => false end.

  Fixpoint count_nulls (l : cells) : N :=
    match l with
    | [] => 0
    | c :: r => (if is_none c then 1 else 0) + count_nulls r
    end%N.

  (* global_num_nulls = 0; for page in pages: global_num_nulls += num_nulls
     (has_nulls false, i.e. a REQUIRED column: num_nulls = 0 without looking) *)
  Definition tally (optional : bool) (pages : list cells) : N :=
    fold_left (fun acc p => acc + (if optional then count_nulls p else 0))%N pages 0%N.

  Record stats := mk_stats { s_min : option A; s_max : option A; s_nulls : N }.

  (* `sel` = the `stats` argument make_row_group passes for this column *)
  Definition stats_of (sel optional : bool) (pages : list cells) : stats :=
    let data0 := concat pages in
    let nn := tally optional pages in
    if sel then
      match max_of (ordvals data0), min_of (ordvals data0) with
      | Some mx, Some mn => mk_stats (Some mn) (Some mx) nn
      | _, _ => mk_stats None None nn                            (* pd.isna(max): stats = False *)
      end
    else mk_stats None None nn.

  (* ---- the relation "these statistics describe this stored chunk", as a decidable check ---- *)
  Definition equivb (a b : A) : bool := leb a b && leb b a.

  Definition check_bound (lower : bool) (m : A) (l : list A) : bool :=
    ordered m && existsb (equivb m) l && forallb (fun x => if lower then leb m x else leb x m) l.

  Definition check_stats (stored : cells) (st : stats) : bool :=
    N.eqb (s_nulls st) (count_nulls stored) &&
    match s_min st, s_max st with
    | None, None => true
    | Some mn, Some mx => check_bound true mn (ordvals stored) && check_bound false mx (ordvals stored)
    | _, _ => false
    end.

  (* ---- sorted_partitioned_columns ---- *)
  Definition ltb (a b : A) : bool := negb (leb b a).

  Fixpoint sorted_by (l : list A) : bool :=
    match l with
    | [] => true
    | x :: r => match r with [] => true | y :: _ => leb x y && sorted_by r end
    end.

  (* all(mx < mn for mx, mn in zip(a, b)) *)
  Fixpoint all_lt (a b : list A) : bool :=
    match a, b with
    | mx :: a', mn :: b' => ltb mx mn && all_lt a' b'
    | _, _ => true
    end.

  Fixpoint all_some (l : list (option A)) : option (list A) :=
    match l with
    | [] => Some []
    | Some a :: r => option_map (cons a) (all_some r)
    | None :: _ => None
    end.

  (* min, max = s['min'][c], s['max'][c]; any None -> skip;
     min and sorted(min) == min and sorted(max) == max and all(mx < mn for mx, mn in zip(max[:-1], min[1:])) *)
  Definition sorted_col (mins maxs : list (option A)) : bool :=
    match all_some mins, all_some maxs with
    | Some mn, Some mx =>
        negb (match mn with [] => true | _ => false end) &&
        sorted_by mn && sorted_by mx && all_lt (removelast mx) (tl mn)
    | _, _ => false
    end.

  (* ---- categorical columns ---- *)
  (* the chunk as stored: dictionary page = the categories, data pages = codes (None = null) *)
  Definition labels_of (cats : list A) (codes : list (option nat)) : cells :=
    map (fun c => match c with None => None | Some i => nth_error cats i end) codes.

  Fixpoint present (codes : list (option nat)) : list nat :=
    match codes with [] => [] | Some i :: r => i :: present r | None :: r => present r end.

  (* pinned tree: dnnu = data0.unique().as_ordered(); dnnu.max(), dnnu.min() compare CODES *)
  Definition cat_minmax_old (cats : list A) (codes : list (option nat)) : option (A * A) :=
    match present codes with
    | [] => None
    | c :: r =>
      match nth_error cats (fold_left Nat.min r c), nth_error cats (fold_left Nat.max r c) with
      | Some mn, Some mx => Some (mn, mx)
      | _, _ => None
      end
    end.

  (* repaired: labels = categories[np.unique(codes[codes >= 0])]; labels.max(), labels.min() *)
  Definition cat_labels_present (cats : list A) (codes : list (option nat)) : cells :=
    map (nth_error cats) (nodup Nat.eq_dec (present codes)).

  Definition cat_stats_of (sel optional : bool) (cats : list A) (pages : list (list (option nat))) : stats :=
    let nn := tally optional (map (labels_of cats) pages) in
    let lab := ordvals (cat_labels_present cats (concat pages)) in
    if sel then
      match max_of lab, min_of lab with
      | Some mx, Some mn => mk_stats (Some mn) (Some mx) nn
      | _, _ => mk_stats None None nn
      end
    else mk_stats None None nn.
End Generic.

Arguments mk_stats {A}.
Arguments s_min {A}.
Arguments s_max {A}.
Arguments s_nulls {A}.

(* ------------------------------------------------------------------------------------------ *)
(* the Parquet orderings on physical values                                                    *)
(* ------------------------------------------------------------------------------------------ *)

(* two's complement value of the w-bit pattern n *)
Definition to_signed (w : N) (n : N) : Z :=
  if (n <? 2 ^ (w - 1))%N then Z.of_N n else (Z.of_N n - Z.of_N (2 ^ w))%Z.

(* IEEE-754 binary format with e exponent and m mantissa bits: sign-magnitude key, -0 = +0 *)
Definition fkey (e m : N) (b : N) : Z :=
  let mag := Z.of_N (b mod 2 ^ (e + m)) in
  if (b <? 2 ^ (e + m))%N then mag else (- mag)%Z.
Definition fnan (e m : N) (b : N) : bool := ((2 ^ e - 1) * 2 ^ m <? b mod 2 ^ (e + m))%N.

(* INT96 timestamps: 8 bytes nanoseconds of the day, then 4 bytes (signed) Julian day *)
Definition key_int96 (n : N) : Z :=
  (to_signed 32 (n / 2 ^ 64) * 2 ^ 64 + Z.of_N (n mod 2 ^ 64))%Z.

Inductive ordk :=
| OSigned (w : N)        (* INT32/INT64 without or with a signed converted type, dates, times, timestamps *)
| OUnsigned              (* UINT_8/16/32/64 converted types; BOOLEAN (false < true) *)
| OFloat (e m : N)       (* FLOAT = OFloat 8 23, DOUBLE = OFloat 11 52 *)
| OInt96.

Definition key_of (o : ordk) : N -> Z :=
  match o with
  | OSigned w => to_signed w
  | OUnsigned => Z.of_N
  | OFloat e m => fkey e m
  | OInt96 => key_int96
  end.

Definition leb_of (o : ordk) (a b : N) : bool := (key_of o a <=? key_of o b)%Z.
Definition ordered_of (o : ordk) (a : N) : bool :=
  match o with OFloat e m => negb (fnan e m a) | _ => true end.

(* BYTE_ARRAY / FIXED_LEN_BYTE_ARRAY: unsigned byte-wise lexicographic *)
Fixpoint lex_leb (a b : list N) : bool :=
  match a, b with
  | [], _ => true
  | _ :: _, [] => false
  | x :: a', y :: b' => if (x <? y)%N then true else if (y <? x)%N then false else lex_leb a' b'
  end.

(* ------------------------------------------------------------------------------------------ *)
(* PLAIN encoding of the one-element Series, and api.statistics' decoding                      *)
(* ------------------------------------------------------------------------------------------ *)
Inductive ptype := TBOOLEAN | TINT32 | TINT64 | TINT96 | TFLOAT | TDOUBLE | TBYTE_ARRAY | TFLBA.
Inductive pval := PN (n : N) | PB (b : bytes).

Definition fixed_width (t : ptype) : option nat :=
  match t with
  | TINT32 | TFLOAT => Some 4 | TINT64 | TDOUBLE => Some 8 | TINT96 => Some 12
  | _ => None
  end%nat.

(* encode['PLAIN'](pd.Series([m]), selement) *)
Definition enc_plain1 (t : ptype) (v : pval) : option bytes :=
  match t, v with
  | TBOOLEAN, PN n => Some [n mod 2]%N            (* np.packbits of the bit padded to 8, reversed *)
  | TBYTE_ARRAY, PB b => Some (le_enc 4 (N.of_nat (length b)) ++ b)
  | TFLBA, PB b => Some b
  | _, PN n => match fixed_width t with Some k => Some (le_enc k n) | None => None end
  | _, _ => None
  end.

(* ...[4:] for a BYTE_ARRAY *)
Definition enc_stat (t : ptype) (v : pval) : option bytes :=
  match t with
  | TBYTE_ARRAY => option_map (skipn 4) (enc_plain1 t v)
  | _ => enc_plain1 t v
  end.

(* api.statistics: ensure_bytes(s.max) for BYTE_ARRAY, else read_plain(s.max, type, 1, stat=True)[0] *)
Definition dec_stat (t : ptype) (b : bytes) : option pval :=
  match t with
  | TBOOLEAN => match b with x :: _ => Some (PN (x mod 2)%N) | [] => None end
  | TBYTE_ARRAY | TFLBA => Some (PB b)
  | _ => match fixed_width t with
         | Some k => if Nat.leb k (length b) then Some (PN (le2n (firstn k b))) else None
         | None => None
         end
  end.

Definition wf_val (t : ptype) (v : pval) : Prop :=
  match t, v with
  | TBOOLEAN, PN n => (n < 2)%N
  | (TBYTE_ARRAY | TFLBA), PB _ => True
  | (TBYTE_ARRAY | TFLBA), PN _ => False
  | _, PN n => match fixed_width t with Some k => (n < 256 ^ N.of_nat k)%N | None => False end
  | _, PB _ => False
  end.

(* ------------------------------------------------------------------------------------------ *)
(* make_row_group: which columns get min/max                                                   *)
(* ------------------------------------------------------------------------------------------ *)
Inductive stats_setting := SBool (b : bool) | SAuto | SNames (names : list bytes).
(* numpy dtype.kind of the column *)
Inductive dkind := Ki | Ku | Kf | KM | Km | Kb | KO | KU_ | KT.

Definition select (s : stats_setting) (name : bytes) (k : dkind) : bool :=
  match s with
  | SBool b => b                                                   (* isinstance(stats, int): st = stats *)
  | SAuto => match k with Ki | Ku | Kf | KM => true | _ => false end   (* kind in ["i","u","f","M"] *)
  | SNames l => existsb (bytes_eqb name) l                         (* column.name in stats *)
  end.
