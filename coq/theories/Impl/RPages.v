(* IMPL MODEL of fastparquet's v1 data-page reader, flat columns:
     core.read_data_page  (levels via read_def/read_data, values per encoding, `values[:nval]`)
     core.read_col        (the part that turns one page's (defi, val) into output cells: `dic[val]`,
                           null scatter `part[defi == max_defi] = ...`, dictionary page replacing `dic`)
   statement by statement where it matters: definition levels come back as None when the page has
   no NULL; the index bit width is read from the page (BOOLEAN forces 1, and RLE booleans skip their
   4-byte length - repaired code); width 0 gives all-zero indices without touching the input; the
   `bit_width in [8,16,32] and selfmade` shortcut reads raw little-endian codes; any other width goes
   through the hybrid reader for exactly nval values; unknown encodings raise NotImplementedError.

   The native decoders (cencoding.read_rle_bit_packed_hybrid, encoding.read_plain / unpack_byte_array)
   are represented by the specification decoders they agree with on the proved-safe region (bit
   widths <= 24: C11, Proofs/CBitpackProofs.v); DELTA_BINARY_PACKED is delegated to delta_dec likewise.
   One positional simplification: after the definition levels the model continues at the end of the
   length-prefixed level block (the code continues where the last run it touched ended; the same
   place whenever every run of the block is needed, which holds for every layout of Format/Enc.v).  *)
From Coq Require Import NArith ZArith List Bool String.
From Pq Require Import Base.Bytes Base.Bits Base.ListX Codec.Zigzag Codec.Bitpack Codec.Hybrid Codec.Delta Thrift.Compact
  Format.Phys Format.Meta Format.Page.
Import ListNotations.
Open Scope string_scope.
Open Scope N_scope.

(* what read_data_page returns: definition levels (None = no NULL in the page) and the values, which
   are either decoded PLAIN/DELTA values or dictionary indices / RLE booleans still to be interpreted *)
Inductive rvals := RVals (vs : list value) | RIdx (ix : list N).

(* read_def + read_data *)
Definition rd_def (maxdef n : N) (raw : bytes) : rs (option (list N) * N * bytes) :=
  if maxdef =? 0 then ROk (None, 0, raw)                          (* helper.is_required *)
  else
    match hyb_dec_len false (N.size maxdef) n raw with             (* width_from_max_int; RLE with length prefix *)
    | None => RBad "definition levels: native reader ran out of data"
    | Some (lv, rest) =>
      let nn := n - count_def maxdef lv in                         (* num_values - (levels == max).sum() *)
      ROk (if nn =? 0 then None else Some lv, nn, rest)
    end.

(* raw little-endian codes of `bits` bits each (np.frombuffer(..., dtype='int%i' % bit_width)) *)
Fixpoint raw_codes (k : N) (n : nat) (b : bytes) (acc : list N) : option (list N) :=
  match n with
  | O => Some (rev_append acc [])
  | S m => match take k b with Some (s, r) => raw_codes k m r (le2n_tr s :: acc) | None => None end
  end.

Definition rd_data_page (selfmade : bool) (cd : coldesc) (h : dph) (raw : bytes) : rs (option (list N) * rvals) :=
  let! n := z2n "negative num_values" (d_nvals h) in
  let! dr := rd_def (cd_maxdef cd) n raw in
  let '(defi, nn, rest) := dr in
  let nval := n - nn in
  if (d_enc h =? E_PLAIN)%Z then
    match plain_dec (cd_type cd) (cd_tlen cd) nval rest with       (* read_plain(io_obj.read(), type, nval, width) *)
    | Some (vs, _) => ROk (defi, RVals vs)
    | None => RBad "read_plain: buffer is smaller than requested size"
    end
  else if ((d_enc h =? E_PLAIN_DICT) || (d_enc h =? E_RLE_DICT) || (d_enc h =? E_RLE))%Z then
    (* dictionary indices (of any physical type, BOOLEAN included): the width is stored as a single byte;
       RLE values: BOOLEAN has the implied width 1 and a 4-byte length in front, else width = type_length *)
    let! wr := (if (d_enc h =? E_RLE)%Z then
                  match cd_type cd with
                  | BOOLEAN => ROk (1, dropN 4 rest)
                  | _ => ROk (cd_tlen cd, rest)
                  end
                else match rest with w :: r => ROk (w, r) | [] => RBad "read_byte past the end" end) in
    let '(bw, body) := wr in
    if ((bw =? 8) || (bw =? 16) || (bw =? 32)) && selfmade then
      (* num = (varint >> 1) * 8 codes of bw bits, then values[:nval] *)
      match Codec.Varint.uleb_dec body with
      | Some (hd, r) =>
        match raw_codes (bw / 8) (N.to_nat ((hd / 2) * 8)) r [] with
        | Some ix => ROk (defi, RIdx (takeN nval ix))
        | None => RBad "frombuffer: buffer too small"
        end
      | None => RBad "varint past the end"
      end
    else if negb (bw =? 0) then
      match hyb_dec false bw nval body with                        (* read_rle_bit_packed_hybrid into nval items *)
      | Some (ix, _) => ROk (defi, RIdx ix)
      | None => RBad "hybrid reader ran out of data"
      end
    else ROk (defi, RIdx (repN 0 nval []))                         (* np.zeros(nval) *)
  else if (d_enc h =? E_DELTA)%Z then
    match int_bits (cd_type cd) with
    | Some bits =>
      match delta_dec bits rest with
      | Some (zs, _) => ROk (defi, RVals (map (fun z => VNum (of_signed bits z)) (takeN nval zs)))
      | None => RBad "delta reader ran out of data"
      end
    | None => RBad "delta on a non-integer column"
    end
  else RUns "NotImplementedError: Encoding".

(* read_col, one data page: d = dictionary encoded; output cells of the page *)
Definition rd_col_page (selfmade : bool) (cd : coldesc) (dic : option (list value)) (h : dph) (raw : bytes)
  : rs (list (option value)) :=
  let! dv := rd_data_page selfmade cd h raw in
  let '(defi, val) := dv in
  let d := ((d_enc h =? E_PLAIN_DICT) || (d_enc h =? E_RLE_DICT))%Z in
  let! vals := (match val with
                | RVals vs => ROk vs
                | RIdx ix =>
                  if d then
                    match dic with
                    | Some dd => of_opt "IndexError: dic[val]" (lookup_all dd ix [])
                    | None => RBad "TypeError: 'NoneType' object is not subscriptable"
                    end
                  else ROk (map VNum ix)                           (* RLE booleans *)
                end) in
  match defi with
  | None => ROk (map Some vals)                                    (* piece[:] = ... *)
  | Some lv => of_opt "boolean index did not match" (cells_of (cd_maxdef cd) lv vals [])   (* part[defi == max_defi] = ... *)
  end.

(* ==== v2 ===========================================================================================
   IMPL MODEL of core.read_data_page_v2 for a flat column (max_rep = 0), no row filter, not read as a
   categorical: the cells the call assigns to assign[num : num + num_values].
   Statement by statement where it matters:
   * encodings outside {PLAIN_DICTIONARY, RLE_DICTIONARY, RLE, PLAIN, DELTA_BINARY_PACKED} raise
     NotImplementedError;
   * `size = compressed_page_size - rl - dl`, values start at `tell + dl + rl` (infile.seek(data));
   * the definition levels are decoded ONLY when max_def > 0 and the header's num_nulls > 0 (the header
     is trusted otherwise), with the hybrid reader bounded by definition_levels_byte_length;
   * is_compressed None means True; the values are decompressed with the chunk codec only then;
   * PLAIN has three paths: `into0` (values copied bytewise into the output: the byte count must be
     exactly n_values * itemsize, otherwise numpy raises), decompress-into, and read_plain + scatter;
     which one is taken depends on dtype facts abstracted here as the flag `inplace` (converts_inplace
     and equal item sizes, no NULL, not a time/object dtype);
   * dictionary pages: width byte (0 when there is no value), width 0 -> all-zero indices, hybrid otherwise,
     `dic[out]`; RLE booleans: 4 length bytes skipped, width 1;
   * DELTA_BINARY_PACKED asserts num_nulls == 0 (AssertionError = refusal);
   * scatter: with NULLs the non-null values go to the positions whose level is the maximum.
   Native decoders and cramjam are represented as in the v1 model (spec decoders, `decompress`).      *)
Section V2.
Variable decompress : Z -> N -> bytes -> option bytes.

Definition scatter2 (maxdef : N) (lv : option (list N)) (vals : list value) : rs (list (option value)) :=
  match lv with
  | None => ROk (map Some vals)
  | Some l => of_opt "boolean index did not match" (cells_of maxdef l vals [])
  end.

Definition rd_page_v2 (inplace : bool) (cd : coldesc) (dic : option (list value)) (codec : Z) (h : dph2)
  (usize csize : N) (payload : bytes) : rs (list (option value)) :=
  let e := d2_enc h in
  if negb ((e =? E_PLAIN_DICT) || (e =? E_RLE_DICT) || (e =? E_RLE) || (e =? E_PLAIN) || (e =? E_DELTA))%Z
  then RUns "NotImplementedError" else
  let! n := z2n "negative num_values" (d2_nvals h) in
  let! nn := z2n "negative num_nulls" (d2_nnulls h) in
  let! dl := z2n "negative definition_levels_byte_length" (d2_dlen h) in
  let! rl := z2n "negative repetition_levels_byte_length" (d2_rlen h) in
  let size := csize - rl - dl in
  let n_values := n - nn in
  let! lv := (if negb (cd_maxdef cd =? 0) && negb (nn =? 0) then
                match hyb_dec false (N.size (cd_maxdef cd)) n (takeN dl payload) with
                | Some (l, _) => ROk (Some l)
                | None => RBad "level reader ran out of data"
                end
              else ROk None) in
  let body := takeN size (dropN (dl + rl) payload) in                 (* infile.seek(data); read_size() *)
  let comp := match d2_iscomp h with Some false => false | _ => true end in
  let ups := usize - dl - rl in
  let raw_of (b : bytes) : rs bytes :=
    if comp && negb (codec =? 0)%Z then of_opt "decompression failed" (decompress codec ups b) else ROk b in
  if (e =? E_PLAIN)%Z then
    if inplace && (nn =? 0) then
      (* into0 / into: the decoded bytes are written over the output slice *)
      let! raw := raw_of body in
      match num_width (cd_type cd) with
      | Some k =>
        if lenN raw =? k * n_values then
          match plain_dec (cd_type cd) (cd_tlen cd) n_values raw with
          | Some (vs, _) => ROk (map Some vs)
          | None => RBad "unreachable"
          end
        else RBad "ValueError: could not broadcast input array"
      | None => RBad "in-place path on a type without fixed width"
      end
    else
      let! raw := raw_of body in
      match plain_dec (cd_type cd) (cd_tlen cd) n_values raw with
      | Some (vs, _) => scatter2 (cd_maxdef cd) lv vs
      | None => RBad "read_plain: buffer is smaller than requested size"
      end
  else if (e =? E_RLE)%Z then
    let! raw := raw_of body in
    match hyb_dec false 1 n_values (dropN 4 raw) with                    (* pagefile.seek(4, 1); bit_width = 1 *)
    | Some (bs, _) => scatter2 (cd_maxdef cd) lv (map VNum bs)
    | None => RBad "hybrid reader ran out of data"
    end
  else if ((e =? E_PLAIN_DICT) || (e =? E_RLE_DICT))%Z then
    let! raw := raw_of body in
    let! ix := (if n_values =? 0 then ROk []
                else match raw with
                     | [] => RBad "read_byte past the end"
                     | w :: r =>
                       if w =? 0 then ROk (repN 0 n_values [])
                       else match hyb_dec false w n_values r with
                            | Some (ix, _) => ROk ix
                            | None => RBad "hybrid reader ran out of data"
                            end
                     end) in
    match dic with
    | Some dd => let! vs := of_opt "IndexError: dic[out]" (lookup_all dd ix []) in scatter2 (cd_maxdef cd) lv vs
    | None => RBad "TypeError: 'NoneType' object is not subscriptable"
    end
  else (* DELTA_BINARY_PACKED *)
    if negb (nn =? 0) then RBad "AssertionError: null delta-int not implemented" else
    let! raw := raw_of body in
    match int_bits (cd_type cd) with
    | Some bits =>
      match delta_dec bits raw with
      | Some (zs, _) => ROk (map (fun z => Some (VNum (of_signed bits z))) (takeN n zs))
      | None => RBad "delta reader ran out of data"
      end
    | None => RBad "delta on a non-integer column"
    end.
End V2.
