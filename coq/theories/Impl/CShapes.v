(* C15: which columns the reader sends through the one-level assembly at all (schema._is_list_like, the refusal of
   core._nested_levels, the None fill of read_row_group_arrays).  Models only; theorems in Proofs/CAssembleShapes.v. *)
From Coq Require Import NArith List Bool Arith.
From Pq Require Import Format.Nested Impl.CAssemble.
Import ListNotations.

(* core._nested_levels: raise NotImplementedError when max_repetition_level(path) > 1 *)
Definition refuses (path : list reptype) : bool := (1 <? sch_max_rep path)%N.

(* schema._is_list_like on the facts it looks at: length of path_in_schema, the annotation of path[:-2], the numbers of children of
   that group and of its child, the repetition types of the child and the grandchild *)
Definition is_list_like (path_len : nat) (annot_list : bool) (nchild nchild2 : nat) (mid leaf : reptype) : bool :=
  Nat.leb 3 path_len && annot_list && Nat.leb nchild 1 && Nat.leb nchild2 1 &&
  match mid with REPEATED => true | _ => false end && match leaf with REPEATED => false | _ => true end.

(* read_row_group_arrays: a chunk that is not list-like keeps its dotted path as name; when that is not a requested column the
   chunk is skipped and the column that was exposed under the group's name is filled with None *)
Definition column_cells {V} (list_like : bool) (assembled : list (row V)) (n : nat) : list (option (row V)) :=
  if list_like then map Some assembled else repeat None n.

