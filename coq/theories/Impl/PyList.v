(* Prelude of translators/kv2coq.py: the fragment of Python list behaviour that util.update_custom_metadata uses
   (x in l, l.index(x), del l[i], l[i] = y, l.append(y)); None = the operation raises.
   `update1_keys` is the faithful step of update_custom_metadata: the position is looked up in the SPARE key list
   (`kvm_keys`), which the code keeps in step on removal but does NOT extend on append. *)
From Coq Require Import NArith List Bool Arith.
From Pq Require Import Base.Bytes Impl.KV.
Import ListNotations.

Definition py_in {A} (eqb : A -> A -> bool) (x : A) (l : list A) : bool := existsb (eqb x) l.

Fixpoint py_index {A} (eqb : A -> A -> bool) (x : A) (l : list A) : option nat :=
  match l with
  | [] => None
  | y :: r => if eqb x y then Some O else option_map S (py_index eqb x r)
  end.

Definition py_del {A} (i : nat) (l : list A) : option (list A) :=
  if Nat.ltb i (length l) then Some (remove_at i l) else None.

Definition py_setitem {A} (i : nat) (y : A) (l : list A) : option (list A) :=
  if Nat.ltb i (length l) then Some (replace_at i y l) else None.

Definition py_append {A} (y : A) (l : list A) : list A := l ++ [y].

Section Step.
  Variables K V : Type.
  Variable keqb : K -> K -> bool.
  Definition update1_keys (st : list (K * V) * list K) (u : K * option V) : option (list (K * V) * list K) :=
    let '(kvm, keys) := st in
    let '(k, ov) := u in
    match py_index keqb k keys, ov with
    | Some i, None =>
        match py_del i kvm, py_del i keys with Some a, Some b => Some (a, b) | _, _ => None end
    | Some i, Some v => option_map (fun a => (a, keys)) (py_setitem i (k, v) kvm)
    | None, Some v => Some (py_append (k, v) kvm, keys)
    | None, None => Some (kvm, keys)
    end.
End Step.
Arguments update1_keys {K V}.
