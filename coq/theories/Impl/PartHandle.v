(* Impl/PartHandle.v — the partition state of an open ParquetFile handle across edits made THROUGH the handle (property C08).

   api.ParquetFile keeps, next to its row groups, what _read_partitions derived from their paths: `file_scheme` and `cats`
   (per partition column the list of labels; core.read_row_group turns a row group's directory into the code
   cats[col].index(value)).  ParquetFile.write_row_groups / remove_row_groups change the row groups and then call
   self._set_attrs(), which runs _read_partitions again.  Model: a handle = (files, partition state); an edit = new files
   appended / files removed, followed by set_attrs; reading uses the STORED partition state.                          *)
From Coq Require Import NArith ZArith Bool Ascii String Arith List.
From Pq Require Import Base.Bytes Impl.Partition.
Import ListNotations.

Section PartHandle.
  Variables F T D : Type.
  Variable feqb : F -> F -> bool.
  Variable teqb : T -> T -> bool.
  Variable deqb : D -> D -> bool.
  Variable f_eq_Z : F -> Z -> bool.
  Variable parse_float : bool -> str -> option F.
  Variable parse_time_np : bool -> str -> option T.
  Variable parse_time_fmt parse_time_pd : str -> option T.
  Variable parse_delta : str -> option D.
  Variable P : Type.
  Variable pm : list (str * kind).
  Variable ord : list str -> list str.          (* iteration order of the set of directories *)
  Notation value := (value F T D).
  Notation row := (row F T D P).
  Notation files := (list (str * list row)).
  Notation paths_to_cats := (paths_to_cats F T D feqb teqb deqb f_eq_Z parse_float parse_time_np parse_time_fmt parse_time_pd parse_delta).
  Notation read_files := (read_files F T D feqb teqb deqb f_eq_Z parse_float parse_time_np parse_time_fmt parse_time_pd parse_delta P).

  Inductive edit :=
  | Append (new : files)                  (* pf.write_row_groups(data): the files of the new row groups, after the old ones *)
  | Remove (keep : str -> bool).          (* pf.remove_row_groups(rgs): the row groups whose file is not kept *)

  Definition apply_edit (fs : files) (e : edit) : files :=
    match e with Append new => fs ++ new | Remove keep => filter (fun f => keep (fst f)) fs end.

  Definition part_state := res (scheme * list (str * list value)).
  Record handle := { h_files : files; h_part : part_state }.

  (* _read_partitions: paths_to_cats on the paths of the row groups *)
  Definition partitions_of (fs : files) : part_state :=
    paths_to_cats pm (map fst fs) (ord (dedup_str (map strip_tail (map fst fs)))).
  Definition set_attrs (fs : files) : handle := {| h_files := fs; h_part := partitions_of fs |}.
  Definition h_open (fs : files) : handle := set_attrs fs.

  (* write_row_groups / remove_row_groups: change the row groups, then self._set_attrs() *)
  Definition h_edit (h : handle) (e : edit) : handle := set_attrs (apply_edit (h_files h) e).
  (* the same edit WITHOUT refreshing what was derived from the paths (the class of defect: state cached on the handle) *)
  Definition h_edit_stale (h : handle) (e : edit) : handle := {| h_files := apply_edit (h_files h) e; h_part := h_part h |}.

  (* to_pandas through the handle: the STORED scheme and cats *)
  Definition h_read (h : handle) : option (scheme * list (list (str * value) * P)) :=
    match h_part h with
    | Ok (Hive, c) => option_map (pair Hive) (read_files true pm c (h_files h))
    | Ok (Drill, c) => option_map (pair Drill) (read_files false [] c (h_files h))
    | Ok (s, _) => Some (s, concat (map (fun f => map (fun r => ([], snd r)) (snd f)) (h_files h)))
    | _ => None
    end.
End PartHandle.
