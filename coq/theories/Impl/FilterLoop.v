(* C05 — the row-group loop of api.filter_out_stats as translators/py2coq.py regenerates it works on
   thrift objects (attribute access, `s.max or s.max_value`, hasattr/converted_max memo, external
   decoding calls).  This file gives the bridge to the abstract row groups of Impl/Filter.v:
   low-level records that keep the RAW statistics fields, their embedding as objects of Base/PyObj.v,
   and the abstraction to Impl/Filter's `column` (decoded bounds).  The refinement theorem
   "regenerated loop on the embedding = Impl/Filter.filter_out_stats on the abstraction" is proved
   on the regenerated text in genproofs/GenFilterLoopProofs.v.                                      *)
From Coq Require Import ZArith List String Bool.
From Pq Require Import Base.PyVal Base.PyObj Impl.Filter.
Import ListNotations.
Open Scope string_scope.
Open Scope Z_scope.

(* raw fields: PNone = not present, otherwise the stored bytes (as PStr; b'' is falsy like in Python);
   l_cmax / l_cmin: a bound already decoded and memoised in the statistics object by an earlier call *)
Record lstats := { l_null_count : option Z; l_max : pv; l_max_value : pv; l_min : pv; l_min_value : pv;
                   l_cmax : option pv; l_cmin : option pv }.
Record lcolumn := { l_name : string; l_num_values : Z; l_type : pv; l_stats : option lstats }.
Record lrowgroup (R : Type) := { lg_num_rows : Z; lg_columns : list lcolumn;
                                 lg_parts : option (list (string * string)); lg_rows : list R }.
Arguments lg_num_rows {R}. Arguments lg_columns {R}. Arguments lg_parts {R}. Arguments lg_rows {R}.

(* ---- embedding into the object universe ---- *)
Definition obj (l : list (string * pv)) : pv := PList (map (fun kv => PList [PStr (fst kv); snd kv]) l).
Definition memo (k : string) (c : option pv) : list (string * pv) := match c with Some v => [(k, v)] | None => [] end.
Definition opt_int (o : option Z) : pv := match o with Some n => PInt n | None => PNone end.

Definition emb_stats (s : lstats) : pv :=
  obj (memo "converted_max" (l_cmax s) ++ memo "converted_min" (l_cmin s) ++
       [("null_count", opt_int (l_null_count s)); ("max", l_max s); ("max_value", l_max_value s);
        ("min", l_min s); ("min_value", l_min_value s)])%list.
(* a partition directory pair as the path regex delivers it *)
Definition emb_pair (p : string * string) : pv := PList [PStr (fst p); PStr (snd p)].
(* file_path of a column chunk: None, or (opaque to the loop: only handed to the path regex) the pairs it parses into *)
Definition emb_fp (parts : option (list (string * string))) : pv :=
  match parts with Some pairs => PList (map emb_pair pairs) | None => PNone end.
Definition emb_col (fp : pv) (c : lcolumn) : pv :=
  obj [("file_path", fp); ("meta_data", obj [("path_in_schema", PList [PStr (l_name c)]); ("num_values", PInt (l_num_values c));
                          ("type", l_type c);
                          ("statistics", match l_stats c with Some s => emb_stats s | None => PNone end)])].
Definition emb_rg {R} (rg : lrowgroup R) : pv :=
  obj [("num_rows", PInt (lg_num_rows rg)); ("columns", PList (map (emb_col (emb_fp (lg_parts rg))) (lg_columns rg)))].
Definition emb_cond (f : cond) : pv := PList [PStr (cname f); PStr (cop f); cval f].
Definition emb_tail (f : cond) : pv := PList [PStr (cop f); cval f].
Definition emb_group (g : list cond) : pv := PList (map emb_cond g).

(* ---- abstraction: what the loop hands to filter_val for a chunk ---- *)
Section Abs.
  (* the decoding chain of a raw bound of column `name` with physical type `t`
     (ensure_bytes, encoding.read_plain, converted_types.convert when the schema element says so) *)
  Variable dec : string -> pv -> pv -> pv.

  Definition raw_of (a b : pv) : pv := if truthy a then a else b.              (* s.max or s.max_value *)
  Definition bound (name : string) (t : pv) (cache : option pv) (a b : pv) : pv :=
    let raw := raw_of a b in
    if is_none raw then PNone else match cache with Some v => v | None => dec name t raw end.

  Definition abs_stats (c : lcolumn) (s : lstats) : stats :=
    {| st_null_count := l_null_count s;
       st_min := bound (l_name c) (l_type c) (l_cmin s) (l_min s) (l_min_value s);
       st_max := bound (l_name c) (l_type c) (l_cmax s) (l_max s) (l_max_value s) |}.
  Definition abs_col (c : lcolumn) : column :=
    {| c_name := l_name c; c_num_values := l_num_values c;
       c_stats := match l_stats c with Some s => Some (abs_stats c s) | None => None end |}.
  Definition abs_rg {R} (rg : lrowgroup R) : rowgroup R :=
    {| rg_num_rows := lg_num_rows rg; rg_columns := map abs_col (lg_columns rg);
       rg_parts := lg_parts rg; rg_rows := lg_rows rg |}.
End Abs.

(* a statistics object as read from the footer: nothing memoised yet *)
Definition fresh_stats (s : lstats) : lstats :=
  {| l_null_count := l_null_count s; l_max := l_max s; l_max_value := l_max_value s; l_min := l_min s;
     l_min_value := l_min_value s; l_cmax := None; l_cmin := None |}.
Definition fresh_col (c : lcolumn) : lcolumn :=
  {| l_name := l_name c; l_num_values := l_num_values c; l_type := l_type c;
     l_stats := match l_stats c with Some s => Some (fresh_stats s) | None => None end |}.
Definition map_cols {R} (pre : lcolumn -> lcolumn) (rg : lrowgroup R) : lrowgroup R :=
  {| lg_num_rows := lg_num_rows rg; lg_columns := map pre (lg_columns rg); lg_parts := lg_parts rg; lg_rows := lg_rows rg |}.
