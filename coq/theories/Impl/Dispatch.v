(* The Python-level DISPATCH around the native codecs (fastparquet/encoding.py read_plain,
   core.py read_data_page / read_data_page_v2): which decoder is chosen per physical type,
   per (bit width, selfmade flag), and with which output allocation.

   This file is the hand-written PRELUDE of the translator translators/dispatch2coq.py: the
   decision functions themselves (`read_plain_dispatch`, `v1_index_dispatch`, ...) are
   REGENERATED from the Python source on every run (PqGen.GenDispatch) and the theorems of
   coq/genproofs/GenDispatchProofs.v are re-proved on the regenerated text.  Here: the leaf
   vocabulary, what each leaf computes (in terms of the impl models of the native codecs and
   of numpy's frombuffer), and what the format says. *)
From Coq Require Import NArith ZArith List Bool.
From Pq Require Import Base.Bytes Base.Err Base.ListX Codec.Bitpack Codec.Plain
  Impl.CVarint Impl.CBitpack Impl.CHybrid Impl.PyPack.
Import ListNotations.
Open Scope bool_scope.
Open Scope N_scope.

(* ---- leaves -------------------------------------------------------------------------------- *)
(* encoding.read_plain *)
Inductive pdec :=
| PFixed (k count : N)               (* np.frombuffer(memoryview(raw), dtype of k bytes, count=count) *)
| PBool (count : N)                  (* read_plain_boolean(raw, count) *)
| PWhole (utf : bool)                (* a statistics value: the raw bytes are the value *)
| PUnpack (count : N) (utf : bool)   (* speedups.unpack_byte_array(raw, count, utf) *)
| PNone.                             (* falls off the end of the function: returns None *)

(* dictionary-index / RLE decoders of core.read_data_page / read_data_page_v2 *)
Inductive idec :=
| DFast                              (* array view of the bytes behind the run header (own pages) *)
| DGeneric (alloc_isz isz : N)       (* read_rle_bit_packed_hybrid into np.empty(n, dtype of alloc_isz bytes), itemsize=isz *)
| DZeros                             (* width 0: np.zeros *)
| DNone.

(* helpers used by the regenerated text *)
Fixpoint assocN (k : N) (l : list (N * N)) : option N :=
  match l with [] => None | (a, b) :: r => if a =? k then Some b else assocN k r end.
Definition memN (k : N) (l : list N) : bool := existsb (N.eqb k) l.
Definition in_tab (k : N) (l : list (N * N)) : bool := match assocN k l with Some _ => true | None => false end.
Definition tab_get (k : N) (l : list (N * N)) : N := match assocN k l with Some v => v | None => 0 end.

(* parquet.thrift enum Type *)
Definition T_BOOLEAN : N := 0.
Definition T_INT32 : N := 1.
Definition T_INT64 : N := 2.
Definition T_INT96 : N := 3.
Definition T_FLOAT : N := 4.
Definition T_DOUBLE : N := 5.
Definition T_BYTE_ARRAY : N := 6.
Definition T_FIXED_LEN_BYTE_ARRAY : N := 7.

(* ---- what a leaf computes ------------------------------------------------------------------ *)
Inductive pval := VNum (k v : N) | VBool (b : N) | VBytes (b : bytes).

Fixpoint all_some {A} (l : list (option A)) : option (list A) :=
  match l with
  | [] => Some []
  | Some x :: r => match all_some r with Some xs => Some (x :: xs) | None => None end
  | None :: _ => None
  end.

(* numpy: frombuffer(buf, dtype of k bytes, count=n) = the first n items of k bytes (error when the
   buffer is shorter); an item is identified with the little-endian number of its k bytes *)
Definition run_pdec (d : pdec) (raw : bytes) : option (list pval) :=
  match d with
  | PFixed k n =>
    match fixed_dec (N.to_nat k) (N.to_nat n) raw with
    | Some (vs, _) => Some (map (VNum k) vs)
    | None => None
    end
  | PBool n => match py_read_plain_boolean raw n with Ok l => Some (map VBool l) | _ => None end
  | PWhole _ => Some [VBytes raw]
  | PUnpack n _ =>
    match c_unpack_byte_array raw n with
    | UOk items => option_map (map VBytes) (all_some items)
    | _ => None
    end
  | PNone => None
  end.

(* ---- what the format says (Encodings.md, PLAIN) -------------------------------------------- *)
Definition plain_width (t width : N) : N :=
  match t with 1 => 4 | 2 => 8 | 3 => 12 | 4 => 4 | 5 => 8 | 7 => width | _ => 0 end.

Definition spec_plain (t count width : N) (stat : bool) (raw : bytes) : option (list pval) :=
  match t with
  | 0 => if (count + 7) / 8 <=? lenN raw then Some (map VBool (bool_dec count raw)) else None
  | 6 => if stat then Some [VBytes raw]
         else match ba_dec (N.to_nat count) raw with Some (xs, _) => Some (map VBytes xs) | None => None end
  | 1 | 2 | 3 | 4 | 5 | 7 =>
    let k := if stat && (t =? 7) then lenN raw else plain_width t width in
    match fixed_dec (N.to_nat k) (N.to_nat count) raw with
    | Some (vs, _) => Some (map (VNum k) vs)
    | None => None
    end
  | _ => None
  end.

(* the decoder the format prescribes for each physical type *)
Definition spec_plain_dispatch (t count width rawlen : N) (utf stat : bool) : pdec :=
  match t with
  | 0 => PBool count
  | 6 => if stat then PWhole utf else PUnpack count utf
  | 1 | 2 | 3 | 4 | 5 | 7 => PFixed (if stat && (t =? 7) then rawlen else plain_width t width) count
  | _ => PNone
  end.

(* ---- index decoders ------------------------------------------------------------------------ *)
(* the own-page fast path: skip the run header, view the bytes behind it as integers of w/8 bytes, keep n *)
Definition fast_read (w : N) (page : bytes) (n : N) : option (list N) :=
  match c_varint page with
  | Ok (_, k) =>
    let body := dropN k page in
    let isz := w / 8 in
    if isz =? 0 then None else
    match fixed_dec (N.to_nat isz) (N.to_nat (N.min n (lenN body / isz))) body with
    | Some (vs, _) => Some vs
    | None => None
    end
  | _ => None
  end.

(* the view is SIGNED ('int%i' % bit_width): what a stored index of k bytes comes back as *)
Definition signed_view (k : nat) (v : N) : Z :=
  if v <? 2 ^ (8 * N.of_nat k - 1) then Z.of_N v else (Z.of_N v - 2 ^ (8 * Z.of_nat k))%Z.

Definition run_idec (d : idec) (w : N) (page : bytes) (n : N) : option (list N) :=
  match d with
  | DFast => fast_read w page n
  | DGeneric a isz =>
    match c_read_hybrid page w (lenN page) (n * a) isz with
    | Ok r => Some (d_vals r)
    | _ => None
    end
  | DZeros => Some (repeat 0 (N.to_nat n))
  | DNone => None
  end.

(* the choice is ADEQUATE for (w, selfmade, one_run): the decoder's domain covers the pages that arrive there.
   A page fastparquet's own writer produced (encode_dict: one bit-packed run of whole bytes, last group NOT padded,
   32-bit codes possible) must take the array view - the generic decoder is proved for bit-packed widths <= 24 only
   and walks through whole groups of 8; any other run structure must NOT take the view. *)
Definition own_width (w : N) : bool := (w =? 8) || (w =? 16) || (w =? 32).

(* `one_run`: the index block at the cursor is ONE bit-packed run holding at least the page's values (core._is_one_bitpacked_run:
   the layout the created_by-keyed shortcut assumes; created_by is only a string, a file naming fastparquet may hold any runs) *)
Definition takes_view (w : N) (selfmade one_run : bool) : bool := selfmade && own_width w && one_run.

Definition adequate (w : N) (selfmade one_run : bool) (d : idec) : bool :=
  match d with
  | DFast => takes_view w selfmade one_run
  | DGeneric a isz => (a =? isz) && ((isz =? 1) || (isz =? 4)) && (0 <? w) && (w <=? 8 * isz)
                      && negb (takes_view w selfmade one_run)
  | DZeros => w =? 0
  | DNone => false
  end.

Definition widths_0_32 : list N := map N.of_nat (seq 0 33).

Definition all_flags (P : bool -> bool -> bool) : bool := P false false && P false true && P true false && P true true.

Definition dispatch_adequate (f : N -> bool -> bool -> idec) : bool :=
  forallb (fun w => all_flags (fun sm one => adequate w sm one (f w sm one))) widths_0_32.
