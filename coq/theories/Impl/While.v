(* `while` loops of translated Python code: explicit fuel, None when it runs out (excluded by the
   theorems that use it).  No fastparquet content. *)
From Coq Require Import NArith.

Fixpoint while_fuel {S : Type} (fuel : nat) (cond : S -> bool) (body : S -> S) (s : S) : option S :=
  match fuel with
  | O => if cond s then None else Some s
  | S f => if cond s then while_fuel f cond body (body s) else Some s
  end.
