(* Impl/PartMeta.v — from the pandas-metadata block of a partition column (PyPaths.pmeta: pandas_type, numpy_type, the block of the
   labels of a categorical) to the `kind` the model of util.val_from_meta (Impl/Partition.v: parse_with_meta) dispatches on, and the
   model of numpy's scalar constructor np.dtype(numpy_type).type(text).  (Property C08; the Gallina counterpart of the harness glue
   harness/partlib.kind_of_meta, compared with it on every run.)                                                              *)
From Coq Require Import NArith ZArith Bool Ascii String Arith List.
From Pq Require Import Base.Bytes Impl.Partition Impl.PyPaths.
Import ListNotations.

Definition numpy_kinds : list (str * kind) :=
  [(s_ "bool", KBool);
   (s_ "int8", KInt true 8); (s_ "int16", KInt true 16); (s_ "int32", KInt true 32); (s_ "int64", KInt true 64);
   (s_ "uint8", KInt false 8); (s_ "uint16", KInt false 16); (s_ "uint32", KInt false 32); (s_ "uint64", KInt false 64);
   (s_ "float16", KFloat false); (s_ "float32", KFloat true); (s_ "float64", KFloat false);
   (s_ "datetime64[ns]", KTime true); (s_ "datetime64[us]", KTime false); (s_ "datetime64[ms]", KTime false); (s_ "datetime64[s]", KTime false)].

(* every other numpy type name (object, str, ...) holds text *)
Definition kind_of_numpy (t : str) : kind := match alist_get t numpy_kinds with Some k => k | None => KStr end.

Fixpoint kind_of_pmeta (m : pmeta) : kind :=
  match m with
  | PMeta pt nt labels =>
    if str_eqb pt (s_ "categorical") then KCat (match labels with Some l => Some (kind_of_pmeta l) | None => None end)
    else if str_eqb pt (s_ "datetimetz") then KTimeTz
    else kind_of_numpy nt
  end.

(* blocks as fastparquet writes them: the labels of a categorical are not categorical themselves; only a plain datetime64[ns] column
   carries that numpy type name (a categorical's is that of its codes, a tz-aware column's is 'datetime64[ns, <zone>]') *)
Definition dt64ns : str := s_ "datetime64[ns]".
Definition pm_simple (m : pmeta) : bool :=
  match m with PMeta pt nt _ => negb (str_eqb pt (s_ "categorical")) && negb (str_eqb pt (s_ "datetimetz") && str_eqb nt dt64ns) end.
Definition pm_wf (m : pmeta) : bool :=
  match m with
  | PMeta pt nt labels =>
    if str_eqb pt (s_ "categorical") then negb (str_eqb nt dt64ns) && match labels with Some l => pm_simple l | None => true end
    else pm_simple m
  end.

Section NumpyScalar.
  Variables F T D : Type.
  Variable parse_float : bool -> str -> option F.
  Variable parse_time_np : bool -> str -> option T.
  Variable parse_time_fmt : str -> option T.
  Notation value := (value F T D).
  (* np.dtype(numpy_type).type(x): int(x) with the range check of the integer type, float(x), np.datetime64(x), the text itself *)
  Definition np_scalar_model (nt : str) (x : str) : res value :=
    match kind_of_numpy nt with
    | KTime _ => res_of_opt (option_map VTime (parse_time_np false x))
    | k => parse_base F T D parse_float parse_time_np parse_time_fmt k x
    end.
  Definition timestamp_tz_model (x : str) : res value := res_of_opt (option_map VTime (parse_time_np true x)).
  Definition to_datetime_fmt_model (x : str) : res value := res_of_opt (option_map VTime (parse_time_fmt x)).
End NumpyScalar.
