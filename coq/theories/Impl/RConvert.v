(* The logical level of a flat column: what a stored physical value MEANS (specification, from
   LogicalTypes.md / the ConvertedType comments of parquet.thrift) and what the reader makes of it
   (implementation model of converted_types.convert followed by the assignment into the column's dtype,
   converted_types.typemap).

   SPEC   logical_of t conv lunit scale v : option lval
     - INT_8/16/32 (INT32), INT_64 (INT64): the two's-complement value; the annotation promises it fits the width
     - UINT_8/16/32 (INT32), UINT_64 (INT64): the bit pattern read unsigned; promised to fit
     - DATE (INT32): days since 1970-01-01, signed
     - TIME_MILLIS (INT32), TIME_MICROS (INT64): time of day in the unit
     - TIMESTAMP_MILLIS / TIMESTAMP_MICROS (INT64) and logicalType TIMESTAMP(unit): signed count since the epoch
     - DECIMAL: unscaled * 10^-scale, unscaled = two's complement of INT32 / INT64, BIG-endian two's complement
       of FIXED_LEN_BYTE_ARRAY / BYTE_ARRAY
     - UTF8: the bytes are the string; no annotation: the physical value itself
   IMPL   convert_model = the branch of convert() the (type, converted type) pair takes, on ONE value, with numpy's
     fixed-width arithmetic made explicit (wrap = reduction mod 2^bits):
       DATE:  data * DAYS_TO_NANOS (int64, wraps) viewed as datetime64[ns]
       TIME_MILLIS: astype(int64), time_shift (times 1000000) viewed as timedelta64[ns]; the column is timedelta64[ms]
                    (typemap), the assignment casts back (column_of)
       TIMESTAMP_*, TIME_MICROS, logical TIMESTAMP: a view of the int64
       UINT_x / INT_x: astype (sign extension of the physical integer, then truncation to the width)
       DECIMAL: integer * 10**-scale in float64 - the INTEGER is modelled (from_bytes(..., 'big', signed=True)),
                the float arithmetic is not (CDecimal keeps unscaled and scale)
       INT96: (day - 2440588) * DAYS_TO_NANOS + ns, viewed as datetime64[ns]
     denote reads the numpy scalar back as a logical value; the in-band NaT (int64 pattern 2^63) is a MISSING cell.
   pandas_of: how pandas presents the logical value (a DATE as the datetime64[ns] of its midnight).            *)
From Coq Require Import String.
From Coq Require Import NArith ZArith List Bool.
From Pq Require Import Base.Bytes Base.ListX Format.Phys Format.Page.
Import ListNotations.
Local Open Scope string_scope.
Local Open Scope Z_scope.

Inductive tunit := TMs | TUs | TNs.

(* two's complement of a `bits`-wide pattern; reduction of an integer to a `bits`-wide pattern *)
Definition sint (bits : Z) (n : N) : Z := if Z.of_N n <? 2 ^ (bits - 1) then Z.of_N n else Z.of_N n - 2 ^ bits.
Definition wrap (bits : Z) (z : Z) : N := Z.to_N (z mod 2 ^ bits).

Definition be2n (b : bytes) : N := le2n (rev b).
Definition be_signed (b : bytes) : Z := match b with [] => 0 | _ => sint (8 * Z.of_nat (length b)) (be2n b) end.

Definition DAY_NS : Z := 86400000000000.
Definition NAT64 : N := 9223372036854775808%N.    (* np.datetime64('NaT').view('int64') as a pattern *)

(* ---- specification ------------------------------------------------------------------------------------------- *)
Inductive lval :=
| LInt (z : Z)
| LDate (days : Z)
| LTime (u : tunit) (t : Z)
| LTimestamp (u : tunit) (t : Z)
| LDecimal (unscaled scale : Z)
| LString (b : bytes)
| LPhys (v : value).

Definition fits_signed (w z : Z) : bool := (- 2 ^ (w - 1) <=? z) && (z <? 2 ^ (w - 1)).

Definition logical_of (t : ptype) (conv : option Z) (lunit : option tunit) (scale : Z) (v : value) : option lval :=
  match lunit, t, v with
  | Some u, INT64, VNum n => Some (LTimestamp u (sint 64 n))
  | Some _, _, _ => None
  | None, _, _ =>
    match conv, t, v with
    | None, _, _ => Some (LPhys v)
    | Some 0, BYTE_ARRAY, VBin b => Some (LString b)
    | Some 5, INT32, VNum n => Some (LDecimal (sint 32 n) scale)
    | Some 5, INT64, VNum n => Some (LDecimal (sint 64 n) scale)
    | Some 5, FLBA, VBin b => Some (LDecimal (be_signed b) scale)
    | Some 5, BYTE_ARRAY, VBin b => Some (LDecimal (be_signed b) scale)
    | Some 6, INT32, VNum n => Some (LDate (sint 32 n))
    | Some 7, INT32, VNum n => Some (LTime TMs (sint 32 n))
    | Some 8, INT64, VNum n => Some (LTime TUs (sint 64 n))
    | Some 9, INT64, VNum n => Some (LTimestamp TMs (sint 64 n))
    | Some 10, INT64, VNum n => Some (LTimestamp TUs (sint 64 n))
    | Some 11, INT32, VNum n => if Z.of_N n <? 2 ^ 8 then Some (LInt (Z.of_N n)) else None
    | Some 12, INT32, VNum n => if Z.of_N n <? 2 ^ 16 then Some (LInt (Z.of_N n)) else None
    | Some 13, INT32, VNum n => Some (LInt (Z.of_N n))
    | Some 14, INT64, VNum n => Some (LInt (Z.of_N n))
    | Some 15, INT32, VNum n => if fits_signed 8 (sint 32 n) then Some (LInt (sint 32 n)) else None
    | Some 16, INT32, VNum n => if fits_signed 16 (sint 32 n) then Some (LInt (sint 32 n)) else None
    | Some 17, INT32, VNum n => Some (LInt (sint 32 n))
    | Some 18, INT64, VNum n => Some (LInt (sint 64 n))
    | _, _, _ => None
    end
  end.

(* how pandas shows it: a DATE column is datetime64[ns] (the midnight that starts the day) *)
Definition pandas_of (l : lval) : lval :=
  match l with
  | LDate d => LTimestamp TNs (d * DAY_NS)
  | _ => l
  end.

(* ---- implementation model ------------------------------------------------------------------------------------ *)
Inductive cval :=
| CInt (signed : bool) (w : Z) (p : N)       (* numpy int<w> / uint<w> scalar with bit pattern p *)
| CDatetime (u : tunit) (p : N)              (* datetime64[u], int64 pattern *)
| CTimedelta (u : tunit) (p : N)             (* timedelta64[u], int64 pattern *)
| CDecimal (unscaled scale : Z)              (* float64(unscaled * 10**-scale) *)
| CStr (b : bytes)
| CRaw (v : value).

Definition phys_width (t : ptype) : option Z := match t with INT32 => Some 32 | INT64 => Some 64 | _ => None end.

(* data.astype(<int/uint of w bits>) of a signed physical integer *)
Definition astype (signed : bool) (w : Z) (t : ptype) (v : value) : rs cval :=
  match phys_width t, v with
  | Some pw, VNum n => ROk (CInt signed w (wrap w (sint pw n)))
  | _, _ => RUns "astype on a non-integer column (not modelled)"
  end.

Definition view64 (t : ptype) (v : value) (k : N -> cval) : rs cval :=
  match t, v with
  | INT64, VNum n => ROk (k n)
  | _, _ => RBad "ValueError: view of another item size"
  end.

Definition convert_model (t : ptype) (conv : option Z) (lunit : option tunit) (scale : Z) (v : value) : rs cval :=
  match t, v with
  | INT96, VNum n =>                                   (* timestamp96: low 8 bytes ns, high 4 bytes julian day *)
    let ns := sint 64 (N.modulo n (2 ^ 64)) in
    let day := sint 32 (N.div n (2 ^ 64)) in
    ROk (CDatetime TNs (wrap 64 ((day - 2440588) * DAY_NS + ns)))
  | _, _ =>
  match lunit with
  | Some u => view64 t v (CDatetime u)
  | None =>
    match conv with
    | None => ROk (CRaw v)
    | Some 0 => match v with VBin b => ROk (CStr b) | _ => RBad "AttributeError: str.decode on a number" end
    | Some 5 =>
      match t, v with
      | INT32, VNum n => ROk (CDecimal (sint 32 n) scale)
      | INT64, VNum n => ROk (CDecimal (sint 64 n) scale)
      | (FLBA | BYTE_ARRAY), VBin b => ROk (CDecimal (be_signed b) scale)
      | _, _ => RUns "DECIMAL on this physical type (not modelled)"
      end
    | Some 6 => match t, v with
                | INT32, VNum n => ROk (CDatetime TNs (wrap 64 (sint 32 n * DAY_NS)))
                | _, _ => RUns "DATE on a non-INT32 column (not modelled)"
                end
    | Some 7 => match t, v with
                | INT32, VNum n => ROk (CTimedelta TNs (wrap 64 (sint 32 n * 1000000)))
                | _, _ => RUns "TIME_MILLIS on a non-INT32 column (not modelled)"
                end
    | Some 8 => view64 t v (CTimedelta TUs)
    | Some 9 => view64 t v (CDatetime TMs)
    | Some 10 => view64 t v (CDatetime TUs)
    | Some 11 => astype false 8 t v
    | Some 12 => astype false 16 t v
    | Some 13 => astype false 32 t v
    | Some 14 => astype false 64 t v
    | Some 15 => astype true 8 t v
    | Some 16 => astype true 16 t v
    | Some 17 => astype true 32 t v
    | Some 18 => astype true 64 t v
    | Some 19 | Some 20 | Some 21 => RUns "JSON / BSON / INTERVAL (not modelled)"
    | Some _ => ROk (CRaw v)                               (* logger.info("Converted type ... not handled") *)
    end
  end
  end.

(* piece[:] = convert(...) into the column typemap() allocated: TIME_MILLIS columns are timedelta64[ms] *)
Definition column_of (conv : option Z) (c : cval) : cval :=
  match conv, c with
  | Some 7, CTimedelta TNs p => if N.eqb p NAT64 then CTimedelta TMs p else CTimedelta TMs (wrap 64 (sint 64 p / 1000000))
  | _, _ => c
  end.

Definition denote (c : cval) : option lval :=
  match c with
  | CInt true w p => Some (LInt (sint w p))
  | CInt false w p => Some (LInt (Z.of_N p))
  | CDatetime u p => if N.eqb p NAT64 then None else Some (LTimestamp u (sint 64 p))
  | CTimedelta u p => if N.eqb p NAT64 then None else Some (LTime u (sint 64 p))
  | CDecimal a s => Some (LDecimal a s)
  | CStr b => Some (LString b)
  | CRaw v => Some (LPhys v)
  end.

(* the (physical type, converted type) pairs the theorem ranges over *)
Definition conv_table : list (ptype * option Z) :=
  [(BYTE_ARRAY, Some 0);
   (INT32, Some 5); (INT64, Some 5); (FLBA, Some 5); (BYTE_ARRAY, Some 5);
   (INT32, Some 6); (INT32, Some 7); (INT64, Some 8); (INT64, Some 9); (INT64, Some 10);
   (INT32, Some 11); (INT32, Some 12); (INT32, Some 13); (INT64, Some 14);
   (INT32, Some 15); (INT32, Some 16); (INT32, Some 17); (INT64, Some 18);
   (BOOLEAN, None); (INT32, None); (INT64, None); (FLOAT, None); (DOUBLE, None); (BYTE_ARRAY, None); (FLBA, None)].

(* where the reader's representation cannot hold the value (each is a visible guard of the theorem):
   - DATE outside the datetime64[ns] range (finding C03-date-beyond-ns-range)
   - the int64 pattern 2^63 in a time column is numpy's NaT: read as a missing cell                     *)
Definition representable (t : ptype) (conv : option Z) (lunit : option tunit) (v : value) : bool :=
  match v with
  | VNum n =>
    match lunit, conv with
    | Some _, _ => negb (N.eqb n NAT64)
    | None, Some 6 => (- 106751 <=? sint 32 n) && (sint 32 n <=? 106751)
    | None, (Some 8 | Some 9 | Some 10) => negb (N.eqb n NAT64)
    | _, _ => true
    end
  | VBin _ => true
  end.
