(* typed_ok: the IDL-typedness of a PYTHON object as write_thrift will see it (Proofs/CThriftTypedProofs.v shows it
   implies IDL conformance of the emitted bytes).  Shape of every value against the declared type; for every
   integer field: the wire type the enclosing dict's "i32"/"i32list" markers select (Impl/CThrift.v int_nib)
   equals the declared one; required fields present under an id write_thrift writes; unions one arm. *)
From Coq Require Import NArith ZArith List Bool String.
From Pq Require Import Base.Bytes Thrift.Varint Thrift.Compact Thrift.Idl Impl.CThrift.
Import ListNotations.
Open Scope N_scope.

Definition lenient : opts := mkO false true false.

Definition present (fs : list (Z * pv)) (i : Z) : bool :=
  match lookup i fs with None => false | Some PNone => false | Some _ => true end.

Definition int_elem_ok (x : pv) : bool := match x with PInt z => in_cint z | PBool _ => true | _ => false end.
Definition is_pbytes (x : pv) : bool := match x with PBytes _ => true | _ => false end.
Definition is_pstr (x : pv) : bool := match x with PStr _ => true | _ => false end.
Definition is_i32ty (e : fty) : bool := match e with FI32 | FEnum _ => true | _ => false end.
Definition is_binty (e : fty) : bool := match e with FBinary | FString => true | _ => false end.

Fixpoint typed_ok (T : idl) (ids : list Z) (d : nat) (t : fty) (sel : N) (v : pv) {struct d} : bool :=
  match d with
  | O => false
  | S d' =>
    match v with
    | PNone => false
    | PBool _ => match t with FBool => true | _ => false end
    | PInt z => in_i64 z && match t with FI32 | FEnum _ => sel =? 5 | FI64 => sel =? 6 | _ => false end
    | PFloat _ => false
    | PBytes _ => is_binty t
    | PStr _ => is_binty t
    | PList l =>
        match t with
        | FList e =>
          match l with
          | [] => true
          | PBool _ :: _ | PInt _ :: _ => is_i32ty e && forallb int_elem_ok l
          | PBytes _ :: _ => is_binty e && forallb is_pbytes l
          | PStr _ :: _ => is_binty e && forallb is_pstr l
          | PDict _ _ _ :: _ =>
              match e with
              | FStruct _ => forallb (fun x => match x with PDict _ _ _ => typed_ok T ids d' e 0 x | _ => false end) l
              | _ => false
              end
          | _ => false
          end
        | _ => false
        end
    | PDict i32 i32l fs =>
        match t with
        | FStruct n =>
          match find_struct (structs T) n with
          | None => false
          | Some sd =>
            forallb (fun i => match lookup i fs with
                              | None => true
                              | Some PNone => true
                              | Some x => match find_field (s_fields sd) (Z.to_N i) with
                                          | Some f => typed_ok T ids d' (f_ty f) (int_nib i32 i32l i) x
                                          | None => false
                                          end
                              end) ids
            && forallb (fun f => negb (f_req f =? 1) || (existsb (Z.eqb (Z.of_N (f_id f))) ids && present fs (Z.of_N (f_id f)))) (s_fields sd)
            && (negb (s_union sd) || (List.length (filter (present fs) ids) =? 1)%nat)
          end
        | _ => false
        end
    end
  end.

