(* Impl/CAssemble.v -- IMPL model of fastparquet's record assembly for LIST / MAP leaf columns:

     cencoding.pyx  _assemble_objects (lines 431-494)       -> step / run_steps / assemble_page
     core.py        read_col, v1 data pages (row_idx carried: row_idx[0] = 1 + returned i)  -> read_col_v1
     core.py        read_data_page_v2 (slice assign[idx:idx+num_rows], prev_i = 0, idx += num_rows) -> read_col_v2
     core.py        read_row_group_arrays (dict(zip(k, v)) if k is not None else None)       -> zip_maps
     schema.py      max_repetition_level / max_definition_level / is_required                -> sch_max_rep / sch_max_def / sch_is_required

   Statement-by-statement mirror of the Cython loop.  The object array `assign` is a list of
   rows (None = Python None -- what np.empty(n, 'O') holds initially --, Some l = a Python list).
   Cython directives of the file: boundscheck=False, wraparound=False, so an index outside the
   array is undefined behaviour; the model reports it as an error value (OobWrite / OobRead)
   instead of a result.  `val[vali]` is a Python-level index (IndexError -> ValIndex),
   `assign[i-1].extend` on None is an AttributeError (-> ExtendNone).
   Representation choices (not behaviour): `part` is kept reversed (cons instead of append) and
   written with `rev`; `val[vali]` is the head of the not-yet-consumed values, `vali` is still
   counted because the code tests `vali > 0`; the dictionary dereference `val = dic[val]` happens
   before the loop and is done by the caller of the model (the values are the dereferenced ones);
   `defi is None` (page without nulls) = every definition level equals max_defi. *)
From Coq Require Import NArith List Bool.
From Pq Require Import Format.Nested.
Import ListNotations.
Open Scope N_scope.

Inductive aerr := OobWrite (i : nat) | OobRead | ExtendNone (i : nat) | ValIndex | BadSlice.
Inductive ares (A : Type) := AOk (a : A) | AErr (e : aerr).
Arguments AOk {A}. Arguments AErr {A}.

Fixpoint set_nth {A} (l : list A) (n : nat) (x : A) : option (list A) :=
  match l, n with
  | [], _ => None
  | _ :: t, O => Some (x :: t)
  | h :: t, S n' => option_map (cons h) (set_nth t n' x)
  end.

Section Assemble.
Variable V : Type.

Definition arr := list (row V).

Record st := mkSt {
  s_i : nat;                 (* cdef int32_t i                                  *)
  s_part : list (elem V);    (* part (reversed)                                 *)
  s_started : bool;          (* cdef char started                               *)
  s_have_null : bool;        (* cdef char have_null                             *)
  s_vali : N;                (* cdef int32_t vali                               *)
  s_vals : list V;           (* val[vali:]                                      *)
  s_arr : arr                (* assign                                          *)
}.

(* assign[i] = None if have_null else part *)
Definition cell (have_null : bool) (part : list (elem V)) : row V :=
  if have_null then None else Some (rev part).

Definition write_row (a : arr) (i : nat) (c : row V) : ares arr :=
  match set_nth a i c with Some a' => AOk a' | None => AErr (OobWrite i) end.

(* assign[i - 1].extend(part) *)
Definition extend_prev (a : arr) (i : nat) (part : list (elem V)) : ares arr :=
  match i with
  | O => AErr OobRead
  | S j =>
    match nth_error a j with
    | None => AErr OobRead
    | Some None => AErr (ExtendNone j)
    | Some (Some l) => write_row a j (Some (l ++ rev part))
    end
  end.

(* one iteration of `for counter in range(rep.shape[0])`, in its two halves *)

(* if not re: ... -- a new row begins: save what we have *)
Definition new_row (s : st) : ares st :=
  if s_started s then                                      (*   if started:                    *)
    match write_row (s_arr s) (s_i s) (cell (s_have_null s) (s_part s)) with
    | AOk a => AOk (mkSt (S (s_i s)) [] true (s_have_null s) (s_vali s) (s_vals s) a)
    | AErr x => AErr x
    end
  else if 0 <? s_vali s then                               (*   else: if vali > 0:             *)
    match extend_prev (s_arr s) (s_i s) (s_part s) with
    | AOk a => AOk (mkSt (s_i s) [] true (s_have_null s) (s_vali s) (s_vals s) a)
    | AErr x => AErr x
    end
  else AOk (mkSt (s_i s) (s_part s) true (s_have_null s) (s_vali s) (s_vals s) (s_arr s)).

(* if de == max_defi: ... elif de > null: ... ; have_null = de == 0 and null *)
Definition add_level (null : bool) (max_defi : N) (s1 : st) (de : N) : ares st :=
  if de =? max_defi then                                   (* if de == max_defi:               *)
    match s_vals s1 with
    | v :: vs => AOk (mkSt (s_i s1) (Some v :: s_part s1) (s_started s1) ((de =? 0) && null)
                           (s_vali s1 + 1) vs (s_arr s1))
    | [] => AErr ValIndex
    end
  else if (if null then 1 else 0) <? de then               (* elif de > null:                  *)
    AOk (mkSt (s_i s1) (None :: s_part s1) (s_started s1) ((de =? 0) && null)
              (s_vali s1) (s_vals s1) (s_arr s1))
  else AOk (mkSt (s_i s1) (s_part s1) (s_started s1) ((de =? 0) && null)   (* have_null = ...  *)
                 (s_vali s1) (s_vals s1) (s_arr s1)).

Definition step (null : bool) (max_defi : N) (s : st) (e : entry) : ares st :=
  let '(re, de) := e in
  match (if re =? 0 then new_row s else AOk s) with        (* if not re:                       *)
  | AErr x => AErr x
  | AOk s1 => add_level null max_defi s1 de
  end.

Fixpoint run_steps (null : bool) (max_defi : N) (s : st) (es : list entry) : ares st :=
  match es with
  | [] => AOk s
  | e :: t =>
    match step null max_defi s e with
    | AOk s' => run_steps null max_defi s' t
    | AErr x => AErr x
    end
  end.

Definition page := (list entry * list V)%type.     (* (rep, defi) pairs and the page's values *)

(* _assemble_objects(assign, defi, rep, val, dic, d, null, null_val, max_defi, prev_i) -> (assign, i) *)
Definition assemble_page (null : bool) (max_defi : N) (a : arr) (prev_i : nat) (p : page)
  : ares (arr * nat) :=
  match run_steps null max_defi (mkSt prev_i [] false false 0 (snd p) a) (fst p) with
  | AErr x => AErr x
  | AOk s =>
    if s_started s then                                    (* if started:                      *)
      match write_row (s_arr s) (s_i s) (cell (s_have_null s) (s_part s)) with
      | AOk a' => AOk (a', s_i s)
      | AErr x => AErr x
      end
    else                                                   (* else: assign[i - 1].extend(part) *)
      match extend_prev (s_arr s) (s_i s) (s_part s) with
      | AOk a' => AOk (a', s_i s)
      | AErr x => AErr x
      end
  end.

(* core.read_col, v1 pages of one column chunk: row_idx = [0]; per page
   row_idx[0] = 1 + _assemble_objects(assign, ..., row_idx[0]) *)
Fixpoint read_col_v1 (null : bool) (max_defi : N) (a : arr) (row_idx : nat) (pages : list page)
  : ares arr :=
  match pages with
  | [] => AOk a
  | p :: t =>
    match assemble_page null max_defi a row_idx p with
    | AOk (a', i) => read_col_v1 null max_defi a' (S i) t
    | AErr x => AErr x
    end
  end.

(* core.read_col AFTER the fix "read_col: append the leading continuation of a page in Python":
   the entries of a page before its first rep == 0 continue row row_idx-1; read_col computes their
   items itself (lead_items), extends assign[row_idx-1], and calls _assemble_objects only on the
   rest of the page (which starts at a row boundary), or not at all when nothing is left.
   read_col_v1 above is the loop as it was before that fix (kept: the exact extent of the two
   .pyx defects is stated about it). *)
Fixpoint lead_split (es : list entry) : list entry * list entry :=
  match es with
  | [] => ([], [])
  | (r, d) :: t => if r =? 0 then ([], es) else let (l, rest) := lead_split t in ((r, d) :: l, rest)
  end.

(* items = []; for de in ld: if de == max_defi: items.append(next(vals)) elif de > null: items.append(None) *)
Fixpoint lead_items (null : bool) (max_defi : N) (lead : list entry) (vals : list V)
  : option (list (elem V) * list V) :=
  match lead with
  | [] => Some ([], vals)
  | (_, d) :: t =>
    if d =? max_defi then
      match vals with
      | v :: vs => option_map (fun x => (Some v :: fst x, snd x)) (lead_items null max_defi t vs)
      | [] => None                                            (* next(vals): StopIteration *)
      end
    else if (if null then 1 else 0) <? d then
      option_map (fun x => (None :: fst x, snd x)) (lead_items null max_defi t vals)
    else lead_items null max_defi t vals
  end.

Fixpoint read_col_v1_py (null : bool) (max_defi : N) (a : arr) (row_idx : nat) (pages : list page)
  : ares arr :=
  match pages with
  | [] => AOk a
  | p :: t =>
    let (lead, rest) := lead_split (fst p) in
    let r1 :=
      match lead with
      | [] => AOk (a, snd p)
      | _ :: _ =>
        match row_idx with
        | O => AErr BadSlice                                  (* raise ValueError: starts inside a row *)
        | S _ =>
          match lead_items null max_defi lead (snd p) with
          | None => AErr ValIndex
          | Some (items, vals') =>
            match extend_prev a row_idx (rev items) with      (* assign[row_idx[0] - 1].extend(items) *)
            | AOk a' => AOk (a', vals')
            | AErr x => AErr x
            end
          end
        end
      end in
    match r1 with
    | AErr x => AErr x
    | AOk (a1, vals1) =>
      match rest with
      | [] => read_col_v1_py null max_defi a1 row_idx t       (* if len(lrep): ... *)
      | _ :: _ =>
        match assemble_page null max_defi a1 row_idx (rest, vals1) with
        | AOk (a2, i) => read_col_v1_py null max_defi a2 (S i) t
        | AErr x => AErr x
        end
      end
    end
  end.

(* core.read_data_page_v2: _assemble_objects(assign[idx:idx+num_rows], ..., null=<null>, prev_i=0);
   idx += num_rows.  The pinned tree passes null=True whatever the schema says. *)
Fixpoint read_col_v2 (null : bool) (max_defi : N) (a : arr) (idx : nat) (pages : list (page * nat))
  : ares arr :=
  match pages with
  | [] => AOk a
  | (p, num_rows) :: t =>
    match fst p with
    | [] => read_col_v2 null max_defi a (idx + num_rows) t       (* _v2_page_starts_row: an empty page is skipped *)
    | (r, _) :: _ =>
      if r =? 0 then
        let sl := firstn num_rows (skipn idx a) in
        match assemble_page null max_defi sl 0 p with
        | AOk (sl', _) =>
          read_col_v2 null max_defi (firstn idx a ++ sl' ++ skipn (idx + num_rows) a) (idx + num_rows) t
        | AErr x => AErr x
        end
      else AErr BadSlice                                          (* ValueError: does not start at a row boundary *)
    end
  end.

Definition empty_arr (n : nat) : arr := repeat None n.

End Assemble.

Arguments mkSt {V}. Arguments s_i {V}. Arguments s_part {V}. Arguments s_started {V}.
Arguments s_have_null {V}. Arguments s_vali {V}. Arguments s_vals {V}. Arguments s_arr {V}.
Arguments cell {V}. Arguments write_row {V}. Arguments extend_prev {V}. Arguments step {V}.
Arguments new_row {V}. Arguments add_level {V}.
Arguments run_steps {V}. Arguments assemble_page {V}. Arguments read_col_v1 {V}.
Arguments read_col_v2 {V}. Arguments empty_arr {V}.
Arguments lead_items {V}. Arguments read_col_v1_py {V}.

(* ---- how read_col derives the call's parameters from the schema (schema.py) ------------------
   A leaf's path is the list of repetition types of its ancestors (root excluded) and itself. *)
Inductive reptype := REQUIRED | OPTIONAL | REPEATED.

Definition sch_max_rep (path : list reptype) : N :=          (* max_repetition_level *)
  fold_left (fun m t => match t with REPEATED => m + 1 | _ => m end) path 0.
Definition sch_max_def (path : list reptype) : N :=          (* max_definition_level: != REQUIRED *)
  fold_left (fun m t => match t with REQUIRED => m | _ => m + 1 end) path 0.
Definition sch_is_required (path : list reptype) : bool :=   (* is_required: every part REQUIRED *)
  forallb (fun t => match t with REQUIRED => true | _ => false end) path.

(* core._nested_levels (added by a fix: commit): a LIST / MAP group below other groups has one more
   definition level per non-required ancestor; for the flattened column they are folded into level 0:
     n_opt = #(non-REQUIRED elements of path[:-2]);  null = n_opt > 0;  shift = max(n_opt - 1, 0);
     defi = max(defi, shift) - shift;  max_defi = max_defi - shift            (N subtraction truncates) *)
Definition sch_n_opt (path : list reptype) : N :=
  fold_left (fun m t => match t with REQUIRED => m | _ => m + 1 end) (firstn (length path - 2) path) 0.
Definition nested_levels (path : list reptype) (defi : list N) (max_defi : N) : bool * list N * N :=
  let shift := sch_n_opt path - 1 in
  (0 <? sch_n_opt path, map (fun d => N.max d shift - shift) defi, max_defi - shift).

(* the path of the leaf of a LIST / MAP-key / MAP-value column of a given shape *)
Definition shape_path (sh : shape) : list reptype :=
  [if row_opt sh then OPTIONAL else REQUIRED; REPEATED; if elem_opt sh then OPTIONAL else REQUIRED].

(* read_col: null = not is_required(path[0]); max_defi = max_definition_level(path) *)
Definition call_null (path : list reptype) : bool := negb (sch_is_required (firstn 1 path)).

(* the whole v1 read of one column chunk into a fresh object array of n rows *)
Definition run_v1 {V} (sh : shape) (n : nat) (pages : list (page V)) : ares (arr V) :=
  read_col_v1 (call_null (shape_path sh)) (sch_max_def (shape_path sh)) (empty_arr n) 0 pages.

(* the v1 read of one column chunk as read_col does it now *)
Definition run_v1_py {V} (sh : shape) (n : nat) (pages : list (page V)) : ares (arr V) :=
  read_col_v1_py (call_null (shape_path sh)) (sch_max_def (shape_path sh)) (empty_arr n) 0 pages.

(* v2: `pinned` = the pinned tree's null=True; otherwise the schema's value *)
Definition run_v2 {V} (pinned : bool) (sh : shape) (n : nat) (pages : list (page V * nat)) : ares (arr V) :=
  read_col_v2 (if pinned then true else call_null (shape_path sh)) (sch_max_def (shape_path sh))
              (empty_arr n) 0 pages.

(* core.read_data_page_v2: which branch of the if/elif chain handles a page of a REPEATED leaf
   (max_rep > 0, object output, so into0 = into = False; use_cat is False for LIST/MAP columns).
   `pinned` = the chain of the pinned tree: every PLAIN page fell into the flat branch
   ("PLAIN, but with nulls or not in-place conversion": assign[num:num+num_values][~nulls] = ...),
   which indexes rows by level entries; the repaired chain tests max_rep first. *)
Inductive venc := EPlain | EDict | ERle | EDelta | EOther.
Inductive v2branch := BAssemble | BFlat | BUnsupported.
Definition v2_branch (pinned : bool) (max_rep : N) (enc : venc) : v2branch :=
  match enc with
  | EOther => BUnsupported                              (* raise NotImplementedError *)
  | EPlain => if pinned then BFlat else if 0 <? max_rep then BAssemble else BFlat
  | ERle => BFlat                                       (* RLE booleans decoded straight into the output *)
  | EDict => if 0 <? max_rep then BAssemble else BFlat  (* "DICTIONARY to be de-referenced": if max_rep: _assemble_objects *)
  | EDelta => BFlat
  end.

(* core.read_row_group_arrays: out[name][:] = [dict(zip(k, v)) if k is not None else None ...]
   (zip stops at the shorter list; a None value list with a non-None key list is a TypeError) *)
Section Zip.
Variables K V : Type.
Definition zip_maps (keys : arr K) (vals : arr V) : option (list (option (list (elem K * elem V)))) :=
  let f := fun (kv : row K * row V) =>
    match kv with
    | (None, _) => Some None
    | (Some ks, Some vs) => Some (Some (combine ks vs))
    | (Some _, None) => None
    end in
  (fix go (l : list (row K * row V)) :=
     match l with
     | [] => Some []
     | x :: t => match f x, go t with Some r, Some rs => Some (r :: rs) | _, _ => None end
     end) (combine keys vals).
End Zip.
Arguments zip_maps {K V}.
