(* Impl model of directory partitioning (property C08).

   Mirrors, in fastparquet:
     util.path_string, util.join_path, util.val_from_meta, util._val_to_num (val_to_num),
     writer.partition_on_columns (group-by, path construction),
     api._strip_path_tail, api._path_to_cats, api.paths_to_cats,
     core.read_row_group (partition column materialisation: cats[cat].index(val)).

   Strings are lists of characters (UTF-8 bytes as [ascii]); '/' and '=' never occur inside a
   multi-byte sequence, so splitting bytes = splitting code points.

   External conversions (Python float()/repr, numpy/pandas timestamp text) are Section variables;
   the integer, boolean and text conversions are modelled and proved.                            *)
From Coq Require Import Decimal DecimalString DecimalZ.
From Coq Require Import NArith ZArith Bool Ascii String Arith List.
From Pq Require Import Base.Bytes.
Import ListNotations.

Definition str := list ascii.
Definition s_ (s : string) : str := list_ascii_of_string s.
Definition str_eqb : str -> str -> bool := list_eqb Ascii.eqb.
Definition mem_str (x : str) (l : list str) : bool := existsb (str_eqb x) l.

Definition c_slash : ascii := "/"%char.
Definition c_eq : ascii := "="%char.
Definition c_bslash : ascii := "\"%char.

(* ---------------------------------------------------------------- str.split(c) / c.join(l) *)
Fixpoint split_on (c : ascii) (s : str) : list str :=
  match s with
  | [] => [[]]
  | a :: r =>
    if Ascii.eqb a c then [] :: split_on c r
    else match split_on c r with
         | h :: t => (a :: h) :: t
         | [] => [[a]]
         end
  end.

Fixpoint join_with (c : ascii) (l : list str) : str :=
  match l with
  | [] => []
  | x :: r => match r with [] => x | _ => x ++ c :: join_with c r end
  end.

Definition has_char (c : ascii) (s : str) : bool := existsb (Ascii.eqb c) s.

(* ---------------------------------------------------------------- util.join_path
   "/".join([str(p).replace("\\", "/").rstrip("/") for p in path if p])                       *)
Fixpoint drop_while (f : ascii -> bool) (s : str) : str :=
  match s with a :: r => if f a then drop_while f r else s | [] => [] end.
Definition rstrip_slash (s : str) : str := rev (drop_while (Ascii.eqb c_slash) (rev s)).
Definition norm_part (p : str) : str :=
  rstrip_slash (map (fun a => if Ascii.eqb a c_bslash then c_slash else a) p).
Definition nonempty (s : str) : bool := match s with [] => false | _ => true end.
Definition join_path (l : list str) : str := join_with c_slash (map norm_part (filter nonempty l)).

(* ---------------------------------------------------------------- decimal integers
   show: str(int) / str(np.int64);  parse_int_ascii: int(x, base=10) on ASCII input: surrounding white
   space, one optional sign, digits with single underscores between digits; parse_int (below): any text. *)
Definition show_Z (z : Z) : str := list_ascii_of_string (NilEmpty.string_of_int (Z.to_int z)).
Definition show_nat (n : nat) : str := show_Z (Z.of_nat n).

(* the white space int() skips in an ASCII text: Py_ISSPACE = \t \n \v \f \r and the blank (NOT \x1c..\x1f, which only
   str.isspace() knows) *)
Definition is_ws (a : ascii) : bool :=
  let n := N_of_ascii a in ((9 <=? n) && (n <=? 13) || (n =? 32))%N.
Definition is_digit (a : ascii) : bool :=
  let n := N_of_ascii a in ((48 <=? n) && (n <=? 57))%N.
Definition strip (s : str) : str := rev (drop_while is_ws (rev (drop_while is_ws s))).

Fixpoint undersc (prev_digit : bool) (s : str) : option str :=
  match s with
  | [] => if prev_digit then Some [] else None
  | a :: r =>
    if is_digit a then option_map (cons a) (undersc true r)
    else if Ascii.eqb a "_"%char then (if prev_digit then undersc false r else None)
    else None
  end.

Definition parse_int_ascii (s : str) : option Z :=
  let t := strip s in
  let sb := match t with
            | a :: r => if Ascii.eqb a "-"%char then (true, r)
                        else if Ascii.eqb a "+"%char then (false, r) else (false, t)
            | [] => (false, [])
            end in
  match undersc false (snd sb) with
  | Some ds =>
    match NilEmpty.uint_of_string (string_of_list_ascii ds) with
    | Some u => Some (if fst sb then Z.opp (Z.of_uint u) else Z.of_uint u)
    | None => None
    end
  | None => None
  end.

(* int(text) on text with non-ASCII characters (CPython: _PyUnicode_TransformDecimalAndSpaceToASCII, then the ASCII parser):
   every character with the Unicode property Decimal (general category Nd: ARABIC-INDIC DIGIT THREE, FULLWIDTH DIGIT ONE, ...)
   counts as its ASCII digit, every Unicode white space (str.isspace, code points >= 127) as a blank, every other character
   from DEL on as '?', which no integer literal contains.  The decimal digits come in 68 runs of ten consecutive code points;
   `udigit_zeros` lists the first of each run, `uspaces` the white space (Unicode 15.0; compared with `unicodedata` of the
   running interpreter on every run of the check: obligation "digit table").  Strings are UTF-8 bytes.                  *)
Definition udigit_zeros : list N :=
  [48; 1632; 1776; 1984; 2406; 2534; 2662; 2790; 2918; 3046; 3174; 3302; 3430; 3558; 3664; 3792; 3872; 4160; 4240; 6112; 6160;
   6470; 6608; 6784; 6800; 6992; 7088; 7232; 7248; 42528; 43216; 43264; 43472; 43504; 43600; 44016; 65296; 66720; 68912; 69734;
   69872; 69942; 70096; 70384; 70736; 70864; 71248; 71360; 71472; 71904; 72016; 72784; 73040; 73120; 73552; 92768; 92864; 93008;
   120782; 120792; 120802; 120812; 120822; 123200; 123632; 124144; 125264; 130032]%N.
Definition uspaces : list N :=
  [133; 160; 5760; 8192; 8193; 8194; 8195; 8196; 8197; 8198; 8199; 8200; 8201; 8202; 8232; 8233; 8239; 8287; 12288]%N.
Definition udigit (c : N) : option N :=
  match find (fun z => (z <=? c) && (c <? z + 10))%N udigit_zeros with Some z => Some (c - z)%N | None => None end.

(* UTF-8 bytes -> code points (the input is the encoding of a Python str: well formed; a truncated sequence gives U+FFFD) *)
Fixpoint utf8_cps (s : list N) : list N :=
  match s with
  | [] => []
  | b0 :: r =>
    if (b0 <? 128)%N then b0 :: utf8_cps r
    else match r with
    | [] => [65533%N]
    | b1 :: r1 =>
      if (b0 <? 224)%N then ((b0 - 192) * 64 + (b1 - 128))%N :: utf8_cps r1
      else match r1 with
      | [] => [65533%N]
      | b2 :: r2 =>
        if (b0 <? 240)%N then ((b0 - 224) * 4096 + (b1 - 128) * 64 + (b2 - 128))%N :: utf8_cps r2
        else match r2 with
        | [] => [65533%N]
        | b3 :: r3 => ((b0 - 240) * 262144 + (b1 - 128) * 4096 + (b2 - 128) * 64 + (b3 - 128))%N :: utf8_cps r3
        end
      end
    end
  end.

Definition ascii_of_cp (c : N) : ascii :=
  if (c <? 127)%N then ascii_of_N c
  else if existsb (N.eqb c) uspaces then " "%char
  else match udigit c with Some d => ascii_of_N (48 + d) | None => "?"%char end.

Definition py_decimal_ascii (s : str) : str := map ascii_of_cp (utf8_cps (map N_of_ascii s)).

(* int(x) / int(x, base=10) / np.int64(x) of a text *)
Definition parse_int (s : str) : option Z := parse_int_ascii (py_decimal_ascii s).

Definition lower (s : str) : str :=
  map (fun a => let n := N_of_ascii a in
                if ((65 <=? n) && (n <=? 90))%N then ascii_of_N (n + 32) else a) s.

(* ---------------------------------------------------------------- generic list helpers *)
Fixpoint index_of {A} (eqb : A -> A -> bool) (x : A) (l : list A) : option nat :=
  match l with
  | [] => None
  | y :: r => if eqb x y then Some O else option_map S (index_of eqb x r)
  end.

Fixpoint all_some {A} (l : list (option A)) : option (list A) :=
  match l with
  | [] => Some []
  | Some a :: r => option_map (cons a) (all_some r)
  | None :: _ => None
  end.

Fixpoint mapi_from {A B} (f : nat -> A -> B) (i : nat) (l : list A) : list B :=
  match l with [] => [] | x :: r => f i x :: mapi_from f (S i) r end.

Fixpoint alist_get {V} (k : str) (l : list (str * V)) : option V :=
  match l with
  | [] => None
  | (k', v) :: r => if str_eqb k k' then Some v else alist_get k r
  end.

(* outcome of a Python call: returns a / raises ValueError / raises another exception
   (OverflowError of np.int8("300"), IndexError ...).  api.paths_to_cats catches only ValueError. *)
Inductive res (A : Type) := Ok (a : A) | VErr | OErr.
Arguments Ok {A}. Arguments VErr {A}. Arguments OErr {A}.
Definition res_map {A B} (f : A -> B) (r : res A) : res B :=
  match r with Ok a => Ok (f a) | VErr => VErr | OErr => OErr end.
Definition res_of_opt {A} (o : option A) : res A := match o with Some a => Ok a | None => VErr end.
Definition opt_of_res {A} (r : res A) : option A := match r with Ok a => Some a | _ => None end.

Section Partition.
  (* external value domains: floats (modulo ==), timestamps, timedeltas *)
  Variables F T D : Type.
  Variable feqb : F -> F -> bool.
  Variable teqb : T -> T -> bool.
  Variable deqb : D -> D -> bool.
  Variable f_eq_Z : F -> Z -> bool.                  (* Python: f == z  (1.0 == 1, hash-equal) *)
  Variable show_float : F -> str.                    (* str(np.float64) = repr *)
  Variable parse_float : bool -> str -> option F.    (* single precision? -> np.float32(x) : float(x) / np.float64(x) *)
  Variable show_time_iso : T -> str.                 (* pd.Timestamp.isoformat()  (hive)  *)
  Variable show_time_str : T -> str.                 (* "%s" % pd.Timestamp       (drill) *)
  Variable parse_time_np : bool -> str -> option T.  (* false: np.datetime64(x); true (tz-aware column): pd.Timestamp(x) put into the zone of the metadata *)
  Variable parse_time_fmt : str -> option T.         (* pd.to_datetime(x, format=PATH_DATE_FMT) *)
  Variable parse_time_pd : str -> option T.          (* pd.Timestamp(x) *)
  Variable parse_delta : str -> option D.            (* pd.Timedelta(x) *)

  (* a partition value as pandas hands it to the writer / as the reader rebuilds it *)
  Inductive value :=
  | VInt (z : Z) | VBool (b : bool) | VStr (s : str) | VFloat (f : F) | VTime (t : T)
  | VDelta (d : D) | VCat (label : value).

  (* what the pandas metadata records for a partition column *)
  Inductive kind :=
  | KInt (signed : bool) (bits : N) | KBool | KStr | KFloat (single : bool) | KTime (ns : bool) | KTimeTz
  | KCat (labels : option kind).   (* categorical; the kind of the labels when the writer recorded it (key 'labels' of the column's metadata) *)

  Fixpoint show (hive : bool) (v : value) : str :=
    match v with
    | VInt z => show_Z z
    | VBool b => if b then s_ "True" else s_ "False"
    | VStr s => s
    | VFloat f => show_float f
    | VTime t => if hive then show_time_iso t else show_time_str t
    | VDelta d => []
    | VCat l => show hive l
    end.

  (* Python == between values (used by set membership and list.index) *)
  Definition Z_of_bool (b : bool) : Z := if b then 1%Z else 0%Z.
  Fixpoint veqb (a b : value) : bool :=
    match a, b with
    | VInt x, VInt y => Z.eqb x y
    | VBool x, VBool y => Bool.eqb x y
    | VInt x, VBool y | VBool y, VInt x => Z.eqb x (Z_of_bool y)
    | VStr x, VStr y => str_eqb x y
    | VFloat x, VFloat y => feqb x y
    | VFloat x, VInt y | VInt y, VFloat x => f_eq_Z x y
    | VFloat x, VBool y | VBool y, VFloat x => f_eq_Z x (Z_of_bool y)
    | VTime x, VTime y => teqb x y
    | VDelta x, VDelta y => deqb x y
    | VCat x, VCat y => veqb x y
    | _, _ => false
    end.

  Definition in_range (signed : bool) (bits : N) (z : Z) : bool :=
    if signed then ((- 2 ^ (Z.of_N bits - 1) <=? z) && (z <? 2 ^ (Z.of_N bits - 1)))%Z
    else ((0 <=? z) && (z <? 2 ^ Z.of_N bits))%Z.

  (* util.val_from_meta.  int(x) failing is a ValueError (re-raised: the numpy type is not
     datetime64[ns]); a value outside the integer dtype is numpy's OverflowError.               *)
  Definition parse_base (k : kind) (x : str) : res value :=
    match k with
    | KCat _ => Ok (VStr x)
    | KBool => Ok (VBool (mem_str x [s_ "true"; s_ "True"; s_ "t"; s_ "T"; s_ "1"]))
    | KInt sg bits =>
      match parse_int x with
      | Some z => if in_range sg bits z then Ok (VInt z) else OErr
      | None => VErr
      end
    | KFloat single => res_of_opt (option_map VFloat (parse_float single x))
    | KTime ns =>
      match parse_time_np false x with
      | Some t => Ok (VTime t)
      | None => if ns then res_of_opt (option_map VTime (parse_time_fmt x)) else VErr
      end
    | KTimeTz => res_of_opt (option_map VTime (parse_time_np true x))
    | KStr => Ok (VStr x)
    end.
  (* a categorical whose label type was recorded converts the text with that type (one level: the labels of
     a categorical are never categorical themselves), otherwise the labels stay text               *)
  Definition parse_with_meta (k : kind) (x : str) : res value :=
    match k with
    | KCat (Some lk) => parse_base lk x
    | _ => parse_base k x
    end.

  (* util._val_to_num: total (every failure falls through to the next guess) *)
  Definition parse_guess (x : str) : value :=
    if mem_str x [s_ "now"; s_ "NOW"; s_ "TODAY"; []] then VStr x
    else if str_eqb (lower x) (s_ "nan") then VStr x
    else if str_eqb x (s_ "True") then VBool true
    else if str_eqb x (s_ "False") then VBool false
    else match parse_int x with
    | Some z => VInt z
    | None =>
    match parse_float false x with
    | Some f => VFloat f
    | None =>
    match parse_time_pd x with
    | Some t => VTime t
    | None =>
    match parse_delta x with
    | Some d => VDelta d
    | None => VStr x
    end end end end.

  (* util.val_to_num(x, meta) *)
  Definition val_to_num (m : option kind) (x : str) : res value :=
    match m with Some k => parse_with_meta k x | None => Ok (parse_guess x) end.

  (* ------------------------------------------------------------- writer side *)
  Variable P : Type.                                    (* payload of a row (the other columns) *)
  Definition row := (list (option value) * P)%type.     (* one optional key per partition column *)

  Definition is_some {A} (o : option A) : bool := match o with Some _ => true | None => false end.
  Definition nonnull (r : row) : bool := forallb is_some (fst r).
  Definition key_of (r : row) : list value :=
    flat_map (fun o => match o with Some v => [v] | None => [] end) (fst r).
  Definition keys_eqb : list value -> list value -> bool := list_eqb veqb.

  (* pandas groupby: rows with a NULL key are dropped; each group keeps the frame's row order *)
  Fixpoint insert_group (k : list value) (r : row) (gs : list (list value * list row)) :=
    match gs with
    | [] => [(k, [r])]
    | (k', rs) :: t => if keys_eqb k k' then (k', rs ++ [r]) :: t else (k', rs) :: insert_group k r t
    end.
  Definition group_by (rows : list row) : list (list value * list row) :=
    fold_left (fun gs r => if nonnull r then insert_group (key_of r) r gs else gs) rows [].

  (* "%s=%s" % (name, path_string(val))  /  "%s" % val *)
  Definition segment (hive : bool) (name : str) (v : value) : str :=
    if hive then name ++ c_eq :: show hive v else show hive v.
  Fixpoint dir_segments (hive : bool) (names : list str) (key : list value) : list str :=
    match names, key with
    | n :: ns, v :: vs => segment hive n v :: dir_segments hive ns vs
    | _, _ => []
    end.
  Definition part_name (i : nat) : str := s_ "part." ++ show_nat i ++ s_ ".parquet".
  (* path = join_path of the segments; relname = join_path(path, partname) *)
  Definition dir_path (hive : bool) (names : list str) (key : list value) : str :=
    join_path (dir_segments hive names key).
  Definition rel_path (hive : bool) (names : list str) (key : list value) (part : str) : str :=
    join_path [dir_path hive names key; part].

  (* one file per (row group i, key combination present in it) *)
  Definition write_chunk (hive : bool) (names : list str) (i : nat) (rows : list row)
    : list (str * list row) :=
    map (fun g => (rel_path hive names (fst g) (part_name i), snd g)) (group_by rows).
  Definition write_model (hive : bool) (names : list str) (chunks : list (list row))
    : list (str * list row) :=
    concat (mapi_from (write_chunk hive names) O chunks).

  (* ------------------------------------------------------------- reader side *)
  (* api._strip_path_tail on one path *)
  Definition strip_tail (p : str) : str := join_with c_slash (removelast (split_on c_slash p)).

  Definition pair_of (l : list str) : option (str * str) :=
    match l with [k; v] => Some (k, v) | _ => None end.

  (* hivehits = [p.split("=") for p in path.split("/") if "=" in p]; for key, val in hivehits
     None = ValueError (no hit at all, or a hit that does not unpack into two)                 *)
  Definition hive_hits (dir : str) : option (list (str * str)) :=
    match filter (has_char c_eq) (split_on c_slash dir) with
    | [] => None
    | segs => all_some (map (fun p => pair_of (split_on c_eq p)) segs)
    end.
  Definition dir_name (i : nat) : str := s_ "dir" ++ show_nat i.
  Definition drill_hits (parts : list str) : list (str * str) :=
    mapi_from (fun i v => (dir_name i, v)) O parts.

  Definition is_vstr (v : value) : bool := match v with VStr _ => true | _ => false end.
  Definition pair_eqb (a b : str * str) : bool := str_eqb (fst a) (fst b) && str_eqb (snd a) (snd b).

  (* state of the loop in _path_to_cats *)
  Record pstate := { st_cats : list (str * list value);      (* OrderedDict key -> set (insertion order, deduplicated) *)
                     st_raw : list (str * list str);        (* key -> set of the path texts (repair of the mixed-text defect) *)
                     st_strings : list str;                 (* string_types *)
                     st_seen : list (str * str) }.
  Definition st0 : pstate := {| st_cats := []; st_raw := []; st_strings := []; st_seen := [] |}.

  Fixpoint raw_add (k : str) (x : str) (c : list (str * list str)) : list (str * list str) :=
    match c with
    | [] => [(k, [x])]
    | (k', xs) :: t =>
      if str_eqb k k' then (k', if mem_str x xs then xs else xs ++ [x]) :: t
      else (k', xs) :: raw_add k x t
    end.

  Fixpoint cats_add (k : str) (v : value) (c : list (str * list value)) : list (str * list value) :=
    match c with
    | [] => [(k, [v])]
    | (k', vs) :: t =>
      if str_eqb k k' then (k', if existsb (veqb v) vs then vs else vs ++ [v]) :: t
      else (k', vs) :: cats_add k v t
    end.

  Definition add_hit (pm : list (str * kind)) (st : res pstate) (kv : str * str) : res pstate :=
    match st with
    | VErr => VErr
    | OErr => OErr
    | Ok st =>
      if existsb (pair_eqb kv) (st_seen st) then Ok st else
      let m := if mem_str (fst kv) (st_strings st) then Some KStr else alist_get (fst kv) pm in
      match val_to_num m (snd kv) with
      | VErr => VErr
      | OErr => OErr
      | Ok tp =>
        Ok {| st_cats := cats_add (fst kv) tp (st_cats st);
              st_raw := raw_add (fst kv) (snd kv) (st_raw st);
                st_strings := if is_vstr tp then fst kv :: st_strings st else st_strings st;
                st_seen := kv :: st_seen st |}
      end
    end.

  (* api._path_to_cats(paths, parts): `for path, path_parts in zip(paths, parts)`; the hive branch
     looks at the path, the drill branch at its parts.  A missing hive hit or a hit that does not
     unpack into (key, val) is a ValueError.                                                    *)
  Definition path_hits (hive : bool) (pp : str * list str) : res (list (str * str)) :=
    if hive then res_of_opt (hive_hits (fst pp)) else Ok (drill_hits (snd pp)).
  (* the return statement: a level holding any text is text as a whole - its labels are the path
     texts themselves (values met before the first text value had been converted)             *)
  Definition final_cats (st : pstate) : list (str * list value) :=
    map (fun kv => (fst kv,
                    if mem_str (fst kv) (st_strings st)
                    then map VStr (match alist_get (fst kv) (st_raw st) with Some l => l | None => [] end)
                    else snd kv)) (st_cats st).

  Definition path_to_cats (hive : bool) (pm : list (str * kind)) (pps : list (str * list str))
    : res (list (str * list value)) :=
    res_map final_cats
      (fold_left (fun st pp => match st with
                               | Ok _ => match path_hits hive pp with
                                         | Ok hits => fold_left (add_hit pm) hits st
                                         | VErr => VErr
                                         | OErr => OErr
                                         end
                               | e => e
                               end) pps (Ok st0)).

  Inductive scheme := Empty | Simple | Flat | Other | Hive | Drill.

  Fixpoint dedup_str (l : list str) : list str :=
    match l with [] => [] | x :: r => if mem_str x r then dedup_str r else x :: dedup_str r end.

  Definition all_eq_nat (l : list nat) : bool :=
    match l with [] => true | x :: r => forallb (Nat.eqb x) r end.

  (* api.paths_to_cats; `dirs` = the set _strip_path_tail(paths) in its iteration order.
     Only a ValueError of the hive attempt leads to the drill attempt; every other exception
     and every exception of the drill attempt propagates.                                     *)
  Definition paths_to_cats (pm : list (str * kind)) (paths : list str) (dirs : list str)
    : res (scheme * list (str * list value)) :=
    match paths with
    | [] => Ok (Empty, [])
    | _ =>
      if forallb (fun p => negb (nonempty p)) paths then Ok (Simple, []) else
      let parts := map (split_on c_slash) (filter nonempty dirs) in
      match parts with
      | [] => Ok (Flat, [])
      | _ =>
        if negb (all_eq_nat (map (@length str) parts)) then Ok (Other, []) else
        match path_to_cats true pm (combine dirs parts) with
        | Ok c => Ok (Hive, c)
        | VErr => res_map (fun c => (Drill, c)) (path_to_cats false [] (combine dirs parts))   (* partition_meta=None: the levels are dir0, dir1, ... *)
        | OErr => OErr
        end
      end
    end.

  (* core.read_row_group, for one partition column `cat` of the row group stored at `path`:
     None = an exception (IndexError, ValueError of unpack or of list.index, conversion error) *)
  Definition row_partitions (hive : bool) (path : str) : list (list str) :=
    if hive then map (split_on c_eq) (split_on c_slash path)
    else map (fun kv => [fst kv; snd kv]) (drill_hits (removelast (split_on c_slash path))).

  (* labels of a text level are the path texts themselves: no conversion then *)
  Definition row_value (hive : bool) (pm : list (str * kind)) (cat : str) (labels : list value) (path : str) : option value :=
    match filter (fun p => match p with k :: _ => str_eqb k cat | [] => false end) (row_partitions hive path) with
    | p :: _ => match pair_of p with
                | Some (k, v) => if forallb is_vstr labels then Some (VStr v)
                                 else opt_of_res (val_to_num (alist_get k pm) v)
                | None => None
                end
    | [] => None
    end.

  (* assign[cat][:] = cats[cat].index(val); the frame then shows categories[code] *)
  Definition row_cell (hive : bool) (pm : list (str * kind)) (path : str) (c : str * list value)
    : option (str * value) :=
    match row_value hive pm (fst c) (snd c) path with
    | Some v => match index_of veqb v (snd c) with
                | Some i => option_map (pair (fst c)) (nth_error (snd c) i)
                | None => None
                end
    | None => None
    end.

  Definition row_cells hive pm cats path : option (list (str * value)) :=
    all_some (map (row_cell hive pm path) cats).

  (* reading a dataset whose row groups are `files` (path, rows stored in that file), in order *)
  Definition read_files (hive : bool) (pm : list (str * kind)) (cats : list (str * list value))
             (files : list (str * list row)) : option (list (list (str * value) * P)) :=
    option_map (@concat _)
      (all_some (map (fun f => option_map (fun cells => map (fun r => (cells, snd r)) (snd f))
                                          (row_cells hive pm cats (fst f))) files)).

  Definition read_model (pm : list (str * kind)) (dirs_order : list str -> list str)
             (files : list (str * list row)) : option (scheme * list (list (str * value) * P)) :=
    let paths := map fst files in
    match paths_to_cats pm paths (dirs_order (dedup_str (map strip_tail paths))) with
    | Ok (Hive, c) => option_map (pair Hive) (read_files true pm c files)
    | Ok (Drill, c) => option_map (pair Drill) (read_files false [] c files)   (* ParquetFile.partition_meta is {} for drill *)
    | Ok (s, _) => Some (s, concat (map (fun f => map (fun r => ([], snd r)) (snd f)) files))
    | _ => None
    end.
End Partition.

Arguments VInt {F T D}. Arguments VBool {F T D}. Arguments VStr {F T D}. Arguments VFloat {F T D}.
Arguments VTime {F T D}. Arguments VDelta {F T D}. Arguments VCat {F T D}.
