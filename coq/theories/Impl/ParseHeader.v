(* Impl model of the footer-location arithmetic of fastparquet.api.ParquetFile._parse_header (C10, parse side):
   which bytes of a file are handed to the thrift parser, for EVERY file.

     fn ends with "_metadata":   data = f.read()[4:-8]
     else:   f.seek(0); [verify: f.read(4) == b'PAR1']
             f.seek(-8, 2); head_size = le32 of the next 4 bytes; [verify: the rest == b'PAR1']
             f.seek(-(head_size + 8), 2); data = f.read(head_size)
     any exception (seek before the start of the file, failed assert, short read for unpack) = None here.

   The result is (data, _head_size).                                                              *)
From Coq Require Import NArith List Bool Arith.
From Pq Require Import Base.Bytes Impl.KV.
Import ListNotations.

Definition parse_header (is_md verify : bool) (file : bytes) : option (bytes * N) :=
  let n := length file in
  if is_md then
    let d := firstn (n - 8 - 4) (skipn 4 file) in Some (d, N.of_nat (length d))
  else if Nat.ltb n 8 then None
  else if verify && negb (bytes_eqb (firstn 4 file) magic) then None
  else
    let hs := N.to_nat (le2n (firstn 4 (skipn (n - 8) file))) in
    if verify && negb (bytes_eqb (skipn (n - 4) file) magic) then None
    else if Nat.ltb n (hs + 8) then None
    else Some (firstn hs (skipn (n - (hs + 8)) file), N.of_nat hs).

(* a pure metadata file: magic, footer, length, magic *)
Definition framed_md (footer : bytes) : bytes := framed magic footer.
