(* IMPL MODEL of the page loop of core.read_col for a flat column (no row filter, not read as a
   categorical, foreign file: selfmade = false):
     while num < rows:                       rows = ColumnMetaData.num_values
         ph = ThriftObject.from_buffer(infile, "PageHeader")
         DICTIONARY_PAGE -> dic = read_dictionary_page(...) (decompress, PLAIN decode of num_values entries); continue
         DATA_PAGE_V2    -> num += read_data_page_v2(...)                      (returns num_values)
         DATA_PAGE       -> defi, rep, val = read_data_page(...); scatter into assign[num:...]; num += len(defi) or len(val)
   The loop is driven by the ROW COUNT, never by the byte length of the chunk.  The native thrift
   reader is represented by the specification reader of the page header (C10), `_read_page` by
   `decompress` (cramjam) with its length assertion.                                                 *)
From Coq Require Import String.
From Coq Require Import NArith ZArith List Bool.
From Pq Require Import Base.Bytes Base.Bits Base.ListX Codec.Hybrid Thrift.Compact
  Format.Phys Format.Meta Format.Page Impl.RPages.
Import ListNotations.
Open Scope string_scope.
Open Scope N_scope.

Section Chunk.
Variable decompress : Z -> N -> bytes -> option bytes.

(* _read_page *)
Definition read_page_bytes (codec : Z) (usize : N) (payload : bytes) : rs bytes :=
  if (codec =? 0)%Z then ROk payload
  else match decompress codec usize payload with
       | Some raw => if lenN raw =? usize then ROk raw else RBad "AssertionError: found n raw bytes (expected m)"
       | None => RBad "decompression failed"
       end.

Fixpoint rd_chunk (clock : bytes) (inplace : bool) (cd : coldesc) (codec : Z) (rows : N)
  (dic : option (list value)) (b : bytes) (num : N) (acc : list (option value)) : rs (list (option value)) :=
  if rows <=? num then ROk (rev_append acc []) else
  match clock with
  | [] => RBad "page loop did not advance"
  | _ :: clock' =>
    let! hx := dec_phdr b in
    let '(h, hl, rest) := hx in
    let! cs := z2n "negative compressed_page_size" (ph_csize h) in
    let! us := z2n "negative uncompressed_page_size" (ph_usize h) in
    let payload := takeN cs rest in
    let rest' := dropN cs rest in
    match ph_body h with
    | PBDict d =>
      let! raw := read_page_bytes codec us payload in
      let! n := z2n "negative num_values" (k_nvals d) in
      match plain_dec (cd_type cd) (cd_tlen cd) n raw with
      | Some (vs, _) => rd_chunk clock' inplace cd codec rows (Some vs) rest' num acc
      | None => RBad "dictionary page too short"
      end
    | PBData2 d =>
      let! cells := rd_page_v2 decompress inplace cd dic codec d us cs payload in
      let! n := z2n "negative num_values" (d2_nvals d) in
      rd_chunk clock' inplace cd codec rows dic rest' (num + n) (rev_append cells acc)
    | PBData d =>
      let! raw := read_page_bytes codec us payload in
      let! cells := rd_col_page false cd dic d raw in
      let! n := z2n "negative num_values" (d_nvals d) in
      rd_chunk clock' inplace cd codec rows dic rest' (num + n) (rev_append cells acc)
    | PBIndex => RBad "AttributeError: index page"
    end
  end.
End Chunk.
