(* IMPL MODEL (core.read_col x compression.decompress_data, buffer identity only): the dictionary of a chunk is a VIEW of the
   buffer its page was decoded into (read_plain = np.frombuffer) and is kept across every following data page.  Each page is
   decompressed into the buffer decompress_data hands out: a fresh one per call, or - if a long-lived buffer escapes from the
   module (a global array, a threading.local slot) - the same shared slot again.  A page decoded into the slot the current
   dictionary lives in overwrites the dictionary before the page's indices are looked up.                                  *)
From Coq Require Import List Bool Arith String.
Import ListNotations.

Inductive origin := Fresh | Shared (slot : nat).
Inductive pkind := KDict | KData.

Definition same_slot (a b : origin) : bool :=
  match a, b with Shared x, Shared y => Nat.eqb x y | _, _ => false end.

(* dict = where the dictionary currently held lives (None: no dictionary yet); the pages of the chunk in order, each with the
   buffer its decompression writes *)
Fixpoint dict_intact (dict : option origin) (pages : list (pkind * origin)) : bool :=
  match pages with
  | [] => true
  | (KDict, o) :: r => dict_intact (Some o) r                                   (* a new dictionary replaces the old one *)
  | (KData, o) :: r =>
    match dict with
    | Some d => if same_slot d o then false else dict_intact dict r          (* the page was decoded over the dictionary *)
    | None => dict_intact dict r
    end
  end.

(* which buffer a page reader hands out, given the inventory of functions that let a module-level buffer escape
   (translators/views2coq.py, regenerated from the source on every run) *)
Definition origin_of (escaping : list (string * string)) : origin :=
  match escaping with [] => Fresh | _ => Shared 0 end.
