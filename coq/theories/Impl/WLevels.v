(* IMPL MODEL (writer.py): the level / dictionary-index blocks fastparquet writes into a data page.
     make_definitions(data, no_nulls, datapage_version)     -> wr_defs_nonull_*, wr_defs_nulls_*
     encode_dict(data, _)                                   -> wr_dict_indices
     convert(...) for BOOLEAN (np.pad by 8 - n % 8 zeros, packbits LSB first) -> wr_bools
   and the reader's "selfmade" shortcuts for files it wrote itself (core.py):
     skip_definition_bytes  (translated on every run: PqGen.GenSkip; hand copy below)
     raw 8/16/32-bit dictionary indices (np.frombuffer on the bytes after the run header)       *)
From Coq Require Import NArith List.
From Pq Require Import Base.Bytes Base.ListX Codec.Varint Codec.Bitpack Codec.Hybrid.
Import ListNotations.
Open Scope N_scope.

(* np.pad(values, (0, 8 - n % 8)): a whole extra byte of zeros when 8 | n *)
Definition pad_writer (bits : list N) : list N :=
  bits ++ zeros (8 - Nat.modulo (length bits) 8).

(* PLAIN booleans as the writer packs them *)
Definition wr_bools (bits : list N) : bytes := bp_enc 1 (pad_writer bits).

(* no nulls: one RLE run  varint(n << 1) 0x01 *)
Definition wr_defs_nonull_v2 (n : N) : bytes := uleb_enc (2 * n) ++ [1].
Definition wr_defs_nonull_v1 (n : N) : bytes :=
  let b := wr_defs_nonull_v2 n in le_enc 4 (N.of_nat (length b)) ++ b.

(* nulls: one bit-packed run whose header counts the BYTES of the packed not-null mask as groups *)
Definition wr_defs_nulls_v2 (mask : list N) : bytes :=
  let out := wr_bools mask in uleb_enc (2 * N.of_nat (length out) + 1) ++ out.
Definition wr_defs_nulls_v1 (mask : list N) : bytes :=
  let b := wr_defs_nulls_v2 mask in le_enc 4 (N.of_nat (length b)) ++ b.

(* encode_dict: width byte, ONE bit-packed run header for ceil(n/8) groups, then the raw
   little-endian codes - not padded to a whole group.  k = bytes per code (1, 2 or 4). *)
Definition wr_codes (k : nat) (codes : list N) : bytes := concat (map (le_enc k) codes).
Definition wr_dict_indices (k : nat) (codes : list N) : bytes :=
  (8 * N.of_nat k) :: uleb_enc (2 * ((N.of_nat (length codes) + 7) / 8) + 1) ++ wr_codes k codes.

(* reader shortcut: indices taken raw (np.frombuffer(..., dtype=uint8/16/32)[:n]) *)
Fixpoint rd_raw (k : nat) (n : nat) (b : bytes) : option (list N) :=
  match n with
  | O => Some []
  | S n' => match le_dec k b with
            | Some (v, r) => option_map (cons v) (rd_raw k n' r)
            | None => None
            end
  end.

(* hand copy of core.skip_definition_bytes (used only when the translator refuses the source) *)
Fixpoint more_bytes (fuel : nat) (n : N) : N :=
  match fuel with O => 0 | S f => if n =? 0 then 0 else 1 + more_bytes f (n / 128) end.
Definition skip_hand (num : N) : N := 6 + more_bytes (S (N.to_nat (N.size num))) (num / 64).
