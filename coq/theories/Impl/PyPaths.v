(* Impl/PyPaths.v — the vocabulary translators/paths2coq.py translates INTO (properties C08, C14).

   The translator reads the pure path functions of fastparquet/util.py and writer.py
       util.analyse_paths, util._val_to_num, util.path_string, util.get_file_scheme,
       the directory naming of writer.partition_on_columns
   and writes Gallina over the string/list functions of Impl/Partition.v (split_on, join_with, join_path, parse_int, lower,
   mem_str, ...) plus the few definitions below, each of which states what ONE Python construct means.  This file is part of
   the trusted base of the translator (like Base/PyVal.v for py2coq); it contains no fastparquet logic.                   *)
From Coq Require Import NArith ZArith Bool Ascii String Arith List.
From Pq Require Import Base.Bytes Impl.Partition.
Import ListNotations.

(*   for k, x in enumerate(l):              (k counts from k0)
         if cond(x):
             j = k
             break                                   -> the value of j after the loop                              *)
Fixpoint py_find_break {A} (cond : A -> bool) (l : list A) (k0 : nat) (j : nat) : nat :=
  match l with
  | [] => j
  | x :: r => if cond x then k0 else py_find_break cond r (S k0) j
  end.

(* "%s..%s" % (a, b, ...): the literal pieces around the converted arguments *)
Fixpoint py_format (pieces : list str) (args : list str) : str :=
  match pieces, args with
  | p :: ps, a :: r => p ++ a ++ py_format ps r
  | p :: _, [] => p
  | [], _ => []
  end.

(* len(set(l)) for a list of numbers; the truth value of a list *)
Definition py_distinct_count (l : list nat) : nat := length (nodup Nat.eq_dec l).
Definition py_nonempty_list {A} (l : list A) : bool := match l with [] => false | _ => true end.

(* s.rsplit(c, 1)[0] *)
Definition py_rsplit1_head (c : ascii) (s : str) : str := join_with c (removelast (split_on c s)).

(* a pandas-metadata block of a partition column as far as util.val_from_meta looks at it: meta['pandas_type'], meta['numpy_type'],
   (meta.get('metadata') or {}).get('labels') (the block of the labels of a categorical, when the writer recorded it); the time zone
   of a tz-aware column is inside the external conversion *)
Inductive pmeta := PMeta (pandas_type numpy_type : str) (labels : option pmeta).

(* try: BODY  except ValueError: HANDLER   (every other exception propagates) *)
Definition py_except_ValueError {A} (body : res A) (handler : res A) : res A :=
  match body with VErr => handler | r => r end.

(* enumerate(l) *)
Definition py_enumerate {A} (l : list A) : list (nat * A) := mapi_from (fun i v => (i, v)) 0 l.

Section PyValues.
  Variables F T D : Type.
  Variable show_float : F -> str.
  Variable show_time_iso : T -> str.
  Variable show_time_str : T -> str.
  Notation value := (value F T D).

  (* isinstance(o, pd.Timestamp); a key of a categorical column is handed over as its label *)
  Fixpoint py_is_timestamp (o : value) : bool :=
    match o with VTime _ => true | VCat l => py_is_timestamp l | _ => false end.
  (* o.isoformat() of a Timestamp *)
  Fixpoint py_isoformat (o : value) : str :=
    match o with VTime t => show_time_iso t | VCat l => py_isoformat l | _ => [] end.
  (* str(o) / "%s" % o *)
  Definition py_str (o : value) : str := show F T D show_float show_time_iso show_time_str false o.
End PyValues.
