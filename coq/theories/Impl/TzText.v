(* IMPL MODEL: how the time zone of a tz-aware column / index with a FIXED offset travels through the file (C01).

   writer  util.get_column_metadata:   stz = str(dtype.tz)                        -- Python's name of a datetime.timezone:
                                        "UTC" | "UTC+HH:MM" | "UTC-HH:MM" | "UTC+HH:MM:SS"      (py_tz_name, external, compared at run time)
                                        if "UTC" in stz and ":" in stz: stz.strip("UTC")          -> "+HH:MM[:SS]"
                                        elif len(stz) == 3: stz                                  -> "UTC"
   reader  dataframe.tz_to_dt_tz(z):    if ":" in z:  hours, mins, *secs = z.split(":")
                                                      sign = z.startswith("-")
                                                      int(hours) * 3600 + (1, -1)[sign] * int(mins) * 60 (+ (1, -1)[sign] * secs)
                                                      -> datetime.timezone(timedelta(seconds=...))     (ValueError outside (-24h, 24h))
                                        else: the text itself (a zone NAME, resolved by pandas)

   Text = list of character codes.  Offsets are whole seconds (the statement's bound); sub-second offsets are only exercised.  *)
From Coq Require Import NArith ZArith List Bool.
From Pq Require Import Base.Bytes.
Import ListNotations.
Open Scope Z_scope.

Definition ch_plus : N := 43%N.   Definition ch_minus : N := 45%N.   Definition ch_colon : N := 58%N.
Definition ch_U : N := 85%N.      Definition ch_T : N := 84%N.       Definition ch_C : N := 67%N.

Definition digit (d : Z) : N := (48 + Z.to_N d)%N.
Definition two_digits (v : Z) : list N := [digit (v / 10); digit (v mod 10)].      (* f"{v:02d}" for 0 <= v < 100 *)

(* ---- Python: str(datetime.timezone(timedelta(seconds=s))), whole seconds, |s| < 86400 ---- *)
Definition py_tz_name (s : Z) : list N :=
  if s =? 0 then [ch_U; ch_T; ch_C] else
  let a := Z.abs s in
  let h := a / 3600 in let m := (a mod 3600) / 60 in let sec := a mod 60 in
  [ch_U; ch_T; ch_C; if s <? 0 then ch_minus else ch_plus] ++ two_digits h ++ [ch_colon] ++ two_digits m ++
  (if sec =? 0 then [] else ch_colon :: two_digits sec).

(* ---- str.strip("UTC"): drop leading and trailing characters that are one of U, T, C ---- *)
Definition is_utc_ch (c : N) : bool := N.eqb c ch_U || N.eqb c ch_T || N.eqb c ch_C.
Fixpoint lstrip_utc (l : list N) : list N :=
  match l with c :: r => if is_utc_ch c then lstrip_utc r else l | [] => [] end.
Definition strip_utc (l : list N) : list N := rev (lstrip_utc (rev (lstrip_utc l))).

Fixpoint mem_ch (c : N) (l : list N) : bool := match l with [] => false | x :: r => N.eqb x c || mem_ch c r end.
Fixpoint has_utc (l : list N) : bool :=            (* "UTC" in stz *)
  match l with
  | a :: ((b :: c :: _) as r) => (N.eqb a ch_U && N.eqb b ch_T && N.eqb c ch_C) || has_utc r
  | _ => false
  end.

(* the branch of get_column_metadata a datetime.timezone takes; None = the other branches (not a fixed offset's name) *)
Definition tz_meta_text_of (stz : list N) : option (list N) :=
  if has_utc stz && mem_ch ch_colon stz then Some (strip_utc stz)
  else if Nat.eqb (length stz) 3 then Some stz
  else None.
Definition tz_meta_text (s : Z) : option (list N) := tz_meta_text_of (py_tz_name s).

(* ---- Python: int(text) for [+-]?digits ---- *)
Fixpoint digits_val (acc : Z) (l : list N) : option Z :=
  match l with
  | [] => Some acc
  | c :: r => if (N.leb 48 c && N.leb c 57)%bool then digits_val (10 * acc + Z.of_N (c - 48)) r else None
  end.
Definition py_int (l : list N) : option Z :=
  match l with
  | [] => None
  | c :: r =>
    if N.eqb c ch_minus then (match r with [] => None | _ => option_map Z.opp (digits_val 0 r) end)
    else if N.eqb c ch_plus then (match r with [] => None | _ => digits_val 0 r end)
    else digits_val 0 l
  end.

(* z.split(":") *)
Fixpoint split_colon (cur : list N) (l : list N) : list (list N) :=
  match l with
  | [] => [rev cur]
  | c :: r => if N.eqb c ch_colon then rev cur :: split_colon [] r else split_colon (c :: cur) r
  end.

Inductive tzres := TzFixed (seconds : Z) | TzName (name : list N) | TzErr.

Definition starts_minus (z : list N) : bool := match z with c :: _ => N.eqb c ch_minus | [] => false end.

(* dataframe.tz_to_dt_tz *)
Definition tz_parse (z : list N) : tzres :=
  if mem_ch ch_colon z then
    match split_colon [] z with
    | h :: m :: rest =>
      let sg := if starts_minus z then -1 else 1 in
      match py_int h, py_int m, (match rest with [] => Some 0 | s :: _ => py_int s end) with
      | Some hv, Some mv, Some sv =>
        let total := hv * 3600 + sg * mv * 60 + sg * sv in
        if (-86400 <? total) && (total <? 86400) then TzFixed total else TzErr
      | _, _, _ => TzErr
      end
    | _ => TzErr
    end
  else TzName z.

(* the rule the seeded change C01-5 stands for: direction of the minutes taken from the sign of int(hours) *)
Definition tz_parse_sign_of_hours (z : list N) : tzres :=
  if mem_ch ch_colon z then
    match split_colon [] z with
    | [h; m] =>
      match py_int h, py_int m with
      | Some hv, Some mv => TzFixed (hv * 3600 + (if 0 <=? hv then mv else - mv) * 60)
      | _, _ => TzErr
      end
    | _ => TzErr
    end
  else TzName z.

(* what the zone the reader allocates means as an offset: a fixed zone is its offset; the NAME "UTC" is offset 0
   (every other name is pandas' business) *)
Definition tz_offset_of (r : tzres) : option Z :=
  match r with
  | TzFixed s => Some s
  | TzName n => if list_eqb N.eqb n [ch_U; ch_T; ch_C] then Some 0 else None
  | TzErr => None
  end.

(* write then read *)
Definition tz_roundtrip (s : Z) : option Z :=
  match tz_meta_text s with Some t => tz_offset_of (tz_parse t) | None => None end.

Definition tz_ok_at (s : Z) : bool := match tz_roundtrip s with Some v => v =? s | None => false end.
(* every offset in [cur, cur + n) round-trips (tail recursive: evaluated for the whole domain in Proofs/TzTextProofs.v) *)
Fixpoint tz_range_ok (n : nat) (cur : Z) : bool :=
  match n with O => true | S n' => if tz_ok_at cur then tz_range_ok n' (cur + 1) else false end.
