(* IMPL MODEL of the reader for files fastparquet wrote itself (created_by contains "fastparquet":
   selfmade = true), page loop of core.read_col for a flat column, values de-referenced through the
   dictionary (not read as a categorical), no row filter.  Generalises Impl/RPages.v / RChunk.v by the
   two shortcuts the reader takes for its own files:
     skip_nulls  = selfmade and ColumnMetaData.statistics.null_count == 0:
                   read_data_page does not decode the definition levels of a v1 page, it steps over them with
                   skip_definition_bytes (WLevels.skip_hand) and treats every row as defined;
     raw codes   = `bit_width in [8, 16, 32] and selfmade`: the dictionary indices of a v1 page are not decoded
                   as hybrid runs: num = (varint >> 1) * 8 codes are taken raw from the bytes that follow
                   (np.frombuffer(io_obj.read(num * bit_width // 8), 'int<bit_width>')[:nval] - the read is cut
                   short by the end of the page, the buffer must be a whole number of codes).
   v2 pages are read by read_data_page_v2 (RPages.rd_page_v2), which has neither shortcut on this path.   *)
From Coq Require Import NArith ZArith List Bool String.
From Pq Require Import Base.Bytes Base.Bits Base.ListX Codec.Varint Codec.Zigzag Codec.Bitpack Codec.Hybrid Codec.Delta Thrift.Compact
  Format.Phys Format.Meta Format.Page Impl.WLevels Impl.RPages Impl.RChunk.
Import ListNotations.
Open Scope string_scope.
Open Scope N_scope.

(* core._is_one_rle_run: the definition levels at the cursor are a 4-byte length and ONE RLE run of n times the level
   `maxdef` - the only layout skip_definition_bytes steps over correctly (repaired code: the shortcut is taken only then) *)
Definition guard_def (maxdef n : N) (raw : bytes) : bool :=
  match le_dec 4 raw with
  | Some (len, r) =>
    match uleb_dec r with
    | Some (hd, lvl :: r3) => (hd =? 2 * n) && (lvl =? maxdef) && (len =? lenN r - lenN r3) &&
                              (skip_hand n =? lenN raw - lenN r3)          (* skip_definition_bytes lands behind the run *)
    | _ => false
    end
  | None => false
  end.

(* core._is_one_bitpacked_run: the indices at the cursor are ONE bit-packed run holding at least nval values *)
Definition guard_idx (nval : N) (body : bytes) : bool :=
  match uleb_dec body with
  | Some (hd, _) => N.odd hd && (nval <=? (hd / 2) * 8)
  | None => false
  end.

Definition rd_def_sm (skip_nulls : bool) (maxdef n : N) (raw : bytes) : rs (option (list N) * N * bytes) :=
  if skip_nulls && (negb (maxdef =? 0) && guard_def maxdef n raw) then ROk (None, 0, dropN (skip_hand n) raw)
  else rd_def maxdef n raw.

(* the first min(nval, available) codes of k bytes each out of at most `want` codes *)
Definition rd_codes_raw (k want nval : N) (body : bytes) : rs (list N) :=
  let got := takeN (want * k) body in
  if (k =? 0) || negb (lenN got mod k =? 0) then RBad "ValueError: buffer size must be a multiple of element size"
  else of_opt "unreachable" (raw_codes k (N.to_nat (N.min nval (lenN got / k))) got []).

Definition rd_data_page_sm (selfmade skip_nulls : bool) (cd : coldesc) (h : dph) (raw : bytes) : rs (option (list N) * rvals) :=
  let! n := z2n "negative num_values" (d_nvals h) in
  let! dr := rd_def_sm skip_nulls (cd_maxdef cd) n raw in
  let '(defi, nn, rest) := dr in
  let nval := n - nn in
  if (d_enc h =? E_PLAIN)%Z then
    match plain_dec (cd_type cd) (cd_tlen cd) nval rest with
    | Some (vs, _) => ROk (defi, RVals vs)
    | None => RBad "read_plain: buffer is smaller than requested size"
    end
  else if ((d_enc h =? E_PLAIN_DICT) || (d_enc h =? E_RLE_DICT))%Z then
    match rest with
    | [] => RBad "read_byte past the end"
    | bw :: body =>
      if ((bw =? 8) || (bw =? 16) || (bw =? 32)) && (selfmade && guard_idx nval body) then
        match uleb_dec body with
        | Some (hd, r) => let! ix := rd_codes_raw (bw / 8) ((hd / 2) * 8) nval r in ROk (defi, RIdx ix)
        | None => RBad "varint past the end"
        end
      else if negb (bw =? 0) then
        match hyb_dec false bw nval body with
        | Some (ix, _) => ROk (defi, RIdx ix)
        | None => RBad "hybrid reader ran out of data"
        end
      else ROk (defi, RIdx (repN 0 nval []))
    end
  else RUns "encoding not written by fastparquet".

Definition rd_col_page_sm (selfmade skip_nulls : bool) (cd : coldesc) (dic : option (list value)) (h : dph) (raw : bytes)
  : rs (list (option value)) :=
  let! dv := rd_data_page_sm selfmade skip_nulls cd h raw in
  let '(defi, val) := dv in
  let! vals := (match val with
                | RVals vs => ROk vs
                | RIdx ix => match dic with
                             | Some dd => of_opt "IndexError: dic[val]" (lookup_all dd ix [])
                             | None => RBad "TypeError: 'NoneType' object is not subscriptable"
                             end
                end) in
  match defi with
  | None => ROk (map Some vals)
  | Some lv => of_opt "boolean index did not match" (cells_of (cd_maxdef cd) lv vals [])
  end.

Section Chunk.
Variable decompress : Z -> N -> bytes -> option bytes.

Fixpoint rd_chunk_sm (clock : bytes) (selfmade skip_nulls inplace : bool) (cd : coldesc) (codec : Z) (rows : N)
  (dic : option (list value)) (b : bytes) (num : N) (acc : list (option value)) : rs (list (option value)) :=
  if rows <=? num then ROk (rev_append acc []) else
  match clock with
  | [] => RBad "page loop did not advance"
  | _ :: clock' =>
    let! hx := dec_phdr b in
    let '(h, hl, rest) := hx in
    let! cs := z2n "negative compressed_page_size" (ph_csize h) in
    let! us := z2n "negative uncompressed_page_size" (ph_usize h) in
    let payload := takeN cs rest in
    let rest' := dropN cs rest in
    match ph_body h with
    | PBDict d =>
      let! raw := read_page_bytes decompress codec us payload in
      let! n := z2n "negative num_values" (k_nvals d) in
      match plain_dec (cd_type cd) (cd_tlen cd) n raw with
      | Some (vs, _) => rd_chunk_sm clock' selfmade skip_nulls inplace cd codec rows (Some vs) rest' num acc
      | None => RBad "dictionary page too short"
      end
    | PBData2 d =>
      let! cells := rd_page_v2 decompress inplace cd dic codec d us cs payload in
      let! n := z2n "negative num_values" (d2_nvals d) in
      rd_chunk_sm clock' selfmade skip_nulls inplace cd codec rows dic rest' (num + n) (rev_append cells acc)
    | PBData d =>
      let! raw := read_page_bytes decompress codec us payload in
      let! cells := rd_col_page_sm selfmade skip_nulls cd dic d raw in
      let! n := z2n "negative num_values" (d_nvals d) in
      rd_chunk_sm clock' selfmade skip_nulls inplace cd codec rows dic rest' (num + n) (rev_append cells acc)
    | PBIndex => RBad "AttributeError: index page"
    end
  end.
End Chunk.
