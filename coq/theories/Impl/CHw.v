(* The x86-64 / gcc reading of the places where the impl models answer UB: a variable shift of a 32-bit
   (64-bit) operand uses the count modulo 32 (64); int8 / unsigned char counters wrap.  These variants are
   NOT part of any theorem about the property: they exist so that the correspondence run can compare the
   real binary with a model on the BAD side of the boundaries too (widths 25..32, delta widths 29..64),
   and `hw_refines` (Proofs/CHwProofs.v) shows they coincide with the standard models wherever those are Ok. *)
From Coq Require Import NArith ZArith List Bool.
From Pq Require Import Base.Bytes Base.Err Base.ListX Impl.CVarint Impl.CBitpack Impl.CRle Impl.CHybrid Impl.CDelta.
Import ListNotations.
Open Scope bool_scope.
Open Scope N_scope.

Section RBHW.
  Variables (w isz cap mask : N).
  Definition rb_step_hw (s : bst) : res bst :=
    if 8 <? right s then
      Ok {| data := N.shiftr (data s) 8; left := (left s + 248) mod 256; right := right s - 8;
            inp := inp s; used := used s; cnt := cnt s; out := out s; nout := nout s |}
    else if (Z.of_N (left s) - Z.of_N (right s) <? Z.of_N w)%Z then
      match inp s with
      | [] => OOB
      | b :: r =>
        Ok {| data := N.lor (data s) (N.land (N.shiftl b (left s mod 32)) (N.ones 32));
              left := (left s + 8) mod 256; right := right s;
              inp := r; used := used s + 1; cnt := cnt s; out := out s; nout := nout s |}
      end
    else
      let v0 := N.land (N.shiftr (data s) (right s mod 32)) mask in
      let v := if isz =? 4 then v0 else N.land v0 255 in
      let fits := isz * nout s + isz <=? cap in
      Ok {| data := data s; left := left s; right := (right s + w) mod 256;
            inp := inp s; used := used s; cnt := cnt s - 1;
            out := if fits then v :: out s else out s;
            nout := if fits then nout s + 1 else nout s |}.
End RBHW.

Definition c_read_bitpacked_hw (input : bytes) (header : Z) (w : N) (cap isz : N) : res dres :=
  let count := rb_count header in
  if (w =? 1) && (isz =? 1) then
    if 2 ^ 31 <=? count then UB else c_read_bitpacked1 input count cap
  else
    (* (1 << width) - 1 on int32, count taken modulo 32 *)
    let mask := N.land (N.shiftl 1 (w mod 32) + N.ones 32) (N.ones 32) in
    match input with
    | [] => OOB
    | b0 :: r =>
      let s0 := {| data := b0; left := 8; right := 0; inp := r; used := 1; cnt := count; out := []; nout := 0 |} in
      match run_loop rb_done (rb_step_hw w isz cap mask) big_fuel s0 with
      | Ok s => Ok {| d_vals := rev_append (out s) []; d_used := used s; d_written := isz * nout s |}
      | OOB => OOB | UB => UB | Fuel => Fuel
      end
    end.

(* ---- delta_read_bitpacked: int8 left/right (two's complement wrap), 64-bit shifts modulo 64 ---- *)
Definition wrap8 (z : Z) : Z := ((z + 128) mod 256 - 128)%Z.
Definition sh64 (z : Z) : N := Z.to_N (z mod 64).

Record dsth := { hdata : N; hleft : Z; hright : Z; hinp : bytes; hused : N; hcnt : N; hout : list N }.

Definition drb_step_hw (w mask : N) (s : dsth) : res dsth :=
  if (hleft s - hright s <? Z.of_N w)%Z then
    match hinp s with
    | [] => OOB
    | b :: r =>
      Ok {| hdata := N.lor (hdata s) (N.land (N.shiftl b (sh64 (hleft s))) m64);
            hleft := wrap8 (hleft s + 8); hright := hright s;
            hinp := r; hused := hused s + 1; hcnt := hcnt s; hout := hout s |}
    end
  else if (8 <? hright s)%Z then
    Ok {| hdata := N.shiftr (hdata s) 8; hleft := wrap8 (hleft s - 8); hright := wrap8 (hright s - 8);
          hinp := hinp s; hused := hused s; hcnt := hcnt s; hout := hout s |}
  else
    Ok {| hdata := hdata s; hleft := hleft s; hright := wrap8 (hright s + Z.of_N w);
          hinp := hinp s; hused := hused s; hcnt := hcnt s - 1;
          hout := N.land (N.shiftr (hdata s) (sh64 (hright s))) mask :: hout s |}.

Definition c_delta_read_bitpacked_hw (input : bytes) (w count : N) : res (list N * bytes * N) :=
  let mask := N.shiftr m64 (sh64 (64 - Z.of_N w)) in
  let s0 := {| hdata := 0; hleft := 0%Z; hright := 0%Z; hinp := input; hused := 0; hcnt := count; hout := [] |} in
  match run_loop (fun s => hcnt s =? 0) (drb_step_hw w mask) big_fuel s0 with
  | Ok s => Ok (rev_append (hout s) [], hinp s, hused s)
  | OOB => OOB | UB => UB | Fuel => Fuel
  end.

Definition c_delta_binary_unpack_hw := c_delta_binary_unpack_gen c_delta_read_bitpacked_hw.

(* ---- hybrid loop over the hw bit-packed reader ---- *)
Fixpoint c_hybrid_f_hw (clock : bytes) (w length isz : N) (inp : bytes) (used : N) (cap written : N) (acc : list N)
  : res dres :=
  if (used <? length) && (written <? cap) then
    match clock with
    | [] => Fuel
    | _ :: f =>
      match c_varint inp with
      | Ok (h, k) =>
        let header := to_i32 h in
        let inp1 := dropN k inp in
        let r := if Z.even header then c_read_rle inp1 header w (cap - written) isz
                 else c_read_bitpacked_hw inp1 header w (cap - written) isz in
        match r with
        | Ok d => c_hybrid_f_hw f w length isz (dropN (d_used d) inp1) (used + k + d_used d) cap
                    (written + d_written d) (rev_append (d_vals d) acc)
        | OOB => OOB | UB => UB | Fuel => Fuel
        end
      | OOB => OOB | UB => UB | Fuel => Fuel
      end
    end
  else Ok {| d_vals := rev_append acc []; d_used := used; d_written := written |}.

Definition c_read_hybrid_hw (input : bytes) (w length cap isz : N) : res dres :=
  if length =? 0 then
    if lenN input <? 4 then Ok {| d_vals := []; d_used := 0; d_written := 0 |}
    else
      let len := le2n (firstn 4 input) in
      let inp := dropN 4 input in
      match c_hybrid_f_hw (0 :: inp) w len isz inp 0 cap 0 [] with
      | Ok d => Ok {| d_vals := d_vals d; d_used := 4 + d_used d; d_written := d_written d |}
      | e => e
      end
  else c_hybrid_f_hw (0 :: input) w length isz input 0 cap 0 [].
