(* IMPL MODEL of core.read_col with use_cat = True: a dictionary-encoded flat column read AS A CATEGORICAL
   (what to_pandas does by default for a column fastparquet wrote from a pandas categorical: the pandas
   metadata names it, api.py allocates the codes array and passes use_cat).  The result is
       the categories  = the values of the dictionary page, and
       the codes array = one signed integer per row, -1 for a missing cell
   - the dictionary is NOT de-referenced.  No row filter.

   v1 page (read_data_page + the scatter in read_col): the indices come from RSelf.rd_data_page_sm (raw
     8/16/32-bit codes for selfmade files, else the hybrid decoder), then
        part[defi != max_defi] = -1 ; part[defi == max_defi] = val           (or piece[:] = val without levels);
     a page that is not dictionary-encoded is outside the model (catdef._set_categories, multi-index only).
   v2 page (the `use_cat and encoding in [PLAIN_DICTIONARY, RLE_DICTIONARY]` branch of read_data_page_v2):
        bit_width = pagefile.read_byte() if n_values else 0
        if bit_width in [8, 16, 32] and selfmade:        skip the varint run header, outbytes = the rest of the page
            if len(outbytes) == assign[num:num+num_values].nbytes:  byte copy into the codes array (ak = its itemsize)
            else: outbytes.view('int<bit_width>') assigned to all rows (num_nulls == 0) or to the not-null rows,
                  the null rows = -1  (numpy refuses a length mismatch)
        else: hybrid decoder into a temporary (zeros for width 0), assigned the same way.
   SIGNEDNESS: numpy views the raw codes as SIGNED integers; the model keeps them as naturals.  The two agree
   for codes < 2^(8k-1), which is all a pandas categorical can hold (guard in WChunkProofs.wp_ok); a stored
   0xFF (the REQUIRED-categorical finding of C02) is read as -1 by the code and as 255 by this model.          *)
From Coq Require Import NArith ZArith List Bool String.
From Pq Require Import Base.Bytes Base.Bits Base.ListX Codec.Varint Codec.Bitpack Codec.Hybrid Thrift.Compact
  Format.Phys Format.Meta Format.Page Impl.WLevels Impl.RPages Impl.RChunk Impl.RSelf.
Import ListNotations.
Open Scope string_scope.
Open Scope N_scope.

Definition code_z (c : option N) : Z := match c with Some n => Z.of_N n | None => (-1)%Z end.
Definition cell_code (c : option value) : Z := match c with Some (VNum n) => Z.of_N n | _ => (-1)%Z end.

(* part[defi != max_defi] = -1 ; part[defi == max_defi] = val *)
Definition scatter_codes (maxdef : N) (defi : option (list N)) (ix : list N) : rs (list Z) :=
  match defi with
  | None => ROk (map Z.of_N ix)
  | Some lv => match cells_of maxdef lv (map VNum ix) [] with
               | Some cs => ROk (map cell_code cs)
               | None => RBad "boolean index did not match"
               end
  end.

Definition rd_cat_page_v1 (selfmade skip_nulls : bool) (cd : coldesc) (h : dph) (raw : bytes) : rs (list Z) :=
  let! dv := rd_data_page_sm selfmade skip_nulls cd h raw in
  let '(defi, val) := dv in
  match val with
  | RVals _ => RUns "categorical read of a page that is not dictionary-encoded (not modelled)"
  | RIdx ix => scatter_codes (cd_maxdef cd) defi ix
  end.

(* assign[...] = codes (no null)   |   assign[~nulls] = codes ; assign[nulls] = -1 *)
Definition put_codes (maxdef n nn : N) (lv : option (list N)) (ix : list N) : rs (list Z) :=
  if nn =? 0 then (if lenN ix =? n then ROk (map Z.of_N ix) else RBad "ValueError: could not broadcast input array")
  else match lv with
       | Some _ => scatter_codes maxdef lv ix
       | None => RBad "NameError: nulls"
       end.

Section Cat.
Variable decompress : Z -> N -> bytes -> option bytes.

(* everything read_data_page_v2 does before it looks at the index runs: (num_values, num_nulls, levels, bit width, bytes behind it) *)
Definition cat_prefix (cd : coldesc) (codec : Z) (h : dph2) (usize csize : N) (payload : bytes)
  : rs (N * N * option (list N) * N * bytes) :=
  let e := d2_enc h in
  if negb ((e =? E_PLAIN_DICT) || (e =? E_RLE_DICT) || (e =? E_RLE) || (e =? E_PLAIN) || (e =? E_DELTA))%Z
  then RUns "NotImplementedError" else
  if negb ((e =? E_PLAIN_DICT) || (e =? E_RLE_DICT))%Z
  then RUns "categorical read of a page that is not dictionary-encoded (not modelled)" else
  let! n := z2n "negative num_values" (d2_nvals h) in
  let! nn := z2n "negative num_nulls" (d2_nnulls h) in
  let! dl := z2n "negative definition_levels_byte_length" (d2_dlen h) in
  let! rl := z2n "negative repetition_levels_byte_length" (d2_rlen h) in
  let size := csize - rl - dl in
  let n_values := n - nn in
  let! lv := (if negb (cd_maxdef cd =? 0) && negb (nn =? 0) then
                match hyb_dec false (N.size (cd_maxdef cd)) n (takeN dl payload) with
                | Some (l, _) => ROk (Some l)
                | None => RBad "level reader ran out of data"
                end
              else ROk None) in
  let body := takeN size (dropN (dl + rl) payload) in
  let comp := match d2_iscomp h with Some false => false | _ => true end in
  let ups := usize - dl - rl in
  let! raw := (if comp && negb (codec =? 0)%Z then of_opt "decompression failed" (decompress codec ups body) else ROk body) in
  let! wr := (if n_values =? 0 then ROk (0, raw)
              else match raw with [] => RBad "read_byte past the end" | w :: r => ROk (w, r) end) in
  ROk (n, nn, lv, fst wr, snd wr).

(* the index runs: the fast path for one bit-packed run of whole bytes (behind the layout check), else the hybrid decoder *)
Definition cat_tail (selfmade : bool) (ak maxdef : N) (x : N * N * option (list N) * N * bytes) : rs (list Z) :=
  let '(n, nn, lv, bw, r) := x in
  let n_values := n - nn in
  let put := put_codes maxdef n nn lv in
  if ((bw =? 8) || (bw =? 16) || (bw =? 32)) && (selfmade && guard_idx n_values r) then
    match uleb_dec r with
    | None => RBad "varint past the end"
    | Some (_, out) =>
      if (lenN out =? n * ak) && (bw =? 8 * ak) && (nn =? 0) then
        (* the bytes are copied over the codes array as they are *)
        if ak =? 0 then RBad "codes array without an item size" else
        match raw_codes ak (N.to_nat n) out [] with
        | Some ix => ROk (map Z.of_N ix)
        | None => RBad "unreachable"
        end
      else
        let k := bw / 8 in
        let out := takeN (n_values * k) out in        (* a full last group may hold more codes than the page has values *)
        if negb (lenN out mod k =? 0) then RBad "ValueError: array size must be a multiple of the element size" else
        match raw_codes k (N.to_nat (lenN out / k)) out [] with
        | Some ix => put ix
        | None => RBad "unreachable"
        end
    end
  else
    let! ix := (if negb (bw =? 0) && negb (n_values =? 0) then
                  match hyb_dec false bw n_values r with
                  | Some (ix, _) => ROk ix
                  | None => RBad "hybrid reader ran out of data"
                  end
                else ROk (repN 0 n_values [])) in
    put ix.

Definition rd_page_v2_cat (selfmade : bool) (ak : N) (cd : coldesc) (codec : Z) (h : dph2)
  (usize csize : N) (payload : bytes) : rs (list Z) :=
  let! x := cat_prefix cd codec h usize csize payload in cat_tail selfmade ak (cd_maxdef cd) x.

Fixpoint vals_eqb (a b : list value) : bool :=
  match a, b with
  | [], [] => true
  | x :: a', y :: b' => value_eqb x y && vals_eqb a' b'
  | _, _ => false
  end.

(* the page loop: like RSelf.rd_chunk_sm, the output is the codes array and the categories *)
Fixpoint rd_chunk_cat (clock : bytes) (selfmade skip_nulls : bool) (ak : N) (cd : coldesc) (codec : Z) (rows : N)
  (dic : option (list value)) (b : bytes) (num : N) (acc : list Z) : rs (option (list value) * list Z) :=
  if rows <=? num then ROk (dic, rev_append acc []) else
  match clock with
  | [] => RBad "page loop did not advance"
  | _ :: clock' =>
    let! hx := dec_phdr b in
    let '(h, hl, rest) := hx in
    let! cs := z2n "negative compressed_page_size" (ph_csize h) in
    let! us := z2n "negative uncompressed_page_size" (ph_usize h) in
    let payload := takeN cs rest in
    let rest' := dropN cs rest in
    match ph_body h with
    | PBDict d =>
      let! raw := read_page_bytes decompress codec us payload in
      let! n := z2n "negative num_values" (k_nvals d) in
      match plain_dec (cd_type cd) (cd_tlen cd) n raw with
      | Some (vs, _) =>
        if match dic with Some old => negb (vals_eqb old vs) | None => false end
        then RBad "RuntimeError: Attempt to read as categorical a column with multiple dictionary pages"
        else rd_chunk_cat clock' selfmade skip_nulls ak cd codec rows (Some vs) rest' num acc
      | None => RBad "dictionary page too short"
      end
    | PBData2 d =>
      let! codes := rd_page_v2_cat selfmade ak cd codec d us cs payload in
      let! n := z2n "negative num_values" (d2_nvals d) in
      rd_chunk_cat clock' selfmade skip_nulls ak cd codec rows dic rest' (num + n) (rev_append codes acc)
    | PBData d =>
      let! raw := read_page_bytes decompress codec us payload in
      let! codes := rd_cat_page_v1 selfmade skip_nulls cd d raw in
      let! n := z2n "negative num_values" (d_nvals d) in
      rd_chunk_cat clock' selfmade skip_nulls ak cd codec rows dic rest' (num + n) (rev_append codes acc)
    | PBIndex => RBad "AttributeError: index page"
    end
  end.
End Cat.
