(* C13 — row-level filtering.  Impl model of
     core.read_col with a boolean row mask over a chunk of several v1 data pages (the offset / output
       position arithmetic, the selection of values and definition levels, the write into the
       pre-allocated output), as REPAIRED by the fix: commit, and as it was on the pinned tree;
     api._column_filter (as repaired: flat list = AND, partition columns evaluated, missing cells
       satisfy only != and not in) and the two-pass read of api.to_pandas(filters, row_filter=True),
       count(filters, row_filter=True) and the caller-supplied mask.
   Lists model numpy arrays; `select m l` is boolean indexing l[m].                                  *)
From Coq Require Import ZArith List String Bool Arith Lia.
From Pq Require Import Base.PyVal Impl.Filter.
Import ListNotations.
Open Scope string_scope.
Local Open Scope nat_scope.
Local Open Scope list_scope.

(* ---------- numpy idioms --------------------------------------------------------------------- *)

Fixpoint select {A} (m : list bool) (l : list A) : list A :=
  match m, l with
  | b :: m', x :: l' => if b then x :: select m' l' else select m' l'
  | _, _ => []
  end.

Definition count_true (m : list bool) : nat := List.length (filter (fun b => b) m).
Definition slice {A} (off n : nat) (l : list A) : list A := firstn n (skipn off l).   (* l[off:off+n] *)

(* ---------- a v1 data page as read_data_page returns it --------------------------------------- *)

Section Pages.
  Variable V : Type.
  Definition cellv := option V.                       (* None = NULL *)
  Definition page := list cellv.

  Definition defi_of (pg : page) : list bool :=       (* defi == max_defi *)
    map (fun c => match c with Some _ => true | None => false end) pg.
  Definition vals_of (pg : page) : list V :=          (* val: the non-null values only *)
    flat_map (fun c => match c with Some v => [v] | None => [] end) pg.

  (* part[defi != max] = nan ; part[defi == max] = val *)
  Fixpoint scatter (defi : list bool) (val : list V) : list cellv :=
    match defi with
    | [] => []
    | true :: d => match val with v :: val' => Some v :: scatter d val' | [] => None :: scatter d [] end
    | false :: d => None :: scatter d val
    end.

  (* the output array: pre-allocated with `rows` slots, not initialised *)
  Inductive slot := Uninit | W (c : cellv).

  (* assign[num:num+len(piece)] = piece ; a piece that does not fit raises (numpy shape mismatch) *)
  Definition write_at (num : nat) (piece : list cellv) (arr : list slot) : option (list slot) :=
    if num + List.length piece <=? List.length arr
    then Some (firstn num arr ++ map W piece ++ skipn (num + List.length piece) arr)
    else None.

  Record st := { num : nat; index_off : nat; arr : list slot }.

  (* how a data page reaches the loop:
       V1nodefi  v1 page that came back without definition levels (required column, or the skip_nulls
                 shortcut): val holds every row;
       V1defi    v1 page with definition levels: defi per row, val only the non-null values;
       V2        v2 page: its row count is in the header; with a mask the whole page is decoded into a
                 temporary and the selected rows are copied *)
  Inductive pkind := V1nodefi | V1defi | V2.
  Definition page_rows (k : pkind) (pg : page) : nat :=
    match k with
    | V1nodefi => List.length (vals_of pg)
    | V1defi => List.length (defi_of pg)
    | V2 => List.length pg
    end.
  Definition page_piece (k : pkind) (page_filter : list bool) (pg : page) : list cellv :=
    match k with
    | V1nodefi => map Some (select page_filter (vals_of pg))
    | V1defi => scatter (select page_filter (defi_of pg)) (select (select (defi_of pg) page_filter) (vals_of pg))
    | V2 => select page_filter pg
    end.

  (* one iteration of the `while num < rows` loop of the REPAIRED read_col, mask given *)
  Definition page_step (row_filter : list bool) (s : st) (p : pkind * page) : option st :=
    let '(nodefi, pg) := p in
    let nrows := page_rows nodefi pg in
    let page_filter := slice (index_off s) nrows row_filter in
    let io := index_off s + nrows in
    if count_true page_filter =? 0 then Some {| num := num s; index_off := io; arr := arr s |}
    else
      let piece := page_piece nodefi page_filter pg in
      match write_at (num s) piece (arr s) with
      | Some a => Some {| num := num s + List.length piece; index_off := io; arr := a |}
      | None => None
      end.

  Fixpoint read_pages (rows : nat) (row_filter : list bool) (s : st) (pages : list (pkind * page)) : option st :=
    match pages with
    | [] => Some s
    | p :: r => if rows <=? num s then Some s
                else match page_step row_filter s p with Some s' => read_pages rows row_filter s' r | None => None end
    end.

  (* read_col(column, assign = uninitialised array of row_filter.sum() slots, row_filter) *)
  Definition read_col_masked (row_filter : list bool) (pages : list (pkind * page)) : option (list slot) :=
    let rows := count_true row_filter in
    match read_pages rows row_filter {| num := 0; index_off := 0; arr := repeat Uninit rows |} pages with
    | Some s => Some (arr s)
    | None => None
    end.

  (* the same loop on the pinned tree (v1 pages): window and new offset from len(val), nothing-selected
     pages advance the OUTPUT position and leave the mask offset where it was *)
  Definition page_step_pinned (row_filter : list bool) (s : st) (p : pkind * page) : option st :=
    let '(nodefi, pg) := p in
    let nval := List.length (vals_of pg) in
    let nrows := page_rows nodefi pg in
    let io := index_off s + nval in
    if count_true (slice (index_off s) nval row_filter) =? 0
    then Some {| num := num s + nrows; index_off := index_off s; arr := arr s |}
    else
      let pf := slice (index_off s) nrows row_filter in
      let piece := page_piece nodefi pf pg in
      match write_at (num s) piece (arr s) with
      | Some a => Some {| num := num s + List.length piece; index_off := io; arr := a |}
      | None => None
      end.

  Fixpoint read_pages_pinned (rows : nat) (row_filter : list bool) (s : st) (pages : list (pkind * page)) : option st :=
    match pages with
    | [] => Some s
    | p :: r => if rows <=? num s then Some s
                else match page_step_pinned row_filter s p with Some s' => read_pages_pinned rows row_filter s' r | None => None end
    end.

  Definition read_col_masked_pinned (row_filter : list bool) (pages : list (pkind * page)) : option (list slot) :=
    let rows := count_true row_filter in
    match read_pages_pinned rows row_filter {| num := 0; index_off := 0; arr := repeat Uninit rows |} pages with
    | Some s => Some (arr s)
    | None => None
    end.
End Pages.

Arguments Uninit {V}.
Arguments W {V} c.


(* ---------- _column_filter and the two-pass read ------------------------------------------------ *)

Local Notation "a =s b" := (String.eqb a b) (at level 70).

Definition as_bool (r : res pv) : res bool := bind r (fun v => Ok (truthy v)).

(* one condition on one cell, as the repaired _column_filter evaluates it:
   in -> isin (False on a missing cell); not in -> ~isin (True on a missing cell);
   comparison operators on the cells that hold a value, a missing cell satisfies only "!=";
   "~" selects the rows whose cell is falsy; any other operator leaves the AND group unchanged *)
Definition cond_cell (op : string) (x c : pv) : res bool :=
  if op =s "in" then (if is_none x then Ok false else as_bool (py_in x c)) else
  if op =s "not in" then (if is_none x then Ok true else as_bool (py_not_in x c)) else
  if (op =s "==") || (op =s "=") then (if is_none x then Ok false else as_bool (py_eq x c)) else
  if op =s "!=" then (if is_none x then Ok true else as_bool (py_ne x c)) else
  if op =s "<" then (if is_none x then Ok false else as_bool (py_lt x c)) else
  if op =s "<=" then (if is_none x then Ok false else as_bool (py_le x c)) else
  if op =s ">" then (if is_none x then Ok false else as_bool (py_gt x c)) else
  if op =s ">=" then (if is_none x then Ok false else as_bool (py_ge x c)) else
  (* "~": the rows where the (boolean) column is False; a missing cell is not selected; the constant is ignored *)
  if op =s "~" then (if is_none x then Ok false else Ok (negb (truthy x))) else Ok true.

Fixpoint all_res {A} (f : A -> res bool) (l : list A) : res bool :=      (* and_part &= ... (no short cut) *)
  match l with
  | [] => Ok true
  | a :: r => bind (f a) (fun b => bind (all_res f r) (fun b' => Ok (b && b')))
  end.
Fixpoint some_res {A} (f : A -> res bool) (l : list A) : res bool :=     (* out |= and_part (no short cut) *)
  match l with
  | [] => Ok false
  | a :: r => bind (f a) (fun b => bind (some_res f r) (fun b' => Ok (b || b')))
  end.

Section TwoPass.
  Variable R : Type.
  Variable cell : R -> string -> pv.
  Variable filter_val : pv -> pv -> pv -> pv -> res pv.
  Variable conv : string -> string -> pv -> pv * pv.

  Definition row_cond (r : R) (f : cond) : res bool := cond_cell (cop f) (cell r (cname f)) (cval f).
  Definition row_sel (dnf : list (list cond)) (r : R) : res bool := some_res (all_res (row_cond r)) dnf.

  (* _column_filter(df, filters): a flat list is normalised to one AND group *)
  Definition column_filter (f : filters) (rows : list R) : res (list bool) :=
    map_res (row_sel (normalize f)) rows.

  (* second pass: every kept row group is read with its slice of the mask
     (thislen == num_rows: no mask; thislen == 0: skipped) *)
  Fixpoint second_pass (kept : list (rowgroup R)) (sel : list bool) : list R :=
    match kept with
    | [] => []
    | rg :: r =>
      let n := Z.to_nat (rg_num_rows rg) in
      let s := firstn n sel in
      (if count_true s =? n then rg_rows rg
       else if count_true s =? 0 then []
       else select s (rg_rows rg)) ++ second_pass r (skipn n sel)
    end.

  (* to_pandas(filters=f, row_filter=True) *)
  Definition two_pass (known : list string) (rgs : list (rowgroup R)) (f : filters) : res (list R) :=
    bind (filter_row_groups R filter_val conv known rgs f) (fun kept =>
    bind (column_filter f (flat_map rg_rows kept)) (fun sel =>
    Ok (second_pass kept sel))).

  (* count(filters=f, row_filter=True) *)
  Definition count_rows (known : list string) (rgs : list (rowgroup R)) (f : filters) : res nat :=
    bind (filter_row_groups R filter_val conv known rgs f) (fun kept =>
    bind (column_filter f (flat_map rg_rows kept)) (fun sel => Ok (count_true sel))).

  (* to_pandas(row_filter=mask): a caller-supplied mask over all rows *)
  Definition total_rows (rgs : list (rowgroup R)) : Z := fold_right (fun rg a => (rg_num_rows rg + a)%Z) 0%Z rgs.
  Definition masked_read (rgs : list (rowgroup R)) (mask : list bool) : res (list R) :=
    if Z.eqb (Z.of_nat (List.length mask)) (total_rows rgs)
    then Ok (second_pass rgs mask) else Err "ValueError".
End TwoPass.

(* ---------- concrete rows for running the model (correspondence check) -------------------------- *)
Definition crow := (Z * list (string * pv))%type.            (* (row id, column -> cell) *)
Definition ccell (r : crow) (name : string) : pv :=
  match find (fun e => String.eqb (fst e) name) (snd r) with Some e => snd e | None => PNone end.
Definition two_pass_ids (fv : pv -> pv -> pv -> pv -> res pv) (t : list (string * string * pv * (pv * pv)))
  (known : list string) (rgs : list (rowgroup crow)) (f : filters) : res (list Z) :=
  bind (two_pass crow ccell fv (conv_table t) known rgs f) (fun out => Ok (map fst out)).
