(* The bridge between the impl model of cencoding.pyx (Impl/CThrift.v, Python objects `pv`) and the
   compact-protocol specification (Thrift/Compact.v, value trees `tv`):
   - `t_top`: the value tree a Python object DENOTES when write_thrift serialises it (which wire
     type each value gets: bool -> field header, int -> i32/i64 by the "i32"/"i32list" side channel,
     bytes/str -> binary, int list -> list<i32>, ...); Proofs/CThriftProofs.v shows that the bytes
     write_thrift produces are exactly the specification's encoding `wr` of that tree;
   - `pv_of`: the Python object read_thrift builds from a value tree's encoding (markers restored
     from the type nibbles), and `rdable`: the class of trees read_thrift handles;
   - `dom`: the objects for which the round trip is claimed.                                      *)
From Coq Require Import NArith ZArith List Bool.
From Pq Require Import Base.Bytes Thrift.Varint Thrift.Compact Impl.CThrift.
Import ListNotations.
Open Scope N_scope.

(* ---- denotation of a Python object as a compact value tree ----------------------------------- *)
Fixpoint t_items (f : pv -> option tv) (l : list pv) : option (list tv) :=
  match l with
  | [] => Some []
  | x :: r => match f x, t_items f r with Some a, Some b => Some (a :: b) | _, _ => None end
  end.

Fixpoint t_fields (tf : Z -> pv -> option tv) (ids : list Z) (fs : list (Z * pv)) : option (list (N * tv)) :=
  match ids with
  | [] => Some []
  | i :: r =>
    match lookup i fs with
    | None => t_fields tf r fs
    | Some PNone => t_fields tf r fs
    | Some v => match tf i v, t_fields tf r fs with
                | Some a, Some b => Some ((Z.to_N i, a) :: b)
                | _, _ => None
                end
    end
  end.

Definition t_int_elem (x : pv) : option tv :=
  match x with
  | PInt z => if in_cint z then Some (TI32 z) else None
  | PBool b => Some (TI32 (if b then 1 else 0))
  | _ => None
  end.
Definition t_bytes_elem (x : pv) : option tv := match x with PBytes b => Some (TBin b) | _ => None end.
Definition t_str_elem (x : pv) : option tv := match x with PStr b => Some (TBin b) | _ => None end.

Definition t_list_with (t_dict : pv -> option tv) (l : list pv) : option tv :=
  match l with
  | [] => Some (TList 0 [])
  | first :: _ =>
    match first with
    | PBool _ => option_map (TList 5) (t_items t_int_elem l)
    | PInt _ => option_map (TList 5) (t_items t_int_elem l)
    | PBytes _ => option_map (TList 8) (t_items t_bytes_elem l)
    | PStr _ => option_map (TList 8) (t_items t_str_elem l)
    | _ => option_map (TList 12) (t_items t_dict l)
    end
  end.

Definition t_field (t_dict : pv -> option tv) (i32 : bool) (i32l : option (list Z)) (i : Z) (v : pv) : option tv :=
  match v with
  | PNone => None
  | PBool b => Some (TBool b)
  | PInt z => if in_i64 z then Some (if int_nib i32 i32l i =? 5 then TI32 z else TI64 z) else None
  | PFloat bits => Some (TDouble bits)
  | PBytes l => Some (TBin l)
  | PStr l => Some (TBin l)
  | PList l => t_list_with t_dict l
  | PDict _ _ _ => t_dict v
  end.

Fixpoint t_thrift (ids : list Z) (d : nat) (i32 : bool) (i32l : option (list Z)) (fs : list (Z * pv)) {struct d} : option tv :=
  match d with
  | O => None
  | S d' =>
    let t_dict := fun v : pv => match v with PDict a b c => t_thrift ids d' a b c | _ => None end in
    option_map TStruct (t_fields (t_field t_dict i32 i32l) ids fs)
  end.

Definition t_top (ids : list Z) (v : pv) : option tv :=
  match v with PDict a b c => t_thrift ids w_depth a b c | _ => None end.

(* ---- what read_thrift builds from (the encoding of) a value tree ----------------------------- *)
Definition has_nib (n : N) (fs : list (N * tv)) : bool := existsb (fun p => nib (snd p) =? n) fs.
Definition ids_nib (n : N) (fs : list (N * tv)) : list Z :=
  map (fun p => Z.of_N (fst p)) (filter (fun p => nib (snd p) =? n) fs).

Fixpoint pv_of (t : tv) : pv :=
  match t with
  | TBool b => PBool b
  | TI8 z => PInt (z mod 256)                 (* read_byte() returns the unsigned byte *)
  | TI16 z => PInt z
  | TI32 z => PInt z
  | TI64 z => PInt z
  | TDouble b => PFloat b                     (* never produced: read_thrift misreads doubles, see rdable *)
  | TBin l => PBytes l
  | TList ety l =>
      PList ((fix go (l : list tv) : list pv :=
                match l with
                | [] => []
                | x :: r => (match x with TBin s => PStr s | _ => pv_of x end) :: go r
                end) l)
  | TStruct fs =>
      PDict (has_nib 5 fs && negb (has_nib 6 fs))
            (if has_nib 5 fs && has_nib 6 fs then Some (ids_nib 5 fs) else None)
            ((fix gof (fs : list (N * tv)) : list (Z * pv) :=
                match fs with [] => [] | (id, x) :: r => (Z.of_N id, pv_of x) :: gof r end) fs)
  end.
Definition pv_of_elem (x : tv) : pv := match x with TBin s => PStr s | _ => pv_of x end.
Definition pv_of_elems : list tv -> list pv :=
  fix go (l : list tv) : list pv := match l with [] => [] | x :: r => pv_of_elem x :: go r end.
Definition pv_of_fields : list (N * tv) -> list (Z * pv) :=
  fix gof (fs : list (N * tv)) : list (Z * pv) :=
    match fs with [] => [] | (id, x) :: r => (Z.of_N id, pv_of x) :: gof r end.

(* the value trees read_thrift / read_list handle: short-form field headers with ids up to 127
   (`cdef char id`), no doubles (misread), lists of i32/i64/binary/struct only (any other element
   type is read as a list of structs), empty lists with any header. *)
Fixpoint rdable (t : tv) : bool :=
  match t with
  | TDouble _ => false
  | TList ety l =>
      ((ety =? 5) || (ety =? 6) || (ety =? 8) || (ety =? 12) || match l with [] => true | _ => false end) &&
      (fix all (l : list tv) : bool := match l with [] => true | x :: r => rdable x && all r end) l
  | TStruct fs =>
      (fix allf (last : N) (fs : list (N * tv)) : bool :=
         match fs with
         | [] => true
         | (id, x) :: r => (last <? id) && (id - last <? 16) && (id <=? 127) && rdable x && allf id r
         end) 0 fs
  | _ => true
  end.
Definition rdable_elems : list tv -> bool :=
  fix all (l : list tv) : bool := match l with [] => true | x :: r => rdable x && all r end.
Definition rdable_fields : N -> list (N * tv) -> bool :=
  fix allf (last : N) (fs : list (N * tv)) : bool :=
    match fs with
    | [] => true
    | (id, x) :: r => (last <? id) && (id - last <? 16) && (id <=? 127) && rdable x && allf id r
    end.

(* what the reader needs of a tree besides `rdable` (weaker than Compact.wfb: integers only have to
   fit 64 bits - read_thrift decodes every varint as a 64-bit zigzag - and an empty list may carry any
   element-type nibble, in particular write_list's 0) *)
Fixpoint rwf (v : tv) : bool :=
  match v with
  | TBool _ => true
  | TI8 _ => true
  | TI16 z => in_range 64 z
  | TI32 z => in_range 64 z
  | TI64 z => in_range 64 z
  | TDouble _ => true
  | TBin l => len l <? 2 ^ 31
  | TList ety l => (ety <? 16) && (len l <? 2 ^ 31) &&
      (fix all (l : list tv) : bool :=
         match l with [] => true | x :: r => elem_ok ety x && rwf x && all r end) l
  | TStruct fs =>
      (fix allf (fs : list (N * tv)) : bool :=
         match fs with [] => true | (id, x) :: r => rwf x && allf r end) fs
  end.
Definition rwf_elems (ety : N) : list tv -> bool :=
  fix all (l : list tv) : bool := match l with [] => true | x :: r => elem_ok ety x && rwf x && all r end.
Definition rwf_fields : list (N * tv) -> bool :=
  fix allf (fs : list (N * tv)) : bool := match fs with [] => true | (id, x) :: r => rwf x && allf r end.

(* ---- the objects for which the round trip is claimed ----------------------------------------
   every key that carries a value is in `ids` (1..13 for write_thrift's `range(1, 14)`, 1..14 for the repaired loop), no floats (the
   Parquet IDL has none; read_thrift misreads them), byte strings and lists shorter than 2^31
   (`cdef int l`), lists homogeneous: ints (C int range; bools count as ints), str, or dicts
   (a list of `bytes` comes back as a list of `str`, which Python does not consider equal).     *)
Definition small (n : N) : bool := n <? 2 ^ 31.

Fixpoint dom (ids : list Z) (d : nat) (v : pv) {struct d} : bool :=
  match d with
  | O => false
  | S d' =>
    match v with
    | PNone => true
    | PBool _ => true
    | PInt z => in_i64 z
    | PFloat _ => false
    | PBytes l => small (len l)
    | PStr l => small (len l)
    | PList l =>
        small (len l) &&
        match l with
        | [] => true
        | PBool _ :: _ | PInt _ :: _ =>
            forallb (fun x => match x with PInt z => in_cint z | PBool _ => true | _ => false end) l
        | PStr _ :: _ => forallb (fun x => match x with PStr s => small (len s) | _ => false end) l
        | PDict _ _ _ :: _ => forallb (fun x => match x with PDict _ _ _ => dom ids d' x | _ => false end) l
        | _ => false
        end
    | PDict _ _ fs =>
        forallb (fun kv => match snd kv with PNone => true | x => existsb (Z.eqb (fst kv)) ids && dom ids d' x end) fs
    end
  end.
