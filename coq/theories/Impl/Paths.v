(* Impl model of util.analyse_paths (property C14): common base path of a list of file paths and
   the paths relative to it.  Strings and '/'-splitting are those of Impl/Partition.v.

     path_parts_list = [join_path(fn).split('/') for fn in file_list]
     if root is False:
         basepath = path_parts_list[0][:-1]
         for path_parts in path_parts_list:
             j = len(path_parts) - 1
             for k, (base_part, path_part) in enumerate(zip(basepath, path_parts)):
                 if base_part != path_part: j = k; break
             basepath = basepath[:j]
         l = len(basepath)
     else:
         basepath = join_path(root).split('/'); l = len(basepath)
         assert all(p[:l] == basepath for p in path_parts_list)
     out_list = ['/'.join(path_parts[l:]) for path_parts in path_parts_list]
     return '/'.join(basepath), out_list                                                       *)
From Coq Require Import NArith ZArith Bool Ascii String Arith List.
From Pq Require Import Base.Bytes Impl.Partition.
Import ListNotations.

Fixpoint first_mismatch (base path : list str) (k : nat) : option nat :=
  match base, path with
  | b :: bs, p :: ps => if str_eqb b p then first_mismatch bs ps (S k) else Some k
  | _, _ => None
  end.

(* one iteration of the loop over path_parts_list *)
Definition shrink (base path : list str) : list str :=
  firstn (match first_mismatch base path 0 with Some k => k | None => length path - 1 end) base.

Definition parts_of (fn : str) : list str := split_on c_slash (join_path [fn]).

Definition base_of (pl : list (list str)) (p0 : list str) : list str := fold_left shrink pl (removelast p0).

Inductive ares := AOk (base : str) (rel : list str) | AIndexError | AAssertion.

Definition rel_of (base : list str) (p : list str) : str := join_with c_slash (skipn (length base) p).

Definition analyse_parts (pl : list (list str)) (root : option (list str)) : option (list str) :=
  match root with
  | None => match pl with [] => None | p0 :: _ => Some (base_of pl p0) end
  | Some base => Some base
  end.

Definition analyse_paths (file_list : list str) (root : option str) : ares :=
  let pl := map parts_of file_list in
  match root with
  | None =>
    match pl with
    | [] => AIndexError
    | p0 :: _ => let base := base_of pl p0 in AOk (join_with c_slash base) (map (rel_of base) pl)
    end
  | Some r =>
    let base := parts_of r in
    if forallb (fun p => list_eqb str_eqb (firstn (length base) p) base) pl
    then AOk (join_with c_slash base) (map (rel_of base) pl)
    else AAssertion
  end.
