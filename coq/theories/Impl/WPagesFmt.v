(* IMPL MODEL of the page payload fastparquet.writer.write_column emits for a PLAIN (non-categorical,
   non-BOOLEAN) column, as a laid-out page of Format/Enc.v - i.e. WHICH of the layouts the format allows
   the writer picks:
     make_definitions: no NULL in the page  -> one RLE run (count = rows, value 1)
                       otherwise            -> one bit-packed run over the mask padded with 8 - n mod 8 zeros
                                               (np.pad(..., (0, 8 - len % 8)): a whole extra group when 8 | n)
                       v1: 4-byte length prefix; v2: none (the length goes to the header)
     encode_plain:     PLAIN values of the non-null cells
     v1 only:          8 zero bytes after the values (`8 * b'\x00'`)
   The byte-level tie (harness/props/C02.py) re-encodes the cells of every such real page with this model
   through the specification encoder and compares with the real payload.  Categorical pages
   (encode_dict: unpadded final bit-packed group) are modelled in the coordinator's Impl/WLevels.v. *)
From Coq Require Import NArith ZArith List Bool.
From Pq Require Import Base.Bytes Base.ListX Codec.Hybrid Format.Phys Format.Page Format.Enc.
Import ListNotations.
Open Scope N_scope.

Definition is_some {A} (o : option A) : bool := match o with Some _ => true | None => false end.
Definition lvl (c : option value) : N := match c with Some _ => 1 | None => 0 end.
Fixpoint vals_of (cells : list (option value)) : list value :=
  match cells with [] => [] | Some v :: r => v :: vals_of r | None :: r => vals_of r end.

Definition fp_def_runs (cells : list (option value)) : list hrun :=
  if forallb is_some cells then [RLE (lenN cells) 1]
  else [BP (map lvl cells ++ repeat 0 (8 - Nat.modulo (length cells) 8))].

Definition fp_plain_page (v2 optional : bool) (cells : list (option value)) : lpage :=
  {| lp_v2 := v2; lp_nvals := lenN cells; lp_def := if optional then fp_def_runs cells else [];
     lp_store := SPlain (vals_of cells); lp_iscomp := None;
     lp_trail := if v2 then [] else [0; 0; 0; 0; 0; 0; 0; 0] |}.

(* the uncompressed payload bytes of the page *)
Definition fp_plain_payload (v2 optional : bool) (t : ptype) (tlen : N) (cells : list (option value)) : bytes :=
  let cd := {| cd_type := t; cd_tlen := tlen; cd_maxdef := if optional then 1 else 0 |} in
  let p := fp_plain_page v2 optional cells in
  let lb := if optional then (if v2 then hyb_enc_x 1 (lp_def p) else hyb_enc_len_x 1 (lp_def p)) else [] in
  app_tr lb (app_tr (store_bytes cd (lp_store p)) (lp_trail p)).
