(* IMPL MODEL of the WHOLE single file fastparquet.writer.write_simple produces, on top of the byte-level chunk model Impl/WChunk.v:
     f.write(MARKER); for each row group, for each column: write_column (Impl/WChunk.w_chunk) with the ColumnMetaData of the
     pos/diff bookkeeping (Format/ChunkLayout.wr_bookkeeping over the pages written); RowGroup(num_rows, total_byte_size = sum of
     total_uncompressed_size); FileMetaData(schema, num_rows = sum, row_groups, created_by); footer, 4-byte length, MARKER.
   The footer serialisation is the specification's compact-protocol writer (C10 proves the native one equal to it). *)
From Coq Require Import NArith ZArith List Bool.
From Pq Require Import Base.Bytes Base.ListX Thrift.Compact Format.Phys Format.Meta Format.Page Format.ChunkLayout Format.File Format.Enc
  Impl.WChunk.
Import ListNotations.
Open Scope N_scope.

Record wfile := { wf_leaves : list lleaf; wf_rgs : list (list wchunk); wf_created_by : option bytes }.

(* encodings announced for a chunk: PLAIN, RLE (levels) and RLE_DICTIONARY for a categorical *)
Definition w_encs (c : wchunk) : list Z := match wc_labels c with Some _ => [0; 3; 8]%Z | None => [0; 3]%Z end.

Section Codec.
Variable compress : Z -> bytes -> bytes.

Definition wsum (hp : phdr * bytes) : page :=
  {| p_kind := pkind_of (ph_body (fst hp)); p_hdr := Z.of_N (lenN (enc_phdr (fst hp))); p_comp := ph_csize (fst hp);
     p_uncomp := ph_usize (fst hp); p_nvals := pnvals_of (ph_body (fst hp)); p_enc := penc_of (ph_body (fst hp)) |}.

Definition wsummaries (c : wchunk) : list page :=
  (match wc_labels c with Some labels => [wsum (w_dict_page compress c labels)] | None => [] end)
  ++ map (fun p => wsum (w_data_page compress c p)) (wc_pages c).

Definition wnulls_page (p : wpage) : N := w_rows p - w_nonnull p.
Definition wnulls (c : wchunk) : N := sumN (map wnulls_page (wc_pages c)).

(* ColumnMetaData as write_column leaves it *)
Definition w_cmd (l : lleaf) (start : N) (c : wchunk) : cmd :=
  let ps := wsummaries c in
  let bk := wr_bookkeeping (Z.of_N start) (sumZ (map p_nvals (filter is_data ps))) (w_encs c) ps in
  {| cm_type := ptype_id (ll_type l); cm_encodings := c_encodings bk; cm_path := [ll_name l]; cm_codec := wc_codec c;
     cm_nvals := c_num_values bk; cm_tus := c_total_uncomp bk; cm_tcs := c_total_comp bk;
     cm_data_off := c_data_page_offset bk; cm_index_off := None; cm_dict_off := c_dict_page_offset bk;
     cm_null_count := Some (Z.of_N (wnulls c)) |}.

Fixpoint w_cols (ls : list lleaf) (cs : list wchunk) (pos : N) : list bytes * list cchunk * N :=
  match ls, cs with
  | l :: ls', c :: cs' =>
    let b := w_chunk compress c in
    let cc := {| cc_path := None; cc_off := Z.of_N pos; cc_meta := Some (w_cmd l pos c) |} in
    let '(bs, ccs, pos') := w_cols ls' cs' (pos + lenN b) in
    (b :: bs, cc :: ccs, pos')
  | _, _ => ([], [], pos)
  end.

Definition w_rg_rows (cs : list wchunk) : N := match cs with c :: _ => w_chunk_rows c | [] => 0 end.

Fixpoint w_rgs (ls : list lleaf) (rgs : list (list wchunk)) (pos : N) : list bytes * list rgroup * N :=
  match rgs with
  | [] => ([], [], pos)
  | cs :: r =>
    let '(bs, ccs, pos1) := w_cols ls cs pos in
    let '(bs2, rs, pos2) := w_rgs ls r pos1 in
    (bs ++ bs2,
     {| rg_cols := ccs;
        rg_tbs := sumZ (map (fun c => match cc_meta c with Some m => cm_tus m | None => 0%Z end) ccs);
        rg_nrows := Z.of_N (w_rg_rows cs) |} :: rs, pos2)
  end.

Definition w_file_meta (f : wfile) : fmd :=
  let rgs := snd (fst (w_rgs (wf_leaves f) (wf_rgs f) 4)) in
  {| fm_version := 1; fm_schema := root_selem (lenN (wf_leaves f)) :: map selem_of_l (wf_leaves f);
     fm_nrows := sumZ (map rg_nrows rgs); fm_rgs := rgs; fm_created_by := wf_created_by f |}.

Definition w_file_data (f : wfile) : bytes := concat (fst (fst (w_rgs (wf_leaves f) (wf_rgs f) 4))).

Definition w_file (f : wfile) : bytes :=
  let footer := wr (fmd_to_tv (w_file_meta f)) in
  magic ++ w_file_data f ++ footer ++ le_enc 4 (lenN footer) ++ magic.

End Codec.

(* the table the file holds: per row group and column, the cells of the chunk *)
Definition w_file_cells (f : wfile) : option (list (list (list (option value)))) :=
  let col c := w_chunk_cells c in
  fold_right (fun cs acc => match acc, fold_right (fun c a => match a, col c with Some a', Some x => Some (x :: a') | _, _ => None end) (Some []) cs with
                            | Some acc', Some row => Some (row :: acc') | _, _ => None end) (Some []) (wf_rgs f).
