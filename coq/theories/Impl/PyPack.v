(* IMPL models of the Python / speedups pieces of the primitive codecs:
   writer.convert's boolean packing (np.pad + reshape(-1,8)[:, ::-1] + np.packbits),
   encoding.read_plain_boolean, writer.encode_dict's header, speedups.pack_byte_array /
   unpack_byte_array (as compiled: speedups.c). *)
From Coq Require Import NArith ZArith List Bool.
From Pq Require Import Base.Bytes Base.Bits Base.Err Base.ListX Impl.CVarint Impl.CBitpack Impl.CDelta.
Import ListNotations.
Open Scope bool_scope.
Open Scope N_scope.

(* np.packbits(padded.reshape(-1, 8)[:, ::-1].ravel()): every row of 8 is reversed, then packed
   most-significant-bit first: value number i of the row lands in bit i *)
Fixpoint byte_lsb (row : list N) : N :=
  match row with [] => 0 | b :: r => (if b =? 0 then 0 else 1) + 2 * byte_lsb r end.

Fixpoint rows8 (fuel : nat) (l : list N) : list (list N) :=
  match fuel with
  | O => []
  | S f => match l with [] => [] | _ => firstn 8 l :: rows8 f (skipn 8 l) end
  end.

Fixpoint zeros (n : nat) : list N := match n with O => [] | S k => 0 :: zeros k end.

(* padded = np.pad(values, (0, 8 - len % 8)): ALWAYS pads (8 more when len % 8 = 0) *)
Definition py_bool_pack (vs : list N) : bytes :=
  let padded := vs ++ zeros (8 - Nat.modulo (length vs) 8) in
  map byte_lsb (rows8 (length padded) padded).

(* read_plain_boolean(raw_bytes, count): out = np.empty(count); read_bitpacked1(.., count, out); out[:count] *)
Definition py_read_plain_boolean (raw : bytes) (count : N) : res (list N) :=
  match c_read_bitpacked1 raw count count with
  | Ok d => Ok (takeN count (d_vals d))
  | OOB => OOB | UB => UB | Fuel => Fuel
  end.

(* encode_dict(data): width byte, varint(((len + 7) // 8) << 1 | 1), then the raw index bytes *)
Definition py_encode_dict (isz : N) (vals : list N) : bytes :=
  let n := lenN vals in
  [8 * isz] ++ fst (c_enc_varint (N.lor (N.shiftl ((n + 7) / 8) 1) 1) 9)
  ++ concat (map (le_enc (N.to_nat isz)) vals).

(* speedups.pack_byte_array(items): (int) length then the bytes, for every item *)
Definition c_pack_byte_array (items : list bytes) : bytes :=
  concat_tr (map (fun x => le_enc 4 (N.land (lenN x) m32) ++ x) items).

(* speedups.unpack_byte_array(raw, n): while i < n and bytecount > 0: itemlen = *(int* )ptr (UNCHECKED
   4-byte read), item = bytes(ptr, itemlen) (UNCHECKED), bytecount -= 4 + itemlen.
   Slots not reached stay None.  A negative length raises (SystemError) - modelled as Exc. *)
Inductive ures := UOk (items : list (option bytes)) | UExc | UOOB.

Fixpoint c_unpack_ba (n : nat) (inp : bytes) (bytecount : Z) (acc : list (option bytes)) : ures :=
  match n with
  | O => UOk (rev_append acc [])
  | S k =>
    if (bytecount <=? 0)%Z then UOk (rev_append acc (repeat None n))
    else if lenN inp <? 4 then UOOB
    else
      let len := s32 (le2n (firstn 4 inp)) in
      let r := dropN 4 inp in
      if (len <? 0)%Z then UExc
      else if lenN r <? Z.to_N len then UOOB
      else c_unpack_ba k (dropN (Z.to_N len) r) (bytecount - 4 - len) (Some (takeN (Z.to_N len) r) :: acc)
  end.
Definition c_unpack_byte_array (raw : bytes) (n : N) : ures :=
  c_unpack_ba (N.to_nat n) raw (Z.of_N (lenN raw)) [].
