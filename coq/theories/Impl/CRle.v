(* IMPL model of cencoding.read_rle as compiled: uint32 count/width/vals_left, int32 data,
   unchecked input reads, count clamped to the room left in the output. *)
From Coq Require Import NArith ZArith List Bool.
From Pq Require Import Base.Bytes Base.Err Base.ListX Impl.CBitpack.
Import ListNotations.
Open Scope bool_scope.
Open Scope N_scope.

(* data |= (inptr[0] & 0xff) << (i*8) for i < width; shift >= 32 is UB *)
Fixpoint rle_value (inp : bytes) (width : nat) (i : N) (acc : N) : res N :=
  match width with
  | O => Ok acc
  | S k =>
    match inp with
    | [] => OOB
    | b :: r => if 32 <=? 8 * i then UB
                else rle_value r k (i + 1) (N.lor acc (N.land (N.shiftl b (8 * i)) (N.ones 32)))
    end
  end.

Definition rle_count (header : Z) : N := Z.to_N ((Z.shiftr header 1) mod 2 ^ 32)%Z.

Definition c_read_rle (input : bytes) (header : Z) (bit_width : N) (cap isz : N) : res dres :=
  let count := rle_count header in
  let width := (bit_width + 7) / 8 in
  match rle_value input (N.to_nat width) 0 0 with
  | Ok v =>
    let vals_left := cap / isz in
    let c := if vals_left <? count then vals_left else count in
    let v' := if isz =? 4 then v else N.land v 255 in
    Ok {| d_vals := repN v' c []; d_used := width; d_written := (if isz =? 4 then 4 else 1) * c |}
  | OOB => OOB | UB => UB | Fuel => Fuel
  end.
