(* IMPL MODEL of the bytes fastparquet.writer.write_column emits for one column chunk (flat column):
   the page loop, the page headers and the page payloads, byte level.
     column chunk  = [dictionary page]  data page ...                (categorical: dictionary page first)
     dictionary page: PageHeader(DICTIONARY_PAGE, DictionaryPageHeader(num_values = #labels, PLAIN)) + PLAIN labels,
                      compressed when a codec is set
     data page v1  : PageHeader(DATA_PAGE, DataPageHeader(num_values = rows, encoding, RLE, BIT_PACKED))
                     payload = compress( definition block ++ values ++ 8 zero bytes )
     data page v2  : PageHeader(DATA_PAGE_V2, DataPageHeaderV2(num_values, num_nulls, num_rows, encoding,
                     definition_levels_byte_length, 0, is_compressed = codec set))
                     payload = definition block ++ compress( values )
     definition block (OPTIONAL columns only): Impl/WLevels.v wr_defs_nonull_* when the page has no NULL,
                     wr_defs_nulls_* over the not-null mask otherwise
     values        : PLAIN (encode_plain) of the non-null cells, or for a categorical the codes of the
                     non-null cells as WLevels.wr_dict_indices k (k = bytes of the codes' dtype: 1, 2, 4)
   The serialisation of the PageHeader structs is the specification writer of the compact protocol (C10 proves
   the native serialiser equal to it on the IDL's structs).  BOOLEAN values (and boolean dictionary labels)
   are PLAIN as the writer packs them: np.packbits after np.pad - one padding byte too many when 8 | n
   (w_plain, WLevels.wr_bools).                                                                              *)
From Coq Require Import NArith ZArith List Bool.
From Pq Require Import Base.Bytes Base.ListX Codec.Varint Codec.Bitpack Codec.Hybrid Thrift.Compact
  Format.Phys Format.Meta Format.Page Format.Enc Impl.WLevels Impl.WPagesFmt.
Import ListNotations.
Open Scope N_scope.

Inductive wpage :=
| WPlainP (cells : list (option value))            (* a page of an ordinary column *)
| WDictP (codes : list (option N)).                 (* a page of a categorical: codes, None = missing (-1) *)

Record wchunk := { wc_v2 : bool; wc_optional : bool; wc_type : ptype; wc_tlen : N; wc_codec : Z;
                   wc_k : nat;                           (* categorical: bytes per code (int8/16/32) *)
                   wc_labels : option (list value);      (* Some labels = categorical *)
                   wc_pages : list wpage }.

Fixpoint somes {A} (l : list (option A)) : list A :=
  match l with [] => [] | Some x :: r => x :: somes r | None :: r => somes r end.
Definition mask_of {A} (l : list (option A)) : list N := map (fun c => match c with Some _ => 1 | None => 0 end) l.

Definition w_rows (p : wpage) : N := match p with WPlainP c => lenN c | WDictP c => lenN c end.
Definition w_mask (p : wpage) : list N := match p with WPlainP c => mask_of c | WDictP c => mask_of c end.
Definition w_nonnull (p : wpage) : N := match p with WPlainP c => lenN (somes c) | WDictP c => lenN (somes c) end.

Definition w_defs (c : wchunk) (p : wpage) : bytes :=
  if negb (wc_optional c) then [] else
  if w_nonnull p =? w_rows p then (if wc_v2 c then wr_defs_nonull_v2 (w_rows p) else wr_defs_nonull_v1 (w_rows p))
  else (if wc_v2 c then wr_defs_nulls_v2 (w_mask p) else wr_defs_nulls_v1 (w_mask p)).

(* encode_plain *)
Definition w_plain (t : ptype) (vs : list value) : bytes :=
  match t with BOOLEAN => wr_bools (map num_of vs) | _ => plain_enc t vs end.

Definition w_values (c : wchunk) (p : wpage) : bytes :=
  match p with
  | WPlainP cells => w_plain (wc_type c) (somes cells)
  | WDictP codes => wr_dict_indices (wc_k c) (somes codes)
  end.
Definition w_enc (p : wpage) : Z := match p with WPlainP _ => E_PLAIN | WDictP _ => E_RLE_DICT end.

Section Codec.
Variable compress : Z -> bytes -> bytes.

Definition w_data_page (c : wchunk) (p : wpage) : phdr * bytes :=
  let defs := w_defs c p in
  let vals := w_values c p in
  if wc_v2 c then
    let body := deflate compress (wc_codec c) vals in
    ({| ph_usize := Z.of_N (lenN defs) + Z.of_N (lenN vals); ph_csize := Z.of_N (lenN defs) + Z.of_N (lenN body); ph_crc := None;
        ph_body := PBData2 {| d2_nvals := Z.of_N (w_rows p); d2_nnulls := Z.of_N (w_rows p - w_nonnull p);
                              d2_nrows := Z.of_N (w_rows p); d2_enc := w_enc p; d2_dlen := Z.of_N (lenN defs); d2_rlen := 0;
                              d2_iscomp := Some (negb (wc_codec c =? 0)%Z) |} |},
     defs ++ body)
  else
    let raw := defs ++ vals ++ [0; 0; 0; 0; 0; 0; 0; 0] in
    let payload := deflate compress (wc_codec c) raw in
    ({| ph_usize := Z.of_N (lenN raw); ph_csize := Z.of_N (lenN payload); ph_crc := None;
        ph_body := PBData {| d_nvals := Z.of_N (w_rows p); d_enc := w_enc p; d_dle := E_RLE; d_rle := E_BIT_PACKED |} |},
     payload).

Definition w_dict_page (c : wchunk) (labels : list value) : phdr * bytes :=
  let raw := w_plain (wc_type c) labels in
  let payload := deflate compress (wc_codec c) raw in
  ({| ph_usize := Z.of_N (lenN raw); ph_csize := Z.of_N (lenN payload); ph_crc := None;
      ph_body := PBDict {| k_nvals := Z.of_N (lenN labels); k_enc := E_PLAIN; k_sorted := None |} |}, payload).

Definition w_page_bytes (hp : phdr * bytes) : bytes := enc_phdr (fst hp) ++ snd hp.

(* the bytes of the chunk: f.write of every header and payload in order *)
Definition w_chunk (c : wchunk) : bytes :=
  (match wc_labels c with Some labels => w_page_bytes (w_dict_page c labels) | None => [] end)
  ++ concat (map (fun p => w_page_bytes (w_data_page c p)) (wc_pages c)).
End Codec.

(* the column the chunk holds: cells in row order (a categorical: the label of each code) *)
Fixpoint label_cells (labels : list value) (codes : list (option N)) : option (list (option value)) :=
  match codes with
  | [] => Some []
  | None :: r => option_map (cons None) (label_cells labels r)
  | Some i :: r => match nthN labels i, label_cells labels r with Some v, Some vs => Some (Some v :: vs) | _, _ => None end
  end.

Definition w_page_cells (c : wchunk) (p : wpage) : option (list (option value)) :=
  match p with
  | WPlainP cells => Some cells
  | WDictP codes => match wc_labels c with Some labels => label_cells labels codes | None => None end
  end.

(* the whole column of the chunk: the cells of its pages in order, and its row count *)
Fixpoint w_pages_cells (c : wchunk) (ps : list wpage) : option (list (option value)) :=
  match ps with
  | [] => Some []
  | p :: r => match w_page_cells c p, w_pages_cells c r with Some a, Some b => Some (a ++ b) | _, _ => None end
  end.
Definition w_chunk_cells (c : wchunk) : option (list (option value)) := w_pages_cells c (wc_pages c).
Definition w_chunk_rows (c : wchunk) : N := sumN (map w_rows (wc_pages c)).
