(* Impl/CAssembleFixed.v -- model of the PROPOSED REPAIR of cencoding.pyx _assemble_objects
   (notes/C15.md gives the patch).  The repair cannot be built in this sandbox (no Cython; the
   generated cencoding.c is not tracked), so the two defects stay open findings; this file and
   Proofs/CAssembleFixedProofs.v show that the patched loop satisfies the property for EVERY cut
   of the stream into pages (also empty pages).

   Two changes to the loop, everything else (add_level, the started branch, the final write) is
   the code as it is (Impl/CAssemble.v):

     first `rep == 0` of a page            `if vali > 0:`  ->  `if part:`
        (the pending continuation is appended to row i-1 whenever there is one, also when it
         holds only NULL elements)
     page without any `rep == 0`           `assign[i - 1].extend(part); return i`
                                       ->  `if part: assign[i - 1].extend(part)` ; `return i - 1`
        (no new row was started, so the caller's `row_idx[0] = 1 + returned` must not move) *)
From Coq Require Import NArith List Bool.
From Pq Require Import Format.Nested Impl.CAssemble.
Import ListNotations.
Open Scope N_scope.

Section Fixed.
Variable V : Type.

Definition new_row_fx (s : st V) : ares (st V) :=
  if s_started s then new_row s                            (*   if started: (unchanged)        *)
  else
    match s_part s with
    | [] => AOk (mkSt (s_i s) [] true (s_have_null s) (s_vali s) (s_vals s) (s_arr s))
    | _ :: _ =>                                            (*   else: if part:                 *)
      match extend_prev (s_arr s) (s_i s) (s_part s) with
      | AOk a => AOk (mkSt (s_i s) [] true (s_have_null s) (s_vali s) (s_vals s) a)
      | AErr x => AErr x
      end
    end.

Definition step_fx (null : bool) (max_defi : N) (s : st V) (e : entry) : ares (st V) :=
  let '(re, de) := e in
  match (if re =? 0 then new_row_fx s else AOk s) with
  | AErr x => AErr x
  | AOk s1 => add_level null max_defi s1 de
  end.

Fixpoint run_steps_fx (null : bool) (max_defi : N) (s : st V) (es : list entry) : ares (st V) :=
  match es with
  | [] => AOk s
  | e :: t =>
    match step_fx null max_defi s e with
    | AOk s' => run_steps_fx null max_defi s' t
    | AErr x => AErr x
    end
  end.

(* the end of the loop; the second component is what read_col stores into row_idx[0]
   (1 + the returned value) *)
Definition finish_fx (s : st V) : ares (arr V * nat) :=
  if s_started s then
    match write_row (s_arr s) (s_i s) (cell (s_have_null s) (s_part s)) with
    | AOk a' => AOk (a', S (s_i s))                        (* return i                         *)
    | AErr x => AErr x
    end
  else
    match s_part s with
    | [] => AOk (s_arr s, s_i s)                           (* return i - 1                     *)
    | _ :: _ =>
      match extend_prev (s_arr s) (s_i s) (s_part s) with
      | AOk a' => AOk (a', s_i s)
      | AErr x => AErr x
      end
    end.

Definition assemble_page_fx (null : bool) (max_defi : N) (a : arr V) (prev_i : nat) (p : page V)
  : ares (arr V * nat) :=
  match run_steps_fx null max_defi (mkSt prev_i [] false false 0 (snd p) a) (fst p) with
  | AErr x => AErr x
  | AOk s => finish_fx s
  end.

Fixpoint read_col_v1_fx (null : bool) (max_defi : N) (a : arr V) (row_idx : nat) (pages : list (page V))
  : ares (arr V) :=
  match pages with
  | [] => AOk a
  | p :: t =>
    match assemble_page_fx null max_defi a row_idx p with
    | AOk (a', nxt) => read_col_v1_fx null max_defi a' nxt t
    | AErr x => AErr x
    end
  end.

End Fixed.

Arguments new_row_fx {V}. Arguments step_fx {V}. Arguments run_steps_fx {V}. Arguments finish_fx {V}.
Arguments assemble_page_fx {V}. Arguments read_col_v1_fx {V}.

Definition run_v1_fx {V} (sh : shape) (n : nat) (pages : list (page V)) : ares (arr V) :=
  read_col_v1_fx (call_null (shape_path sh)) (sch_max_def (shape_path sh)) (empty_arr n) 0 pages.
