(* Impl model of the row-group split of fastparquet.writer.iter_dataframe and of the page split of
   writer.write_column (properties C01, C02, C06).

   iter_dataframe(data, row_group_offsets):
     int k (k != 0): nparts    = max((n - 1) // k + 1, 1)
                     chunksize = max(min((n - 1) // nparts + 1, n), 1)
                     offsets   = list(range(0, n, chunksize))
     int 0         : offsets = [0]
     list          : as given
     then for i, start: data.iloc[start : offsets[i+1]]   (last one: data.iloc[start:])
   write_column: row_offsets = list(range(0, n, rows_per_page)) + [n]; pages = zip(ro[:-1], ro[1:]).
   Python's // on possibly negative numerators is floor division = Z.div for a positive divisor.      *)
From Coq Require Import ZArith List Arith Lia.
Import ListNotations.

(* range(0, n, c) for c >= 1, as nats *)
Fixpoint range_steps (count : nat) (start c : nat) : list nat :=
  match count with O => [] | S k => start :: range_steps k (start + c) c end.

Definition py_range0 (n c : nat) : list nat := range_steps ((n + c - 1) / c) 0 c.

Definition offsets_int (n : nat) (k : Z) : list nat :=
  if (k =? 0)%Z then [0] else
  let nz := Z.of_nat n in
  let nparts := Z.max ((nz - 1) / k + 1) 1 in
  let chunksize := Z.max (Z.min ((nz - 1) / nparts + 1) nz) 1 in
  py_range0 n (Z.to_nat chunksize).

(* data.iloc[s:e] for 0 <= s, e (both clamp at the length; e < s gives nothing) *)
Definition iloc {A} (s e : nat) (data : list A) : list A := firstn (e - s) (skipn s data).

Fixpoint slices {A} (offs : list nat) (data : list A) : list (list A) :=
  match offs with
  | [] => []
  | s :: rest =>
    match rest with
    | [] => [skipn s data]
    | e :: _ => iloc s e data :: slices rest data
    end
  end.

(* page split of write_column *)
Definition page_bounds (n rpp : nat) : list nat := py_range0 n rpp ++ [n].

Fixpoint pairs_of (l : list nat) : list (nat * nat) :=
  match l with
  | a :: ((b :: _) as r) => (a, b) :: pairs_of r
  | _ => []
  end.

Definition pages {A} (rpp : nat) (data : list A) : list (list A) :=
  map (fun se => iloc (fst se) (snd se) data) (pairs_of (page_bounds (length data) rpp)).
