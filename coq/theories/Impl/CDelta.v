(* IMPL model of cencoding.delta_read_bitpacked / delta_binary_unpack as compiled (cencoding.c):
   uint64 accumulator, int8 left/right, LOAD HAS PRIORITY over the byte shift-out, unchecked
   NumpyIO.read_byte, checked write_int/write_long/read_int/read_long, uint32 cursors (o.loc -= 4
   is unconditional and wraps), int64 value/count arithmetic.  A shift count >= 64 is UB. *)
From Coq Require Import NArith ZArith List Bool.
From Pq Require Import Base.Bytes Base.Err Base.ListX Impl.CVarint.
Import ListNotations.
Open Scope bool_scope.
Open Scope N_scope.

(* ---------------- delta_read_bitpacked ---------------- *)
Record dst := { ddata : N; dleft : N; dright : N; dinp : bytes; dused : N; dcnt : N; dout : list N }.

Section DRB.
  Variables (w mask : N).

  Definition drb_done (s : dst) : bool := dcnt s =? 0.

  Definition drb_step (s : dst) : res dst :=
    if (Z.of_N (dleft s) - Z.of_N (dright s) <? Z.of_N w)%Z then
      match dinp s with
      | [] => OOB
      | b :: r =>
        if 64 <=? dleft s then UB else
        Ok {| ddata := N.lor (ddata s) (N.land (N.shiftl b (dleft s)) m64);
              dleft := dleft s + 8; dright := dright s;
              dinp := r; dused := dused s + 1; dcnt := dcnt s; dout := dout s |}
      end
    else if 8 <? dright s then
      Ok {| ddata := N.shiftr (ddata s) 8; dleft := dleft s - 8; dright := dright s - 8;
            dinp := dinp s; dused := dused s; dcnt := dcnt s; dout := dout s |}
    else
      Ok {| ddata := ddata s; dleft := dleft s; dright := dright s + w;
            dinp := dinp s; dused := dused s; dcnt := dcnt s - 1;
            dout := N.land (N.shiftr (ddata s) (dright s)) mask :: dout s |}.
End DRB.

(* returns the `count` values handed to o.write_int/write_long (full 64-bit patterns, in order),
   the remaining input and the number of bytes consumed *)
Definition c_delta_read_bitpacked (input : bytes) (w count : N) : res (list N * bytes * N) :=
  if (w =? 0) || (64 <? w) then UB          (* 0xFFFFFFFFFFFFFFFF >> (64 - bitwidth) *)
  else
    let s0 := {| ddata := 0; dleft := 0; dright := 0; dinp := input; dused := 0; dcnt := count; dout := [] |} in
    match run_loop drb_done (drb_step w (N.shiftr m64 (64 - w))) big_fuel s0 with
    | Ok s => Ok (rev_append (dout s) [], dinp s, dused s)
    | OOB => OOB | UB => UB | Fuel => Fuel
    end.

(* ---------------- the output NumpyIO: items of isz bytes, uint32 byte cursor ---------------- *)
Definition w32 (z : Z) : N := Z.to_N (z mod 2 ^ 32).
Definition w64 (z : Z) : N := Z.to_N (z mod 2 ^ 64).
Definition s64 (n : N) : Z := if n <? 2 ^ 63 then Z.of_N n else (Z.of_N n - 2 ^ 64)%Z.
Definition s32 (n : N) : Z := let m := N.land n m32 in if m <? 2 ^ 31 then Z.of_N m else (Z.of_N m - 2 ^ 32)%Z.

Fixpoint set_nth (l : list N) (i : N) (v : N) : list N :=
  match l with
  | [] => []
  | x :: r => if i =? 0 then v :: r else x :: set_nth r (N.pred i) v
  end.
Fixpoint get_nth (l : list N) (i : N) : option N :=
  match l with
  | [] => None
  | x :: r => if i =? 0 then Some x else get_nth r (N.pred i)
  end.

Record obuf := { o_items : list N; o_loc : N; o_nbytes : N }.

(* `if self.nbytes - self.loc < isz: return` in uint32 arithmetic *)
Definition o_room (o : obuf) (isz : N) : bool :=
  negb (w32 (Z.of_N (o_nbytes o) - Z.of_N (o_loc o)) <? isz).

Definition o_write (isz : N) (o : obuf) (v : N) : res obuf :=
  if o_room o isz then
    if (o_loc o + isz <=? o_nbytes o) && (o_loc o mod isz =? 0) then
      Ok {| o_items := set_nth (o_items o) (o_loc o / isz) (if isz =? 4 then N.land v m32 else N.land v m64);
            o_loc := w32 (Z.of_N (o_loc o + isz)); o_nbytes := o_nbytes o |}
    else OOB
  else Ok o.

(* read_int / read_long: value (sign-extended to int64) and the new cursor *)
Definition o_read (isz : N) (o : obuf) : res (Z * obuf) :=
  if o_room o isz then
    if (o_loc o + isz <=? o_nbytes o) && (o_loc o mod isz =? 0) then
      match get_nth (o_items o) (o_loc o / isz) with
      | Some v => Ok ((if isz =? 4 then s32 v else s64 v),
                      {| o_items := o_items o; o_loc := w32 (Z.of_N (o_loc o + isz)); o_nbytes := o_nbytes o |})
      | None => OOB
      end
    else OOB
  else Ok (0%Z, o).

Definition o_seek (o : obuf) (loc : N) : obuf := {| o_items := o_items o; o_loc := loc; o_nbytes := o_nbytes o |}.

Fixpoint o_write_all (isz : N) (o : obuf) (vs : list N) : res obuf :=
  match vs with
  | [] => Ok o
  | v :: r => match o_write isz o v with Ok o' => o_write_all isz o' r | e => e end
  end.

(* ---------------- delta_binary_unpack as a state machine ---------------- *)
Inductive phase := PBlock | PMini (ws : bytes) (i : N) (md : Z) | PVals (ws : bytes) (i : N) (md : Z) (hasw : bool) (j : N) | PDone.

Record ust := { u_ph : phase; u_inp : bytes; u_used : N; u_o : obuf; u_value : Z; u_count : Z }.

Section DU.
  Variables (isz vpm mpb : N).
  (* the miniblock reader (a parameter so that Impl/CHw.v can plug in the x86 reading of the undefined shifts) *)
  Variable reader : bytes -> N -> N -> res (list N * bytes * N).

  Definition u_done (s : ust) : bool := match u_ph s with PDone => true | _ => false end.

  Definition with_ph (s : ust) (p : phase) : ust :=
    {| u_ph := p; u_inp := u_inp s; u_used := u_used s; u_o := u_o s; u_value := u_value s; u_count := u_count s |}.

  (* value += d (int64, wraps); count -= 1; return when count <= 0 *)
  Definition after_value (s : ust) (o : obuf) (d : Z) (next : phase) : ust :=
    let c := (u_count s - 1)%Z in
    {| u_ph := if (c <=? 0)%Z then PDone else next; u_inp := u_inp s; u_used := u_used s; u_o := o;
       u_value := s64 (w64 (u_value s + d)); u_count := c |}.

  Definition u_step (s : ust) : res ust :=
    match u_ph s with
    | PDone => Ok s
    | PBlock =>
      match c_varint (u_inp s) with
      | Ok (zmd, k) =>
        let inp1 := dropN k (u_inp s) in
        (* file_obj.read(miniblock_per_block): the slice is clamped, the cursor is not *)
        Ok {| u_ph := PMini (takeN mpb inp1) 0 (s64 (c_zigzag_long zmd)); u_inp := dropN mpb inp1;
              u_used := u_used s + k + mpb; u_o := u_o s; u_value := u_value s; u_count := u_count s |}
      | OOB => OOB | UB => UB | Fuel => Fuel
      end
    | PMini ws i md =>
      if mpb <=? i then Ok (with_ph s PBlock)
      else
        match get_nth ws i with
        | None => OOB                              (* bitwidths[i] behind the clamped slice *)
        | Some w =>
          if w =? 0 then Ok (with_ph s (PVals ws i md false 0))
          else
            let temp := o_loc (u_o s) in
            if (1 <? u_count s)%Z then
              match reader (u_inp s) w vpm with
              | Ok (ds, inp', k) =>
                match o_write_all isz (u_o s) ds with
                | Ok o' => Ok {| u_ph := PVals ws i md true 0; u_inp := inp'; u_used := u_used s + k;
                                 u_o := o_seek o' temp; u_value := u_value s; u_count := u_count s |}
                | OOB => OOB | UB => UB | Fuel => Fuel
                end
              | OOB => OOB | UB => UB | Fuel => Fuel
              end
            else Ok (with_ph s (PVals ws i md true 0))
        end
    | PVals ws i md hasw j =>
      if vpm <=? j then Ok (with_ph s (PMini ws (i + 1) md))
      else if hasw then
        match o_read isz (u_o s) with
        | Ok (temp, o1) =>
          let o2 := o_seek o1 (w32 (Z.of_N (o_loc o1) - Z.of_N isz)) in
          match o_write isz o2 (w64 (u_value s)) with
          | Ok o3 => Ok (after_value s o3 (md + temp) (PVals ws i md hasw (j + 1)))
          | OOB => OOB | UB => UB | Fuel => Fuel
          end
        | OOB => OOB | UB => UB | Fuel => Fuel
        end
      else
        match o_write isz (u_o s) (w64 (u_value s)) with
        | Ok o3 => Ok (after_value s o3 md (PVals ws i md hasw (j + 1)))
        | OOB => OOB | UB => UB | Fuel => Fuel
        end
    end.
End DU.

(* result: the items of the output buffer, input bytes consumed, output cursor *)
Definition c_delta_binary_unpack_gen (reader : bytes -> N -> N -> res (list N * bytes * N))
  (input : bytes) (items : list N) (nbytes : N) (longval : bool)
  : res (list N * N * N) :=
  let isz := if longval then 8 else 4 in
  match c_varint input with
  | Ok (bs, k1) => let i1 := dropN k1 input in
  match c_varint i1 with
  | Ok (mpb, k2) => let i2 := dropN k2 i1 in
  match c_varint i2 with
  | Ok (cnt, k3) => let i3 := dropN k3 i2 in
  match c_varint i3 with
  | Ok (zf, k4) => let i4 := dropN k4 i3 in
    if mpb =? 0 then UB           (* block_size // miniblock_per_block, cdivision *)
    else
      let vpm := bs / mpb in
      let s0 := {| u_ph := PBlock; u_inp := i4; u_used := k1 + k2 + k3 + k4;
                   u_o := {| o_items := items; o_loc := 0; o_nbytes := nbytes |};
                   u_value := s64 (c_zigzag_long zf); u_count := s64 cnt |} in
      match run_loop u_done (u_step isz vpm mpb reader) big_fuel s0 with
      | Ok s => Ok (o_items (u_o s), u_used s, o_loc (u_o s))
      | OOB => OOB | UB => UB | Fuel => Fuel
      end
  | OOB => OOB | UB => UB | Fuel => Fuel end
  | OOB => OOB | UB => UB | Fuel => Fuel end
  | OOB => OOB | UB => UB | Fuel => Fuel end
  | OOB => OOB | UB => UB | Fuel => Fuel end.

Definition c_delta_binary_unpack := c_delta_binary_unpack_gen c_delta_read_bitpacked.
