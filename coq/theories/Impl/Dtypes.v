(* Impl model of fastparquet's metadata-only dtype prediction (property C17).

   converted_types.typemap(se, md)        schema element (+ its pandas-metadata entry) -> dtype
   api.ParquetFile._dtypes(categories)    per top-level field: datetime unit/timezone from the pandas metadata,
                                          int/bool fields become nullable extension dtypes (float64 when
                                          pandas_nulls=False) iff some non-empty row group lacks statistics or
                                          reports null_count > 0 - the chunk is looked up BY POSITION i of the
                                          field -, INT96 -> M8[ns]; then 'category' for check_categories(categories)
   api.check_categories                   which fields are read as categoricals for a `categories` argument
   api._pre_allocate / dataframe.empty    `realise`: the dtype a column allocated for a predicted dtype ends up with
   api.count / len                        row counts from the row-group metadata

   Text (column names, the numpy_type / pandas_type entries of the pandas metadata) is a byte string; the
   code's `"Int" in s` tests are `contains`.  The dictionaries of converted_types are the `tables` record;
   `pinned` is their content on the pinned tree, re-derived from the live modules on every run
   (translators/tables2coq.py -> PqGen.GenTables, coq/genproofs/TablesAgree.v).                          *)
From Coq Require Import NArith List Bool String Ascii.
From Pq Require Import Base.Bytes.
Import ListNotations.

Definition b_ (s : string) : bytes := map N_of_ascii (list_ascii_of_string s).

Fixpoint prefixb (p s : bytes) : bool :=
  match p, s with
  | [], _ => true
  | x :: p', y :: s' => N.eqb x y && prefixb p' s'
  | _ :: _, [] => false
  end.
(* Python `p in s` on str *)
Fixpoint contains (p s : bytes) : bool :=
  prefixb p s || match s with [] => false | _ :: s' => contains p s' end.

Fixpoint assoc {K V} (eqb : K -> K -> bool) (k : K) (l : list (K * V)) : option V :=
  match l with [] => None | (k', v) :: r => if eqb k k' then Some v else assoc eqb k r end.
Definition memb (x : bytes) (l : list bytes) : bool := existsb (bytes_eqb x) l.

(* ------------------------------------------------------------------------------------------ *)
(* dtypes                                                                                      *)
(* ------------------------------------------------------------------------------------------ *)
Inductive tunit := Us | Ums | Uus | Uns.
Inductive dt :=
| DInt (signed : bool) (bits : N)      (* numpy int8..int64 / uint8..uint64 *)
| DBool                                (* numpy bool *)
| DFloat (bits : N)                    (* numpy float16/32/64 *)
| DObj                                 (* numpy object *)
| DS (n : N)                           (* numpy 'S<n>' fixed bytes *)
| DM8 (u : tunit) (tz : bool)          (* datetime64[u], tz-aware (DatetimeTZDtype) when tz *)
| Dm8 (u : tunit)                      (* timedelta64[u] *)
| DNInt (signed : bool) (bits : N)     (* pandas Int8..Int64 / UInt8..UInt64 *)
| DNBool                               (* pandas boolean *)
| DCat.                                (* 'category' *)

Definition tunit_eqb (a b : tunit) : bool :=
  match a, b with Us, Us | Ums, Ums | Uus, Uus | Uns, Uns => true | _, _ => false end.
Definition dt_eqb (a b : dt) : bool :=
  match a, b with
  | DInt s w, DInt s' w' => Bool.eqb s s' && N.eqb w w'
  | DBool, DBool | DObj, DObj | DNBool, DNBool | DCat, DCat => true
  | DFloat w, DFloat w' => N.eqb w w'
  | DS n, DS n' => N.eqb n n'
  | DM8 u z, DM8 u' z' => tunit_eqb u u' && Bool.eqb z z'
  | Dm8 u, Dm8 u' => tunit_eqb u u'
  | DNInt s w, DNInt s' w' => Bool.eqb s s' && N.eqb w w'
  | _, _ => false
  end.

(* numpy dtype.kind == "M" (a masked or categorical dtype has another kind) *)
Definition kind_M (d : dt) : bool := match d with DM8 _ _ => true | _ => false end.

(* outcome of a Python expression that may raise *)
Inductive res := ROk (d : dt) | RErr.

(* ------------------------------------------------------------------------------------------ *)
(* the dictionaries of converted_types.py                                                     *)
(* ------------------------------------------------------------------------------------------ *)
Record tables := mk_tables {
  t_simple : list (N * dt);                 (* converted_types.simple: parquet Type -> dtype *)
  t_complex : list (N * dt);                (* converted_types.complex: ConvertedType -> dtype *)
  t_nullable : list (dt * dt);              (* converted_types.nullable: numpy dtype -> masked dtype *)
  t_pandas_nullable : list (bytes * dt);    (* converted_types.pandas_nullable: name -> masked dtype *)
  t_npnames : list (bytes * dt)             (* np.dtype(text) for the numpy_type texts of pandas metadata *)
}.

(* every table sorted by key: the text translators/tables2coq.py prints for the pinned tree *)
Definition pinned : tables := mk_tables
  [(0, DBool); (1, DInt true 32); (2, DInt true 64); (3, DS 12); (4, DFloat 32); (5, DFloat 64); (6, DObj); (7, DObj)]%N
  [(0, DObj); (5, DFloat 64); (6, DM8 Uns false); (7, Dm8 Ums); (8, Dm8 Uus); (9, DM8 Ums false); (10, DM8 Uus false); (11, DInt false 8); (12, DInt false 16); (13, DInt false 32); (14, DInt false 64); (15, DInt true 8); (16, DInt true 16); (17, DInt true 32); (18, DInt true 64)]%N
  [(DBool, DNBool); (DInt false 8, DNInt false 8); (DInt false 16, DNInt false 16); (DInt false 32, DNInt false 32); (DInt false 64, DNInt false 64); (DInt true 8, DNInt true 8); (DInt true 16, DNInt true 16); (DInt true 32, DNInt true 32); (DInt true 64, DNInt true 64)]%N
  [(b_ "Int16", DNInt true 16); (b_ "Int32", DNInt true 32); (b_ "Int64", DNInt true 64); (b_ "Int8", DNInt true 8); (b_ "UInt16", DNInt false 16); (b_ "UInt32", DNInt false 32); (b_ "UInt64", DNInt false 64); (b_ "UInt8", DNInt false 8); (b_ "boolean", DNBool)]%N
  [(b_ "bool", DBool); (b_ "datetime64[ms]", DM8 Ums false); (b_ "datetime64[ns]", DM8 Uns false); (b_ "datetime64[s]", DM8 Us false); (b_ "datetime64[us]", DM8 Uus false); (b_ "float16", DFloat 16); (b_ "float32", DFloat 32); (b_ "float64", DFloat 64); (b_ "int16", DInt true 16); (b_ "int32", DInt true 32); (b_ "int64", DInt true 64); (b_ "int8", DInt true 8); (b_ "object", DObj); (b_ "timedelta64[ms]", Dm8 Ums); (b_ "timedelta64[ns]", Dm8 Uns); (b_ "timedelta64[s]", Dm8 Us); (b_ "timedelta64[us]", Dm8 Uus); (b_ "uint16", DInt false 16); (b_ "uint32", DInt false 32); (b_ "uint64", DInt false 64); (b_ "uint8", DInt false 8)]%N.

(* ------------------------------------------------------------------------------------------ *)
(* converted_types.typemap                                                                    *)
(* ------------------------------------------------------------------------------------------ *)
Record selem := mk_se {
  se_type : N;                 (* parquet physical Type 0..7 *)
  se_conv : option N;          (* converted_type *)
  se_ts : option tunit;        (* logicalType.TIMESTAMP.unit when present *)
  se_len : N;                  (* type_length *)
  se_group : bool              (* num_children not in [None, 0] *)
}.
(* one entry of pandas_metadata['columns'] *)
Record mdent := mk_md { md_numpy : bytes; md_pandas : bytes; md_tz : bool (* metadata.timezone is set *) }.

Definition lookup_name (l : list (bytes * dt)) (k : bytes) : res :=
  match assoc bytes_eqb k l with Some d => ROk d | None => RErr end.

Definition typemap (T : tables) (se : selem) (md : option mdent) : res :=
  let by_complex (c : N) := match assoc N.eqb c (t_complex T) with Some d => ROk d | None => ROk DObj end in
  let rest :=
    match se_ts se with
    | Some u => ROk (DM8 u false)                     (* _logical_to_time_dtype *)
    | None =>
      match se_conv se with
      | None => match assoc N.eqb (se_type se) (t_simple T) with
                | Some d => ROk d
                | None => ROk (DS (se_len se))        (* np.dtype("S%i" % se.type_length) *)
                end
      | Some c =>
        match md with
        | Some m => if contains (b_ "time") (md_numpy m) then lookup_name (t_npnames T) (md_numpy m)   (* np.dtype(md["numpy_type"]) *)
                    else by_complex c
        | None => by_complex c
        end
      end
    end in
  match md with
  | Some m =>
    if contains (b_ "Int") (md_numpy m) || bytes_eqb (md_numpy m) (b_ "boolean")
    then lookup_name (t_pandas_nullable T) (md_numpy m)
    else if contains (b_ "Int") (md_pandas m) || bytes_eqb (md_pandas m) (b_ "boolean")
    then lookup_name (t_pandas_nullable T) (md_pandas m)
    else rest
  | None => rest
  end.

(* ------------------------------------------------------------------------------------------ *)
(* null evidence from the row-group statistics                                                *)
(* ------------------------------------------------------------------------------------------ *)
(* per row group: num_rows and, per column chunk IN FILE ORDER, its statistics:
   None = no Statistics struct; Some None = struct without null_count; Some (Some n) = null_count n *)
Record rgroup := mk_rg { rg_rows : N; rg_chunks : list (option (option N)) }.

(*  num_nulls = 0
    for rg in self.row_groups:
        if rg.num_rows == 0: continue
        st = rg.columns[i].meta_data.statistics          # IndexError when there is no i-th chunk
        if st is None: num_nulls = True; break
        if st.null_count is None or st.null_count: num_nulls = True; break
   absent_counts = true is the repaired tree (fix: commit): statistics WITHOUT a null_count cannot exclude nulls;
   the pinned tree (`if st.null_count:`) took an absent null_count for zero (absent_counts = false).           *)
(* `loc` = the chunk the code looks at (field_chunk below); None = the field has no chunk of its own name: unknown *)
Fixpoint null_evidence_gen (absent_counts : bool) (loc : option nat) (rgs : list rgroup) : option bool :=
  match rgs with
  | [] => Some false
  | rg :: r =>
    if N.eqb (rg_rows rg) 0 then null_evidence_gen absent_counts loc r
    else match loc with
         | None => Some true
         | Some i =>
           match nth_error (rg_chunks rg) i with
           | None => None
           | Some None => Some true
           | Some (Some None) => if absent_counts then Some true else null_evidence_gen absent_counts loc r
           | Some (Some (Some n)) => if N.eqb n 0 then null_evidence_gen absent_counts loc r else Some true
           end
         end
  end.
Definition null_evidence := null_evidence_gen true.

(* WHICH chunk holds the statistics of the field `name` that sits at position i among the top-level fields.
   paths = '.'.join(path_in_schema) of the chunks of the first row group, in file order.
   by_name = true is the repaired tree (fix: commit): the chunk with the field's own path; the pinned tree took the
   chunk at the field's POSITION, which is another column's chunk as soon as a group field (MAP, struct) with several
   leaves precedes it (by_name = false). *)
Fixpoint index_of (x : bytes) (l : list bytes) : option nat :=
  match l with
  | [] => None
  | y :: r => if bytes_eqb x y then Some O else option_map S (index_of x r)
  end.
Definition field_chunk (by_name : bool) (paths : list bytes) (name : bytes) (i : nat) : option nat :=
  if by_name then index_of name paths else Some i.

(* the repairs made by fix: commits, as switches (all false = the pinned tree) *)
Record rules := mk_rules { r_int96_tz : bool; r_absent_counts : bool; r_cat_md : bool; r_by_name : bool }.
Definition repaired : rules := mk_rules true true true true.
Definition pinned_rules : rules := mk_rules false false false false.

(* ------------------------------------------------------------------------------------------ *)
(* ParquetFile._dtypes: one top-level field                                                    *)
(* ------------------------------------------------------------------------------------------ *)
(* tt = md.get(col, {}).get("numpy_type"); if tt and ("int" in tt or "bool" in tt) [and pandas_type != "categorical"]: continue
   cat_md = true is the repaired tree (fix: commit): for a categorical entry numpy_type describes the CODES, so it says
   nothing about the values; the pinned tree trusted it (cat_md = false) *)
Definition md_claims_gen (cat_md : bool) (md : option mdent) : bool :=
  match md with
  | Some m => negb (match md_numpy m with [] => true | _ => false end) &&
              (contains (b_ "int") (md_numpy m) || contains (b_ "bool") (md_numpy m)) &&
              negb (cat_md && bytes_eqb (md_pandas m) (b_ "categorical"))
  | None => false
  end.
Definition md_claims_int_or_bool := md_claims_gen true.
Definition md_cat_skip (cat_md : bool) (md : option mdent) : bool :=
  match md with Some m => cat_md && bytes_eqb (md_pandas m) (b_ "categorical") | None => false end.

(* what _dtypes does with the dtype `d` typemap gave, as a function of the FACTS it looks at:
     md_np   the field's numpy_type looked up as a dtype (None: the field has no pandas-metadata entry)
     tz      the entry has a timezone;  claims  md_claims_gen;  cat_skip  md_cat_skip;  ev  null_evidence (None: IndexError)
   int96_tz = true is the repaired tree (fix: commit): an INT96 field with a timezone entry is predicted tz-aware
   like the INT64 ones; the pinned tree answered 'M8[ns]' whatever the metadata says (int96_tz = false). *)
Definition adjust (T : tables) (int96_tz has_md pandas_nulls : bool) (d : dt)
           (md_np : option res) (tz claims cat_skip : bool) (ev : option bool) : res :=
  if kind_M d then
    (* if self.pandas_metadata [and md[col]["pandas_type"] != "categorical"]: dt = md[col]["numpy_type"]
       (KeyError when the field has no entry; cat_skip = repaired tree and the entry is a categorical one) *)
    let r1 := if has_md then match md_np with Some r => if cat_skip then ROk d else r | None => RErr end else ROk d in
    match r1 with
    | RErr => RErr
    | ROk d1 =>
      if tz then match d1 with DM8 u _ => ROk (DM8 u true) | _ => RErr end   (* pd.Series([], dtype=dt).dt.tz_... *)
      else ROk d1
    end
  else
    match assoc dt_eqb d (t_nullable T) with
    | Some dn =>
      if has_md && claims then ROk d
      else match ev with
           | None => RErr
           | Some true => if pandas_nulls then ROk dn else ROk (DFloat 64)
           | Some false => ROk d
           end
    | None =>
      if dt_eqb d (DS 12) then ROk (DM8 Uns (int96_tz && tz)) else ROk d
    end.

Definition md_tzflag (md : option mdent) : bool := match md with Some m => md_tz m | None => false end.

Definition base_dtype_gen (R : rules) (T : tables) (has_md pandas_nulls : bool) (se : selem) (md : option mdent)
           (loc : option nat) (rgs : list rgroup) : res :=
  if se_group se then ROk DObj else
  match typemap T se md with
  | RErr => RErr
  | ROk d => adjust T (r_int96_tz R) has_md pandas_nulls d
                    (option_map (fun m => lookup_name (t_npnames T) (md_numpy m)) md)
                    (md_tzflag md) (md_claims_gen (r_cat_md R) md) (md_cat_skip (r_cat_md R) md)
                    (null_evidence_gen (r_absent_counts R) loc rgs)
  end.

Definition base_dtype := base_dtype_gen repaired.
Definition base_dtype_old := base_dtype_gen pinned_rules.

(* ------------------------------------------------------------------------------------------ *)
(* check_categories and the final prediction                                                  *)
(* ------------------------------------------------------------------------------------------ *)
(* categ = self.categories (names, from the pandas metadata); arg = the `categories` argument
   (None / the names of a list or the keys of a dict); None = TypeError *)
Definition check_categories (has_md : bool) (categ : list bytes) (nrg : N) (arg : option (list bytes)) : option (list bytes) :=
  if negb has_md then Some (match arg with Some l => l | None => [] end)
  else match arg with
       | None => Some categ
       | Some cs =>
         if existsb (fun c => negb (memb c categ)) cs && (1 <? nrg)%N then None
         else Some (filter (fun k => memb k cs) categ ++ filter (fun c => negb (memb c categ)) cs)
       end.

Definition predict (T : tables) (has_md pandas_nulls : bool) (se : selem) (md : option mdent)
           (loc : option nat) (rgs : list rgroup) (as_category : bool) : res :=
  match base_dtype T has_md pandas_nulls se md loc rgs with
  | RErr => RErr                           (* _base_dtype is computed for every field first *)
  | ROk d => if as_category then ROk DCat else ROk d
  end.

(* ------------------------------------------------------------------------------------------ *)
(* allocation: dataframe.empty                                                                *)
(* ------------------------------------------------------------------------------------------ *)
(* a data column: 'category' and masked dtypes are built as such; otherwise np.empty(0, dtype=t.base) in a
   DataFrame: pandas keeps every numpy dtype except 'S<n>' (object); a datetime column whose name is in
   `timezones` (= the fields with a timezone entry) is localised *)
Definition realise (in_timezones : bool) (d : dt) : dt :=
  match d with
  | DS _ => DObj
  | DM8 u _ => DM8 u in_timezones
  | _ => d
  end.

(* an index column.  Repaired tree (fix: commit, masked_index = true): dataframe.empty builds the index on a masked
   array like a masked column; the pinned tree's _pre_allocate.get_type(index=True) turned a masked dtype into "int64" *)
Definition realise_index_gen (masked_index : bool) (in_timezones : bool) (d : dt) : dt :=
  match d with
  | DNInt _ _ | DNBool => if masked_index then d else DInt true 64
  | _ => realise in_timezones d
  end.
Definition realise_index := realise_index_gen true.
Definition realise_index_old := realise_index_gen false.

(* ------------------------------------------------------------------------------------------ *)
(* which columns and which index a read returns (api._get_index, to_pandas, _pre_allocate)      *)
(* ------------------------------------------------------------------------------------------ *)
(* the `index` argument of to_pandas *)
Inductive idxarg := INone | IFalse | INames (l : list bytes).

(* stored = pandas_metadata['index_columns'] as (name, is a {"kind": "range"} entry) *)
Definition get_index (stored : list (bytes * bool)) (arg : idxarg) : list bytes :=
  match arg with
  | INone => map fst (filter (fun e => negb (snd e)) stored)
  | IFalse => []
  | INames l => l
  end.

(* columns = request or self.columns + list(self.cats); columns += [i for i in index if i not in columns];
   _pre_allocate: cols = [c for c in columns if c not in index] *)
Definition frame_columns (cols cats : list bytes) (request : option (list bytes)) (idx : list bytes) : list bytes :=
  let want := match request with Some l => l | None => cols ++ cats end in
  filter (fun c => negb (memb c idx)) (want ++ filter (fun i => negb (memb i want)) idx).

(* ------------------------------------------------------------------------------------------ *)
(* counts                                                                                     *)
(* ------------------------------------------------------------------------------------------ *)
(* count() = sum(rg.num_rows for rg in row_groups); to_pandas allocates that many rows *)
Definition count (rows : list N) : N := fold_left N.add rows 0%N.

(* ------------------------------------------------------------------------------------------ *)
(* the writer's side of the dtype mapping (writer.typemap / revmap, encoding.DECODE_TYPEMAP)   *)
(* ------------------------------------------------------------------------------------------ *)
Definition pinned_w_typemap : list (bytes * (N * option N)) :=
  [(b_ "Float16", (4, None)); (b_ "Float32", (4, None)); (b_ "Float64", (5, None)); (b_ "Int16", (1, Some 16)); (b_ "Int32", (1, None)); (b_ "Int64", (2, None)); (b_ "Int8", (1, Some 15)); (b_ "UInt16", (1, Some 12)); (b_ "UInt32", (1, Some 13)); (b_ "UInt64", (2, Some 14)); (b_ "UInt8", (1, Some 11)); (b_ "bool", (0, None)); (b_ "boolean", (0, None)); (b_ "float16", (4, None)); (b_ "float32", (4, None)); (b_ "float64", (5, None)); (b_ "int16", (1, Some 16)); (b_ "int32", (1, None)); (b_ "int64", (2, None)); (b_ "int8", (1, Some 15)); (b_ "uint16", (1, Some 12)); (b_ "uint32", (1, Some 13)); (b_ "uint64", (2, Some 14)); (b_ "uint8", (1, Some 11))]%N.
Definition pinned_w_revmap : list (N * dt) :=
  [(1, DInt true 32); (2, DInt true 64); (4, DFloat 32); (5, DFloat 64)]%N.
Definition pinned_decode_typemap : list (N * dt) :=
  [(1, DInt true 32); (2, DInt true 64); (3, DS 12); (4, DFloat 32); (5, DFloat 64)]%N.

(* the documented canonical form of a written dtype after a round trip (default options, with the pandas
   metadata the writer stores): float16 is widened to float32, the Float32/Float64 extension dtypes come back
   as numpy floats, everything else comes back as itself *)
Definition canon_written : list (bytes * dt) :=
  [(b_ "Float16", DFloat 32); (b_ "Float32", DFloat 32); (b_ "Float64", DFloat 64);
   (b_ "Int16", DNInt true 16); (b_ "Int32", DNInt true 32); (b_ "Int64", DNInt true 64); (b_ "Int8", DNInt true 8);
   (b_ "UInt16", DNInt false 16); (b_ "UInt32", DNInt false 32); (b_ "UInt64", DNInt false 64); (b_ "UInt8", DNInt false 8);
   (b_ "bool", DBool); (b_ "boolean", DNBool);
   (b_ "float16", DFloat 32); (b_ "float32", DFloat 32); (b_ "float64", DFloat 64);
   (b_ "int16", DInt true 16); (b_ "int32", DInt true 32); (b_ "int64", DInt true 64); (b_ "int8", DInt true 8);
   (b_ "uint16", DInt false 16); (b_ "uint32", DInt false 32); (b_ "uint64", DInt false 64); (b_ "uint8", DInt false 8)].

Definition res_eqb (a b : res) : bool :=
  match a, b with ROk x, ROk y => dt_eqb x y | RErr, RErr => true | _, _ => false end.

(* a column of dtype `name` written by writer.find_type and described by the metadata entry
   {numpy_type: name, pandas_type: name} is predicted as its canonical form *)
Definition written_roundtrip_ok (T : tables) (w : list (bytes * (N * option N))) : bool :=
  forallb (fun e => match assoc bytes_eqb (fst e) canon_written with
                    | Some d => res_eqb (typemap T (mk_se (fst (snd e)) (snd (snd e)) None 0 false)
                                                 (Some (mk_md (fst e) (fst e) false))) (ROk d)
                    | None => false
                    end) w.

(* the array dtype PLAIN decoding produces for a physical type is the dtype predicted for a bare column of it *)
Definition decode_consistent (T : tables) (dec : list (N * dt)) : bool :=
  forallb (fun e => match assoc N.eqb (fst e) (t_simple T) with Some d => dt_eqb d (snd e) | None => false end) dec.
