(* IMPL MODEL (writer.py convert + find_type, times='int64' / 'int96'): pandas value -> physical value, per value, for
   the time and integer dtype classes.  numpy int64 arithmetic wraps; NaT is the pattern -2^63 and is kept by every branch
   (`np.where(vals == nat, nat, vals * factor)`).  The read side is Impl/RConvert.v; Proofs/WConvertProofs.v joins the two.

     datetime64[s]   -> INT64 TIMESTAMP_MILLIS, value * 1000          datetime64[ms] -> INT64 TIMESTAMP_MILLIS
     datetime64[us]  -> INT64 TIMESTAMP_MICROS                        datetime64[ns] -> INT64 logical TIMESTAMP(NANOS)
     times='int96'   -> INT96: ns of the day (low 8 bytes), Julian day (high 4 bytes), from the value in ns
     timedelta64[s|ms|us] -> INT64 TIME_MICROS scaled to us;  timedelta64[ns] -> value // 1000 (speedups.time_shift, NaT kept)
     int8..int64 / uint8..uint64 -> INT32 / INT64 with INT_w / UINT_w (astype to the physical width)                     *)
From Coq Require Import NArith ZArith List Bool.
From Pq Require Import Base.Bytes Base.ListX Format.Phys Format.Page Impl.RConvert.
Import ListNotations.
Local Open Scope Z_scope.

Inductive wunit := WS | WMs | WUs | WNs.
Definition NATZ : Z := - 2 ^ 63.
Definition w64 (z : Z) : N := wrap 64 z.                      (* the int64 pattern of a numpy result *)

(* what find_type decides for a datetime64[u] column with times='int64': converted type, logical unit, factor *)
Definition dt_conv (u : wunit) : option Z := match u with WS | WMs => Some 9 | WUs => Some 10 | WNs => None end.
Definition dt_lunit (u : wunit) : option tunit := match u with WNs => Some TNs | _ => None end.
Definition dt_factor (u : wunit) : Z := match u with WS => 1000 | _ => 1 end.
Definition dt_stored_unit (u : wunit) : tunit := match u with WS | WMs => TMs | WUs => TUs | WNs => TNs end.

(* convert(), branch dtype.kind == "M": v = the int64 view of the cell (NATZ = NaT) *)
Definition w_datetime (u : wunit) (v : Z) : value :=
  VNum (if dt_factor u =? 1 then w64 v else if v =? NATZ then w64 NATZ else w64 (v * dt_factor u)).

(* timedelta64[u] -> TIME_MICROS *)
Definition w_timedelta (u : wunit) (v : Z) : value :=
  VNum (match u with
        | WUs => w64 v
        | WNs => if v =? NATZ then w64 NATZ else w64 (v / 1000)                     (* time_shift *)
        | WMs => if v =? NATZ then w64 NATZ else w64 (v * 1000)
        | WS => if v =? NATZ then w64 NATZ else w64 (v * 1000000)
        end).

(* times='int96': vals = astype('M8[ns]') (NaT kept by numpy; out of range is numpy's business), day / ns of day *)
Definition ns_per (u : wunit) : Z := match u with WS => 1000000000 | WMs => 1000000 | WUs => 1000 | WNs => 1 end.
Definition w_int96 (u : wunit) (v : Z) : value :=
  let ns := if v =? NATZ then NATZ else sint 64 (w64 (v * ns_per u)) in      (* astype('M8[ns]') keeps NaT *)
  let day := ns / DAY_NS + 2440588 in
  let nod := ns mod DAY_NS in
  VNum (Z.to_N nod + 2 ^ 64 * wrap 32 day)%N.

(* integers: astype(int32 / int64) of an intN / uintN value z (z within the dtype's range) *)
Definition int_phys (w : Z) : ptype := if w <=? 32 then INT32 else INT64.
Definition int_conv (signed : bool) (w : Z) : option Z :=
  Some (match signed, w with
        | false, 8 => 11 | false, 16 => 12 | false, 32 => 13 | false, _ => 14
        | true, 8 => 15 | true, 16 => 16 | true, 32 => 17 | true, _ => 18 end).
Definition w_int (w : Z) (z : Z) : value := VNum (wrap (if w <=? 32 then 32 else 64) z).

(* what the instant / duration of a cell is, in nanoseconds / microseconds, for the statements *)
Definition tunit_ns (u : tunit) : Z := match u with TMs => 1000000 | TUs => 1000 | TNs => 1 end.
Definition lval_instant_ns (l : lval) : option Z := match l with LTimestamp u t => Some (t * tunit_ns u) | _ => None end.

(* the reader on a stored value: convert_model, cast into the column, denotation *)
Definition read_back (t : ptype) (conv : option Z) (lunit : option tunit) (v : value) : option (option lval) :=
  match convert_model t conv lunit 0 v with
  | ROk c => Some (denote (column_of conv c))
  | _ => None
  end.
