(* Impl model of fastparquet.util.update_custom_metadata and of the in-place footer rewrite
   of fastparquet.writer.update_file_custom_metadata (property C16).

   update_custom_metadata: `kvm` is the list of KeyValue entries, `kvm_keys` a parallel list of
   keys; for each (key, value) of the update dict, in dict order:
     key in kvm_keys, value None      -> delete entry at kvm_keys.index(key) from both lists
     key in kvm_keys, value not None  -> replace entry at that index
     key absent,      value not None  -> append
     key absent,      value None      -> nothing
   Keys and values only need decidable equality; they are a section variable so that the
   correspondence check may number them.                                                        *)
From Coq Require Import NArith List Bool Arith.
From Pq Require Import Base.Bytes.
Import ListNotations.

Section KV.
  Variables K V : Type.
  Variable keqb : K -> K -> bool.

  Definition kv := list (K * V).

  (* kvm_keys.index(key) *)
  Fixpoint index_of (k : K) (l : kv) : option nat :=
    match l with
    | [] => None
    | (k', _) :: r => if keqb k k' then Some O else option_map S (index_of k r)
    end.

  Fixpoint remove_at {A} (i : nat) (l : list A) : list A :=
    match l, i with
    | [], _ => []
    | _ :: r, O => r
    | x :: r, S j => x :: remove_at j r
    end.

  Fixpoint replace_at {A} (i : nat) (y : A) (l : list A) : list A :=
    match l, i with
    | [], _ => []
    | _ :: r, O => y :: r
    | x :: r, S j => x :: replace_at j y r
    end.

  Definition update1 (l : kv) (u : K * option V) : kv :=
    let '(k, ov) := u in
    match index_of k l, ov with
    | Some i, None => remove_at i l
    | Some i, Some v => replace_at i (k, v) l
    | None, Some v => l ++ [(k, v)]
    | None, None => l
    end.

  Definition update_kv (old : kv) (u : list (K * option V)) : kv := fold_left update1 u old.

  Fixpoint lookup (k : K) (l : kv) : option V :=
    match l with
    | [] => None
    | (k', v) :: r => if keqb k k' then Some v else lookup k r
    end.

  Fixpoint lookup_u (k : K) (u : list (K * option V)) : option (option V) :=
    match u with
    | [] => None
    | (k', v) :: r => if keqb k k' then Some v else lookup_u k r
    end.
End KV.

Arguments index_of {K V}. Arguments update1 {K V}. Arguments update_kv {K V}.
Arguments lookup {K V}. Arguments lookup_u {K V}. Arguments remove_at {A}. Arguments replace_at {A}.

(* ------------------------------------------------------------------------------------------
   File framing and the in-place rewrite.  A Parquet file is  data ++ footer ++ le32 |footer| ++ "PAR1"
   (data starts with the leading magic; for a _metadata file data = "PAR1").
   OS semantics modelled: seek(pos) + write(b) overwrites in place and extends the file when it
   runs past the end, bytes beyond the written range survive; truncate() cuts at the cursor.     *)

Open Scope N_scope.

Definition os_write (file : bytes) (pos : nat) (b : bytes) : bytes :=
  firstn pos file ++ b ++ skipn (pos + length b) file.

Definition os_truncate (file : bytes) (pos : nat) : bytes := firstn pos file.

Definition framed (data footer : bytes) : bytes :=
  data ++ footer ++ le_enc 4 (N.of_nat (length footer)) ++ magic.

(* where the code finds the footer: is_metadata_file -> 4, else (len-8) - le32 at len-8 *)
Definition footer_loc (is_md : bool) (file : bytes) : option nat :=
  if is_md then Some 4%nat else
  if Nat.ltb (length file) 8 then None else
  let l0 := (length file - 8)%nat in
  match le_dec 4 (skipn l0 file) with
  | Some (sz, _) => if N.leb sz (N.of_nat l0) then Some (l0 - N.to_nat sz)%nat else None
  | None => None
  end.

(* the tail the code hands to the thrift parser: f.seek(loc); f.read()  *)
Definition footer_and_tail (loc : nat) (file : bytes) : bytes := skipn loc file.

(* f.seek(loc); write(footer); write(le32 len); write(magic); truncate()   -- the repaired code *)
Definition rewrite_footer (truncate : bool) (file : bytes) (loc : nat) (footer' : bytes) : bytes :=
  let tail := footer' ++ le_enc 4 (N.of_nat (length footer')) ++ magic in
  let f1 := os_write file loc tail in
  if truncate then os_truncate f1 (loc + length tail) else f1.
