(* Impl/PartNames.v - which partition columns a handle REPORTS (property C17), on top of the C08 model of the paths
   (Impl/Partition.v: api.paths_to_cats / _path_to_cats / core.read_row_group's partition cells).

   api.ParquetFile._read_partitions:  file_scheme, cats = paths_to_cats(paths of the handle's row groups, partition_meta)
   api.ParquetFile.partition_names:   list(cats) if cats or row_groups else list(partition_meta)
   api.ParquetFile.columns:           the stored columns (dtypes without the cats)
   The partition columns a read delivers are the cells core.read_row_group assigns for `cat in cats` (read_files).
   What the paths SHOW decides both: a single part file opened alone, a sub-directory, a list of files without root= show
   fewer levels than the pandas metadata of the dataset records - the metadata is only the fallback for a handle left
   without any row group.                                                                                            *)
From Coq Require Import NArith ZArith Bool Ascii String Arith List.
From Pq Require Import Base.Bytes Impl.Partition.
Import ListNotations.

Section PartNames.
  Variables F T D : Type.
  Notation value := (value F T D).

  (* `meta` = the names recorded in the pandas metadata (partition_columns), `nrg` = number of row groups of the handle *)
  Definition partition_names (part : res (scheme * list (str * list value))) (nrg : nat) (meta : list str) : res (list str) :=
    match part with
    | Ok (_, c) => match c, nrg with
                   | [], O => Ok meta
                   | _, _ => Ok (map fst c)
                   end
    | VErr => VErr
    | OErr => OErr
    end.

  (* the pinned variant seeded as C17-7: the metadata first *)
  Definition partition_names_meta_first (part : res (scheme * list (str * list value))) (meta : list str) : res (list str) :=
    match part with
    | Ok (_, c) => match meta with [] => Ok (map fst c) | _ => Ok meta end
    | VErr => VErr
    | OErr => OErr
    end.
End PartNames.
