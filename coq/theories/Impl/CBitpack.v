(* IMPL model of cencoding.read_bitpacked / read_bitpacked1 as compiled (cencoding.c):
   uint32 count/mask/data, unsigned char left/right, unchecked input reads, output writes guarded
   by `outptr <= endptr`.  Shift counts >= 32 on 32-bit operands are undefined behaviour. *)
From Coq Require Import NArith ZArith List Bool.
From Pq Require Import Base.Bytes Base.Err.
Import ListNotations.
Open Scope bool_scope.
Open Scope N_scope.

(* what a decoder leaves behind: values stored (in order), input bytes consumed, output bytes written *)
Record dres := { d_vals : list N; d_used : N; d_written : N }.

Record bst := { data : N; left : N; right : N; inp : bytes; used : N; cnt : N; out : list N; nout : N }.

Section RB.
  Variables (w isz cap mask : N).

  Definition rb_done (s : bst) : bool := cnt s =? 0.

  Definition rb_step (s : bst) : res bst :=
    if 8 <? right s then
      Ok {| data := N.shiftr (data s) 8; left := (left s + 248) mod 256; right := right s - 8;
            inp := inp s; used := used s; cnt := cnt s; out := out s; nout := nout s |}
    else if (Z.of_N (left s) - Z.of_N (right s) <? Z.of_N w)%Z then
      match inp s with
      | [] => OOB
      | b :: r =>
        if 32 <=? left s then UB else
        Ok {| data := N.lor (data s) (N.land (N.shiftl b (left s)) (N.ones 32));
              left := (left s + 8) mod 256; right := right s;
              inp := r; used := used s + 1; cnt := cnt s; out := out s; nout := nout s |}
      end
    else
      let v0 := N.land (N.shiftr (data s) (right s)) mask in
      let v := if isz =? 4 then v0 else N.land v0 255 in   (* outptr[0] = ... keeps the low byte *)
      let fits := isz * nout s + isz <=? cap in
      Ok {| data := data s; left := left s; right := (right s + w) mod 256;
            inp := inp s; used := used s; cnt := cnt s - 1;
            out := if fits then v :: out s else out s;
            nout := if fits then nout s + 1 else nout s |}.
End RB.

(* read_bitpacked1(file_obj, int32 count, o): np.unpackbits into a byte-per-value output *)
Fixpoint bits8 (k : nat) (b : N) : list N :=
  match k with O => [] | S k' => N.land b 1 :: bits8 k' (N.shiftr b 1) end.

Fixpoint rb1_bytes (inp : bytes) (nfull : N) (acc : list N) (fuelbytes : bytes) : res (list N * bytes) :=
  if nfull =? 0 then Ok (acc, inp) else
  match fuelbytes with
  | [] => OOB
  | _ :: f =>
    match inp with
    | [] => OOB
    | b :: r => rb1_bytes r (nfull - 1) (rev_append (bits8 8 b) acc) f
    end
  end.

Definition c_read_bitpacked1 (inp : bytes) (count cap : N) : res dres :=
  let c := if cap <? count then cap else count in
  match rb1_bytes inp (c / 8) [] inp with
  | Ok (acc, r) =>
    if c mod 8 =? 0 then Ok {| d_vals := rev_append acc []; d_used := (count + 7) / 8; d_written := c |}
    else match r with
         | [] => OOB
         | b :: _ => Ok {| d_vals := rev_append (rev_append (bits8 (N.to_nat (c mod 8)) b) acc) [];
                           d_used := (count + 7) / 8; d_written := c |}
         end
  | OOB => OOB | UB => UB | Fuel => Fuel
  end.

(* count = (header >> 1) * 8 as uint32, header an int32 *)
Definition rb_count (header : Z) : N := Z.to_N ((Z.shiftr header 1 * 8) mod 2 ^ 32)%Z.

Definition c_read_bitpacked (input : bytes) (header : Z) (w : N) (cap isz : N) : res dres :=
  let count := rb_count header in
  if (w =? 1) && (isz =? 1) then
    (* count is passed on as an int32 *)
    if 2 ^ 31 <=? count then UB else c_read_bitpacked1 input count cap
  else
    if 32 <=? w then UB            (* 1 << width *)
    else
      match input with
      | [] => OOB                   (* data = inptr[0] is read before the loop, whatever count is *)
      | b0 :: r =>
        let s0 := {| data := b0; left := 8; right := 0; inp := r; used := 1; cnt := count; out := []; nout := 0 |} in
        match run_loop rb_done (rb_step w isz cap (N.ones w)) big_fuel s0 with
        | Ok s => Ok {| d_vals := rev_append (out s) []; d_used := used s; d_written := isz * nout s |}
        | OOB => OOB | UB => UB | Fuel => Fuel
        end
      end.
