(* IMPL model of cencoding.read_unsigned_var_int / encode_unsigned_varint / zigzag_* as compiled
   (cencoding.c): uint64 result, int32 shift growing by 7 with no length limit, unchecked reads. *)
From Coq Require Import NArith ZArith List Bool.
From Pq Require Import Base.Bytes Base.Err.
Import ListNotations.
Open Scope bool_scope.
Open Scope N_scope.

Definition m64 : N := N.ones 64.
Definition m32 : N := N.ones 32.

(* returns (value, bytes consumed).  Reading past the buffer: OOB.  Shift count >= 64: UB. *)
Fixpoint c_varint_f (inp : bytes) (shift acc used : N) : res (N * N) :=
  match inp with
  | [] => OOB
  | b :: r =>
    if 64 <=? shift then UB else
    let acc' := N.lor acc (N.land (N.shiftl (N.land b 127) shift) m64) in
    if N.land b 128 =? 0 then Ok (acc', used + 1)
    else c_varint_f r (shift + 7) acc' (used + 1)
  end.
Definition c_varint (inp : bytes) : res (N * N) := c_varint_f inp 0 0 0.

(* encode_unsigned_varint(uint64 x, NumpyIO o): write_byte is bounds-checked and silently drops
   bytes that do not fit.  `cap` = bytes left in o.  Returns the bytes written (in order). *)
Fixpoint c_enc_varint_f (fuel : nat) (x : N) (cap : N) (acc : bytes) : bytes * N :=
  match fuel with
  | O => (rev_append acc [], cap)
  | S f =>
    if 127 <? x then
      let b := N.lor (N.land x 127) 128 in
      if cap =? 0 then c_enc_varint_f f (N.shiftr x 7) cap acc
      else c_enc_varint_f f (N.shiftr x 7) (cap - 1) (b :: acc)
    else
      if cap =? 0 then (rev_append acc [], cap) else (rev_append (x :: acc) [], cap - 1)
  end.
(* x is a uint64: at most 10 groups *)
Definition c_enc_varint (x cap : N) : bytes * N := c_enc_varint_f 11 (N.land x m64) cap [].

(* zigzag_long(uint64 n) -> int64 : (n >> 1) ^ -(n & 1)   (two's complement pattern as N) *)
Definition c_zigzag_long (n : N) : N :=
  N.lxor (N.shiftr n 1) (if N.land n 1 =? 0 then 0 else m64).
Definition c_zigzag_int (n : N) : N := N.land (c_zigzag_long n) m32.
(* long_zigzag(int64 n) -> uint64 : (n << 1) ^ (n >> 63)   (n given as its 64-bit pattern) *)
Definition c_long_zigzag (n : N) : N :=
  N.lxor (N.land (N.shiftl n 1) m64) (if N.testbit n 63 then m64 else 0).
