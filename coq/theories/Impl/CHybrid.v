(* IMPL model of cencoding.read_rle_bit_packed_hybrid as compiled: loop while
   io_obj.loc - start < length and o.loc < o.nbytes; length == 0 means "read a 4-byte length". *)
From Coq Require Import NArith ZArith List Bool.
From Pq Require Import Base.Bytes Base.Bits Base.Err Base.ListX Impl.CVarint Impl.CBitpack Impl.CRle.
Import ListNotations.
Open Scope bool_scope.
Open Scope N_scope.

Definition to_i32 (n : N) : Z :=
  let m := N.land n (N.ones 32) in
  if m <? 2 ^ 31 then Z.of_N m else (Z.of_N m - 2 ^ 32)%Z.

(* clock: one element per run (every run consumes at least one byte of input) *)
Fixpoint c_hybrid_f (clock : bytes) (w length isz : N) (inp : bytes) (used : N) (cap written : N) (acc : list N)
  : res dres :=
  if (used <? length) && (written <? cap) then
    match clock with
    | [] => Fuel
    | _ :: f =>
      match c_varint inp with
      | Ok (h, k) =>
        let header := to_i32 h in
        let inp1 := dropN k inp in
        let r := if Z.even header then c_read_rle inp1 header w (cap - written) isz
                 else c_read_bitpacked inp1 header w (cap - written) isz in
        match r with
        | Ok d => c_hybrid_f f w length isz (dropN (d_used d) inp1) (used + k + d_used d) cap
                    (written + d_written d) (rev_append (d_vals d) acc)
        | OOB => OOB | UB => UB | Fuel => Fuel
        end
      | OOB => OOB | UB => UB | Fuel => Fuel
      end
    end
  else Ok {| d_vals := rev_append acc []; d_used := used; d_written := written |}.

(* length = 0: NumpyIO.read_int (checked: returns 0 without advancing when fewer than 4 bytes are left) *)
Definition c_read_hybrid (input : bytes) (w length cap isz : N) : res dres :=
  if length =? 0 then
    if lenN input <? 4 then Ok {| d_vals := []; d_used := 0; d_written := 0 |}
    else
      let len := le2n (firstn 4 input) in
      let inp := dropN 4 input in
      match c_hybrid_f (0 :: inp) w len isz inp 0 cap 0 [] with
      | Ok d => Ok {| d_vals := d_vals d; d_used := 4 + d_used d; d_written := d_written d |}
      | e => e
      end
  else c_hybrid_f (0 :: input) w length isz input 0 cap 0 [].
