(* SPEC: DELTA_BINARY_PACKED (Encodings.md).
     header := varint(block size) varint(miniblocks per block) varint(total count) zigzag-varint(first value)
     block  := zigzag-varint(min delta)  one width byte per miniblock  miniblocks
   each miniblock = (block size / miniblocks per block) values of (delta - min delta), bit-packed
   with its own width, the last one padded to full length; miniblocks not needed for the values
   have a width byte but no body.  Deltas wrap in the two's-complement width of the type. *)
From Coq Require Import NArith ZArith List.
From Pq Require Import Base.Bytes Base.Bits Base.ListX Codec.Varint Codec.Zigzag Codec.Bitpack.
Import ListNotations.

Definition wrap (bits : N) (z : Z) : Z := to_signed bits (of_signed bits z).

Open Scope N_scope.

(* ---- decoder ------------------------------------------------------------------------------ *)

(* add the deltas ds to the running value, pushing every new value on acc *)
Definition delta_accum (bits : N) (md : Z) (ds : list N) (st : Z * list Z) : Z * list Z :=
  fold_left (fun (s : Z * list Z) d => let v := wrap bits (fst s + md + Z.of_N d)%Z in (v, v :: snd s)) ds st.

(* miniblocks of one block: widths still to process, remaining count of deltas *)
Fixpoint delta_minis (bits vpm : N) (md : Z) (ws : list N) (rem : N) (inp : bytes) (st : Z * list Z)
  : option (N * bytes * (Z * list Z)) :=
  match ws with
  | [] => Some (rem, inp, st)
  | w :: ws' =>
    if rem =? 0 then Some (rem, inp, st)       (* unneeded miniblock: width byte only *)
    else
      let nb := vpm * w / 8 in
      if lenN inp <? nb then None else
      let k := N.min vpm rem in
      let ds := bp_dec w k (takeN nb inp) in
      delta_minis bits vpm md ws' (rem - k) (dropN nb inp) (delta_accum bits md ds st)
  end.

Fixpoint delta_blocks (clock : list N) (bits vpm mpb : N) (rem : N) (inp : bytes) (st : Z * list Z)
  : option (bytes * (Z * list Z)) :=
  if rem =? 0 then Some (inp, st) else
  match clock with
  | [] => None
  | _ :: f =>
    match uleb_dec inp with
    | None => None
    | Some (zmd, r) =>
      if lenN r <? mpb then None else
      let ws := takeN mpb r in
      match delta_minis bits vpm (zz_dec zmd) ws rem (dropN mpb r) st with
      | None => None
      | Some (rem', r', st') => delta_blocks f bits vpm mpb rem' r' st'
      end
    end
  end.

Definition delta_dec (bits : N) (inp : bytes) : option (list Z * bytes) :=
  match uleb_dec inp with
  | None => None
  | Some (bs, r1) =>
  match uleb_dec r1 with
  | None => None
  | Some (mpb, r2) =>
  match uleb_dec r2 with
  | None => None
  | Some (total, r3) =>
  match uleb_dec r3 with
  | None => None
  | Some (zfirst, r4) =>
    if orb (mpb =? 0) (bs / mpb =? 0) then None else
    if total =? 0 then Some ([], r4) else
    let first := wrap bits (zz_dec zfirst) in
    match delta_blocks (0 :: r4) bits (bs / mpb) mpb (total - 1) r4 (first, [first]) with
    | None => None
    | Some (rest, (_, acc)) => Some (rev_append acc [], rest)
    end
  end end end end.

(* ---- encoder (one deterministic choice among the legal layouts: minimal widths) ------------- *)

Fixpoint chunks {A} (fuel : nat) (n : nat) (l : list A) : list (list A) :=
  match fuel with
  | O => []
  | S f => match l with [] => [] | _ => firstn n l :: chunks f n (skipn n l) end
  end.

Fixpoint zpad (n : nat) (l : list N) : list N :=
  match n with
  | O => []
  | S k => match l with [] => 0 :: zpad k [] | x :: r => x :: zpad k r end
  end.

Definition lmax (l : list N) : N := fold_left N.max l 0.
Definition zmin (l : list Z) (d : Z) : Z := fold_left Z.min l d.

Fixpoint deltas (bits : N) (prev : Z) (vs : list Z) : list Z :=
  match vs with [] => [] | v :: r => wrap bits (v - prev) :: deltas bits v r end.

Definition enc_mini (vpm : N) (m : list N) : N * bytes :=
  let w := N.size (lmax m) in (w, bp_enc w (zpad (N.to_nat vpm) m)).

Definition enc_block (bits vpm mpb : N) (blk : list Z) : bytes :=
  match blk with
  | [] => []
  | d0 :: _ =>
    let md := zmin blk d0 in
    let adj := map (fun d => of_signed bits (d - md)) blk in
    let minis := map (enc_mini vpm) (chunks (length adj) (N.to_nat vpm) adj) in
    uleb_enc (zz_enc md) ++ zpad (N.to_nat mpb) (map fst minis) ++ concat (map snd minis)
  end.

Definition delta_enc (bits bs mpb : N) (vs : list Z) : bytes :=
  let first := match vs with [] => 0%Z | v :: _ => v end in
  let ds := match vs with [] => [] | v :: r => deltas bits v r end in
  uleb_enc bs ++ uleb_enc mpb ++ uleb_enc (N.of_nat (length vs)) ++ uleb_enc (zz_enc first)
  ++ concat (map (enc_block bits (bs / mpb) mpb) (chunks (length ds) (N.to_nat bs) ds)).
