(* SPEC: zigzag mapping of signed integers onto unsigned ones (0,-1,1,-2,... -> 0,1,2,3,...). *)
From Coq Require Import NArith ZArith.
Open Scope Z_scope.

Definition zz_enc (z : Z) : N := Z.to_N (if z <? 0 then - 2 * z - 1 else 2 * z).
Definition zz_dec (n : N) : Z :=
  if (Z.of_N n mod 2 =? 0) then Z.of_N n / 2 else - ((Z.of_N n + 1) / 2).

(* two's complement views used by the fixed-width codecs *)
Definition to_signed (bits : N) (n : N) : Z :=
  if (Z.of_N n <? 2 ^ (Z.of_N bits - 1)) then Z.of_N n else Z.of_N n - 2 ^ Z.of_N bits.
Definition of_signed (bits : N) (z : Z) : N := Z.to_N (z mod 2 ^ Z.of_N bits).
