(* SPEC: RLE / bit-packing hybrid (Encodings.md):
     run            := bit-packed-run | rle-run
     bit-packed-run := varint((number of values / 8) << 1 | 1)  bit-packed values (multiple of 8)
     rle-run        := varint(run length << 1)  value in ceil(width/8) little-endian bytes
   A reader is told how many values it wants; padding values of the last bit-packed run are dropped. *)
From Coq Require Import NArith List.
From Pq Require Import Base.Bytes Base.Bits Base.ListX Codec.Varint Codec.Bitpack.
Import ListNotations.
Open Scope N_scope.

Inductive hrun := RLE (count : N) (v : N) | BP (vals : list N).

Definition vbytes (w : N) : N := (w + 7) / 8.

Fixpoint zeros (n : nat) : list N := match n with O => [] | S k => 0 :: zeros k end.
Definition pad8 (vs : list N) : list N :=
  vs ++ zeros (Nat.modulo (8 - Nat.modulo (length vs) 8) 8).

Definition run_vals (r : hrun) : list N :=
  match r with RLE c v => repeat v (N.to_nat c) | BP vs => pad8 vs end.

Definition run_enc (w : N) (r : hrun) : bytes :=
  match r with
  | RLE c v => uleb_enc (2 * c) ++ le_enc (N.to_nat (vbytes w)) v
  | BP vs => let p := pad8 vs in
             uleb_enc (2 * (N.of_nat (length p) / 8) + 1) ++ bp_enc w p
  end.

Definition hyb_enc (w : N) (rs : list hrun) : bytes := concat (map (run_enc w) rs).

(* Decoder: collect `n` values.  strict = the whole bit-packed run (padding included) must be
   present; lenient = only the bytes holding the values still wanted must be present. Returns the
   values and the input after the last run that was touched.  `clock` is fuel (one element per
   run; every run consumes at least its header byte, so the input itself is enough fuel). *)
Fixpoint hyb_dec_f (clock : list N) (strict : bool) (w n : N) (inp : bytes) (acc : list N) : option (list N * bytes) :=
  if n =? 0 then Some (rev_append acc [], inp) else
  match clock with
  | [] => None
  | _ :: f =>
    match uleb_dec inp with
    | None => None
    | Some (h, r) =>
      if h mod 2 =? 0 then
        let c := h / 2 in
        match le_dec (N.to_nat (vbytes w)) r with
        | None => None
        | Some (v, r') => let k := N.min c n in hyb_dec_f f strict w (n - k) r' (repN v k acc)
        end
      else
        let g := h / 2 in
        let k := N.min (8 * g) n in
        let nb := g * w in
        let have := lenN r in
        if (if strict then have <? nb else have <? bp_nbytes w k) then None
        else
          hyb_dec_f f strict w (n - k) (dropN nb r) (rev_append (bp_dec w k (takeN nb r)) acc)
    end
  end.

Definition hyb_dec (strict : bool) (w n : N) (inp : bytes) : option (list N * bytes) :=
  hyb_dec_f (0 :: inp) strict w n inp [].

(* with the 4-byte little-endian length prefix used by data page v1 levels *)
Definition hyb_enc_len (w : N) (rs : list hrun) : bytes :=
  let b := hyb_enc w rs in le_enc 4 (N.of_nat (length b)) ++ b.
Definition hyb_dec_len (strict : bool) (w n : N) (inp : bytes) : option (list N * bytes) :=
  match le_dec 4 inp with
  | None => None
  | Some (len, r) =>
    if lenN r <? len then None else
    match hyb_dec strict w n (takeN len r) with
    | Some (vs, _) => Some (vs, dropN len r)
    | None => None
    end
  end.

(* tail-recursive encoders for the extracted code (proved equal in Proofs/CodecX.v) *)
Definition pad8_x (vs : list N) : list N :=
  app_tr vs (zeros (Nat.modulo (8 - Nat.modulo (N.to_nat (lenN vs mod 8)) 8) 8)).
Definition run_enc_x (w : N) (r : hrun) : bytes :=
  match r with
  | RLE c v => uleb_enc (2 * c) ++ le_enc (N.to_nat (vbytes w)) v
  | BP vs => let p := pad8_x vs in
             uleb_enc (2 * (lenN p / 8) + 1) ++ bp_enc_x w p
  end.
Definition hyb_enc_x (w : N) (rs : list hrun) : bytes := concat_tr (map (run_enc_x w) rs).
Definition hyb_enc_len_x (w : N) (rs : list hrun) : bytes :=
  let b := hyb_enc_x w rs in le_enc 4 (lenN b) ++ b.
