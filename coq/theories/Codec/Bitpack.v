(* SPEC: bit packing, "values packed from the least significant bit of each byte to the most
   significant bit" (Encodings.md, RLE/bit-packing hybrid, note 1).  A byte string is read as the
   little-endian natural S; value number k of width w is bits [k*w, (k+1)*w) of S. *)
From Coq Require Import NArith List.
From Pq Require Import Base.Bytes Base.Bits.
Import ListNotations.
Open Scope N_scope.

Definition bp_get (w S k : N) : N := (S / 2 ^ (k * w)) mod 2 ^ w.

(* the natural whose w-bit digits are vs *)
Fixpoint bp_num (w : N) (vs : list N) : N :=
  match vs with [] => 0 | v :: r => v + 2 ^ w * bp_num w r end.

Definition bp_nbytes (w n : N) : N := (n * w + 7) / 8.

Definition bp_enc (w : N) (vs : list N) : bytes :=
  le_enc (N.to_nat (bp_nbytes w (N.of_nat (length vs)))) (bp_num w vs).

(* reference decoder (list of the first n digits) *)
Definition bp_dec_ref (w : N) (n : nat) (S : N) : list N :=
  map (fun k => bp_get w S (N.of_nat k)) (seq 0 n).

(* executable decoder: peel one digit at a time (linear; shiftr on binary N is cheap) *)
Definition bp_unpack_step (w : N) (st : N * list N) : N * list N :=
  (N.shiftr (fst st) w, N.land (fst st) (N.ones w) :: snd st).
Definition bp_unpack (w n S : N) : list N :=
  rev_append (snd (N.iter n (bp_unpack_step w) (S, []))) [].

Definition bp_dec (w n : N) (b : bytes) : list N := bp_unpack w n (le2n_tr b).

(* tail-recursive packer for the extracted code: digits consumed from the last one *)
Definition bp_num_tr (w : N) (vs : list N) : N :=
  fold_left (fun acc v => v + N.shiftl acc w) (rev_append vs []) 0.
Definition le_enc_tr (k : N) (n : N) : bytes :=
  rev_append (snd (N.iter k (fun st : N * list N => (N.shiftr (fst st) 8, N.land (fst st) 255 :: snd st)) (n, []))) [].
Definition len_tr {A} (l : list A) : N := fold_left (fun a _ => N.succ a) l 0.
Definition bp_enc_x (w : N) (vs : list N) : bytes :=
  le_enc_tr (bp_nbytes w (len_tr vs)) (bp_num_tr w vs).
