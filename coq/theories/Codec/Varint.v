(* SPEC: ULEB128 unsigned varint (Thrift compact protocol / Parquet Encodings.md "varint-encode").
   Written from the format documents only. *)
From Coq Require Import NArith List.
From Pq Require Import Base.Bytes.
Import ListNotations.
Open Scope N_scope.

(* low 7 bits first, continuation bit 0x80 on every byte but the last *)
Fixpoint uleb_enc_f (fuel : nat) (n : N) : bytes :=
  match fuel with
  | O => [n mod 128]
  | S f => if n <? 128 then [n] else (128 + n mod 128) :: uleb_enc_f f (n / 128)
  end.

Definition uleb_enc (n : N) : bytes := uleb_enc_f (N.to_nat (N.size n)) n.

Fixpoint uleb_dec (l : bytes) : option (N * bytes) :=
  match l with
  | [] => None
  | b :: r =>
    if b <? 128 then Some (b, r)
    else match uleb_dec r with
         | Some (v, r') => Some ((b - 128) + 128 * v, r')
         | None => None
         end
  end.
