(* SPEC: PLAIN encoding of BOOLEAN (bit-packed, LSB first), BYTE_ARRAY (4-byte LE length + bytes)
   and fixed-width little-endian values. *)
From Coq Require Import NArith List.
From Pq Require Import Base.Bytes Base.Bits Base.ListX Codec.Bitpack.
Import ListNotations.
Open Scope N_scope.

Definition bool_enc (bs : list N) : bytes := bp_enc 1 bs.       (* bs: 0/1 *)
Definition bool_dec (n : N) (b : bytes) : list N := bp_dec 1 n b.

Definition ba_enc (items : list bytes) : bytes :=
  concat (map (fun x => le_enc 4 (N.of_nat (length x)) ++ x) items).

Fixpoint ba_dec (n : nat) (b : bytes) : option (list bytes * bytes) :=
  match n with
  | O => Some ([], b)
  | S k =>
    match le_dec 4 b with
    | None => None
    | Some (len, r) =>
      if lenN r <? len then None else
      match ba_dec k (dropN len r) with
      | Some (xs, rest) => Some (takeN len r :: xs, rest)
      | None => None
      end
    end
  end.

Definition fixed_enc (k : nat) (vs : list N) : bytes := concat (map (le_enc k) vs).
Fixpoint fixed_dec (k : nat) (n : nat) (b : bytes) : option (list N * bytes) :=
  match n with
  | O => Some ([], b)
  | S m =>
    match le_dec k b with
    | None => None
    | Some (v, r) =>
      match fixed_dec k m r with Some (vs, rest) => Some (v :: vs, rest) | None => None end
    end
  end.
