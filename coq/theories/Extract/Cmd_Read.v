(* pqref commands for Dataset/Read.v (property C06).
     (read_prog RGS COLS PCOLS INDEX OPS RD)
        RGS   = ((id reported_num_rows (rowid ...)) ...)   one entry per row group; equal ids = structurally equal descriptors
        COLS, PCOLS, INDEX = (#name ...)
        OPS   = ((slice START STOP STEP) | (pick I) | pickle | copy | deepcopy ...)   START.. = () or (int)
        RD    = (to_pandas C IDX) | (iter C IDX) | (head N C IDX) | count | len
                C = () for columns=None or ((#name ...));  IDX = default | false | (#name ...)
     -> (ok (frames ((cols) (index) (row ...)) ...)) | (ok (nat n)) | (fail Error)     a row is an int, or () when never written
     (py_slice LEN START STOP STEP) -> (ok (positions ...)) | (fail ValueError)
     (py_pick LEN I) -> (ok pos) | (fail IndexError)
     (np_slice LEN LO HI) -> (START N)                     PyPrelude.np_slice: numpy basic slicing v[LO:HI] of a length-LEN array
     (write_slice LO HI (x ...) (cell ...)) -> (ok (cell ...)) | (fail ShapeError)   cell = () unwritten or (x); PyPrelude.write_slice
     (spec_prog ...) same arguments as read_prog with PARTS = ((rowid ...) ...) in place of RGS: ReadSpec.spec_run    *)
From Coq Require Import NArith ZArith List String Bool.
From Pq Require Import Base.Bytes Extract.Sx Dataset.Read Dataset.ReadSpec Dataset.PyPrelude.
Import ListNotations.
Open Scope string_scope.

Definition rgd : Type := (N * nat * list N)%type.
Definition rgd_eqb (a b : rgd) : bool :=
  match a, b with (i, n, r), (j, m, s) => N.eqb i j && Nat.eqb n m && list_eqb N.eqb r s end.
Definition rgd_rows (d : rgd) : list N := snd d.
Definition rgd_nrows (d : rgd) : nat := snd (fst d).

Definition is_sym (s : string) (x : sx) : bool := match x with SB b => bytes_eqb b (sym s) | _ => false end.

Definition as_rgd (s : sx) : option rgd :=
  match s with
  | SL [i; n; r] =>
    match as_N i, as_nat n, as_list_of as_N r with
    | Some i, Some n, Some r => Some (i, n, r)
    | _, _, _ => None
    end
  | _ => None
  end.

Definition as_names := as_list_of as_bytes.

Definition as_hop (s : sx) : option hop :=
  match s with
  | SL [c; a; b; k] =>
    if is_sym "slice" c then
      match as_opt as_Z a, as_opt as_Z b, as_opt as_Z k with
      | Some a, Some b, Some k => Some (HSlice (mk_slice a b k))
      | _, _, _ => None
      end
    else None
  | SL [c; i] => if is_sym "pick" c then option_map HPick (as_Z i)
                 else if is_sym "keep" c then
                   option_map (fun zs => HKeep (map (fun z => negb (Z.eqb z 0)) zs)) (as_list_of as_Z i)
                 else None
  | _ => if is_sym "pickle" s then Some HPickle
         else if is_sym "copy" s then Some HCopy
         else if is_sym "deepcopy" s then Some HDeepcopy else None
  end.

Definition as_idx (s : sx) : option (idxopt (list N)) :=
  if is_sym "default" s then Some IdxDefault
  else if is_sym "false" s then Some IdxFalse
  else option_map IdxNames (as_names s).

Definition as_ropts (c i : sx) : option (ropts (list N)) :=
  match as_opt as_names c, as_idx i with
  | Some c, Some i => Some (mk_ropts c i)
  | _, _ => None
  end.

Definition as_rd (s : sx) : option (rd (list N)) :=
  match s with
  | SL [c; a; b] =>
    if is_sym "to_pandas" c then option_map RToPandas (as_ropts a b)
    else if is_sym "iter" c then option_map RIter (as_ropts a b)
    else None
  | SL [c; n; a; b] =>
    if is_sym "head" c then
      match as_nat n, as_ropts a b with Some n, Some o => Some (RHead n o) | _, _ => None end
    else None
  | _ => if is_sym "count" s then Some RCount else if is_sym "len" s then Some RLen else None
  end.

Definition s_err (e : err) : sx :=
  SL [S_ "fail"; S_ (match e with
                     | IndexError => "IndexError" | ValueError => "ValueError" | ShapeError => "ShapeError"
                     | PickleError => "PickleError" | UnboundLocalError => "UnboundLocalError" end)].

Definition s_frame (f : frame N (list N)) : sx :=
  SL [slist SB (f_cols f); slist SB (f_index f);
      slist (fun r => match r with Some x => sN x | None => SL [] end) (f_rows f)].

Definition s_out (r : res (out N (list N))) : sx :=
  match r with
  | Fail e => s_err e
  | Ok (OFrames fs) => SL [S_ "ok"; SL (S_ "frames" :: map s_frame fs)]
  | Ok (ONat n) => SL [S_ "ok"; SL [S_ "nat"; snat n]]
  end.

Definition h_read_prog (a : list sx) : sx :=
  match a with
  | [rgs; cols; pcols; index; ops; r] =>
    match as_list_of as_rgd rgs, as_names cols, as_names pcols, as_names index, as_list_of as_hop ops, as_rd r with
    | Some rgs, Some cols, Some pcols, Some index, Some ops, Some r =>
      s_out (run_prog rgd_eqb bytes_eqb rgd_rows rgd_nrows (fun l : list rgd => l) (fun b => Some b)
                 (mk_handle rgs cols pcols index) ops r)
    | _, _, _, _, _, _ => Sx.err "args"
    end
  | _ => Sx.err "arity"
  end.

Definition h_spec_prog (a : list sx) : sx :=
  match a with
  | [parts; cols; pcols; index; ops; r] =>
    match as_list_of (as_list_of as_N) parts, as_names cols, as_names pcols, as_names index, as_list_of as_hop ops, as_rd r with
    | Some parts, Some cols, Some pcols, Some index, Some ops, Some r =>
      s_out (spec_run bytes_eqb cols pcols index parts ops r)
    | _, _, _, _, _, _ => Sx.err "args"
    end
  | _ => Sx.err "arity"
  end.

Definition h_py_slice (a : list sx) : sx :=
  match a with
  | [len; a; b; k] =>
    match as_nat len, as_opt as_Z a, as_opt as_Z b, as_opt as_Z k with
    | Some len, Some a, Some b, Some k =>
      match slice_indices len (mk_slice a b k) with
      | Some idx => SL [S_ "ok"; slist snat idx]
      | None => s_err ValueError
      end
    | _, _, _, _ => Sx.err "args"
    end
  | _ => Sx.err "arity"
  end.

Definition h_py_pick (a : list sx) : sx :=
  match a with
  | [len; i] =>
    match as_nat len, as_Z i with
    | Some len, Some i =>
      match py_pick i (seq 0 len) with Some p => SL [S_ "ok"; snat p] | None => s_err IndexError end
    | _, _ => Sx.err "args"
    end
  | _ => Sx.err "arity"
  end.

Definition h_np_slice (a : list sx) : sx :=
  match a with
  | [len; lo; hi] =>
    match as_Z len, as_Z lo, as_Z hi with
    | Some l, Some x, Some y => let '(st, n) := np_slice l x y in SL [SZ st; SZ n]
    | _, _, _ => Sx.err "args"
    end
  | _ => Sx.err "arity"
  end.

Definition h_write_slice (a : list sx) : sx :=
  match a with
  | [lo; hi; xs; out] =>
    match as_Z lo, as_Z hi, as_list_of as_N xs, as_list_of (as_opt as_N) out with
    | Some x, Some y, Some xs, Some out =>
      match write_slice x y xs out with
      | Some r => SL [S_ "ok"; slist (sopt sN) r]
      | None => s_err ShapeError
      end
    | _, _, _, _ => Sx.err "args"
    end
  | _ => Sx.err "arity"
  end.

Definition table : list (string * handler) :=
  [("read_prog", h_read_prog); ("spec_prog", h_spec_prog); ("py_slice", h_py_slice); ("py_pick", h_py_pick);
   ("np_slice", h_np_slice); ("write_slice", h_write_slice)].
