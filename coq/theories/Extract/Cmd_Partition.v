(* pqref commands for Impl/Partition.v (C08).  External conversions are instantiated by an
   oracle table the harness computes with the real Python functions:
     text -> (float(x) , np.datetime64(x), pd.to_datetime(x, format=PATH_DATE_FMT), pd.Timestamp(x), pd.Timedelta(x))
   each as an optional canonical text; floats, timestamps and timedeltas ARE their canonical text
   in this instantiation (F = T = D = str).                                                      *)
From Coq Require Import NArith ZArith List String Ascii Bool.
From Pq Require Import Base.Bytes Impl.Partition Impl.PyPaths Impl.PartMeta Extract.Sx.
Import ListNotations.
Open Scope string_scope.

Definition str_of_bytes (b : list N) : str := map ascii_of_N b.
Definition bytes_of_str (s : str) : list N := map N_of_ascii s.
Definition as_str (s : sx) : option str := option_map str_of_bytes (as_bytes s).
Definition sstr (s : str) : sx := SB (bytes_of_str s).

Definition oracle := list (str * (option str * option str * option str * option str * option str * option str * option str)).
Definition o_get (o : oracle) (x : str) :=
  match alist_get x o with Some r => r | None => (None, None, None, None, None, None, None) end.
Definition o_float64 (o : oracle) x := match o_get o x with (a, _, _, _, _, _, _) => a end.
Definition o_float32 (o : oracle) x := match o_get o x with (_, _, _, _, _, a, _) => a end.
Definition o_float (o : oracle) (single : bool) x := if single then o_float32 o x else o_float64 o x.
Definition o_tnp0 (o : oracle) x := match o_get o x with (_, a, _, _, _, _, _) => a end.
Definition o_ttz (o : oracle) x := match o_get o x with (_, _, _, _, _, _, a) => a end.
Definition o_tnp (o : oracle) (tz : bool) x := if tz then o_ttz o x else o_tnp0 o x.
Definition o_tfmt (o : oracle) x := match o_get o x with (_, _, a, _, _, _, _) => a end.
Definition o_tpd (o : oracle) x := match o_get o x with (_, _, _, a, _, _, _) => a end.
Definition o_delta (o : oracle) x := match o_get o x with (_, _, _, _, a, _, _) => a end.

(* canonical float text: repr, integral values written with all digits and ".0" *)
Definition xf_eq_Z (f : str) (z : Z) : bool :=
  str_eqb f (show_Z z ++ s_ ".0")%list || (Z.eqb z 0 && str_eqb f (s_ "-0.0")).

Definition xvalue := value str str str.
(* == on the external values: canonical texts are equal, except that NaN != NaN and NaT != NaT
   (Python sets keep every NaN / NaT object) *)
Definition xfeqb (a b : str) : bool := negb (str_eqb a (s_ "nan")) && str_eqb a b.
Definition xteqb (a b : str) : bool := negb (str_eqb a (s_ "NaT")) && str_eqb a b.
Definition xveqb := veqb str str str xfeqb xteqb xteqb xf_eq_Z.
(* the harness hands over time values as a pair of texts: iso NUL str *)
Definition xshow_time_iso (t : str) : str := match split_on Ascii.zero t with a :: _ => a | [] => t end.
Definition xshow_time_str (t : str) : str := match split_on Ascii.zero t with _ :: b :: _ => b | _ => t end.
Definition xshow := show str str str (fun f => f) xshow_time_iso xshow_time_str.

Definition as_opt_str (s : sx) : option (option str) := as_opt as_str s.
Definition as_oracle (s : sx) : option oracle :=
  as_list_of (fun e => match e with
                       | SL [x; a; b; c; d; e'; f32; ttz] =>
                         match as_str x, as_opt_str a, as_opt_str b, as_opt_str c, as_opt_str d, as_opt_str e', as_opt_str f32, as_opt_str ttz with
                         | Some x, Some a, Some b, Some c, Some d, Some e', Some f32, Some ttz => Some (x, (a, b, c, d, e', f32, ttz))
                         | _, _, _, _, _, _, _, _ => None
                         end
                       | _ => None
                       end) s.

Fixpoint as_value_f (fuel : nat) (s : sx) : option xvalue :=
  match fuel with
  | O => None
  | S n =>
    match s with
    | SL [SZ 0%Z; SZ z] => Some (VInt z)
    | SL [SZ 1%Z; SZ z] => Some (VBool (negb (Z.eqb z 0)))
    | SL [SZ 2%Z; SB b] => Some (VStr (str_of_bytes b))
    | SL [SZ 3%Z; SB b] => Some (VFloat (str_of_bytes b))
    | SL [SZ 4%Z; SB b] => Some (VTime (str_of_bytes b))
    | SL [SZ 5%Z; SB b] => Some (VDelta (str_of_bytes b))
    | SL [SZ 6%Z; v] => option_map VCat (as_value_f n v)
    | _ => None
    end
  end.
Definition as_value := as_value_f 8.

Fixpoint svalue (v : xvalue) : sx :=
  match v with
  | VInt z => SL [SZ 0; SZ z]
  | VBool b => SL [SZ 1; sbool b]
  | VStr s => SL [SZ 2; sstr s]
  | VFloat f => SL [SZ 3; sstr f]
  | VTime t => SL [SZ 4; sstr t]
  | VDelta d => SL [SZ 5; sstr d]
  | VCat l => SL [SZ 6; svalue l]
  end.

Fixpoint as_kind_f (fuel : nat) (s : sx) : option kind :=
  match fuel with O => None | S fuel' =>
  match s with
  | SL [SZ 5%Z; lk] => option_map (fun k => KCat (Some k)) (as_kind_f fuel' lk)
  | _ =>
  match s with
  | SL [SZ 0%Z; sg; bits] => match as_bool sg, as_N bits with Some sg, Some b => Some (KInt sg b) | _, _ => None end
  | SL [SZ 1%Z] => Some KBool
  | SL [SZ 2%Z] => Some KStr
  | SL [SZ 3%Z; single] => option_map KFloat (as_bool single)
  | SL [SZ 4%Z; ns] => option_map KTime (as_bool ns)
  | SL [SZ 5%Z] => Some (KCat None)
  | SL [SZ 7%Z] => Some KTimeTz
  | _ => None
  end end end.
Definition as_kind := as_kind_f 4.
Definition as_pm (s : sx) : option (list (str * kind)) := as_list_of (as_pair as_str as_kind) s.

Section WithOracle.
  Variable o : oracle.
  Definition xparse_with_meta := parse_with_meta str str str (o_float o) (o_tnp o) (o_tfmt o).
  Definition xparse_guess := parse_guess str str str (o_float o) (o_tpd o) (o_delta o).
  Definition xpath_to_cats := path_to_cats str str str xfeqb xteqb xteqb xf_eq_Z (o_float o) (o_tnp o) (o_tfmt o) (o_tpd o) (o_delta o).
  Definition xpaths_to_cats := paths_to_cats str str str xfeqb xteqb xteqb xf_eq_Z (o_float o) (o_tnp o) (o_tfmt o) (o_tpd o) (o_delta o).
  Definition xread_model := read_model str str str xfeqb xteqb xteqb xf_eq_Z (o_float o) (o_tnp o) (o_tfmt o) (o_tpd o) (o_delta o) Z.
End WithOracle.

(* (v) = returns v, "ValueError", "Error" *)
Definition sres {A} (f : A -> sx) (r : res A) : sx :=
  match r with Ok a => SL [f a] | VErr => S_ "ValueError" | OErr => S_ "Error" end.
Definition sscheme (s : scheme) : sx :=
  S_ (match s with Empty => "empty" | Simple => "simple" | Flat => "flat" | Other => "other" | Hive => "hive" | Drill => "drill" end).
Definition scats (c : list (str * list xvalue)) : sx :=
  slist (fun kv => SL [sstr (fst kv); slist svalue (snd kv)]) c.

Definition h_path_string (a : list sx) : sx :=
  match a with
  | [hive; v] => match as_bool hive, as_value v with
                 | Some h, Some v => sstr (xshow h v)
                 | _, _ => err "args" end
  | _ => err "arity"
  end.

Definition h_join_path (a : list sx) : sx :=
  match a with
  | [l] => match as_list_of as_str l with Some l => sstr (join_path l) | None => err "args" end
  | _ => err "arity"
  end.

Definition h_val_from_meta (a : list sx) : sx :=
  match a with
  | [k; x; o] => match as_kind k, as_str x, as_oracle o with
                 | Some k, Some x, Some o => sres svalue (xparse_with_meta o k x)
                 | _, _, _ => err "args" end
  | _ => err "arity"
  end.

Definition h_val_to_num (a : list sx) : sx :=
  match a with
  | [x; o] => match as_str x, as_oracle o with
              | Some x, Some o => svalue (xparse_guess o x)
              | _, _ => err "args" end
  | _ => err "arity"
  end.

Definition h_parse_int (a : list sx) : sx :=
  match a with
  | [x] => match as_str x with Some x => sopt (fun z => SZ z) (parse_int x) | None => err "args" end
  | _ => err "arity"
  end.

(* (kind_of_pmeta (pandas_type numpy_type (labels-block)?)) -> the kind in the notation as_kind reads: what Impl/PartMeta.v makes of a
   metadata block, to be compared with the harness glue harness/partlib.kind_of_meta *)
Fixpoint as_pmeta_f (fuel : nat) (s : sx) : option pmeta :=
  match fuel with O => None | S fuel' =>
  match s with
  | SL [pt; nt; SL []] => match as_str pt, as_str nt with Some pt, Some nt => Some (PMeta pt nt None) | _, _ => None end
  | SL [pt; nt; SL [l]] => match as_str pt, as_str nt, as_pmeta_f fuel' l with
                           | Some pt, Some nt, Some l => Some (PMeta pt nt (Some l)) | _, _, _ => None end
  | _ => None
  end end.
Fixpoint skind (k : kind) : sx :=
  match k with
  | KInt sg bits => SL [SZ 0; sbool sg; sN bits]
  | KBool => SL [SZ 1]
  | KStr => SL [SZ 2]
  | KFloat single => SL [SZ 3; sbool single]
  | KTime ns => SL [SZ 4; sbool ns]
  | KCat None => SL [SZ 5]
  | KCat (Some lk) => SL [SZ 5; skind lk]
  | KTimeTz => SL [SZ 7]
  end.
Definition h_kind_of_pmeta (a : list sx) : sx :=
  match a with
  | [m] => match as_pmeta_f 4 m with Some m => skind (kind_of_pmeta m) | None => err "args" end
  | _ => err "arity"
  end.

(* (unicode_tables) -> ((first code point of every run of ten decimal digits ...) (white space code points >= 127 ...)) *)
Definition h_unicode_tables (a : list sx) : sx := SL [slist sN udigit_zeros; slist sN uspaces].

Definition h_path_to_cats (a : list sx) : sx :=
  match a with
  | [hive; pm; dirs; parts; o] =>
    match as_bool hive, as_pm pm, as_list_of as_str dirs, as_list_of (as_list_of as_str) parts, as_oracle o with
    | Some h, Some pm, Some dirs, Some parts, Some o => sres scats (xpath_to_cats o h pm (combine dirs parts))
    | _, _, _, _, _ => err "args" end
  | _ => err "arity"
  end.

Definition h_paths_to_cats (a : list sx) : sx :=
  match a with
  | [pm; paths; dirs; o] =>
    match as_pm pm, as_list_of as_str paths, as_list_of as_str dirs, as_oracle o with
    | Some pm, Some paths, Some dirs, Some o =>
      sres (fun r => SL [sscheme (fst r); scats (snd r)]) (xpaths_to_cats o pm paths dirs)
    | _, _, _, _ => err "args" end
  | _ => err "arity"
  end.

Definition h_strip_tail (a : list sx) : sx :=
  match a with
  | [l] => match as_list_of as_str l with Some l => slist sstr (map strip_tail l) | None => err "args" end
  | _ => err "arity"
  end.

Definition as_row (s : sx) : option (row str str str Z) :=
  as_pair (as_list_of (as_opt as_value)) as_Z s.

(* (write_model hive names chunks) -> ((path (ids...)) ...) *)
Definition h_write_model (a : list sx) : sx :=
  match a with
  | [hive; names; chunks] =>
    match as_bool hive, as_list_of as_str names, as_list_of (as_list_of as_row) chunks with
    | Some h, Some names, Some chunks =>
      slist (fun f => SL [sstr (fst f); slist (fun r => SZ (snd r)) (snd f)])
            (write_model str str str xfeqb xteqb xteqb xf_eq_Z (fun f => f) xshow_time_iso xshow_time_str Z h names chunks)
    | _, _, _ => err "args" end
  | _ => err "arity"
  end.

(* (read_model pm files dirs_in_order oracle), files = ((path (ids...)) ...)
   -> (scheme ((cells id) ...)) or () when the read raises *)
Definition h_read_model (a : list sx) : sx :=
  match a with
  | [pm; files; dirs; o] =>
    match as_pm pm, as_list_of (as_pair as_str (as_list_of as_Z)) files, as_list_of as_str dirs, as_oracle o with
    | Some pm, Some files, Some dirs, Some o =>
      let files' := map (fun f => (fst f, map (fun i => ([] : list (option xvalue), i)) (snd f))) files in
      sopt (fun r => SL [sscheme (fst r);
                         slist (fun c => SL [slist (fun kv => SL [sstr (fst kv); svalue (snd kv)]) (fst c); SZ (snd c)]) (snd r)])
           (xread_model o pm (fun _ => dirs) files')
    | _, _, _, _ => err "args" end
  | _ => err "arity"
  end.

Definition table : list (string * handler) :=
  [("path_string", h_path_string); ("join_path", h_join_path); ("val_from_meta", h_val_from_meta);
   ("val_to_num", h_val_to_num); ("parse_int", h_parse_int); ("unicode_tables", h_unicode_tables); ("kind_of_pmeta", h_kind_of_pmeta); ("path_to_cats", h_path_to_cats);
   ("paths_to_cats", h_paths_to_cats); ("strip_tail", h_strip_tail);
   ("write_model", h_write_model); ("read_model", h_read_model)].
