(* pqref commands of the statistics model (property C04). *)
From Coq Require Import NArith ZArith List String Bool.
From Pq Require Import Base.Bytes Impl.Stats Format.Utf8 Extract.Sx.
Import ListNotations.
Open Scope string_scope.

(* ordering argument: (signed W) | (unsigned) | (float E M) | (int96) | (bytes) *)
Inductive ord_arg := OA_fixed (o : ordk) | OA_bytes.

Definition is_sym (s : string) (x : sx) : bool :=
  match x with SB b => bytes_eqb b (sym s) | _ => false end.

Definition as_ord (s : sx) : option ord_arg :=
  match s with
  | SL [k; w] => if is_sym "signed" k then option_map (fun w => OA_fixed (OSigned w)) (as_N w) else None
  | SL [k; e; m] =>
    if is_sym "float" k then
      match as_N e, as_N m with Some e, Some m => Some (OA_fixed (OFloat e m)) | _, _ => None end
    else None
  | SL [k] =>
    if is_sym "unsigned" k then Some (OA_fixed OUnsigned)
    else if is_sym "int96" k then Some (OA_fixed OInt96)
    else if is_sym "bytes" k then Some OA_bytes
    else None
  | _ => None
  end.

Definition s_stats {A} (f : A -> sx) (st : stats A) : sx :=
  SL [sopt f (s_min st); sopt f (s_max st); sN (s_nulls st)].

Definition as_stats {A} (f : sx -> option A) (s : sx) : option (stats A) :=
  match s with
  | SL [mn; mx; n] =>
    match as_opt f mn, as_opt f mx, as_N n with
    | Some mn, Some mx, Some n => Some (mk_stats mn mx n)
    | _, _, _ => None
    end
  | _ => None
  end.

(* (stats_of ORD SEL OPTIONAL ((cell ...) ...)) -> (min? max? nulls) *)
Definition h_stats_of (a : list sx) : sx :=
  match a with
  | [o; sel; opt; pages] =>
    match as_ord o, as_bool sel, as_bool opt with
    | Some (OA_fixed o), Some sel, Some opt =>
      match as_list_of (as_list_of (as_opt as_N)) pages with
      | Some pages => s_stats sN (stats_of N (leb_of o) (ordered_of o) sel opt pages)
      | None => err "pages"
      end
    | Some OA_bytes, Some sel, Some opt =>
      match as_list_of (as_list_of (as_opt as_bytes)) pages with
      | Some pages => s_stats SB (stats_of bytes lex_leb (fun _ => true) sel opt pages)
      | None => err "pages"
      end
    | _, _, _ => err "args"
    end
  | _ => err "arity"
  end.

(* (check_stats ORD (cell ...) (min? max? nulls)) -> 0/1 *)
Definition h_check_stats (a : list sx) : sx :=
  match a with
  | [o; stored; st] =>
    match as_ord o with
    | Some (OA_fixed o) =>
      match as_list_of (as_opt as_N) stored, as_stats as_N st with
      | Some stored, Some st => sbool (check_stats N (leb_of o) (ordered_of o) stored st)
      | _, _ => err "args"
      end
    | Some OA_bytes =>
      match as_list_of (as_opt as_bytes) stored, as_stats as_bytes st with
      | Some stored, Some st => sbool (check_stats bytes lex_leb (fun _ => true) stored st)
      | _, _ => err "args"
      end
    | None => err "ord"
    end
  | _ => err "arity"
  end.

(* (sorted_col ORD (min? ...) (max? ...)) -> 0/1 *)
Definition h_sorted_col (a : list sx) : sx :=
  match a with
  | [o; mins; maxs] =>
    match as_ord o with
    | Some (OA_fixed o) =>
      match as_list_of (as_opt as_N) mins, as_list_of (as_opt as_N) maxs with
      | Some mins, Some maxs => sbool (sorted_col N (leb_of o) mins maxs)
      | _, _ => err "args"
      end
    | Some OA_bytes =>
      match as_list_of (as_opt as_bytes) mins, as_list_of (as_opt as_bytes) maxs with
      | Some mins, Some maxs => sbool (sorted_col bytes lex_leb mins maxs)
      | _, _ => err "args"
      end
    | None => err "ord"
    end
  | _ => err "arity"
  end.

Definition as_ptype (s : sx) : option ptype :=
  if is_sym "BOOLEAN" s then Some TBOOLEAN else if is_sym "INT32" s then Some TINT32
  else if is_sym "INT64" s then Some TINT64 else if is_sym "INT96" s then Some TINT96
  else if is_sym "FLOAT" s then Some TFLOAT else if is_sym "DOUBLE" s then Some TDOUBLE
  else if is_sym "BYTE_ARRAY" s then Some TBYTE_ARRAY
  else if is_sym "FIXED_LEN_BYTE_ARRAY" s then Some TFLBA else None.

Definition s_pval (v : pval) : sx := match v with PN n => sN n | PB b => SB b end.
Definition as_pval (s : sx) : option pval :=
  match s with SZ _ => option_map PN (as_N s) | SB b => Some (PB b) | _ => None end.

(* (dec_stat TYPE #bytes) -> (value)? ; (enc_stat TYPE value) -> (#bytes)? *)
Definition h_dec_stat (a : list sx) : sx :=
  match a with
  | [t; b] => match as_ptype t, as_bytes b with
              | Some t, Some b => sopt s_pval (dec_stat t b)
              | _, _ => err "args" end
  | _ => err "arity"
  end.
Definition h_enc_stat (a : list sx) : sx :=
  match a with
  | [t; v] => match as_ptype t, as_pval v with
              | Some t, Some v => sopt SB (enc_stat t v)
              | _, _ => err "args" end
  | _ => err "arity"
  end.

Definition as_kind (s : sx) : option dkind :=
  if is_sym "i" s then Some Ki else if is_sym "u" s then Some Ku else if is_sym "f" s then Some Kf
  else if is_sym "M" s then Some KM else if is_sym "m" s then Some Km else if is_sym "b" s then Some Kb
  else if is_sym "O" s then Some KO else if is_sym "U" s then Some KU_ else if is_sym "T" s then Some KT
  else None.

(* setting: (bool 0/1) | (auto) | (names #.. #..) *)
Definition as_setting (s : sx) : option stats_setting :=
  match s with
  | SL (k :: r) =>
    if is_sym "bool" k then match r with [b] => option_map SBool (as_bool b) | _ => None end
    else if is_sym "auto" k then Some SAuto
    else if is_sym "names" k then option_map SNames (all_some (map as_bytes r))
    else None
  | _ => None
  end.

(* (select SETTING #name KIND) -> 0/1 *)
Definition h_select (a : list sx) : sx :=
  match a with
  | [s; n; k] => match as_setting s, as_bytes n, as_kind k with
                 | Some s, Some n, Some k => sbool (select s n k)
                 | _, _, _ => err "args" end
  | _ => err "arity"
  end.

(* (cat_stats_of ORD SEL OPTIONAL (cat ...) ((code? ...) ...)) -> (min? max? nulls)
   (cat_minmax_old ORD (cat ...) (code? ...)) -> ((min max))? *)
Definition h_cat_stats_of (a : list sx) : sx :=
  match a with
  | [o; sel; opt; cats; pages] =>
    match as_ord o, as_bool sel, as_bool opt, as_list_of (as_list_of (as_opt as_nat)) pages with
    | Some (OA_fixed o), Some sel, Some opt, Some pages =>
      match as_list_of as_N cats with
      | Some cats => s_stats sN (cat_stats_of N (leb_of o) (ordered_of o) sel opt cats pages)
      | None => err "cats"
      end
    | Some OA_bytes, Some sel, Some opt, Some pages =>
      match as_list_of as_bytes cats with
      | Some cats => s_stats SB (cat_stats_of bytes lex_leb (fun _ => true) sel opt cats pages)
      | None => err "cats"
      end
    | _, _, _, _ => err "args"
    end
  | _ => err "arity"
  end.

Definition h_cat_minmax_old (a : list sx) : sx :=
  match a with
  | [o; cats; codes] =>
    match as_ord o, as_list_of (as_opt as_nat) codes with
    | Some (OA_fixed _), Some codes =>
      match as_list_of as_N cats with
      | Some cats => sopt (fun p => SL [sN (fst p); sN (snd p)]) (cat_minmax_old N cats codes)
      | None => err "cats"
      end
    | Some OA_bytes, Some codes =>
      match as_list_of as_bytes cats with
      | Some cats => sopt (fun p => SL [SB (fst p); SB (snd p)]) (cat_minmax_old bytes cats codes)
      | None => err "cats"
      end
    | _, _ => err "args"
    end
  | _ => err "arity"
  end.

(* (utf8_encode (cp ...)) -> #bytes ;  (cp_leb (cp ...) (cp ...)) -> 0/1  (lexicographic on code points) *)
Definition h_utf8_encode (a : list sx) : sx :=
  match a with
  | [l] => match as_list_of as_N l with Some l => SB (utf8_encode l) | None => err "args" end
  | _ => err "arity"
  end.
Definition h_cp_leb (a : list sx) : sx :=
  match a with
  | [x; y] => match as_list_of as_N x, as_list_of as_N y with
              | Some x, Some y => sbool (lex_leb x y)
              | _, _ => err "args" end
  | _ => err "arity"
  end.

Definition table : list (string * handler) :=
  [("stats_of", h_stats_of); ("check_stats", h_check_stats); ("sorted_col", h_sorted_col);
   ("dec_stat", h_dec_stat); ("enc_stat", h_enc_stat); ("select", h_select);
   ("cat_stats_of", h_cat_stats_of); ("cat_minmax_old", h_cat_minmax_old);
   ("utf8_encode", h_utf8_encode); ("cp_leb", h_cp_leb)].
