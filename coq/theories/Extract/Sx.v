(* S-expressions exchanged with the OCaml driver, and argument decoding helpers (all Gallina). *)
From Coq Require Import NArith ZArith List String Ascii Bool.
From Pq Require Import Base.Bytes.
Import ListNotations.

Inductive sx := SZ (z : Z) | SB (b : list N) | SL (l : list sx).

Definition sym (s : string) : list N := map N_of_ascii (list_ascii_of_string s).
Definition S_ (s : string) : sx := SB (sym s).
Definition err (s : string) : sx := SL [S_ "error"; S_ s].
Definition sbool (b : bool) : sx := SZ (if b then 1 else 0)%Z.
Definition snat (n : nat) : sx := SZ (Z.of_nat n).
Definition sN (n : N) : sx := SZ (Z.of_N n).
Definition sopt {A} (f : A -> sx) (o : option A) : sx := match o with Some a => SL [f a] | None => SL [] end.
Definition slist {A} (f : A -> sx) (l : list A) : sx := SL (map f l).

Definition as_N (s : sx) : option N := match s with SZ z => if (z <? 0)%Z then None else Some (Z.to_N z) | _ => None end.
Definition as_Z (s : sx) : option Z := match s with SZ z => Some z | _ => None end.
Definition as_nat (s : sx) : option nat := option_map N.to_nat (as_N s).
Definition as_bool (s : sx) : option bool := match s with SZ z => Some (negb (z =? 0)%Z) | _ => None end.
Definition as_bytes (s : sx) : option (list N) := match s with SB b => Some b | _ => None end.
Definition as_list (s : sx) : option (list sx) := match s with SL l => Some l | _ => None end.

Fixpoint all_some {A} (l : list (option A)) : option (list A) :=
  match l with
  | [] => Some []
  | Some a :: r => option_map (cons a) (all_some r)
  | None :: _ => None
  end.
Definition as_list_of {A} (f : sx -> option A) (s : sx) : option (list A) :=
  match s with SL l => all_some (map f l) | _ => None end.
Definition as_opt {A} (f : sx -> option A) (s : sx) : option (option A) :=
  match s with SL [] => Some None | SL [x] => option_map Some (f x) | _ => None end.
Definition as_pair {A B} (f : sx -> option A) (g : sx -> option B) (s : sx) : option (A * B) :=
  match s with SL [a; b] => match f a, g b with Some x, Some y => Some (x, y) | _, _ => None end | _ => None end.

Definition handler := list sx -> sx.
Fixpoint dispatch (tbl : list (string * handler)) (c : list N) : option handler :=
  match tbl with
  | [] => None
  | (n, h) :: r => if bytes_eqb c (sym n) then Some h else dispatch r c
  end.
