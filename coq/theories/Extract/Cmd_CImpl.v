(* pqref commands for the IMPL models of the native codecs (Impl/C*.v). *)
From Coq Require Import NArith ZArith List String Bool.
From Pq Require Import Base.Bytes Base.Err Base.ListX Extract.Sx Extract.Cmd_Codec
  Impl.CVarint Impl.CBitpack Impl.CRle Impl.CHybrid Impl.CDelta Impl.CEnc Impl.PyPack Impl.CHw.
Import ListNotations.
Open Scope string_scope.

Definition sres {A} (f : A -> list sx) (r : res A) : sx :=
  match r with
  | Ok a => SL (S_ "ok" :: f a)
  | OOB => SL [S_ "oob"] | UB => SL [S_ "ub"] | Fuel => SL [S_ "fuel"]
  end.
Definition sdres (d : dres) : list sx := [sNs (d_vals d); sN (d_used d); sN (d_written d)].

Definition h5 {A B C D E} (f : sx -> option A) (g : sx -> option B) (h : sx -> option C) (i : sx -> option D)
    (j : sx -> option E) (k : A -> B -> C -> D -> E -> sx) (a : list sx) : sx :=
  match a with
  | [x; y; z; u; v] =>
    match f x, g y, h z, i u, j v with
    | Some x, Some y, Some z, Some u, Some v => k x y z u v
    | _, _, _, _, _ => err "args"
    end
  | _ => err "arity"
  end.

Definition sobytes (l : list (option N)) : sx :=
  slist (fun o : option N => match o with Some b => sN b | None => SL [] end) l.
Definition sures (u : ures) : sx :=
  match u with
  | UOk items => SL [S_ "ok"; slist (fun o : option bytes => match o with Some b => SL [SB b] | None => SL [] end) items]
  | UExc => SL [S_ "exc"]
  | UOOB => SL [S_ "oob"]
  end.

Definition table : list (string * handler) :=
  [ ("c_varint", h1 as_bytes (fun b => sres (fun p : N * N => [sN (fst p); sN (snd p)]) (c_varint b)));
    ("c_enc_varint", h2 as_N as_N (fun x cap => let p := c_enc_varint x cap in SL [SB (fst p); sN (snd p)]));
    ("c_zigzag_long", h1 as_N (fun n => sN (c_zigzag_long n)));
    ("c_zigzag_int", h1 as_N (fun n => sN (c_zigzag_int n)));
    ("c_long_zigzag", h1 as_N (fun n => sN (c_long_zigzag n)));
    ("c_read_bitpacked", h5 as_bytes as_Z as_N as_N as_N (fun b h w cap isz => sres sdres (c_read_bitpacked b h w cap isz)));
    ("c_read_bitpacked1", h3 as_bytes as_N as_N (fun b c cap => sres sdres (c_read_bitpacked1 b c cap)));
    ("c_read_rle", h5 as_bytes as_Z as_N as_N as_N (fun b h w cap isz => sres sdres (c_read_rle b h w cap isz)));
    ("c_read_hybrid", h5 as_bytes as_N as_N as_N as_N (fun b w len cap isz => sres sdres (c_read_hybrid b w len cap isz)));
    ("c_delta_read_bitpacked", h3 as_bytes as_N as_N (fun b w n =>
        sres (fun r : list N * bytes * N => [sNs (fst (fst r)); sN (snd r)]) (c_delta_read_bitpacked b w n)));
    ("c_delta_unpack", h5 as_bytes as_N as_N as_N as_bool (fun b nitems fill nbytes lv =>
        sres (fun r : list N * N * N => [sNs (fst (fst r)); sN (snd (fst r)); sN (snd r)])
             (c_delta_binary_unpack b (repN fill nitems []) nbytes lv)));
    ("c_read_bitpacked_hw", h5 as_bytes as_Z as_N as_N as_N (fun b h w cap isz => sres sdres (c_read_bitpacked_hw b h w cap isz)));
    ("c_read_hybrid_hw", h5 as_bytes as_N as_N as_N as_N (fun b w len cap isz => sres sdres (c_read_hybrid_hw b w len cap isz)));
    ("c_delta_unpack_hw", h5 as_bytes as_N as_N as_N as_bool (fun b nitems fill nbytes lv =>
        sres (fun r : list N * N * N => [sNs (fst (fst r)); sN (snd (fst r)); sN (snd r)])
             (c_delta_binary_unpack_hw b (repN fill nitems []) nbytes lv)));
    ("c_encode_bitpacked", h3 (as_list_of as_N) as_N as_N (fun vs w cap =>
        sres (fun r : bytes * N => [SB (fst r); sN (snd r)]) (c_encode_bitpacked vs w cap)));
    ("c_encode_rle_bp", h4 (as_list_of as_N) as_N as_N as_bool (fun vs w cap wl =>
        sres (fun r : list (option N) * N => [sobytes (fst r); sN (snd r)]) (c_encode_rle_bp vs w cap wl)));
    ("c_width_from_max_int", h1 as_N (fun v => sN (c_width_from_max_int v)));
    ("c_write_bitpacked1", h3 as_bytes as_N as_N (fun b n cap =>
        sres (fun r : bytes * N * N => [SB (fst (fst r)); sN (snd (fst r)); sN (snd r)]) (c_write_bitpacked1 b n cap)));
    ("py_bool_pack", h1 (as_list_of as_N) (fun vs => SB (py_bool_pack vs)));
    ("py_read_plain_boolean", h2 as_bytes as_N (fun b n => sres (fun l => [sNs l]) (py_read_plain_boolean b n)));
    ("py_encode_dict", h2 as_N (as_list_of as_N) (fun isz vs => SB (py_encode_dict isz vs)));
    ("c_pack_byte_array", h1 (as_list_of as_bytes) (fun xs => SB (c_pack_byte_array xs)));
    ("c_unpack_byte_array", h2 as_bytes as_N (fun b n => sures (c_unpack_byte_array b n)))
  ].
