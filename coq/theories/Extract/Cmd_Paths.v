(* pqref commands for Impl/Paths.v and Dataset/Merge.v (C14). *)
From Coq Require Import NArith ZArith List String Ascii Bool.
From Pq Require Import Base.Bytes Impl.Partition Impl.Paths Dataset.Merge Dataset.CatRead Dataset.CatGuard Dataset.SchemaEq Extract.Sx Extract.Cmd_Partition.
Import ListNotations.
Open Scope string_scope.

Definition h_analyse_paths (a : list sx) : sx :=
  match a with
  | [fl; root] =>
    match as_list_of as_str fl, as_opt as_str root with
    | Some fl, Some root =>
      match analyse_paths fl root with
      | AOk base rel => SL [S_ "ok"; sstr base; slist sstr rel]
      | AIndexError => S_ "IndexError"
      | AAssertion => S_ "AssertionError"
      end
    | _, _ => err "args" end
  | _ => err "arity"
  end.

(* schema = (identity, len(fmd.schema)); data of a row group = an integer id *)
Definition xschema := (Z * nat)%type.
Definition xseqb (a b : xschema) : bool := Z.eqb (fst a) (fst b) && Nat.eqb (snd a) (snd b).
Definition as_rgroup (s : sx) : option (rgroup Z) :=
  match s with
  | SL [rows; path; id] =>
    match as_N rows, as_opt as_str path, as_Z id with
    | Some r, Some p, Some i => Some {| rg_rows := r; rg_path := p; rg_data := i |}
    | _, _, _ => None
    end
  | _ => None
  end.
Definition as_pfile (s : sx) : option (pfile xschema Z) :=
  match s with
  | SL [simple; sid; sl; rgs] =>
    match as_bool simple, as_Z sid, as_nat sl, as_list_of as_rgroup rgs with
    | Some b, Some i, Some l, Some r => Some {| pf_simple := b; pf_schema := (i, l); pf_rgs := r |}
    | _, _, _, _ => None
    end
  | _ => None
  end.

Definition h_merge (a : list sx) : sx :=
  match a with
  | [fl; pfs; verify; fs; root] =>
    match as_list_of as_str fl, as_list_of as_pfile pfs, as_bool verify, as_bool fs, as_opt as_str root with
    | Some fl, Some pfs, Some v, Some f, Some root =>
      match metadata_from_many xschema xseqb snd Z fl pfs v f root with
      | MOk _ _ base sch rgs n =>
        SL [S_ "ok"; sstr base; SZ (fst sch);
            slist (fun rg => SL [sN (rg_rows Z rg); sopt sstr (rg_path Z rg); SZ (rg_data Z rg)]) rgs; sN n]
      | MValueError _ _ => S_ "ValueError"
      | MError _ _ => S_ "Error"
      end
    | _, _, _, _, _ => err "args" end
  | _ => err "arity"
  end.

(* (cat_guard (label ...) (((dict-label ...)? (code ...)) ...)) -> 1 when every code that occurs means the same label under
   its own dictionary and under the dictionary read last (Dataset/CatGuard.v); codes are integers, -1 = NULL *)
Definition as_code_p (s : sx) : option (option nat) :=
  match s with SZ z => Some (if (z <? 0)%Z then None else Some (Z.to_nat z)) | _ => None end.
Definition h_cat_guard (a : list sx) : sx :=
  match a with
  | [init; chunks] =>
    match as_list_of as_N init,
          as_list_of (as_pair (as_opt (as_list_of as_N)) (as_list_of as_code_p)) chunks with
    | Some init, Some chunks => sbool (guard_b init chunks)
    | _, _ => err "args"
    end
  | _ => err "arity"
  end.

(* (schema_eqb schema1 schema2) -> 1 / 0; a schema = (element ...), an element = ((path atom) ...), a path = (field-id ...),
   an atom = integer | #bytes | () for a struct without fields (Dataset/SchemaEq.v) *)
Definition as_atom (s : sx) : option atom :=
  match s with SZ z => Some (AZ z) | SB b => Some (AB b) | SL [] => Some AUnit | _ => None end.
Definition as_schema : sx -> option (list elem) := as_list_of (as_list_of (as_pair (as_list_of as_N) as_atom)).
Definition h_schema_eqb (a : list sx) : sx :=
  match a with
  | [s1; s2] => match as_schema s1, as_schema s2 with Some s1, Some s2 => sbool (schema_eqb s1 s2) | _, _ => err "args" end
  | _ => err "arity"
  end.

Definition table : list (string * handler) :=
  [("analyse_paths", h_analyse_paths); ("merge", h_merge); ("cat_guard", h_cat_guard); ("schema_eqb", h_schema_eqb)].
