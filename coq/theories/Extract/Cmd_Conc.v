(* pqref commands of C20 (Conc/Interleave.v). *)
From Coq Require Import NArith ZArith List String Bool.
From Pq Require Import Base.Bytes Conc.Interleave Conc.Footprint Extract.Sx.
Import ListNotations.
Open Scope string_scope.

Definition as_snapshot (s : sx) : option snapshot := as_list_of (as_pair as_N as_N) s.
Definition as_trace (s : sx) : option (list snapshot) := as_list_of as_snapshot s.

(* (conc_trace_check (trace ...)) -> (all_ok (first_bad per trace) merged_ok) *)
Definition h_trace_check (a : list sx) : sx :=
  match a with
  | [trs] =>
    match as_list_of as_trace trs with
    | Some trs =>
      SL [sbool (forallb trace_ok trs);
          slist (fun tr => sopt (fun nk => SL [sN (fst nk); sN (snd nk)]) (first_bad 0 tr)) trs;
          sbool (match merge [] (List.concat trs) with Some _ => true | None => false end)]
    | None => err "args"
    end
  | _ => err "arity"
  end.

Definition as_schema (s : sx) : option (list elem) := as_list_of (as_pair as_N as_N) s.

Definition s_wlog (ws : wlog) : sx := slist (fun w => SL [snat (fst w); slist sN (snd w)]) ws.

(* (conc_tree_writes ((name nc) ...)) -> (((i (names...)) ...)) | () *)
Definition h_tree_writes (a : list sx) : sx :=
  match a with
  | [sch] =>
    match as_schema sch with
    | Some sch => sopt s_wlog (tree_writes sch)
    | None => err "args"
    end
  | _ => err "arity"
  end.

Definition akind_code (k : akind) : N :=
  match k with KDone => 0 | KRead => 1 | KMemoWrite => 2 | KDestructiveWrite => 3 end%N.

Definition list_eqb (a b : list N) : bool := if list_eq_dec N.eq_dec a b then true else false.

(* (conc_rebuild_run schema name sched) : the rebuild instance (thread 0 = rebuild of the shared tree,
   thread 1 = reader of `name`) started from the built tree
   -> ((result of thread 1) (kinds of executed actions)) | () *)
Definition h_rebuild_run (a : list sx) : sx :=
  match a with
  | [sch; name; sched] =>
    match as_schema sch, as_N name, as_list_of as_nat sched with
    | Some sch, Some name, Some sched =>
      match tree_writes sch with
      | Some ws =>
        let pool : pool (list N) N := fun i => match i with O => writes_prog ws 0%N | _ => reader name end in
        let c0 := init pool (built ws) in
        SL [SL [sopt sN (result (exec sched c0) 1); slist (fun k => sN (akind_code k)) (kinds list_eqb sched c0)]]
      | None => SL []
      end
    | _, _, _ => err "args"
    end
  | _ => err "arity"
  end.

(* ---- wave 3: footprint events of the inventory-driven monitor ---- *)
Definition pattern_of_code (n : N) : pattern :=
  match n with
  | 0 => PCheckThenAct | 1 => PIdemStore | 2 => PAugmented | 3 => PRmw | 4 => PSetRestore
  | 5 => PMultiStore | 6 => PDelete | 7 => PMutCall | _ => PPlain
  end%N.

Definition as_event (s : sx) : option wevent :=
  match s with
  | SL [k; o; n; p] =>
    match as_N k, as_opt as_N o, as_opt as_N n, as_N p with
    | Some k, Some o, Some n, Some p => Some (mkEv k o n (pattern_of_code p))
    | _, _, _, _ => None
    end
  | _ => None
  end.

(* (conc_footprint_check ((key (old)|() (new)|() pattern-code) ...)) -> (ok ((index key))|() (#publish #same #change #remove)) *)
Definition h_footprint_check_vol (a : list sx) : sx :=
  match a with
  | [evs; vol] =>
    match as_list_of as_event evs, as_list_of as_N vol with
    | Some evs, Some vol =>
      let isvol := fun k => existsb (N.eqb k) vol in
      SL [sbool (footprint_ok_vol isvol evs);
          sopt (fun nk => SL [sN (fst nk); sN (snd nk)]) (first_bad_ev 0 [] (List.filter (fun e => negb (isvol (e_key e))) evs));
          sN (N.of_nat (List.length (List.filter (fun e => isvol (e_key e)) evs)))]
    | _, _ => err "args"
    end
  | _ => err "arity"
  end.

Definition h_footprint_check (a : list sx) : sx :=
  match a with
  | [evs] =>
    match as_list_of as_event evs with
    | Some evs => SL [sbool (footprint_ok evs); sopt (fun nk => SL [sN (fst nk); sN (snd nk)]) (first_bad_ev 0 [] evs);
                      SL [sN (N.of_nat (List.length (List.filter (fun e => N.eqb (ekind_code (ev_kind e)) 0) evs)));
                          sN (N.of_nat (List.length (List.filter (fun e => N.eqb (ekind_code (ev_kind e)) 1) evs)));
                          sN (N.of_nat (List.length (List.filter (fun e => N.eqb (ekind_code (ev_kind e)) 2) evs)));
                          sN (N.of_nat (List.length (List.filter (fun e => N.eqb (ekind_code (ev_kind e)) 3) evs)))]]
    | None => err "args"
    end
  | _ => err "arity"
  end.

Definition table : list (string * handler) :=
  [("conc_trace_check", h_trace_check); ("conc_tree_writes", h_tree_writes);
   ("conc_rebuild_run", h_rebuild_run); ("conc_footprint_check", h_footprint_check);
   ("conc_footprint_check_vol", h_footprint_check_vol)].
