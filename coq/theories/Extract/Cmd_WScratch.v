(* pqref commands: scratch-buffer model of the run headers (Impl/WScratch.v) and the time-zone text (Impl/TzText.v). (C01) *)
From Coq Require Import NArith ZArith List String Bool.
From Pq Require Import Base.Bytes Impl.WLevels Impl.WScratch Impl.TzText Extract.Sx.
Import ListNotations.
Open Scope string_scope.

(* (wr_defs_nonull_cap CAP VERSION N) *)
Definition h_wr_defs_nonull_cap (a : list sx) : sx :=
  match a with
  | [c; v; n] => match as_nat c, as_N v, as_N n with
                 | Some c, Some v, Some n => SB (if N.eqb v 1 then wr_defs_nonull_v1_cap c n else wr_defs_nonull_v2_cap c n)
                 | _, _, _ => err "args" end
  | _ => err "arity"
  end.

(* (wr_defs_nulls_head_cap CAP OUTLEN) *)
Definition h_wr_defs_nulls_head_cap (a : list sx) : sx :=
  match a with
  | [c; n] => match as_nat c, as_N n with
              | Some c, Some n => SB (wr_defs_nulls_head_cap c n)
              | _, _ => err "args" end
  | _ => err "arity"
  end.

(* (wr_dict_head_cap CAP K N) *)
Definition h_wr_dict_head_cap (a : list sx) : sx :=
  match a with
  | [c; k; n] => match as_nat c, as_nat k, as_N n with
                 | Some c, Some k, Some n => SB (wr_dict_head_cap c k n)
                 | _, _, _ => err "args" end
  | _ => err "arity"
  end.

(* (tz_text SECONDS) -> (#python-name (#metadata-text)?) *)
Definition h_tz_text (a : list sx) : sx :=
  match a with
  | [s] => match as_Z s with
           | Some s => SL [SB (py_tz_name s); sopt SB (tz_meta_text s)]
           | None => err "args" end
  | _ => err "arity"
  end.

Definition sx_tzres (r : tzres) : sx :=
  match r with
  | TzFixed s => SL [S_ "fixed"; SZ s]
  | TzName n => SL [S_ "name"; SB n]
  | TzErr => SL [S_ "raises"]
  end.

(* (tz_parse #text) *)
Definition h_tz_parse (a : list sx) : sx :=
  match a with
  | [t] => match as_bytes t with Some t => sx_tzres (tz_parse t) | None => err "args" end
  | _ => err "arity"
  end.

Definition table : list (string * handler) :=
  [("wr_defs_nonull_cap", h_wr_defs_nonull_cap); ("wr_defs_nulls_head_cap", h_wr_defs_nulls_head_cap);
   ("wr_dict_head_cap", h_wr_dict_head_cap); ("tz_text", h_tz_text); ("tz_parse", h_tz_parse)].
