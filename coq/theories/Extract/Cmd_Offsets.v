From Coq Require Import NArith ZArith List String Bool.
From Pq Require Import Base.Bytes Impl.Offsets Extract.Sx.
Import ListNotations.
Open Scope string_scope.

Definition h_rg_sizes_int (a : list sx) : sx :=
  match a with
  | [n; k] => match as_nat n, as_Z k with
              | Some n, Some k => slist snat (map (@List.length nat) (slices (offsets_int n k) (seq 0 n)))
              | _, _ => err "args" end
  | _ => err "arity"
  end.

Definition h_rg_sizes_list (a : list sx) : sx :=
  match a with
  | [offs; n] => match as_list_of as_nat offs, as_nat n with
              | Some offs, Some n => slist snat (map (@List.length nat) (slices offs (seq 0 n)))
              | _, _ => err "args" end
  | _ => err "arity"
  end.

Definition h_page_sizes (a : list sx) : sx :=
  match a with
  | [n; rpp] => match as_nat n, as_nat rpp with
              | Some n, Some rpp => slist snat (map (@List.length nat) (pages rpp (seq 0 n)))
              | _, _ => err "args" end
  | _ => err "arity"
  end.

Definition table : list (string * handler) :=
  [("rg_sizes_int", h_rg_sizes_int); ("rg_sizes_list", h_rg_sizes_list); ("page_sizes", h_page_sizes)].
