(* pqref command: write-side convert model (Impl/WConvert.v).  (w_convert KIND UNIT V) -> xN
   KIND 0 datetime64 (times=int64), 1 timedelta64, 2 datetime64 (times=int96), 3 integer of UNIT bits; UNIT 0 s, 1 ms, 2 us, 3 ns *)
From Coq Require Import NArith ZArith List String Bool.
From Pq Require Import Base.Bytes Format.Phys Impl.RConvert Impl.WConvert Extract.Sx.
Import ListNotations.
Open Scope string_scope.

Definition wunit_of (z : Z) : wunit := if (z =? 0)%Z then WS else if (z =? 1)%Z then WMs else if (z =? 2)%Z then WUs else WNs.

Definition sx_value (v : value) : sx := match v with VNum n => sN n | VBin b => SB b end.

Definition h_w_convert (a : list sx) : sx :=
  match a with
  | [k; u; v] => match as_Z k, as_Z u, as_Z v with
                 | Some k, Some u, Some v =>
                   if (k =? 0)%Z then sx_value (w_datetime (wunit_of u) v)
                   else if (k =? 1)%Z then sx_value (w_timedelta (wunit_of u) v)
                   else if (k =? 2)%Z then sx_value (w_int96 (wunit_of u) v)
                   else sx_value (w_int u v)
                 | _, _, _ => err "args" end
  | _ => err "arity"
  end.

Definition table : list (string * handler) := [("w_convert", h_w_convert)].
