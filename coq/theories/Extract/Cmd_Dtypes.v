(* pqref commands of the dtype-prediction model (property C17). *)
From Coq Require Import NArith ZArith List String Bool.
From Pq Require Import Base.Bytes Impl.Dtypes Extract.Sx.
From Pq Require Impl.Partition Impl.PartNames.
Import ListNotations.
Open Scope string_scope.

Definition is_sym (s : string) (x : sx) : bool :=
  match x with SB b => bytes_eqb b (sym s) | _ => false end.

Definition s_unit (u : tunit) : sx := S_ (match u with Us => "s" | Ums => "ms" | Uus => "us" | Uns => "ns" end).
Definition as_unit (s : sx) : option tunit :=
  if is_sym "s" s then Some Us else if is_sym "ms" s then Some Ums
  else if is_sym "us" s then Some Uus else if is_sym "ns" s then Some Uns else None.

(* (int SIGNED BITS) (bool) (float BITS) (obj) (S n) (M8 unit tz) (m8 unit) (nint SIGNED BITS) (nbool) (cat) *)
Definition s_dt (d : dt) : sx :=
  match d with
  | DInt s w => SL [S_ "int"; sbool s; sN w]
  | DBool => SL [S_ "bool"]
  | DFloat w => SL [S_ "float"; sN w]
  | DObj => SL [S_ "obj"]
  | DS n => SL [S_ "S"; sN n]
  | DM8 u tz => SL [S_ "M8"; s_unit u; sbool tz]
  | Dm8 u => SL [S_ "m8"; s_unit u]
  | DNInt s w => SL [S_ "nint"; sbool s; sN w]
  | DNBool => SL [S_ "nbool"]
  | DCat => SL [S_ "cat"]
  end.

Definition as_dt (s : sx) : option dt :=
  match s with
  | SL [k] =>
    if is_sym "bool" k then Some DBool else if is_sym "obj" k then Some DObj
    else if is_sym "nbool" k then Some DNBool else if is_sym "cat" k then Some DCat else None
  | SL [k; a] =>
    if is_sym "float" k then option_map DFloat (as_N a)
    else if is_sym "S" k then option_map DS (as_N a)
    else if is_sym "m8" k then option_map Dm8 (as_unit a) else None
  | SL [k; a; b] =>
    if is_sym "int" k then match as_bool a, as_N b with Some s, Some w => Some (DInt s w) | _, _ => None end
    else if is_sym "nint" k then match as_bool a, as_N b with Some s, Some w => Some (DNInt s w) | _, _ => None end
    else if is_sym "M8" k then match as_unit a, as_bool b with Some u, Some z => Some (DM8 u z) | _, _ => None end
    else None
  | _ => None
  end.

Definition s_res (r : res) : sx := match r with ROk d => SL [S_ "ok"; s_dt d] | RErr => SL [S_ "err"] end.

(* SE = (type conv? ts? len group) *)
Definition as_se (s : sx) : option selem :=
  match s with
  | SL [t; c; ts; l; g] =>
    match as_N t, as_opt as_N c, as_opt as_unit ts, as_N l, as_bool g with
    | Some t, Some c, Some ts, Some l, Some g => Some (mk_se t c ts l g)
    | _, _, _, _, _ => None
    end
  | _ => None
  end.

(* MD = () | ((#numpy_type #pandas_type tz)) *)
Definition as_md1 (s : sx) : option mdent :=
  match s with
  | SL [n; p; z] =>
    match as_bytes n, as_bytes p, as_bool z with
    | Some n, Some p, Some z => Some (mk_md n p z)
    | _, _, _ => None
    end
  | _ => None
  end.

(* RG = (rows (chunk ...)), chunk = () no statistics | (()) no null_count | ((n)) *)
Definition as_rg (s : sx) : option rgroup :=
  match s with
  | SL [r; cs] =>
    match as_N r, as_list_of (as_opt (as_opt as_N)) cs with
    | Some r, Some cs => Some (mk_rg r cs)
    | _, _ => None
    end
  | _ => None
  end.

(* (typemap SE MD) -> (ok DT) | (err) *)
Definition h_typemap (a : list sx) : sx :=
  match a with
  | [se; md] =>
    match as_se se, as_opt as_md1 md with
    | Some se, Some md => s_res (typemap pinned se md)
    | _, _ => err "args"
    end
  | _ => err "arity"
  end.

(* (predict (INT96_TZ ABSENT_COUNTS CAT_MD BY_NAME) HAS_MD PANDAS_NULLS SE MD (#chunk_path ...) #field_name I (RG ...) AS_CATEGORY)
   -> (ok DT) | (err) *)
Definition h_predict (a : list sx) : sx :=
  match a with
  | [i96; hm; pn; se; md; paths; name; i; rgs; cat] =>
    match as_list_of as_bool i96, as_bool hm, as_bool pn, as_se se with
    | Some [r1; r2; r3; r4], Some hm, Some pn, Some se =>
      match as_opt as_md1 md, as_nat i, as_list_of as_rg rgs, as_bool cat, as_list_of as_bytes paths, as_bytes name with
      | Some md, Some i, Some rgs, Some cat, Some paths, Some name =>
        s_res (match base_dtype_gen (mk_rules r1 r2 r3 r4) pinned hm pn se md (field_chunk r4 paths name i) rgs with
               | RErr => RErr
               | ROk d => if cat then ROk DCat else ROk d
               end)
      | _, _, _, _, _, _ => err "args2"
      end
    | _, _, _, _ => err "args1"
    end
  | _ => err "arity"
  end.

(* (realise INDEX IN_TIMEZONES DT) -> DT *)
Definition h_realise (a : list sx) : sx :=
  match a with
  | [ix; tz; d] =>
    match as_bool ix, as_bool tz, as_dt d with
    | Some ix, Some tz, Some d => s_dt (if ix then realise_index tz d else realise tz d)
    | _, _, _ => err "args"
    end
  | _ => err "arity"
  end.

(* (null_evidence ABSENT_COUNTS LOC? (RG ...)) -> (0/1)? *)
Definition h_null_evidence (a : list sx) : sx :=
  match a with
  | [ab; i; rgs] =>
    match as_bool ab, as_opt as_nat i, as_list_of as_rg rgs with
    | Some ab, Some i, Some rgs => sopt sbool (null_evidence_gen ab i rgs)
    | _, _, _ => err "args"
    end
  | _ => err "arity"
  end.

(* (check_categories HAS_MD (#categ ...) NRG ARG?) -> ((#name ...))? *)
Definition h_check_categories (a : list sx) : sx :=
  match a with
  | [hm; categ; nrg; arg] =>
    match as_bool hm, as_list_of as_bytes categ, as_N nrg, as_opt (as_list_of as_bytes) arg with
    | Some hm, Some categ, Some nrg, Some arg => sopt (slist SB) (check_categories hm categ nrg arg)
    | _, _, _, _ => err "args"
    end
  | _ => err "arity"
  end.

(* (count (rows ...)) -> n *)
Definition h_count (a : list sx) : sx :=
  match a with
  | [rows] => match as_list_of as_N rows with Some rows => sN (count rows) | None => err "args" end
  | _ => err "arity"
  end.

(* (get_index ((#name is_range) ...) ARG) with ARG = () default | (0) False | ((#name ...)) -> (#name ...) *)
Definition as_idxarg (s : sx) : option idxarg :=
  match s with
  | SL [] => Some INone
  | SL [SZ _] => Some IFalse
  | SL [SL l] => option_map INames (all_some (map as_bytes l))
  | _ => None
  end.
Definition h_get_index (a : list sx) : sx :=
  match a with
  | [stored; arg] =>
    match as_list_of (as_pair as_bytes as_bool) stored, as_idxarg arg with
    | Some stored, Some arg => slist SB (get_index stored arg)
    | _, _ => err "args"
    end
  | _ => err "arity"
  end.

(* (frame_columns (#col ...) (#cat ...) REQUEST? (#idx ...)) -> (#name ...) *)
Definition h_frame_columns (a : list sx) : sx :=
  match a with
  | [cols; cats; req; idx] =>
    match as_list_of as_bytes cols, as_list_of as_bytes cats, as_opt (as_list_of as_bytes) req, as_list_of as_bytes idx with
    | Some cols, Some cats, Some req, Some idx => slist SB (frame_columns cols cats req idx)
    | _, _, _, _ => err "args"
    end
  | _ => err "arity"
  end.

(* (partition_names (#cat ...) NRG (#meta_name ...)) -> (#name ...): Impl/PartNames.partition_names on a handle whose cats have
   these keys (in order), NRG row groups, and whose pandas metadata records these partition columns *)
Definition str_of_bytes (b : bytes) : Partition.str := map Ascii.ascii_of_N b.
Definition bytes_of_str (s : Partition.str) : bytes := map Ascii.N_of_ascii s.
Definition h_partition_names (a : list sx) : sx :=
  match a with
  | [keys; nrg; meta] =>
    match as_list_of as_bytes keys, as_nat nrg, as_list_of as_bytes meta with
    | Some ks, Some n, Some m =>
      match PartNames.partition_names unit unit unit
              (Partition.Ok (Partition.Hive, map (fun k => (str_of_bytes k, [])) ks)) n (map str_of_bytes m) with
      | Partition.Ok names => slist SB (map bytes_of_str names)
      | _ => err "error"
      end
    | _, _, _ => err "args"
    end
  | _ => err "arity"
  end.

Definition table : list (string * handler) :=
  [("typemap", h_typemap); ("predict", h_predict); ("realise", h_realise); ("null_evidence", h_null_evidence);
   ("check_categories", h_check_categories); ("count", h_count);
   ("get_index", h_get_index); ("frame_columns", h_frame_columns); ("partition_names", h_partition_names)].
