(* pqref command of Impl/ParseHeader.v: parse_header IS_MD VERIFY #file -> () | ((#data HEADSIZE)) *)
From Coq Require Import NArith ZArith List String Bool.
From Pq Require Import Base.Bytes Impl.ParseHeader Extract.Sx.
Import ListNotations.
Open Scope string_scope.

Definition h_parse_header (a : list sx) : sx :=
  match a with
  | [md; v; file] =>
    match as_bool md, as_bool v, as_bytes file with
    | Some md, Some v, Some file => sopt (fun r => SL [SB (fst r); sN (snd r)]) (parse_header md v file)
    | _, _, _ => err "args"
    end
  | _ => err "arity"
  end.

Definition table : list (string * handler) := [("parse_header", h_parse_header)].
