(* pqref commands of C15: the spec (shred / assemble_spec) and the impl model (assemble_page,
   read_col v1/v2 call shapes, schema level computation, map zipping).  Values are naturals
   (the harness maps every physical value to its index in a per-case value table). *)
From Coq Require Import NArith ZArith List String Bool.
From Pq Require Import Base.Bytes Format.Nested Impl.CAssemble Impl.CShapes Impl.CAssembleFixed Proofs.CAssembleProofs
  Proofs.CAssembleV2Proofs Proofs.PyDictProofs Extract.Sx.
Import ListNotations.
Open Scope string_scope.

(* option x : () = None, (x) = Some x *)
Definition as_elem : sx -> option (elem N) := as_opt as_N.
Definition as_row : sx -> option (row N) := as_opt (as_list_of as_elem).
Definition as_entry : sx -> option entry := as_pair as_N as_N.
Definition as_page : sx -> option (page N) := as_pair (as_list_of as_entry) (as_list_of as_N).

Definition s_elem (e : elem N) : sx := sopt sN e.
Definition s_row (r : row N) : sx := sopt (slist s_elem) r.
Definition s_entry (e : entry) : sx := SL [sN (fst e); sN (snd e)].

Definition s_aerr (e : aerr) : sx :=
  match e with
  | OobWrite i => SL [S_ "err"; S_ "oob_write"; snat i]
  | OobRead => SL [S_ "err"; S_ "oob_read"]
  | ExtendNone i => SL [S_ "err"; S_ "extend_none"; snat i]
  | ValIndex => SL [S_ "err"; S_ "val_index"]
  | BadSlice => SL [S_ "err"; S_ "bad_slice"]
  end.
Definition s_ares {A} (f : A -> sx) (r : ares A) : sx :=
  match r with AOk a => SL [S_ "ok"; f a] | AErr e => s_aerr e end.

Definition h_shred (a : list sx) : sx :=
  match a with
  | [ro; eo; rows] =>
    match as_bool ro, as_bool eo, as_list_of as_row rows with
    | Some ro, Some eo, Some rows =>
      let sh := mkShape ro eo in
      if wf_rows sh rows then
        let '(es, vs) := shred sh rows in SL [slist s_entry es; slist sN vs]
      else err "rows not well-formed for the shape"
    | _, _, _ => err "args"
    end
  | _ => err "arity"
  end.

Definition h_assemble_spec (a : list sx) : sx :=
  match a with
  | [ro; eo; es; vs] =>
    match as_bool ro, as_bool eo, as_list_of as_entry es, as_list_of as_N vs with
    | Some ro, Some eo, Some es, Some vs => sopt (slist s_row) (assemble_spec (mkShape ro eo) es vs)
    | _, _, _, _ => err "args"
    end
  | _ => err "arity"
  end.

Definition h_assemble_page (a : list sx) : sx :=
  match a with
  | [null; md; ar; prev; p] =>
    match as_bool null, as_N md, as_list_of as_row ar, as_nat prev, as_page p with
    | Some null, Some md, Some ar, Some prev, Some p =>
      s_ares (fun r => SL [slist s_row (fst r); snat (snd r)]) (assemble_page null md ar prev p)
    | _, _, _, _, _ => err "args"
    end
  | _ => err "arity"
  end.

Definition h_run_v1 (a : list sx) : sx :=
  match a with
  | [ro; eo; n; pages] =>
    match as_bool ro, as_bool eo, as_nat n, as_list_of as_page pages with
    | Some ro, Some eo, Some n, Some pages => s_ares (slist s_row) (run_v1 (mkShape ro eo) n pages)
    | _, _, _, _ => err "args"
    end
  | _ => err "arity"
  end.

Definition h_run_v2 (a : list sx) : sx :=
  match a with
  | [pinned; ro; eo; n; pages] =>
    match as_bool pinned, as_bool ro, as_bool eo, as_nat n, as_list_of (as_pair as_page as_nat) pages with
    | Some pinned, Some ro, Some eo, Some n, Some pages =>
      s_ares (slist s_row) (run_v2 pinned (mkShape ro eo) n pages)
    | _, _, _, _, _ => err "args"
    end
  | _ => err "arity"
  end.

Definition as_reptype (s : sx) : option reptype :=
  match as_N s with
  | Some 0%N => Some REQUIRED | Some 1%N => Some OPTIONAL | Some 2%N => Some REPEATED | _ => None
  end.

(* (sch path) -> (max_rep max_def is_required null-of-path[0]) *)
Definition h_sch (a : list sx) : sx :=
  match a with
  | [p] =>
    match as_list_of as_reptype p with
    | Some p => SL [sN (sch_max_rep p); sN (sch_max_def p); sbool (sch_is_required p); sbool (call_null p)]
    | None => err "args"
    end
  | _ => err "arity"
  end.

(* (shape_levels ro eo) -> spec side: (max_rep = 1, max_def, d_empty, d_nullel) *)
Definition h_shape_levels (a : list sx) : sx :=
  match a with
  | [ro; eo] =>
    match as_bool ro, as_bool eo with
    | Some ro, Some eo => let sh := mkShape ro eo in SL [sN 1; sN (max_def sh); sN (d_empty sh); sN (d_nullel sh)]
    | _, _ => err "args"
    end
  | _ => err "arity"
  end.

Definition s_pair (kv : elem N * elem N) : sx := SL [s_elem (fst kv); s_elem (snd kv)].
Definition h_zip_maps (a : list sx) : sx :=
  match a with
  | [ks; vs] =>
    match as_list_of as_row ks, as_list_of as_row vs with
    | Some ks, Some vs => sopt (slist (sopt (slist s_pair))) (zip_maps ks vs)
    | _, _ => err "args"
    end
  | _ => err "arity"
  end.

(* (split_guard ro eo pages) -> (pages_aligned good_split): the decidable hypotheses of C15_pages_partial *)
Definition h_split_guard (a : list sx) : sx :=
  match a with
  | [ro; eo; pages] =>
    match as_bool ro, as_bool eo, as_list_of as_page pages with
    | Some ro, Some eo, Some pages =>
      let sh := mkShape ro eo in SL [sbool (pages_aligned sh pages); sbool (good_split sh pages)]
    | _, _, _ => err "args"
    end
  | _ => err "arity"
  end.

(* (v2_branch pinned max_rep enc) with enc 0 = PLAIN, 2/8 = dictionary, 3 = RLE, 5 = DELTA_BINARY_PACKED
   (parquet.thrift Encoding ids) -> assemble | flat | unsupported *)
Definition h_v2_branch (a : list sx) : sx :=
  match a with
  | [pinned; mr; enc] =>
    match as_bool pinned, as_N mr, as_N enc with
    | Some pinned, Some mr, Some enc =>
      let e := match enc with 0%N => EPlain | 2%N => EDict | 8%N => EDict | 3%N => ERle | 5%N => EDelta | _ => EOther end in
      match v2_branch pinned mr e with
      | BAssemble => S_ "assemble" | BFlat => S_ "flat" | BUnsupported => S_ "unsupported"
      end
    | _, _, _ => err "args"
    end
  | _ => err "arity"
  end.

(* the model of the PROPOSED REPAIR (Impl/CAssembleFixed.v); used only when the check is pointed at a
   tree whose cencoding.c carries the equivalent edit (VERIF_C15_REPAIRED=1, see notes/C15.md) *)
Definition h_assemble_page_fx (a : list sx) : sx :=
  match a with
  | [null; md; ar; prev; p] =>
    match as_bool null, as_N md, as_list_of as_row ar, as_nat prev, as_page p with
    | Some null, Some md, Some ar, Some prev, Some p =>
      s_ares (fun r => SL [slist s_row (fst r); snat (snd r)]) (assemble_page_fx null md ar prev p)
    | _, _, _, _, _ => err "args"
    end
  | _ => err "arity"
  end.

Definition h_run_v1_fx (a : list sx) : sx :=
  match a with
  | [ro; eo; n; pages] =>
    match as_bool ro, as_bool eo, as_nat n, as_list_of as_page pages with
    | Some ro, Some eo, Some n, Some pages => s_ares (slist s_row) (run_v1_fx (mkShape ro eo) n pages)
    | _, _, _, _ => err "args"
    end
  | _ => err "arity"
  end.

(* (v2_guard ro eo pages-with-num_rows) -> (pages_aligned, all pages v2_cut_ok): hypotheses of C15_v2_pages_whole *)
Definition h_v2_guard (a : list sx) : sx :=
  match a with
  | [ro; eo; pages] =>
    match as_bool ro, as_bool eo, as_list_of (as_pair as_page as_nat) pages with
    | Some ro, Some eo, Some pages =>
      SL [sbool (pages_aligned (mkShape ro eo) (map fst pages)); sbool (forallb (v2_cut_ok N) pages)]
    | _, _, _ => err "args"
    end
  | _ => err "arity"
  end.

(* (nested_levels path defi max_def) -> (null defi' max_def'): model of core._nested_levels *)
Definition h_nested_levels (a : list sx) : sx :=
  match a with
  | [p; defi; md] =>
    match as_list_of as_reptype p, as_list_of as_N defi, as_N md with
    | Some p, Some defi, Some md =>
      let '(nl, d', m') := nested_levels p defi md in SL [sbool nl; slist sN d'; sN m']
    | _, _, _ => err "args"
    end
  | _ => err "arity"
  end.

(* read_col as it is now: the leading continuation of a page appended in Python, then _assemble_objects *)
Definition h_run_v1_py (a : list sx) : sx :=
  match a with
  | [ro; eo; n; pages] =>
    match as_bool ro, as_bool eo, as_nat n, as_list_of as_page pages with
    | Some ro, Some eo, Some n, Some pages => s_ares (slist s_row) (run_v1_py (mkShape ro eo) n pages)
    | _, _, _, _ => err "args"
    end
  | _ => err "arity"
  end.

(* (py_dict ((k v) ...)) -> items of dict(pairs) in iteration order; keys and values are naturals *)
Definition h_py_dict (a : list sx) : sx :=
  match a with
  | [ps] =>
    match as_list_of (as_pair as_N as_N) ps with
    | Some ps => slist (fun kv : N * N => SL [sN (fst kv); sN (snd kv)]) (py_dict N N N.eqb ps)
    | None => err "args"
    end
  | _ => err "arity"
  end.

(* (is_list_like path_len annot nchild nchild2 mid leaf) -> 0|1 : model of schema._is_list_like;  (refuses path) -> 0|1 *)
Definition h_is_list_like (a : list sx) : sx :=
  match a with
  | [pl; an; n1; n2; mid; leaf] =>
    match as_nat pl, as_bool an, as_nat n1, as_nat n2, as_reptype mid, as_reptype leaf with
    | Some pl, Some an, Some n1, Some n2, Some mid, Some leaf => sbool (is_list_like pl an n1 n2 mid leaf)
    | _, _, _, _, _, _ => err "args"
    end
  | _ => err "arity"
  end.
Definition h_refuses (a : list sx) : sx :=
  match a with
  | [p] => match as_list_of as_reptype p with Some p => sbool (refuses p) | None => err "args" end
  | _ => err "arity"
  end.

Definition table : list (string * handler) :=
  [("shred", h_shred); ("assemble_spec", h_assemble_spec); ("assemble_page", h_assemble_page);
   ("run_v1", h_run_v1); ("run_v2", h_run_v2); ("sch", h_sch); ("shape_levels", h_shape_levels);
   ("zip_maps", h_zip_maps); ("split_guard", h_split_guard); ("v2_branch", h_v2_branch);
   ("assemble_page_fx", h_assemble_page_fx); ("run_v1_fx", h_run_v1_fx); ("v2_guard", h_v2_guard);
   ("nested_levels", h_nested_levels); ("run_v1_py", h_run_v1_py); ("py_dict", h_py_dict);
   ("is_list_like", h_is_list_like); ("refuses", h_refuses)].
