From Coq Require Import NArith ZArith List String Bool.
From Pq Require Import Base.Bytes Impl.KV Extract.Sx.
Import ListNotations.
Open Scope string_scope.

Definition h_update_kv (a : list sx) : sx :=
  match a with
  | [old; u] =>
    match as_list_of (as_pair as_bytes as_bytes) old, as_list_of (as_pair as_bytes (as_opt as_bytes)) u with
    | Some old, Some u => slist (fun kv => SL [SB (fst kv); SB (snd kv)]) (update_kv bytes_eqb old u)
    | _, _ => err "args"
    end
  | _ => err "arity"
  end.

Definition h_rewrite_footer (a : list sx) : sx :=
  match a with
  | [t; file; loc; footer] =>
    match as_bool t, as_bytes file, as_nat loc, as_bytes footer with
    | Some t, Some file, Some loc, Some footer => SB (rewrite_footer t file loc footer)
    | _, _, _, _ => err "args"
    end
  | _ => err "arity"
  end.

Definition h_footer_loc (a : list sx) : sx :=
  match a with
  | [md; file] =>
    match as_bool md, as_bytes file with
    | Some md, Some file => sopt snat (footer_loc md file)
    | _, _ => err "args"
    end
  | _ => err "arity"
  end.

Definition h_framed (a : list sx) : sx :=
  match a with
  | [d; f] => match as_bytes d, as_bytes f with Some d, Some f => SB (framed d f) | _, _ => err "args" end
  | _ => err "arity"
  end.

Definition table : list (string * handler) :=
  [("update_kv", h_update_kv); ("rewrite_footer", h_rewrite_footer);
   ("footer_loc", h_footer_loc); ("framed", h_framed)].
