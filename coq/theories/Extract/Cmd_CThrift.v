(* pqref commands running the impl model of cencoding.pyx's thrift code (Impl/CThrift.v).
   Python objects:  ()=None  (pb 0|1)  (pi z)  (pf xBITS)  (py #bytes)  (ps #utf8)  (pl (v ...))
                    (pd I32 I32L ((k v) ...))   I32 = 0|1 ("i32" key present), I32L = () | ((id ...))
   (c_to_bytes CAP v) -> (ok #bytes) | (exc) | (oob)      (c_ser v) -> (ok #bytes) | (exc)
   (c_from_buffer #bytes) -> (ok v RESTLEN) | (none)       (c_dict_eq v v) -> 0|1                   *)
From Coq Require Import NArith ZArith List String Ascii Bool.
From Pq Require Import Base.Bytes Extract.Sx Thrift.Compact Thrift.Idl Thrift.IdlPinned Impl.CThrift Impl.CThriftTyped.
Import ListNotations.
Open Scope string_scope.

Definition tag_is (t : list N) (s : string) : bool := bytes_eqb t (sym s).

Fixpoint pv_of_sx (s : sx) : option pv :=
  match s with
  | SL [] => Some PNone
  | SL [SB t; SZ z] =>
    if tag_is t "pb" then Some (PBool (negb (z =? 0)%Z)) else
    if tag_is t "pi" then Some (PInt z) else
    if tag_is t "pf" then (if (z <? 0)%Z then None else Some (PFloat (Z.to_N z))) else None
  | SL [SB t; SB b] =>
    if tag_is t "py" then Some (PBytes b) else if tag_is t "ps" then Some (PStr b) else None
  | SL [SB t; SL items] =>
    if tag_is t "pl" then
      option_map PList
        ((fix go (items : list sx) : option (list pv) :=
            match items with
            | [] => Some []
            | x :: r => match pv_of_sx x, go r with Some v, Some vs => Some (v :: vs) | _, _ => None end
            end) items)
    else None
  | SL [SB t; SZ i32; i32l; SL items] =>
    if tag_is t "pd" then
      match as_opt (as_list_of as_Z) i32l,
            (fix gof (items : list sx) : option (list (Z * pv)) :=
               match items with
               | [] => Some []
               | SL [SZ k; x] :: r =>
                 match pv_of_sx x, gof r with Some v, Some vs => Some ((k, v) :: vs) | _, _ => None end
               | _ => None
               end) items with
      | Some l, Some fs => Some (PDict (negb (i32 =? 0)%Z) l fs)
      | _, _ => None
      end
    else None
  | _ => None
  end.

Fixpoint sx_of_pv (v : pv) : sx :=
  match v with
  | PNone => SL []
  | PBool b => SL [S_ "pb"; sbool b]
  | PInt z => SL [S_ "pi"; SZ z]
  | PFloat b => SL [S_ "pf"; sN b]
  | PBytes l => SL [S_ "py"; SB l]
  | PStr l => SL [S_ "ps"; SB l]
  | PList l => SL [S_ "pl"; SL ((fix go (l : list pv) : list sx := match l with [] => [] | x :: r => sx_of_pv x :: go r end) l)]
  | PDict a b fs =>
    SL [S_ "pd"; sbool a; sopt (slist SZ) b;
        SL ((fix gof (fs : list (Z * pv)) : list sx :=
               match fs with [] => [] | (k, x) :: r => SL [SZ k; sx_of_pv x] :: gof r end) fs)]
  end.

Definition h_c_to_bytes (a : list sx) : sx :=
  match a with
  | [cap; v] =>
    match as_N cap, pv_of_sx v with
    | Some cap, Some v =>
      match to_bytes ids13 cap v with
      | OBytes b => SL [S_ "ok"; SB b]
      | OExc => SL [S_ "exc"]
      | OOob => SL [S_ "oob"]
      end
    | _, _ => err "args"
    end
  | _ => err "arity"
  end.

Definition h_c_ser (a : list sx) : sx :=
  match a with
  | [v] => match pv_of_sx v with
           | Some v => match ser ids13 v with Some b => SL [S_ "ok"; SB b] | None => SL [S_ "exc"] end
           | None => err "args"
           end
  | _ => err "arity"
  end.

Definition h_c_from_buffer (a : list sx) : sx :=
  match a with
  | [b] => match as_bytes b with
           | Some b => match from_buffer b with
                       | Some (v, r) => SL [S_ "ok"; sx_of_pv v; sN (len r)]
                       | None => SL [S_ "none"]
                       end
           | None => err "args"
           end
  | _ => err "arity"
  end.

Definition h_c_dict_eq (a : list sx) : sx :=
  match a with
  | [x; y] => match pv_of_sx x, pv_of_sx y with
              | Some (PDict _ _ f1), Some (PDict _ _ f2) => sbool (dict_eq w_depth f1 f2)
              | _, _ => err "args"
              end
  | _ => err "arity"
  end.

(* (c_typed_ok STRUCT v) -> 0|1 : Impl/CThriftTyped.v typed_ok against the pinned IDL *)
Fixpoint str_of_bytes (l : list N) : string :=
  match l with [] => EmptyString | b :: r => String (ascii_of_N b) (str_of_bytes r) end.
Definition h_c_typed_ok (a : list sx) : sx :=
  match a with
  | [n; v] => match as_bytes n, pv_of_sx v with
              | Some n, Some v => sbool (typed_ok pinned ids13 64 (FStruct (str_of_bytes n)) 0 v)
              | _, _ => err "args"
              end
  | _ => err "arity"
  end.

(* (c_ser_repaired CAP0 v) -> (ok #bytes) | (exc): the REPAIRED serialiser (ids 1..14, growing buffer), Proofs/CThriftRepaired.v *)
Definition h_c_ser_repaired (a : list sx) : sx :=
  match a with
  | [cap; v] =>
    match as_N cap, pv_of_sx v with
    | Some cap, Some v =>
      match to_bytes_grow ids14 cap v with
      | OBytes b => SL [S_ "ok"; SB b]
      | _ => SL [S_ "exc"]
      end
    | _, _ => err "args"
    end
  | _ => err "arity"
  end.

Definition table : list (string * handler) :=
  [("c_to_bytes", h_c_to_bytes); ("c_ser", h_c_ser); ("c_from_buffer", h_c_from_buffer);
   ("c_dict_eq", h_c_dict_eq); ("c_typed_ok", h_c_typed_ok); ("c_ser_repaired", h_c_ser_repaired)].
