From Coq Require Import NArith ZArith List String Bool.
From Pq Require Import Base.Bytes Extract.Sx Extract.CmdKV.
Import ListNotations.
Open Scope string_scope.

Definition table : list (string * handler) := table_kv.

Definition run (s : sx) : sx :=
  match s with
  | SL (SB c :: args) =>
    match dispatch table c with Some h => h args | None => err "unknown command" end
  | _ => err "malformed command"
  end.
