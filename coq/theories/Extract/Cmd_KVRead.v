(* pqref commands of Impl/KVRead.v (C16 read side, value-less entries).
   pstr = (0 #utf8) for str, (1 #bytes) for bytes; optional = () | (x). *)
From Coq Require Import NArith ZArith List String Bool.
From Pq Require Import Base.Bytes Impl.KV Impl.KVRead Extract.Sx.
Import ListNotations.
Open Scope string_scope.

Definition as_pstr (s : sx) : option pstr :=
  match s with
  | SL [t; SB b] => match as_bool t with Some false => Some (PStr b) | Some true => Some (PBytes b) | None => None end
  | _ => None
  end.
Definition s_pstr (x : pstr) : sx :=
  match x with PStr b => SL [SZ 0%Z; SB b] | PBytes b => SL [SZ 1%Z; SB b] end.

Definition h_update_kvo (a : list sx) : sx :=
  match a with
  | [old; u] =>
    match as_list_of (as_pair as_bytes (as_opt as_bytes)) old, as_list_of (as_pair as_pstr (as_opt as_pstr)) u with
    | Some old, Some u => slist (fun kv => SL [SB (fst kv); sopt SB (snd kv)]) (update_kvo old u)
    | _, _ => err "args"
    end
  | _ => err "arity"
  end.

Definition h_kv_read (a : list sx) : sx :=
  match a with
  | [l] =>
    match as_list_of (as_pair as_bytes (as_opt as_bytes)) l with
    | Some l => slist (fun kv => SL [s_pstr (fst kv); sopt s_pstr (snd kv)]) (read_kvm l)
    | None => err "args"
    end
  | _ => err "arity"
  end.

Definition h_utf8_valid (a : list sx) : sx :=
  match a with
  | [b] => match as_bytes b with Some b => sbool (utf8_valid b) | None => err "args" end
  | _ => err "arity"
  end.

Definition table : list (string * handler) :=
  [("update_kvo", h_update_kvo); ("kv_read", h_kv_read); ("utf8_valid", h_utf8_valid)].
