(* pqref commands of the rejection model (C18). *)
From Coq Require Import NArith ZArith List String Bool.
From Pq Require Import Base.Bytes Dataset.FS Dataset.FsPaths Dataset.Crash Dataset.Reject Extract.Sx.
Import ListNotations.
Open Scope string_scope.

Definition is_sym (s : string) (b : list N) : bool := bytes_eqb b (sym s).

Definition as_fop (s : sx) : option fop :=
  match s with
  | SL [SB k; SZ pos; SB d] => if is_sym "pwrite" k then Some (PWrite (Z.to_nat pos) d) else None
  | SL [SB k; SZ n] => if is_sym "ptrunc" k then Some (PTrunc (Z.to_nat n)) else None
  | _ => None
  end.

Definition h_restoring (a : list sx) : sx :=
  match a with
  | [f; ops] =>
    match as_bytes f, as_list_of as_fop ops with
    | Some f, Some ops => sbool (check_restoring f ops)
    | _, _ => err "args"
    end
  | _ => err "arity"
  end.

Definition h_fops_run (a : list sx) : sx :=
  match a with
  | [f; ops] =>
    match as_bytes f, as_list_of as_fop ops with
    | Some f, Some ops => SB (run_fops ops f)
    | _, _ => err "args"
    end
  | _ => err "arity"
  end.

Definition h_foot_start (a : list sx) : sx :=
  match a with
  | [f] => match as_bytes f with Some f => sopt snat (foot_start f) | None => err "args" end
  | _ => err "arity"
  end.

(* column label: byte string = text, integer = anything else *)
Definition as_cname (s : sx) : option cname :=
  match s with SB b => Some (CStr b) | SZ z => Some (COther (Z.to_N z)) | _ => None end.

Definition as_scheme (s : sx) : option scheme :=
  match s with
  | SB b => if is_sym "simple" b then Some SSimple else if is_sym "hive" b then Some SHive else
            if is_sym "drill" b then Some SDrill else if is_sym "flat" b then Some SFlat else
            if is_sym "empty" b then Some SEmpty else if is_sym "mixed" b then Some SMixed else None
  | _ => None
  end.

Definition as_dset (s : sx) : option dset :=
  match s with
  | SL [sc; ismd; cats; cols; refs] =>
    match as_scheme sc, as_bool ismd, as_list_of as_bytes cats, as_list_of as_bytes cols, as_list_of as_bytes refs with
    | Some sc, Some ismd, Some cats, Some cols, Some refs =>
      Some {| d_scheme := sc; d_is_md := ismd; d_cats := cats; d_cols := cols; d_refs := refs |}
    | _, _, _, _, _ => None
    end
  | _ => None
  end.

Definition as_frame (cols typed : sx) : option frame :=
  match as_list_of as_cname cols, as_list_of as_bool typed with
  | Some c, Some t => Some {| f_cols := c; f_typed := t |}
  | _, _ => None
  end.

Definition as_request (s : sx) : option request :=
  match s with
  | SL [SB k; SB sreq; pon; cols; typed] =>
    if is_sym "append" k then
      match as_list_of as_bytes pon, as_frame cols typed with
      | Some pon, Some fr => Some (Append sreq pon fr) | _, _ => None end
    else None
  | SL [SB k; x] => if is_sym "merge" k then option_map Merge (as_bool x) else None
  | SL [SB k; x; y] =>
    if is_sym "overwrite" k then option_map Overwrite (as_frame x y) else
    if is_sym "read" k then
      match as_list_of as_bytes x, as_list_of as_bytes y with
      | Some c, Some f => Some (Read c f) | _, _ => None end
    else None
  | SL [SB k; SB sreq; pon; hn; cols; typed] =>
    if is_sym "write" k then
      match as_list_of as_bytes pon, as_opt (as_list_of as_bytes) hn, as_frame cols typed with
      | Some pon, Some hn, Some fr => Some (PlainWrite sreq pon hn fr) | _, _, _ => None end
    else None
  | _ => None
  end.

(* (rejected, raised-when-run-with-effect-free-stages, number of calls) *)
Definition h_verdict (a : list sx) : sx :=
  match a with
  | [rq; d] =>
    match as_request rq, as_dset d with
    | Some rq, Some d =>
      let out := exec (program rq d ([], false) ([], false)) in
      SL [sbool (rejected rq d); sbool (snd out); snat (List.length (fst out))]
    | _, _ => err "args"
    end
  | _ => err "arity"
  end.

Definition sx_call (c : call) : sx :=
  match c with
  | Mkdir p => SL [S_ "mkdir"; SB p]
  | OpenW p t => SL [S_ "openw"; SB p; sbool t]
  | Write p d => SL [S_ "write"; SB p; SB d]
  | Close p => SL [S_ "close"; SB p]
  | Rename a b => SL [S_ "rename"; SB a; SB b]
  | Remove p => SL [S_ "remove"; SB p]
  end.

(* a file to write: (dir mk nwrites) - payloads are irrelevant for the call kinds and paths *)
Definition as_pfile (s : sx) : option pfile :=
  match s with
  | SL [SB d; mk; n] =>
    match as_bool mk, as_nat n with
    | Some mk, Some n => Some {| pf_dir := d; pf_mk := mk; pf_writes := repeat [] n |}
    | _, _ => None
    end
  | _ => None
  end.

Definition h_multi_fail (a : list sx) : sx :=
  match a with
  | [refs; rgs; r; k] =>
    match as_list_of as_bytes refs, as_list_of (as_list_of as_pfile) rgs, as_nat r, as_nat k with
    | Some refs, Some rgs, Some r, Some k =>
      let out := multi_fail refs rgs r k in
      SL [slist sx_call (fst out); sbool (check_safe_trace refs (fst out)); sopt sN (find_max_part refs)]
    | _, _, _, _ => err "args"
    end
  | _ => err "arity"
  end.

Definition h_part_id (a : list sx) : sx :=
  match a with
  | [p] => match as_bytes p with Some p => sopt sN (part_id p) | None => err "args" end
  | _ => err "arity"
  end.

Definition table : list (string * handler) :=
  [("restoring", h_restoring); ("fops_run", h_fops_run); ("foot_start", h_foot_start);
   ("verdict", h_verdict); ("multi_fail", h_multi_fail); ("part_id", h_part_id)].
