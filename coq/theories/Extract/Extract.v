(* Extraction of the executable models.  ExtrOcamlBasic only: bool, option, unit, list, prod,
   sumbool, sumor become OCaml's own; N, Z, positive, nat, ascii, string stay Coq datatypes. *)
From Coq Require Extraction.
From Coq Require ExtrOcamlBasic.
From Pq Require Import Extract.Sx Extract.Cmd.
Extraction "pqmodel.ml" Cmd.pqref_main.
