(* pqref commands for the SPEC codecs (Codec/*.v).  Shapes are documented in notes/C11.md. *)
From Coq Require Import NArith ZArith List String Bool.
From Pq Require Import Base.Bytes Base.Bits Extract.Sx
  Codec.Varint Codec.Zigzag Codec.Bitpack Codec.Hybrid Codec.Delta Codec.Plain.
Import ListNotations.
Open Scope string_scope.

Definition sZ (z : Z) : sx := SZ z.
Definition sNs (l : list N) : sx := slist sN l.
Definition sZs (l : list Z) : sx := slist sZ l.
Definition spair {A B} (f : A -> sx) (g : B -> sx) (p : A * B) : sx := SL [f (fst p); g (snd p)].

Definition as_run (s : sx) : option hrun :=
  match s with
  | SL [SB t; c; v] =>
    if bytes_eqb t (sym "rle") then
      match as_N c, as_N v with Some c, Some v => Some (RLE c v) | _, _ => None end
    else None
  | SL [SB t; vs] =>
    if bytes_eqb t (sym "bp") then option_map BP (as_list_of as_N vs) else None
  | _ => None
  end.

Definition h1 {A} (f : sx -> option A) (k : A -> sx) (a : list sx) : sx :=
  match a with [x] => match f x with Some x => k x | None => err "args" end | _ => err "arity" end.
Definition h2 {A B} (f : sx -> option A) (g : sx -> option B) (k : A -> B -> sx) (a : list sx) : sx :=
  match a with
  | [x; y] => match f x, g y with Some x, Some y => k x y | _, _ => err "args" end
  | _ => err "arity"
  end.
Definition h3 {A B C} (f : sx -> option A) (g : sx -> option B) (h : sx -> option C)
    (k : A -> B -> C -> sx) (a : list sx) : sx :=
  match a with
  | [x; y; z] => match f x, g y, h z with Some x, Some y, Some z => k x y z | _, _, _ => err "args" end
  | _ => err "arity"
  end.
Definition h4 {A B C D} (f : sx -> option A) (g : sx -> option B) (h : sx -> option C) (i : sx -> option D)
    (k : A -> B -> C -> D -> sx) (a : list sx) : sx :=
  match a with
  | [x; y; z; u] =>
    match f x, g y, h z, i u with
    | Some x, Some y, Some z, Some u => k x y z u
    | _, _, _, _ => err "args"
    end
  | _ => err "arity"
  end.

Definition table : list (string * handler) :=
  [ ("uleb_enc", h1 as_N (fun n => SB (uleb_enc n)));
    ("uleb_dec", h1 as_bytes (fun b => sopt (spair sN SB) (uleb_dec b)));
    ("zz_enc", h1 as_Z (fun z => sN (zz_enc z)));
    ("zz_dec", h1 as_N (fun n => sZ (zz_dec n)));
    ("bp_enc", h2 as_N (as_list_of as_N) (fun w vs => SB (bp_enc_x w vs)));
    ("bp_dec", h3 as_N as_N as_bytes (fun w n b => sNs (bp_dec w n b)));
    ("hyb_enc", h2 as_N (as_list_of as_run) (fun w rs => SB (hyb_enc_x w rs)));
    ("hyb_enc_len", h2 as_N (as_list_of as_run) (fun w rs => SB (hyb_enc_len_x w rs)));
    ("hyb_dec", h4 as_bool as_N as_N as_bytes (fun s w n b => sopt (spair sNs SB) (hyb_dec s w n b)));
    ("hyb_dec_len", h4 as_bool as_N as_N as_bytes (fun s w n b => sopt (spair sNs SB) (hyb_dec_len s w n b)));
    ("delta_enc", h4 as_N as_N as_N (as_list_of as_Z) (fun bits bs mpb vs => SB (delta_enc bits bs mpb vs)));
    ("delta_dec", h2 as_N as_bytes (fun bits b => sopt (spair sZs SB) (delta_dec bits b)));
    ("bool_enc", h1 (as_list_of as_N) (fun bs => SB (bp_enc_x 1 bs)));
    ("bool_dec", h2 as_N as_bytes (fun n b => sNs (bool_dec n b)));
    ("ba_enc", h1 (as_list_of as_bytes) (fun xs => SB (ba_enc xs)));
    ("ba_dec", h2 as_nat as_bytes (fun n b => sopt (spair (slist SB) SB) (ba_dec n b)));
    ("fixed_enc", h2 as_nat (as_list_of as_N) (fun k vs => SB (fixed_enc k vs)));
    ("fixed_dec", h3 as_nat as_nat as_bytes (fun k n b => sopt (spair sNs SB) (fixed_dec k n b)))
  ].
