(* pqref commands of the dataset models (C19, C18, C07, C09). *)
From Coq Require Import NArith ZArith List String Bool.
From Pq Require Import Base.Bytes Impl.KV Dataset.FS Dataset.Crash Dataset.Append Extract.Sx.
Import ListNotations.
Open Scope string_scope.

Definition is_sym (s : string) (b : list N) : bool := bytes_eqb b (sym s).

Definition as_call (s : sx) : option call :=
  match s with
  | SL [SB k; SB p] =>
    if is_sym "mkdir" k then Some (Mkdir p) else
    if is_sym "close" k then Some (Close p) else
    if is_sym "remove" k then Some (Remove p) else None
  | SL [SB k; SB p; SZ t] => if is_sym "openw" k then Some (OpenW p (negb (Z.eqb t 0))) else None
  | SL [SB k; SB p; SB d] =>
    if is_sym "write" k then Some (Write p d) else
    if is_sym "rename" k then Some (Rename p d) else None
  | _ => None
  end.

Definition as_fs (s : sx) : option fs := as_list_of (as_pair as_bytes as_bytes) s.

Definition h_safe_trace (a : list sx) : sx :=
  match a with
  | [refs; tr] =>
    match as_list_of as_bytes refs, as_list_of as_call tr with
    | Some refs, Some tr => sbool (check_safe_trace refs tr)
    | _, _ => err "args"
    end
  | _ => err "arity"
  end.

Definition h_no_write (a : list sx) : sx :=
  match a with
  | [tr] => match as_list_of as_call tr with Some tr => sbool (check_no_write tr) | None => err "args" end
  | _ => err "arity"
  end.

Definition h_fs_run (a : list sx) : sx :=
  match a with
  | [s; tr] =>
    match as_fs s, as_list_of as_call tr with
    | Some s, Some tr => slist (fun e => SL [SB (fst e); SB (snd e)]) (run_trace tr s)
    | _, _ => err "args"
    end
  | _ => err "arity"
  end.

(* (append_seq before (chunk ...)) : the single-file append model on the recorded write chunks *)
Definition h_append_seq (a : list sx) : sx :=
  match a with
  | [f; chunks] =>
    match as_bytes f, as_list_of as_bytes chunks with
    | Some f, Some chunks =>
      match footer_loc false f with
      | Some loc => SL [snat loc; SB (seq_write f loc chunks)]
      | None => SL []
      end
    | _, _ => err "args"
    end
  | _ => err "arity"
  end.

Definition table : list (string * handler) :=
  [("safe_trace", h_safe_trace); ("no_write", h_no_write); ("fs_run", h_fs_run);
   ("append_seq", h_append_seq)].
