(* pqref commands of the dataset models (C19, C18, C07, C09). *)
From Coq Require Import NArith ZArith List String Bool.
From Pq Require Import Base.Bytes Impl.KV Dataset.FS Dataset.FsPaths Dataset.Crash Dataset.CrashGen Dataset.Append Dataset.Ops Dataset.CatRead Extract.Sx.
Import ListNotations.
Open Scope string_scope.

Definition is_sym (s : string) (b : list N) : bool := bytes_eqb b (sym s).

Definition as_call (s : sx) : option call :=
  match s with
  | SL [SB k; SB p] =>
    if is_sym "mkdir" k then Some (Mkdir p) else
    if is_sym "close" k then Some (Close p) else
    if is_sym "remove" k then Some (Remove p) else None
  | SL [SB k; SB p; SZ t] => if is_sym "openw" k then Some (OpenW p (negb (Z.eqb t 0))) else None
  | SL [SB k; SB p; SB d] =>
    if is_sym "write" k then Some (Write p d) else
    if is_sym "rename" k then Some (Rename p d) else None
  | _ => None
  end.

Definition as_fs (s : sx) : option fs := as_list_of (as_pair as_bytes as_bytes) s.

Definition h_safe_trace (a : list sx) : sx :=
  match a with
  | [refs; tr] =>
    match as_list_of as_bytes refs, as_list_of as_call tr with
    | Some refs, Some tr => sbool (check_safe_trace refs tr)
    | _, _ => err "args"
    end
  | _ => err "arity"
  end.

Definition h_safe_trace_sym (a : list sx) : sx :=
  match a with
  | [refs; tr] =>
    match as_list_of as_bytes refs, as_list_of as_call tr with
    | Some refs, Some tr => sbool (check_safe_trace_sym refs tr)
    | _, _ => err "args"
    end
  | _ => err "arity"
  end.

Definition h_safe_trace_gen (a : list sx) : sx :=
  match a with
  | [refs; tr] =>
    match as_list_of as_bytes refs, as_list_of as_call tr with
    | Some refs, Some tr => sbool (check_safe_gen refs tr)
    | _, _ => err "args"
    end
  | _ => err "arity"
  end.

Definition h_find_max_part_skip (a : list sx) : sx :=
  match a with
  | [refs] => match as_list_of as_bytes refs with Some refs => sopt sN (Some (find_max_part_skip refs)) | None => err "args" end
  | _ => err "arity"
  end.

Definition h_no_write (a : list sx) : sx :=
  match a with
  | [tr] => match as_list_of as_call tr with Some tr => sbool (check_no_write tr) | None => err "args" end
  | _ => err "arity"
  end.

Definition h_fs_run (a : list sx) : sx :=
  match a with
  | [s; tr] =>
    match as_fs s, as_list_of as_call tr with
    | Some s, Some tr => slist (fun e => SL [SB (fst e); SB (snd e)]) (run_trace tr s)
    | _, _ => err "args"
    end
  | _ => err "arity"
  end.

(* (append_seq before (chunk ...)) : the single-file append model on the recorded write chunks *)
Definition h_append_seq (a : list sx) : sx :=
  match a with
  | [f; chunks] =>
    match as_bytes f, as_list_of as_bytes chunks with
    | Some f, Some chunks =>
      match footer_loc false f with
      | Some loc => SL [snat loc; SB (seq_write f loc chunks)]
      | None => SL []
      end
    | _, _ => err "args"
    end
  | _ => err "arity"
  end.

(* (part_id path) / (find_max_part (path ...)) : the model of api.PART_ID / writer.find_max_part *)
Definition h_part_id (a : list sx) : sx :=
  match a with
  | [p] => match as_bytes p with Some p => sopt sN (part_id p) | None => err "args" end
  | _ => err "arity"
  end.

Definition h_find_max_part (a : list sx) : sx :=
  match a with
  | [refs] => match as_list_of as_bytes refs with Some refs => sopt sN (find_max_part refs) | None => err "args" end
  | _ => err "arity"
  end.

Definition sx_call (c : call) : sx :=
  match c with
  | Mkdir p => SL [S_ "mkdir"; SB p]
  | OpenW p t => SL [S_ "openw"; SB p; sbool t]
  | Write p d => SL [S_ "write"; SB p; SB d]
  | Close p => SL [S_ "close"; SB p]
  | Rename a b => SL [S_ "rename"; SB a; SB b]
  | Remove p => SL [S_ "remove"; SB p]
  end.

(* (append_trace refs partitioned ((dir (chunk ...)) ...) ...) md-chunks cmd-chunks) *)
Definition h_append_trace (a : list sx) : sx :=
  match a with
  | [refs; pt; rgs; md; cmd] =>
    match as_list_of as_bytes refs, as_bool pt,
          as_list_of (as_list_of (as_pair as_bytes (as_list_of as_bytes))) rgs,
          as_list_of as_bytes md, as_list_of as_bytes cmd with
    | Some refs, Some pt, Some rgs, Some md, Some cmd =>
      sopt (slist sx_call) (append_trace refs pt rgs md cmd)
    | _, _, _, _, _ => err "args"
    end
  | _ => err "arity"
  end.

(* (read_cat (label ...) (((dict-label ...)? (code ...)) ...)) : codes are integers, -1 = NULL; a chunk without
   dictionary page has () as first component, one with a dictionary ((label ...)) *)
Definition as_code (s : sx) : option (option nat) :=
  match s with SZ z => Some (if (z <? 0)%Z then None else Some (Z.to_nat z)) | _ => None end.
Definition sx_cell (c : cell) : sx :=
  match c with CNull => SL [] | CLab l => SL [sN l] | CBad k => SL [S_ "bad"; snat k] end.
Definition h_read_cat (a : list sx) : sx :=
  match a with
  | [init; chunks] =>
    match as_list_of as_N init,
          as_list_of (as_pair (as_opt (as_list_of as_N)) (as_list_of as_code)) chunks with
    | Some init, Some chunks => slist sx_cell (read_cat init chunks)
    | _, _ => err "args"
    end
  | _ => err "arity"
  end.

Definition h_append_rel (a : list sx) : sx :=
  match a with
  | [b; f] => match as_bytes b, as_bytes f with Some b, Some f => sbool (check_append_rel b f) | _, _ => err "args" end
  | _ => err "arity"
  end.

Definition table : list (string * handler) :=
  [("safe_trace", h_safe_trace); ("no_write", h_no_write); ("fs_run", h_fs_run);
   ("append_seq", h_append_seq); ("part_id", h_part_id); ("find_max_part", h_find_max_part);
   ("append_trace", h_append_trace); ("read_cat", h_read_cat); ("append_rel", h_append_rel); ("safe_trace_sym", h_safe_trace_sym); ("safe_trace_gen", h_safe_trace_gen); ("find_max_part_skip", h_find_max_part_skip)].
