From Coq Require Import NArith ZArith List String Bool.
From Pq Require Import Base.Bytes Format.ChunkLayout Extract.Sx.
Import ListNotations.
Open Scope string_scope.

Definition as_page (s : sx) : option page :=
  match s with
  | SL [SZ k; SZ h; SZ c; SZ u; SZ n; SZ e] =>
    Some {| p_kind := (if (k =? 0)%Z then PDict else if (k =? 1)%Z then PData1 else PData2);
            p_hdr := h; p_comp := c; p_uncomp := u; p_nvals := n; p_enc := e |}
  | _ => None
  end.

Definition as_cmeta (s : sx) : option cmeta :=
  match s with
  | SL [SZ nv; SZ doff; dict; SZ tc; SZ tu; encs] =>
    match as_opt as_Z dict, as_list_of as_Z encs with
    | Some d, Some e => Some {| c_num_values := nv; c_data_page_offset := doff; c_dict_page_offset := d;
                                c_total_comp := tc; c_total_uncomp := tu; c_encodings := e |}
    | _, _ => None
    end
  | _ => None
  end.

Definition as_chunk (s : sx) : option (cmeta * list page) := as_pair as_cmeta (as_list_of as_page) s.

Definition as_rg (s : sx) : option rgmeta :=
  match s with
  | SL [SZ nr; SZ tb; chunks] =>
    match as_list_of as_chunk chunks with
    | Some cs => Some {| r_num_rows := nr; r_total_byte_size := tb; r_chunks := cs |}
    | None => None
    end
  | _ => None
  end.

Definition as_file (s : sx) : option fmeta :=
  match s with
  | SL [SZ len; SZ fs; SZ fl; SZ nr; rgs] =>
    match as_list_of as_rg rgs with
    | Some r => Some {| f_len := len; f_footer_start := fs; f_footer_len := fl; f_num_rows := nr; f_rgs := r |}
    | None => None
    end
  | _ => None
  end.

Definition s_cmeta (c : cmeta) : sx :=
  SL [SZ (c_num_values c); SZ (c_data_page_offset c); sopt SZ (c_dict_page_offset c);
      SZ (c_total_comp c); SZ (c_total_uncomp c); slist SZ (c_encodings c)].

Definition h_check_file (a : list sx) : sx :=
  match a with
  | [f] => match as_file f with
           | Some f => SL [sbool (check_file f);
                           slist (fun r => SL [sbool (check_rg r); slist (fun cp => sbool (check_chunk (fst cp) (snd cp))) (r_chunks r)]) (f_rgs f)]
           | None => err "args" end
  | _ => err "arity"
  end.

Definition h_wr_bookkeeping (a : list sx) : sx :=
  match a with
  | [SZ start; SZ rows; encs; ps] =>
    match as_list_of as_Z encs, as_list_of as_page ps with
    | Some e, Some p => s_cmeta (wr_bookkeeping start rows e p)
    | _, _ => err "args" end
  | _ => err "arity"
  end.

Definition table : list (string * handler) :=
  [("check_file", h_check_file); ("wr_bookkeeping", h_wr_bookkeeping)].
