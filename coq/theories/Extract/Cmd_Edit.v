(* pqref commands of the dataset-edit model (C09). *)
From Coq Require Import NArith ZArith List String Bool.
From Pq Require Import Base.Bytes Dataset.FS Dataset.FsPaths Dataset.Edit Extract.Sx.
Import ListNotations.
Open Scope string_scope.

Definition is_sym (s : string) (b : list N) : bool := bytes_eqb b (sym s).

Definition as_rows (s : sx) : option rows := as_list_of as_N s.
Definition as_rgroup (s : sx) : option rgroup := as_list_of (as_pair as_bytes as_rows) s.
Definition as_rgs (s : sx) : option (list rgroup) := as_list_of as_rgroup s.

Definition as_skey (s : sx) : option skey :=
  match s with
  | SB b => if is_sym "none" b then Some SKNone else if is_sym "part" b then Some SKPart else
            if is_sym "rows" b then Some SKRows else None
  | _ => None
  end.

Definition as_op (s : sx) : option op :=
  match s with
  | SL [SB k; a] =>
    if is_sym "append" k then option_map OAppend (as_rgs a) else
    if is_sym "overwrite" k then option_map OOverwrite (as_rgs a) else None
  | SL [SB k; a; b] =>
    if is_sym "remove" k then
      match as_list_of as_nat a, as_bool b with Some sel, Some sp => Some (ORemove sel sp) | _, _ => None end
    else if is_sym "write" k then
      match as_N a, as_rgs b with Some sch, Some r => Some (OWrite sch r) | _, _ => None end
    else None
  | SL [SB k; a; b; c] =>
    if is_sym "writergs" k then
      match as_rgs a, as_skey b, as_bool c with Some r, Some sk, Some sp => Some (OWriteRgs r sk sp) | _, _, _ => None end
    else None
  | _ => None
  end.

Definition sx_rows (r : rows) : sx := slist sN r.
Definition sx_files (l : list (path * rows)) : sx := slist (fun e => SL [SB (fst e); sx_rows (snd e)]) l.

(* one record per step:
   (accepted dir summary num_rows check_inv read abs spec_state schema partitioned);
   a file of `dir` is listed with its content = schema id :: row ids *)
Definition sx_state (acc : bool) (s : state) (sp : option sstate) : sx :=
  SL [sbool acc; sx_files (st_dir s); sx_files (st_sum s); SZ (st_num s); sbool (check_inv s);
      slist (fun kr => SL [SB (fst kr); sopt sx_rows (snd kr)]) (read s);
      sx_files (abs s);
      match sp with Some a => SL [sx_files a] | None => SL [] end;
      sN (st_sch s); sopt sbool (st_part s)].

Fixpoint hist (sortp : state -> option state) (ops : list op) (s : state) (a : option sstate) : list sx :=
  match ops with
  | [] => []
  | o :: r =>
    let a' := match a with Some a0 => spec_step a0 o | None => None end in
    match step sortp s o with
    | Some s' => sx_state true s' a' :: hist sortp r s' a'
    | None => sx_state false s a' :: hist sortp r s (match a' with Some _ => a' | None => a end)
    end
  end.

Definition h_edit_hist (a : list sx) : sx :=
  match a with
  | [mode; ops] =>
    match as_bool mode, as_list_of as_op ops with
    | Some fixed, Some ops => SL (hist (if fixed then sort_pnames_fixed else sort_pnames_old) ops empty (Some []))
    | _, _ => err "args"
    end
  | _ => err "arity"
  end.

Definition table : list (string * handler) := [("edit_hist", h_edit_hist)].
