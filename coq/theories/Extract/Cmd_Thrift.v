(* pqref commands of the Thrift layer (C10; also used by the format-level checks C02/C03/C15).

   Value trees on the wire of the pqref protocol (shapes documented in notes/C10.md):
     (b 0|1)  (i8 z) (i16 z) (i32 z) (i64 z)  (d xBITS)  (s #bytes)
     (l ETY (v ...))          list with wire element-type code ETY
     (r ((ID v) ...))         struct / union: fields in wire order
   Commands:
     (thrift_enc v)                       -> (ok #bytes) | (error wf)
     (thrift_dec LX #bytes)               -> (ok v RESTLEN) | (error parse)         top level = struct
     (thrift_dec_ty LX TY #bytes)         -> same, for a value of wire type TY
     (idl_check NAME LX UNK ENUM v)       -> (ok) | (bad (path ...))
     (idl_dec NAME LX UNK ENUM #bytes)    -> (ok v RESTLEN) | (bad (path ...) v RESTLEN) | (error parse)
   LX = accept the 0x00 empty-list header; UNK = accept undeclared field ids; ENUM = check enum values. *)
From Coq Require Import NArith ZArith List String Ascii Bool.
From Pq Require Import Base.Bytes Extract.Sx Thrift.Varint Thrift.Compact Thrift.Idl Thrift.IdlPinned.
Import ListNotations.
Open Scope string_scope.

Definition tag_is (t : list N) (s : string) : bool := bytes_eqb t (sym s).

Fixpoint string_of_bytes (l : list N) : string :=
  match l with [] => EmptyString | b :: r => String (ascii_of_N b) (string_of_bytes r) end.

Fixpoint tv_of_sx (s : sx) : option tv :=
  match s with
  | SL [SB t; SZ z] =>
    if tag_is t "b" then Some (TBool (negb (z =? 0)%Z)) else
    if tag_is t "i8" then Some (TI8 z) else
    if tag_is t "i16" then Some (TI16 z) else
    if tag_is t "i32" then Some (TI32 z) else
    if tag_is t "i64" then Some (TI64 z) else
    if tag_is t "d" then (if (z <? 0)%Z then None else Some (TDouble (Z.to_N z))) else None
  | SL [SB t; SB b] => if tag_is t "s" then Some (TBin b) else None
  | SL [SB t; SZ e; SL items] =>
    if tag_is t "l" && (0 <=? e)%Z then
      match (fix go (items : list sx) : option (list tv) :=
               match items with
               | [] => Some []
               | x :: r => match tv_of_sx x, go r with Some v, Some vs => Some (v :: vs) | _, _ => None end
               end) items with
      | Some vs => Some (TList (Z.to_N e) vs)
      | None => None
      end
    else None
  | SL [SB t; SL items] =>
    if tag_is t "r" then
      match (fix gof (items : list sx) : option (list (N * tv)) :=
               match items with
               | [] => Some []
               | SL [SZ id; x] :: r =>
                 if (id <? 0)%Z then None else
                 match tv_of_sx x, gof r with Some v, Some vs => Some ((Z.to_N id, v) :: vs) | _, _ => None end
               | _ => None
               end) items with
      | Some fs => Some (TStruct fs)
      | None => None
      end
    else None
  | _ => None
  end.

Fixpoint sx_of_tv (v : tv) : sx :=
  match v with
  | TBool b => SL [S_ "b"; sbool b]
  | TI8 z => SL [S_ "i8"; SZ z]
  | TI16 z => SL [S_ "i16"; SZ z]
  | TI32 z => SL [S_ "i32"; SZ z]
  | TI64 z => SL [S_ "i64"; SZ z]
  | TDouble b => SL [S_ "d"; sN b]
  | TBin l => SL [S_ "s"; SB l]
  | TList e l => SL [S_ "l"; sN e; SL ((fix go (l : list tv) : list sx := match l with [] => [] | x :: r => sx_of_tv x :: go r end) l)]
  | TStruct fs => SL [S_ "r"; SL ((fix gof (fs : list (N * tv)) : list sx :=
                                     match fs with [] => [] | (id, x) :: r => SL [sN id; sx_of_tv x] :: gof r end) fs)]
  end.

Definition ok_val (v : tv) (rest : list N) : sx := SL [S_ "ok"; sx_of_tv v; sN (len rest)].

Definition h_thrift_enc (a : list sx) : sx :=
  match a with
  | [v] => match tv_of_sx v with
           | Some v => match thrift_enc v with Some b => SL [S_ "ok"; SB b] | None => err "wf" end
           | None => err "args"
           end
  | _ => err "arity"
  end.

Definition h_thrift_dec (a : list sx) : sx :=
  match a with
  | [lx; b] => match as_bool lx, as_bytes b with
               | Some lx, Some b => match thrift_dec lx b with Some (v, r) => ok_val v r | None => err "parse" end
               | _, _ => err "args"
               end
  | _ => err "arity"
  end.

Definition h_thrift_dec_ty (a : list sx) : sx :=
  match a with
  | [lx; ty; b] => match as_bool lx, as_N ty, as_bytes b with
                   | Some lx, Some ty, Some b =>
                     match thrift_dec_ty lx ty b with Some (v, r) => ok_val v r | None => err "parse" end
                   | _, _, _ => err "args"
                   end
  | _ => err "arity"
  end.

Definition check_result (name : string) (o : opts) (v : tv) : option (list N) :=
  if conforms pinned o (FStruct name) v then None else Some (blame pinned o (FStruct name) v).

Definition h_idl_check (a : list sx) : sx :=
  match a with
  | [n; lx; unk; en; v] =>
    match as_bytes n, as_bool lx, as_bool unk, as_bool en, tv_of_sx v with
    | Some n, Some lx, Some unk, Some en, Some v =>
      match check_result (string_of_bytes n) (mkO unk lx en) v with
      | None => SL [S_ "ok"]
      | Some p => SL [S_ "bad"; slist sN p]
      end
    | _, _, _, _, _ => err "args"
    end
  | _ => err "arity"
  end.

Definition h_idl_dec (a : list sx) : sx :=
  match a with
  | [n; lx; unk; en; b] =>
    match as_bytes n, as_bool lx, as_bool unk, as_bool en, as_bytes b with
    | Some n, Some lx, Some unk, Some en, Some b =>
      match thrift_dec lx b with
      | Some (v, r) =>
        match check_result (string_of_bytes n) (mkO unk lx en) v with
        | None => ok_val v r
        | Some p => SL [S_ "bad"; slist sN p; sx_of_tv v; sN (len r)]
        end
      | None => err "parse"
      end
    | _, _, _, _, _ => err "args"
    end
  | _ => err "arity"
  end.

(* field id / type of a named field, for harnesses that want names: (idl_field STRUCT FIELD) -> (ID WIRE) | () *)
Definition h_idl_field (a : list sx) : sx :=
  match a with
  | [s; f] =>
    match as_bytes s, as_bytes f with
    | Some s, Some f =>
      match find_struct (structs pinned) (string_of_bytes s) with
      | Some sd => match find_field_name (s_fields sd) (string_of_bytes f) with
                   | Some fd => SL [sN (f_id fd); sN (wire (f_ty fd))]
                   | None => SL []
                   end
      | None => SL []
      end
    | _, _ => err "args"
    end
  | _ => err "arity"
  end.

Definition table : list (string * handler) :=
  [("thrift_enc", h_thrift_enc); ("thrift_dec", h_thrift_dec); ("thrift_dec_ty", h_thrift_dec_ty);
   ("idl_check", h_idl_check); ("idl_dec", h_idl_dec); ("idl_field", h_idl_field)].
