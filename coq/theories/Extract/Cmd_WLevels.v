(* pqref commands for the writer's level/index blocks and the reader's skip shortcut (C01). *)
From Coq Require Import NArith ZArith List String Bool.
From Pq Require Import Base.Bytes Impl.WLevels Extract.Sx.
Import ListNotations.
Open Scope string_scope.

Definition h_wr_defs_nonull (a : list sx) : sx :=
  match a with
  | [v; n] => match as_N v, as_N n with
              | Some v, Some n => SB (if N.eqb v 1 then wr_defs_nonull_v1 n else wr_defs_nonull_v2 n)
              | _, _ => err "args" end
  | _ => err "arity"
  end.

Definition h_wr_defs_nulls (a : list sx) : sx :=
  match a with
  | [v; m] => match as_N v, as_list_of as_N m with
              | Some v, Some m => SB (if N.eqb v 1 then wr_defs_nulls_v1 m else wr_defs_nulls_v2 m)
              | _, _ => err "args" end
  | _ => err "arity"
  end.

Definition h_wr_dict_indices (a : list sx) : sx :=
  match a with
  | [k; c] => match as_nat k, as_list_of as_N c with
              | Some k, Some c => SB (wr_dict_indices k c)
              | _, _ => err "args" end
  | _ => err "arity"
  end.

Definition h_wr_bools (a : list sx) : sx :=
  match a with
  | [m] => match as_list_of as_N m with Some m => SB (wr_bools m) | None => err "args" end
  | _ => err "arity"
  end.

Definition h_skip_hand (a : list sx) : sx :=
  match a with
  | [n] => match as_N n with Some n => sN (skip_hand n) | None => err "args" end
  | _ => err "arity"
  end.

Definition table : list (string * handler) :=
  [("wr_defs_nonull", h_wr_defs_nonull); ("wr_defs_nulls", h_wr_defs_nulls);
   ("wr_dict_indices", h_wr_dict_indices); ("wr_bools", h_wr_bools); ("skip_hand", h_skip_hand)].
