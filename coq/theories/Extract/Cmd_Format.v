(* pqref commands of the file-format layer (C02/C03).
     (fmt_pages #file)                      -> (ok ((CODEC USIZE OFFSET LEN) ...)) | (bad why) | (uns why)
                                               page bodies that need decompression (phase 1)
     (fmt_validate STRICT #file TABLE)      -> (ok) | (bad why) | (uns why)
     (fmt_decode STRICT #file TABLE)        -> (ok (LEAF ...) (RG ...)) | (bad why) | (uns why)
         LEAF = (#name TYPE TLEN MAXDEF (CONV)?)   RG = (COLUMN ...)   COLUMN = (CELL ...)
         CELL = () NULL | xN numeric bit pattern | #bytes
     TABLE = ((#compressed #uncompressed) ...) instantiates `decompress` (phase 2; trusted: cramjam)
     STRICT = 1: a bit-packed run must be present in full; 0: only the bytes of the values needed. *)
From Coq Require Import NArith ZArith List String Ascii Bool.
From Pq Require Import Base.Bytes Base.ListX Extract.Sx Thrift.Compact Format.Phys Format.Meta Format.Page Format.File.
Import ListNotations.
Open Scope string_scope.

Definition table_decompress (tbl : list (bytes * bytes)) (codec : Z) (usize : N) (b : bytes) : option bytes :=
  match find (fun p => bytes_eqb (fst p) b) tbl with Some p => Some (snd p) | None => None end.

Definition as_table (s : sx) : option (list (bytes * bytes)) := Sx.as_list_of (as_pair as_bytes as_bytes) s.

Definition s_rs {A} (f : A -> list sx) (r : rs A) : sx :=
  match r with
  | ROk a => SL (S_ "ok" :: f a)
  | RBad w => SL [S_ "bad"; S_ w]
  | RUns w => SL [S_ "uns"; S_ w]
  end.

Definition s_cell (c : option value) : sx :=
  match c with None => SL [] | Some (VNum n) => sN n | Some (VBin b) => SB b end.

Definition s_leaf (l : leaf) : sx :=
  SL [SB (lf_name l); SZ (ptype_id (cd_type (lf_desc l))); sN (cd_tlen (lf_desc l)); sN (cd_maxdef (lf_desc l));
      sopt SZ (lf_conv l)].

Definition h_fmt_pages (a : list sx) : sx :=
  match a with
  | [f] => match as_bytes f with
           | Some f => s_rs (fun l => [slist (fun x : Z * N * N * N => let '(c, u, o, n) := x in SL [SZ c; sN u; sN o; sN n]) l]) (list_pages f)
           | None => err "args" end
  | _ => err "arity"
  end.

Definition h_fmt_validate (a : list sx) : sx :=
  match a with
  | [st; f; t] => match as_bool st, as_bytes f, as_table t with
                  | Some st, Some f, Some t => s_rs (fun _ => []) (valid_file (table_decompress t) st f)
                  | _, _, _ => err "args" end
  | _ => err "arity"
  end.

Definition h_fmt_decode (a : list sx) : sx :=
  match a with
  | [st; f; t] => match as_bool st, as_bytes f, as_table t with
                  | Some st, Some f, Some t =>
                    s_rs (fun r : list leaf * list (list (list (option value))) =>
                            [slist s_leaf (fst r); slist (slist (slist s_cell)) (snd r)])
                         (dec_file (table_decompress t) st f)
                  | _, _, _ => err "args" end
  | _ => err "arity"
  end.

Definition table : list (string * handler) :=
  [("fmt_pages", h_fmt_pages); ("fmt_validate", h_fmt_validate); ("fmt_decode", h_fmt_decode)].
