(* pqref commands of the file-format layer (C02/C03).
     (fmt_pages #file)                      -> (ok ((CODEC USIZE OFFSET LEN) ...)) | (bad why) | (uns why)
                                               page bodies that need decompression (phase 1)
     (fmt_validate STRICT #file TABLE)      -> (ok) | (bad why) | (uns why)
     (fmt_decode STRICT #file TABLE)        -> (ok (LEAF ...) (RG ...)) | (bad why) | (uns why)
         LEAF = (#name TYPE TLEN MAXDEF (CONV)? (LOGICAL-MEMBER UNIT)? (SCALE)? (PRECISION)? (LOGICAL-TREE)?)   RG = (COLUMN ...)   COLUMN = (CELL ...)
         CELL = () NULL | xN numeric bit pattern | #bytes
     TABLE = ((#KEY #uncompressed) ...), KEY = codec byte followed by the compressed bytes, instantiates `decompress` (phase 2; trusted: cramjam)
     STRICT = 1: a bit-packed run must be present in full; 0: only the bytes of the values needed. *)
From Coq Require Import NArith ZArith List String Ascii Bool.
From Pq Require Import Base.Bytes Base.ListX Extract.Sx Thrift.Compact Codec.Hybrid Format.Phys Format.Meta Format.Page Format.File Format.Enc Format.EncKV Impl.RPages Impl.RChunk Impl.WPagesFmt Impl.WLevels Impl.WChunk Impl.RSelf Impl.RCat Impl.RConvert.
From Pq Require Extract.Cmd_Thrift.
Import ListNotations.
Open Scope string_scope.

Definition table_decompress (tbl : list (bytes * bytes)) (codec : Z) (usize : N) (b : bytes) : option bytes :=
  match find (fun p => bytes_eqb (fst p) (Z.to_N codec :: b)) tbl with Some p => Some (snd p) | None => None end.

Definition as_table (s : sx) : option (list (bytes * bytes)) := Sx.as_list_of (as_pair as_bytes as_bytes) s.

Definition s_rs {A} (f : A -> list sx) (r : rs A) : sx :=
  match r with
  | ROk a => SL (S_ "ok" :: f a)
  | RBad w => SL [S_ "bad"; S_ w]
  | RUns w => SL [S_ "uns"; S_ w]
  end.

Definition s_cell (c : option value) : sx :=
  match c with None => SL [] | Some (VNum n) => sN n | Some (VBin b) => SB b end.

Definition s_leaf (l : leaf) : sx :=
  SL [SB (lf_name l); SZ (ptype_id (cd_type (lf_desc l))); sN (cd_tlen (lf_desc l)); sN (cd_maxdef (lf_desc l));
      sopt SZ (lf_conv l);
      match lf_logical l with
      | Some v => match logical_summary v with Some (a, b) => SL [sN a; sN b] | None => SL [] end
      | None => SL []
      end;
      sopt SZ (lf_scale l); sopt SZ (lf_prec l);
      sopt Cmd_Thrift.sx_of_tv (lf_logical l)].

Definition h_fmt_pages (a : list sx) : sx :=
  match a with
  | [f] => match as_bytes f with
           | Some f => s_rs (fun l => [slist (fun x : Z * N * N * N => let '(c, u, o, n) := x in SL [SZ c; sN u; sN o; sN n]) l]) (list_pages f)
           | None => err "args" end
  | _ => err "arity"
  end.

Definition h_fmt_validate (a : list sx) : sx :=
  match a with
  | [st; f; t] => match as_bool st, as_bytes f, as_table t with
                  | Some st, Some f, Some t => s_rs (fun _ => []) (valid_file (table_decompress t) st f)
                  | _, _, _ => err "args" end
  | _ => err "arity"
  end.

Definition h_fmt_decode (a : list sx) : sx :=
  match a with
  | [st; f; t] => match as_bool st, as_bytes f, as_table t with
                  | Some st, Some f, Some t =>
                    s_rs (fun r : list leaf * list (list (list (option value))) =>
                            [slist s_leaf (fst r); slist (slist (slist s_cell)) (snd r)])
                         (dec_file (table_decompress t) st f)
                  | _, _, _ => err "args" end
  | _ => err "arity"
  end.


(* ---- spec encoder --------------------------------------------------------------------------------
     (fmt_payloads LFILE)        -> (ok ((CODEC #raw) ...))     payloads to compress (phase 1)
     (fmt_encode LFILE TABLE)    -> (ok #file)                  TABLE = ((#KEY #compressed) ...), KEY = codec byte followed by the raw bytes
     (fmt_table LFILE)           -> (ok (LEAF ...) (RG ...)) | (none)     the table the layout denotes
   LFILE = ((LEAF ...) (RG ...) (#created_by)?)
     LEAF  = (#name TYPE TLEN OPTIONAL (CONV)? (LOGICAL)? (SCALE)? (PRECISION)?)      LOGICAL = thrift value tree (Cmd_Thrift)
     RG    = (CHUNK ...)    CHUNK = (CODEC STATS (ITEM ...))
     ITEM  = (dict ENC (VALUE ...)) | (page V2 NVALS (RUN ...) STORE (ISCOMP)? #trail)
     RUN   = (r COUNT V) | (b (V ...))
     STORE = (plain (VALUE ...)) | (dictidx ENC W (RUN ...)) | (rlebool (RUN ...)) | (delta BS MPB (Z ...)) | (raw ENC #bytes)
     VALUE = xN | #bytes                                                                            *)
Definition tag_is := Cmd_Thrift.tag_is.

Definition as_value (s : sx) : option value :=
  match s with SZ z => if (z <? 0)%Z then None else Some (VNum (Z.to_N z)) | SB b => Some (VBin b) | _ => None end.

Definition as_run (s : sx) : option hrun :=
  match s with
  | SL [SB t; c; v] => if tag_is t "r" then match as_N c, as_N v with Some c, Some v => Some (RLE c v) | _, _ => None end else None
  | SL [SB t; vs] => if tag_is t "b" then option_map BP (Sx.as_list_of as_N vs) else None
  | _ => None
  end.

Definition as_store (s : sx) : option vstore :=
  match s with
  | SL [SB t; vs] =>
    if tag_is t "plain" then option_map SPlain (Sx.as_list_of as_value vs) else
    if tag_is t "rlebool" then option_map SRleBool (Sx.as_list_of as_run vs) else None
  | SL [SB t; a; b] =>
    if tag_is t "raw" then match as_Z a, as_bytes b with Some e, Some b => Some (SRaw e b) | _, _ => None end else None
  | SL [SB t; a; b; c] =>
    if tag_is t "dictidx" then
      match as_Z a, as_N b, Sx.as_list_of as_run c with Some e, Some w, Some rs => Some (SDict e w rs) | _, _, _ => None end
    else if tag_is t "delta" then
      match as_N a, as_N b, Sx.as_list_of as_Z c with Some bs, Some mpb, Some zs => Some (SDelta bs mpb zs) | _, _, _ => None end
    else None
  | _ => None
  end.

Definition as_item (s : sx) : option litem :=
  match s with
  | SL [SB t; e; vs] =>
    if tag_is t "dict" then match as_Z e, Sx.as_list_of as_value vs with Some e, Some vs => Some (LDict e vs) | _, _ => None end else None
  | SL [SB t; v2; n; runs; st; ic; tr] =>
    if tag_is t "page" then
      match as_bool v2, as_N n, Sx.as_list_of as_run runs, as_store st, as_opt as_bool ic, as_bytes tr with
      | Some v2, Some n, Some rs, Some st, Some ic, Some tr =>
        Some (LData {| lp_v2 := v2; lp_nvals := n; lp_def := rs; lp_store := st; lp_iscomp := ic; lp_trail := tr |})
      | _, _, _, _, _, _ => None
      end
    else None
  | _ => None
  end.

Definition as_chunk (s : sx) : option lchunk :=
  match s with
  | SL [c; st; its] =>
    match as_Z c, as_bool st, Sx.as_list_of as_item its with
    | Some c, Some st, Some its => Some {| lc_codec := c; lc_items := its; lc_stats := st |}
    | _, _, _ => None
    end
  | _ => None
  end.

Definition as_lleaf (s : sx) : option lleaf :=
  match s with
  | SL [SB nm; ty; tl; op; cv; lg; sc; pr] =>
    match as_Z ty, as_N tl, as_bool op, as_opt as_Z cv, as_opt Cmd_Thrift.tv_of_sx lg, as_opt as_Z sc, as_opt as_Z pr with
    | Some ty, Some tl, Some op, Some cv, Some lg, Some sc, Some pr =>
      match ptype_of_id ty with
      | Some t => Some {| ll_name := nm; ll_type := t; ll_tlen := tl; ll_optional := op; ll_conv := cv; ll_logical := lg;
                          ll_scale := sc; ll_prec := pr |}
      | None => None
      end
    | _, _, _, _, _, _, _ => None
    end
  | _ => None
  end.

Definition as_lfile (s : sx) : option lfile :=
  match s with
  | SL [ls; rgs; cb] =>
    match Sx.as_list_of as_lleaf ls, Sx.as_list_of (Sx.as_list_of as_chunk) rgs, as_opt as_bytes cb with
    | Some ls, Some rgs, Some cb => Some {| l_leaves := ls; l_rgs := rgs; l_created_by := cb |}
    | _, _, _ => None
    end
  | _ => None
  end.

Definition table_compress (tbl : list (bytes * bytes)) (codec : Z) (b : bytes) : bytes :=
  match find (fun p => bytes_eqb (fst p) (Z.to_N codec :: b)) tbl with Some p => snd p | None => b end.

Definition h_fmt_payloads (a : list sx) : sx :=
  match a with
  | [f] => match as_lfile f with
           | Some f => SL [S_ "ok"; slist (fun p : Z * bytes => SL [SZ (fst p); SB (snd p)]) (payloads_of f)]
           | None => err "args" end
  | _ => err "arity"
  end.

Definition h_fmt_encode (a : list sx) : sx :=
  match a with
  | [f; t] => match as_lfile f, as_table t with
              | Some f, Some t => SL [S_ "ok"; SB (enc_file (table_compress t) f)]
              | _, _ => err "args" end
  | _ => err "arity"
  end.

(* (fmt_encode_kv LFILE TABLE ((#key (#value)?) ...)) -> (ok #file): the same file with FileMetaData.key_value_metadata (Format/EncKV.v) *)
Definition as_kv (s : sx) : option (bytes * option bytes) :=
  match s with
  | SL [SB k; SL []] => Some (k, None)
  | SL [SB k; SL [SB v]] => Some (k, Some v)
  | _ => None
  end.

Definition h_fmt_encode_kv (a : list sx) : sx :=
  match a with
  | [f; t; kvs] => match as_lfile f, as_table t, Sx.as_list_of as_kv kvs with
                   | Some f, Some t, Some kvs => SL [S_ "ok"; SB (EncKV.enc_file_kv (table_compress t) kvs f)]
                   | _, _, _ => err "args" end
  | _ => err "arity"
  end.

Definition h_fmt_table (a : list sx) : sx :=
  match a with
  | [f] => match as_lfile f with
           | Some f => match table_of f with
                       | Some r => SL [S_ "ok"; slist s_leaf (fst r); slist (slist (slist s_cell)) (snd r)]
                       | None => SL [S_ "none"]
                       end
           | None => err "args" end
  | _ => err "arity"
  end.

(* ---- impl model of the v1 page reader (Impl/RPages.v), for the correspondence with core.read_data_page
     (fmt_rd_data_page SELFMADE TYPE TLEN MAXDEF NVALS ENC #raw) -> (ok (LEVELS)? v|i (VALUE ...)) | (bad why) | (uns why) *)
Definition h_fmt_rd_data_page (a : list sx) : sx :=
  match a with
  | [sm; ty; tl; md; nv; en; raw] =>
    match as_bool sm, as_Z ty, as_N tl, as_N md, as_Z nv, as_Z en, as_bytes raw with
    | Some sm, Some ty, Some tl, Some md, Some nv, Some en, Some raw =>
      match ptype_of_id ty with
      | Some t =>
        s_rs (fun r : option (list N) * rvals =>
                [sopt (slist sN) (fst r);
                 match snd r with RVals _ => S_ "v" | RIdx _ => S_ "i" end;
                 match snd r with RVals vs => slist (fun v => s_cell (Some v)) vs | RIdx ix => slist sN ix end])
             (rd_data_page sm {| cd_type := t; cd_tlen := tl; cd_maxdef := md |}
                           {| d_nvals := nv; d_enc := en; d_dle := 3; d_rle := 3 |} raw)
      | None => err "args"
      end
    | _, _, _, _, _, _, _ => err "args"
    end
  | _ => err "arity"
  end.

(* impl model of the page loop of core.read_col (Impl/RChunk.v)
     (fmt_rd_chunk INPLACE TYPE TLEN MAXDEF CODEC ROWS #chunk TABLE) -> (ok (CELL ...)) | (bad why) | (uns why) *)
Definition h_fmt_rd_chunk (a : list sx) : sx :=
  match a with
  | [ip; ty; tl; md; co; rows; ch; t] =>
    match as_bool ip, as_Z ty, as_N tl, as_N md, as_Z co, as_N rows, as_bytes ch, as_table t with
    | Some ip, Some ty, Some tl, Some md, Some co, Some rows, Some ch, Some t =>
      match ptype_of_id ty with
      | Some pt =>
        s_rs (fun cells => [slist s_cell cells])
             (rd_chunk (table_decompress t) ch ip {| cd_type := pt; cd_tlen := tl; cd_maxdef := md |} co rows None ch 0 [])
      | None => err "args"
      end
    | _, _, _, _, _, _, _, _ => err "args"
    end
  | _ => err "arity"
  end.

(* impl model of the PLAIN page payload write_column emits (Impl/WPagesFmt.v)
     (fmt_fp_page V2 OPTIONAL TYPE TLEN (CELL ...)) -> (ok #payload)        CELL = () | number | #bytes *)
Definition as_cell (s : sx) : option (option value) :=
  match s with SL [] => Some None | _ => option_map Some (as_value s) end.

Definition h_fmt_fp_page (a : list sx) : sx :=
  match a with
  | [v2; op; ty; tl; cells] =>
    match as_bool v2, as_bool op, as_Z ty, as_N tl, Sx.as_list_of as_cell cells with
    | Some v2, Some op, Some ty, Some tl, Some cells =>
      match ptype_of_id ty with
      | Some t => SL [S_ "ok"; SB (fp_plain_payload v2 op t tl cells)]
      | None => err "args"
      end
    | _, _, _, _, _ => err "args"
    end
  | _ => err "arity"
  end.

(* writer model of a whole column chunk (Impl/WChunk.v) and the reader model with the selfmade shortcuts (Impl/RSelf.v)
     (fmt_w_chunk V2 OPTIONAL TYPE TLEN CODEC K LABELS PAGES TABLE) -> (ok #chunk (#raw ...) (CELL ...) | (none))
        LABELS = () | ((VALUE ...))     PAGES = ((CELL ...) ...), for a categorical CELL = () | code
        #raw = the uncompressed payloads the chunk compresses (phase 1: call with TABLE = (), compress, call again)
     (fmt_rd_chunk_sm SELFMADE SKIPNULLS INPLACE TYPE TLEN MAXDEF CODEC ROWS #chunk TABLE) -> (ok (CELL ...)) | (bad why) | (uns why) *)
Definition code_of (c : option value) : option N := match c with Some (VNum n) => Some n | _ => None end.

Definition w_raws (c : wchunk) : list bytes :=
  ((match wc_labels c with Some labels => [w_plain (wc_type c) labels] | None => [] end) ++
   map (fun p => if wc_v2 c then w_values c p else w_defs c p ++ w_values c p ++ [0; 0; 0; 0; 0; 0; 0; 0]) (wc_pages c))%list.

Definition h_fmt_w_chunk (a : list sx) : sx :=
  match a with
  | [v2; op; ty; tl; co; k; labels; pages; t] =>
    match as_bool v2, as_bool op, as_Z ty, as_N tl, as_Z co, as_N k,
          Sx.as_list_of (Sx.as_list_of as_value) labels, Sx.as_list_of (Sx.as_list_of as_cell) pages, as_table t with
    | Some v2, Some op, Some ty, Some tl, Some co, Some k, Some labels, Some pages, Some t =>
      match ptype_of_id ty with
      | Some pt =>
        let lab := match labels with l :: _ => Some l | [] => None end in
        let c := {| wc_v2 := v2; wc_optional := op; wc_type := pt; wc_tlen := tl; wc_codec := co; wc_k := N.to_nat k;
                    wc_labels := lab;
                    wc_pages := map (fun cells => match lab with Some _ => WDictP (map code_of cells) | None => WPlainP cells end) pages |} in
        SL [S_ "ok"; SB (w_chunk (table_compress t) c); slist SB (w_raws c);
            match w_chunk_cells c with Some cells => slist s_cell cells | None => SL [S_ "none"] end]
      | None => err "args"
      end
    | _, _, _, _, _, _, _, _, _ => err "args"
    end
  | _ => err "arity"
  end.

Definition h_fmt_rd_chunk_sm (a : list sx) : sx :=
  match a with
  | [sm; sk; ip; ty; tl; md; co; rows; ch; t] =>
    match as_bool sm, as_bool sk, as_bool ip, as_Z ty, as_N tl, as_N md, as_Z co, as_N rows, as_bytes ch, as_table t with
    | Some sm, Some sk, Some ip, Some ty, Some tl, Some md, Some co, Some rows, Some ch, Some t =>
      match ptype_of_id ty with
      | Some pt =>
        s_rs (fun cells => [slist s_cell cells])
             (rd_chunk_sm (table_decompress t) ch sm sk ip {| cd_type := pt; cd_tlen := tl; cd_maxdef := md |} co rows None ch 0 [])
      | None => err "args"
      end
    | _, _, _, _, _, _, _, _, _, _ => err "args"
    end
  | _ => err "arity"
  end.

(* the same chunk read AS A CATEGORICAL (Impl/RCat.v): labels and the codes array, -1 = missing
     (fmt_rd_chunk_cat SELFMADE SKIPNULLS AK TYPE TLEN MAXDEF CODEC ROWS #chunk TABLE) -> (ok (VALUE ...) (CODE ...)) | (bad why) | (uns why) *)
Definition h_fmt_rd_chunk_cat (a : list sx) : sx :=
  match a with
  | [sm; sk; ak; ty; tl; md; co; rows; ch; t] =>
    match as_bool sm, as_bool sk, as_N ak, as_Z ty, as_N tl, as_N md, as_Z co, as_N rows, as_bytes ch, as_table t with
    | Some sm, Some sk, Some ak, Some ty, Some tl, Some md, Some co, Some rows, Some ch, Some t =>
      match ptype_of_id ty with
      | Some pt =>
        s_rs (fun r : option (list value) * list Z =>
                [slist (fun v => s_cell (Some v)) (match fst r with Some l => l | None => [] end); slist SZ (snd r)])
             (rd_chunk_cat (table_decompress t) ch sm sk ak {| cd_type := pt; cd_tlen := tl; cd_maxdef := md |} co rows None ch 0 [])
      | None => err "args"
      end
    | _, _, _, _, _, _, _, _, _, _ => err "args"
    end
  | _ => err "arity"
  end.

(* the logical level (Impl/RConvert.v): model of converted_types.convert on each value, the column cast, its reading
   as a logical value, and the specification's logical value
     (fmt_convert TYPE TLEN CONV LUNIT SCALE (VALUE ...)) -> (ok ((CVAL COLUMN-CVAL DENOTED SPEC) ...))
        CONV = () | (n)     LUNIT = () | (0|1|2) for ms|us|ns
        CVAL = (int SIGNED W PATTERN) | (dt UNIT PATTERN) | (td UNIT PATTERN) | (dec UNSCALED SCALE) | (str #b) | (raw VALUE) | (bad why) | (uns why)
        DENOTED, SPEC = () | (lint z) | (ldate d) | (ltime UNIT t) | (lts UNIT t) | (ldec unscaled scale) | (lstr #b) | (lphys VALUE)
        SPEC is what pandas shows of the specified value (pandas_of (logical_of ...)) *)
Definition s_unit (u : tunit) : sx := SZ (match u with TMs => 0 | TUs => 1 | TNs => 2 end)%Z.
Definition as_unit (s : sx) : option tunit :=
  match s with SZ 0%Z => Some TMs | SZ 1%Z => Some TUs | SZ 2%Z => Some TNs | _ => None end.
Definition s_cval (c : cval) : sx :=
  match c with
  | CInt sg w p => SL [S_ "int"; sbool sg; SZ w; sN p]
  | CDatetime u p => SL [S_ "dt"; s_unit u; sN p]
  | CTimedelta u p => SL [S_ "td"; s_unit u; sN p]
  | CDecimal a sc => SL [S_ "dec"; SZ a; SZ sc]
  | CStr b => SL [S_ "str"; SB b]
  | CRaw v => SL [S_ "raw"; s_cell (Some v)]
  end.
Definition s_lval (l : option lval) : sx :=
  match l with
  | None => SL []
  | Some (LInt z) => SL [S_ "lint"; SZ z]
  | Some (LDate d) => SL [S_ "ldate"; SZ d]
  | Some (LTime u t) => SL [S_ "ltime"; s_unit u; SZ t]
  | Some (LTimestamp u t) => SL [S_ "lts"; s_unit u; SZ t]
  | Some (LDecimal a sc) => SL [S_ "ldec"; SZ a; SZ sc]
  | Some (LString b) => SL [S_ "lstr"; SB b]
  | Some (LPhys v) => SL [S_ "lphys"; s_cell (Some v)]
  end.
Definition as_opt {A} (f : sx -> option A) (s : sx) : option (option A) :=
  match s with SL [] => Some None | SL [x] => option_map Some (f x) | _ => None end.

Definition h_fmt_convert (a : list sx) : sx :=
  match a with
  | [ty; tl; cv; lu; sc; vals] =>
    match as_Z ty, as_N tl, as_opt as_Z cv, as_opt as_unit lu, as_Z sc, Sx.as_list_of as_value vals with
    | Some ty, Some tl, Some cv, Some lu, Some sc, Some vals =>
      match ptype_of_id ty with
      | Some pt =>
        SL [S_ "ok"; slist (fun v =>
              match convert_model pt cv lu sc v with
              | ROk c => SL [s_cval c; s_cval (column_of cv c); s_lval (denote (column_of cv c));
                             s_lval (option_map pandas_of (logical_of pt cv lu sc v))]
              | RBad w => SL [SL [S_ "bad"; S_ w]; SL []; SL []; s_lval (option_map pandas_of (logical_of pt cv lu sc v))]
              | RUns w => SL [SL [S_ "uns"; S_ w]; SL []; SL []; s_lval (option_map pandas_of (logical_of pt cv lu sc v))]
              end) vals]
      | None => err "args"
      end
    | _, _, _, _, _, _ => err "args"
    end
  | _ => err "arity"
  end.

Definition table : list (string * handler) :=
  [("fmt_convert", h_fmt_convert); ("fmt_rd_chunk_cat", h_fmt_rd_chunk_cat); ("fmt_w_chunk", h_fmt_w_chunk); ("fmt_rd_chunk_sm", h_fmt_rd_chunk_sm); ("fmt_fp_page", h_fmt_fp_page); ("fmt_rd_chunk", h_fmt_rd_chunk); ("fmt_rd_data_page", h_fmt_rd_data_page); ("fmt_pages", h_fmt_pages); ("fmt_validate", h_fmt_validate); ("fmt_decode", h_fmt_decode);
   ("fmt_payloads", h_fmt_payloads); ("fmt_encode", h_fmt_encode); ("fmt_encode_kv", h_fmt_encode_kv); ("fmt_table", h_fmt_table)].
