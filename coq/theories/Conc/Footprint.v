(* C20 — footprint discipline over ANY set of shared locations, write patterns, API operations.

   1. the static inventory (regenerated from the source by translators/sharedstate.py): location and write-site
      declarations, which write patterns are confluent and which are refuted, the static condition on sites;
   2. the decidable footprint condition on OBSERVED write events (run-time monitor) and the table it induces;
   3. the general discipline [okp]: every location is Frozen (never written after publication), Idem v (written
      idempotently, always with the same value v) or Priv i (owned by thread i) - memo discipline and ownership
      discipline of Interleave.v in one judgment;
   4. the write patterns the source gives away, as programs of the model (check-then-act with and without
      read-back, idempotent store, non-publishing peek, read-modify-write, set-and-restore, publish-then-update,
      scratch slot);
   5. the remaining operations of the property text (statistics, count, head, iteration, pickling, filtered reads)
      as programs built from these combinators.

   Models only; proofs in Proofs/FootprintProofs.v. *)
From Coq Require Import NArith Arith List Bool String.
From Pq Require Import Conc.Interleave.
Import ListNotations.

(* ------------------------------------------------------------------------------------------ *)
(* 1. static inventory                                                                         *)
(* ------------------------------------------------------------------------------------------ *)
Inductive lkind := LModGlobal | LClassAttr | LDefaultArg | LGlobalStmt | LMemoDeco | LFuncAttr | LClosure.
Record loc_decl := mkLoc { l_id : N; l_kind : lkind; l_name : string }.

Inductive pattern := PCheckThenAct | PIdemStore | PAugmented | PRmw | PSetRestore | PMultiStore | PDelete | PMutCall | PPlain.
Inductive wbase := BSelf | BGlobal | BDefault | BClassAttr | BParam | BFresh | BLocal.
Record site_decl := mkSite { s_id : N; s_file : string; s_line : N; s_end : N; s_pat : pattern; s_base : wbase; s_import : bool }.

(* confluent: proved schedule-independent (FootprintProofs: cta_*_ok, idem_store_ok);
   refuted: a computed interleaving gives a result different from the solo result (rmw_refuted, set_restore_refuted,
   publish_update_refuted, scratch_refuted); PPlain: decided by the observed values (idempotent or not);
   PMutCall: a builtin mutating method (append, pop, seek, write ...): not idempotent *)
Definition pat_confluent (p : pattern) : bool :=
  match p with PCheckThenAct | PIdemStore => true | _ => false end.
Definition pat_refuted (p : pattern) : bool :=
  match p with PAugmented | PRmw | PSetRestore | PMultiStore | PDelete | PMutCall => true | _ => false end.

(* bases that are shared between all threads whatever the caller does *)
Definition base_static_shared (b : wbase) : bool :=
  match b with BGlobal | BDefault | BClassAttr => true | _ => false end.

(* static condition on a write site: stores into module-level / default-argument / class-level state after import
   time must not follow a refuted pattern *)
Definition site_static_ok (s : site_decl) : bool :=
  s_import s || negb (base_static_shared (s_base s)) || negb (pat_refuted (s_pat s)).

(* a keyed memo store `C[key] = value` into a container that outlives the call: does the source give away that the value
   is a function of the key?  (names: what the value is computed from is named by the key or is the owner of the container;
   pure: the key uses no identity / rendering - id, repr, str, hash) *)
Record memo_key := mkMemoKey { mk_line : N; mk_names_ok : bool; mk_key_pure : bool }.
Definition memo_key_ok (m : memo_key) : bool := mk_names_ok m && mk_key_pure m.

Definition pattern_eqb (a b : pattern) : bool :=
  match a, b with
  | PCheckThenAct, PCheckThenAct | PIdemStore, PIdemStore | PAugmented, PAugmented | PRmw, PRmw
  | PSetRestore, PSetRestore | PMultiStore, PMultiStore | PDelete, PDelete | PMutCall, PMutCall | PPlain, PPlain => true
  | _, _ => false
  end.

Fixpoint ids_distinct (l : list N) : bool :=
  match l with
  | [] => true
  | x :: r => negb (existsb (N.eqb x) r) && ids_distinct r
  end.

(* the site a line of a file belongs to (first match) *)
Definition site_at (sites : list site_decl) (file : string) (line : N) : option site_decl :=
  find (fun s => String.eqb (s_file s) file && N.leb (s_line s) line && N.leb line (s_end s)) sites.

(* ------------------------------------------------------------------------------------------ *)
(* 2. observed write events and the decidable footprint condition                              *)
(* ------------------------------------------------------------------------------------------ *)
(* one observed change of one location: key, value before (None = absent), value after (None = removed), the
   pattern of the site the write was attributed to (PPlain when unattributed) *)
Record wevent := mkEv { e_key : N; e_old : option N; e_new : option N; e_pat : pattern }.

Definition ev_ok (e : wevent) : bool :=
  match e_old e, e_new e with
  | None, Some _ => true                 (* publication of an absent key *)
  | Some a, Some b => N.eqb a b          (* idempotent: the same value again *)
  | _, None => false                     (* removal *)
  end && negb (pat_refuted (e_pat e)).

(* one value per key over all events: the table key -> value *)
Fixpoint ev_table (tbl : snapshot) (evs : list wevent) : option snapshot :=
  match evs with
  | [] => Some tbl
  | e :: r =>
    match e_new e with
    | None => None
    | Some v =>
      match lookup (e_key e) tbl with
      | Some v' => if N.eqb v' v then ev_table tbl r else None
      | None => ev_table ((e_key e, v) :: tbl) r
      end
    end
  end.

Definition footprint_ok (evs : list wevent) : bool :=
  forallb ev_ok evs && match ev_table [] evs with Some _ => true | None => false end.

(* what acceptance means: the event is a memo write of the table [memo] in the sense of Interleave.classify *)
Definition ev_legal (memo : N -> option N) (e : wevent) : Prop :=
  exists v, memo (e_key e) = Some v /\ e_new e = Some v /\ (e_old e = None \/ e_old e = Some v).

(* first offending event (index, key) for the report *)
Fixpoint first_bad_ev (n : N) (tbl : snapshot) (evs : list wevent) : option (N * N) :=
  match evs with
  | [] => None
  | e :: r =>
    if negb (ev_ok e) then Some (n, e_key e)
    else match e_new e with
         | None => Some (n, e_key e)
         | Some v =>
           match lookup (e_key e) tbl with
           | Some v' => if N.eqb v' v then first_bad_ev (N.succ n) tbl r else Some (n, e_key e)
           | None => first_bad_ev (N.succ n) ((e_key e, v) :: tbl) r
           end
         end
  end.

(* ------------------------------------------------------------------------------------------ *)
(* 3. the general discipline                                                                   *)
(* ------------------------------------------------------------------------------------------ *)
Section Disc.
Variable V R : Type.

(* Multi P: a location that may hold, at any time, nothing or any value satisfying P, and that any thread may set to
   any such value (a cache that is invalidated and refilled, a per-call scratch attribute nobody's result depends on):
   confluent as long as every reader copes with every answer *)
Inductive lclass := Frozen | Idem (v : V) | Priv (i : nat) | Multi (P : V -> Prop).
Variable cls : N -> lclass.
Variable base : store V.          (* the values of the Frozen locations *)

Definition memo_of : N -> option V := fun k => match cls k with Idem v => Some v | _ => None end.

(* [okp i pv kn p r pf]: thread i, whose own locations currently hold [pv], knowing the Idem keys [kn] to be present,
   runs p to result r and leaves [pf] in its own locations.
   - Frozen locations are only read, and hold [base];
   - own locations are read and written freely (the thread sees its own writes);
   - Idem locations are written with their one value only; a read of one not known to be present must cope with
     both answers and both ways lead to the same result and the same own state;
   - locations of other threads are not touched. *)
Inductive okp (i : nat) : store V -> known -> prog V R -> R -> store V -> Prop :=
| p_ret : forall pv kn r, okp i pv kn (Ret r) r pv
| p_get_frozen : forall pv kn k f r pf, cls k = Frozen -> okp i pv kn (f (base k)) r pf -> okp i pv kn (Get k f) r pf
| p_get_priv : forall pv kn k f r pf, cls k = Priv i -> okp i pv kn (f (pv k)) r pf -> okp i pv kn (Get k f) r pf
| p_put_priv : forall pv kn k v p r pf, cls k = Priv i -> okp i (upd pv k v) kn p r pf -> okp i pv kn (Put k v p) r pf
| p_get_known : forall pv kn k v f r pf, cls k = Idem v -> kn k = true -> okp i pv kn (f (Some v)) r pf -> okp i pv kn (Get k f) r pf
| p_get_idem : forall pv kn k v f r pf, cls k = Idem v ->
    okp i pv kn (f None) r pf -> okp i pv (addk k kn) (f (Some v)) r pf -> okp i pv kn (Get k f) r pf
| p_put_idem : forall pv kn k v p r pf, cls k = Idem v -> okp i pv (addk k kn) p r pf -> okp i pv kn (Put k v p) r pf
| p_get_multi : forall pv kn k P f r pf, cls k = Multi P ->
    okp i pv kn (f None) r pf -> (forall v, P v -> okp i pv kn (f (Some v)) r pf) -> okp i pv kn (Get k f) r pf
| p_put_multi : forall pv kn k P v p r pf, cls k = Multi P -> P v -> okp i pv kn p r pf -> okp i pv kn (Put k v p) r pf.

(* stores that hold the frozen data and any part of the Idem table (own locations: anything) *)
Definition consistentc (s : store V) : Prop :=
  forall k, match cls k with
            | Frozen => s k = base k
            | Idem v => s k = None \/ s k = Some v
            | Priv _ => True
            | Multi P => s k = None \/ exists v, P v /\ s k = Some v
            end.

Definition agree_priv (i : nat) (s pv : store V) : Prop := forall k, cls k = Priv i -> s k = pv k.

(* a log entry is legal when it is an Idem write or a write of the owner *)
Definition log_legal (e : nat * N) : Prop :=
  match cls (snd e) with Frozen => False | Idem _ => True | Priv j => j = fst e | Multi _ => True end.

End Disc.
Arguments Frozen {V}. Arguments Idem {V}. Arguments Priv {V}. Arguments Multi {V}.
Arguments okp {V R}. Arguments consistentc {V}. Arguments agree_priv {V}. Arguments memo_of {V}. Arguments log_legal {V}.

(* ------------------------------------------------------------------------------------------ *)
(* 4. write patterns as programs                                                               *)
(* ------------------------------------------------------------------------------------------ *)
Section Patterns.
Variable V R : Type.

(* check-then-act WITH read-back = Interleave.memo_compute:
       if k not in d: d[k] = g(immutable); v = d[k]
   check-then-act WITHOUT read-back:
       v = d.get(k);  if v is None: v = g(immutable); d[k] = v *)
Definition cta_noreadback (k : N) (ks : list N) (g : list (option V) -> V) (cont : V -> prog V R) : prog V R :=
  Get k (fun o => match o with
                  | Some v => cont v
                  | None => read_all ks [] (fun vals => Put k (g vals) (cont (g vals)))
                  end).

(* unconditional store of the one value: d[k] = g(immutable) *)
Definition idem_store (k : N) (ks : list N) (g : list (option V) -> V) (cont : V -> prog V R) : prog V R :=
  read_all ks [] (fun vals => Put k (g vals) (cont (g vals))).

(* non-publishing use of a memo (a pickled / derived copy that carries the cache when it is there and recomputes
   otherwise): v = d.get(k) or g(immutable) *)
Definition peek (k : N) (ks : list N) (g : list (option V) -> V) (cont : V -> prog V R) : prog V R :=
  Get k (fun o => match o with
                  | Some v => cont v
                  | None => read_all ks [] (fun vals => cont (g vals))
                  end).

(* read-modify-write: x = g(x) / x op= e, then use x *)
Definition rmw (k : N) (g : option V -> V) (cont : option V -> prog V R) : prog V R :=
  Get k (fun o => Put k (g o) (Get k cont)).

(* set-and-restore: old = x; x = tmp; <body reads x>; x = old *)
Definition set_restore (k : N) (tmp : V) (dflt : V) (cont : option V -> prog V R) : prog V R :=
  Get k (fun old => Put k tmp (Get k (fun cur => Put k (match old with Some v => v | None => dflt end) (cont cur)))).

(* publish, then update: x = raw; x = conv(raw) (both under one absence test) *)
Definition publish_update (k : N) (raw conv : V) (cont : V -> prog V R) : prog V R :=
  Get k (fun o => match o with
                  | Some v => cont v
                  | None => Put k raw (Put k conv (cont conv))
                  end).

(* a scratch slot: buf = mine; ... ; use buf *)
Definition scratch (k : N) (mine : V) (cont : option V -> prog V R) : prog V R :=
  Put k mine (Get k cont).

(* a sequence of memoised values with a continuation (filter_out_stats over row groups x columns, then the read) *)
Variable f : N -> list (option V) -> V.
Variable err : R.
Fixpoint memo_fold (l : list (N * list N)) (acc : list V) (cont : list V -> prog V R) : prog V R :=
  match l with
  | [] => cont (rev acc)
  | (k, ks) :: rest => memo_compute k ks (f k) err (fun v => memo_fold rest (v :: acc) cont)
  end.

Fixpoint peek_fold (l : list (N * list N)) (acc : list V) (cont : list V -> prog V R) : prog V R :=
  match l with
  | [] => cont (rev acc)
  | (k, ks) :: rest => peek k ks (f k) (fun v => peek_fold rest (v :: acc) cont)
  end.

Variable base : store V.
Definition pure_vals (l : list (N * list N)) : list V := map (fun kk => f (fst kk) (map base (snd kk))) l.

(* ------------------------------------------------------------------------------------------ *)
(* 5. the operations of the property text                                                      *)
(* ------------------------------------------------------------------------------------------ *)
(* The data a handle holds: frozen attributes (fmd fields, schema, row-group descriptors, file bytes) and memo
   attributes (per (row group, column) converted_min/max; _statistics; _kvm; _pdm; _categories; _base_dtype; tz).
   Every operation is a program over these; what it computes from the values it read is a section variable. *)

(* pf.statistics: `if self._statistics is None: self._statistics = statistics(self)`; return it *)
Definition op_statistics (kS : N) (stat_keys : list N) (out : V -> R) : prog V R :=
  memo_compute kS stat_keys (f kS) err (fun v => Ret (out v)).

(* pf.count(filters): row groups selected through the memoised bounds, then sum of the frozen num_rows *)
Definition op_count (bounds : list (N * list N)) (nrows : list N) (out : list V -> list (option V) -> R) : prog V R :=
  memo_fold bounds [] (fun bs => read_all nrows [] (fun ns => Ret (out bs ns))).

(* pf.to_pandas(columns, filters): bounds, then the column chunks of the selected row groups (frozen file bytes) *)
Definition op_read (bounds : list (N * list N)) (chunks : list V -> list N) (out : list V -> list (option V) -> R) : prog V R :=
  memo_fold bounds [] (fun bs => read_all (chunks bs) [] (fun cs => Ret (out bs cs))).

(* pf[i:j] / pf[i]: reads frozen attributes of the parent (incl. its schema helper), builds a NEW handle (private
   to the thread: continuation state), then any operation through it *)
Definition op_derive (attrs : list N) (through : list (option V) -> prog V R) : prog V R :=
  read_all attrs [] through.

(* pf.head(n): derived handle of the first row group, read through it *)
Definition op_head (attrs : list N) (bounds : list (N * list N)) (chunks : list V -> list N)
           (out : list (option V) -> list V -> list (option V) -> R) : prog V R :=
  op_derive attrs (fun a => op_read bounds chunks (out a)).

(* pf.iter_row_groups(filters): per selected row group a derived handle and a read; the frames are accumulated *)
Fixpoint op_iter (rgs : list (list N * list (N * list N) * list N)) (acc : list (list (option V) * list V * list (option V)))
         (out : list (list (option V) * list V * list (option V)) -> R) : prog V R :=
  match rgs with
  | [] => Ret (out (rev acc))
  | (attrs, bounds, chunks) :: rest =>
    read_all attrs [] (fun a => memo_fold bounds [] (fun bs => read_all chunks [] (fun cs =>
      op_iter rest ((a, bs, cs) :: acc) out)))
  end.

(* pickle.dumps(pf) -> loads -> operation on the copy: __getstate__ reads frozen attributes and whatever memo
   attributes are there; the copy uses a carried value or recomputes it (never publishes into the parent) *)
Definition op_pickle (attrs : list N) (memos : list (N * list N)) (out : list (option V) -> list V -> R) : prog V R :=
  read_all attrs [] (fun a => peek_fold memos [] (fun ms => Ret (out a ms))).

End Patterns.
Arguments cta_noreadback {V R}. Arguments idem_store {V R}. Arguments peek {V R}. Arguments rmw {V R}.
Arguments set_restore {V R}. Arguments publish_update {V R}. Arguments scratch {V R}.
Arguments memo_fold {V R}. Arguments peek_fold {V R}. Arguments pure_vals {V}.
Arguments op_statistics {V R}. Arguments op_count {V R}. Arguments op_read {V R}. Arguments op_derive {V R}.
Arguments op_head {V R}. Arguments op_iter {V R}. Arguments op_pickle {V R}.

(* ------------------------------------------------------------------------------------------ *)
(* 6. deletion                                                                                 *)
(* ------------------------------------------------------------------------------------------ *)
(* The store of Interleave.v has no removal.  Deletion is modelled in the LIFTED value space `option W`: the value
   `None` is a tombstone (`del d[k]`, `d.pop(k)`, `self._x = None` for a memo attribute whose "not computed" marker is
   None); programs look at a location through [view], which shows a tombstone as absent. *)
Section Deletion.
Variable W R : Type.

Definition view (o : option (option W)) : option W := match o with Some (Some w) => Some w | _ => None end.
Definition Del (k : N) (p : prog (option W) R) : prog (option W) R := Put k None p.
Definition SetV (k : N) (w : W) (p : prog (option W) R) : prog (option W) R := Put k (Some w) p.
Definition GetV (k : N) (f : option W -> prog (option W) R) : prog (option W) R := Get k (fun o => f (view o)).

(* the values an invalidated-and-refilled cache may hold: the tombstone or its one value *)
Definition cacheP (w : W) : option W -> Prop := fun v => v = None \/ v = Some w.

(* use of a cache WITHOUT read-back: v = d.get(k); if v is None: v = g(immutable); d[k] = v *)
Definition use_cache (k : N) (ks : list N) (g : list (option (option W)) -> W) (cont : W -> prog (option W) R) : prog (option W) R :=
  GetV k (fun o => match o with
                   | Some w => cont w
                   | None => read_all ks [] (fun vals => SetV k (g vals) (cont (g vals)))
                   end).

(* use WITH read-back: if not hasattr(s, k): s[k] = g(...);  v = s[k]      (KeyError when it vanished in between) *)
Definition use_cache_readback (k : N) (ks : list N) (g : list (option (option W)) -> W) (err : R) (cont : W -> prog (option W) R)
  : prog (option W) R :=
  GetV k (fun o =>
    let back := GetV k (fun o' => match o' with Some w => cont w | None => Ret err end) in
    match o with
    | Some _ => back
    | None => read_all ks [] (fun vals => SetV k (g vals) back)
    end).
End Deletion.
Arguments view {W}. Arguments Del {W R}. Arguments SetV {W R}. Arguments GetV {W R}. Arguments cacheP {W}.
Arguments use_cache {W R}. Arguments use_cache_readback {W R}.

(* kinds of observed events (for the report of the monitor) *)
Inductive ekind := EPublish | ESame | EChange | ERemove | ENone.
Definition ev_kind (e : wevent) : ekind :=
  match e_old e, e_new e with
  | None, Some _ => EPublish
  | Some a, Some b => if N.eqb a b then ESame else EChange
  | Some _, None => ERemove
  | None, None => ENone
  end.
Definition ekind_code (k : ekind) : N := match k with EPublish => 0 | ESame => 1 | EChange => 2 | ERemove => 3 | ENone => 4 end%N.

(* the footprint condition relative to a set of VOLATILE locations (class Multi: invalidated caches, per-call scratch
   attributes): their events are not constrained; all others as in [footprint_ok] *)
Definition footprint_ok_vol (vol : N -> bool) (evs : list wevent) : bool :=
  footprint_ok (filter (fun e => negb (vol (e_key e))) evs).

(* ------------------------------------------------------------------------------------------ *)
(* 8. iteration over the key SET of a shared container                                         *)
(* ------------------------------------------------------------------------------------------ *)
(* copy.deepcopy, pickling in Python, dict(d), list(d.items()), json encoding walk a dict with `for k, v in d.items()`:
   CPython raises RuntimeError ("dictionary changed size during iteration") when the key set is not the one the iteration
   started with.  Model: the container is the family of locations [ks]; the iterator looks at the presence of every key
   when it starts and again when it goes on (any later step), and fails when the two looks differ. *)
Section Iteration.
Variable V R : Type.

Definition present (o : option V) : bool := match o with Some _ => true | None => false end.

Fixpoint bools_eqb (a b : list bool) : bool :=
  match a, b with
  | [], [] => true
  | x :: a', y :: b' => Bool.eqb x y && bools_eqb a' b'
  | _, _ => false
  end.

Definition iter_keys (ks : list N) (cont : bool -> prog V R) : prog V R :=
  read_all ks [] (fun first => read_all ks [] (fun again =>
    cont (bools_eqb (map present first) (map present again)))).

(* the iterating operation: result [okv] when the walk goes through, [errv] = RuntimeError *)
Definition iterate (ks : list N) (okv errv : R) : prog V R :=
  iter_keys ks (fun same => Ret (if same then okv else errv)).
End Iteration.
Arguments present {V}. Arguments iter_keys {V R}. Arguments iterate {V R}.
