(* C20 — the regenerated table "operation -> slots read / slots written (with pattern)" (translators/opreads.py) and the
   programs it denotes.  Models only; proofs in Proofs/OpTableProofs.v. *)
From Coq Require Import NArith List Bool String.
From Pq Require Import Conc.Interleave Conc.Footprint.
Import ListNotations.

Record oprow := mkRow { or_name : string; or_reads : list N; or_writes : list (N * pattern) }.

Definition all_writes (tbl : list oprow) : list (N * pattern) := flat_map or_writes tbl.
Definition written (tbl : list oprow) (s : N) : bool := existsb (fun w => N.eqb (fst w) s) (all_writes tbl).
(* written by SOME operation at a site of a refuted pattern *)
Definition badly_written (tbl : list oprow) (s : N) : bool :=
  existsb (fun w => N.eqb (fst w) s && pat_refuted (snd w)) (all_writes tbl).

(* the regenerated discipline obligation over reads AND writes: no operation reads a slot that some operation (itself
   included) writes non-idempotently *)
Definition row_ok (tbl : list oprow) (r : oprow) : bool := forallb (fun s => negb (badly_written tbl s)) (or_reads r).
Definition table_disciplined (tbl : list oprow) : bool := forallb (row_ok tbl) tbl.

Definition all_slots (tbl : list oprow) : list N := flat_map or_reads tbl ++ map fst (all_writes tbl).
Definition frozen_slots (tbl : list oprow) : list N := filter (fun s => negb (written tbl s)) (all_slots tbl).
Definition writes_slot (r : oprow) (s : N) : bool := existsb (fun w => N.eqb (fst w) s) (or_writes r).

Section Rows.
Variable V R : Type.
Variable f : N -> list (option V) -> V.      (* the value a memo slot is given, from the frozen slots *)
Variable jv : N -> V.                        (* whatever a non-idempotent write stores *)
Variable err : R.
Variable out : list (option V) -> R.         (* what the operation computes from what it read *)
Variable base : store V.
Variable tbl : list oprow.

(* the classification of the slots induced by the WHOLE table *)
Definition cls_tbl : N -> lclass V := fun s =>
  if badly_written tbl s then Multi (fun _ => True)
  else if written tbl s then Idem (f s (map base (frozen_slots tbl)))
  else Frozen.

(* the non-idempotent writes of a row (a counter bumped, a scratch attribute overwritten) *)
Fixpoint bad_puts (ws : list (N * pattern)) (p : prog V R) : prog V R :=
  match ws with
  | [] => p
  | (s, pat) :: rest => if badly_written tbl s then Put s (jv s) (bad_puts rest p) else bad_puts rest p
  end.

(* the program of a row: its reads in order - a never-written slot is read; a slot written idempotently is used as a
   memo (published when the row itself has a write site for it, peeked otherwise) - then its non-idempotent writes *)
Fixpoint row_steps (r : oprow) (reads : list N) (acc : list (option V)) : prog V R :=
  match reads with
  | [] => bad_puts (or_writes r) (Ret (out (rev acc)))
  | s :: rest =>
    if written tbl s then
      if writes_slot r s
      then memo_compute s (frozen_slots tbl) (f s) err (fun v => row_steps r rest (Some v :: acc))
      else peek s (frozen_slots tbl) (f s) (fun v => row_steps r rest (Some v :: acc))
    else Get s (fun o => row_steps r rest (o :: acc))
  end.

Definition row_prog (r : oprow) : prog V R := row_steps r (or_reads r) [].

Definition row_vals (reads : list N) : list (option V) :=
  map (fun s => if written tbl s then Some (f s (map base (frozen_slots tbl))) else base s) reads.
Definition row_pure (r : oprow) : R := out (row_vals (or_reads r)).
End Rows.
