(* C20 — concurrent use of one dataset handle: the interleaving model.

   A shared store (key -> optional value), threads as deterministic programs over atomic actions,
   schedules = arbitrary lists of thread ids.  What CPython guarantees and the model assumes: one
   dict / attribute access (a `Get` or a `Put`) is atomic.  Preemption happens between any two
   actions of a thread.

   The three kinds of atomic action of the design (Read k, MemoWrite k v, DestructiveWrite k v)
   are the three values of [akind]: a thread program only says `Get k` or `Put k v`; whether a
   `Put` is a memo write or a destructive write is decided by the state it is executed in
   ([classify]): memo = the key is absent or already holds the same value.

   Models only; proofs are in Proofs/InterleaveProofs.v. *)
From Coq Require Import NArith Arith List Bool.
Import ListNotations.

(* ------------------------------------------------------------------------------------------ *)
(* 1. stores, programs, schedules                                                              *)
(* ------------------------------------------------------------------------------------------ *)
Section Model.
Variable V : Type.      (* values held in the shared store *)
Variable R : Type.      (* results of threads *)

Definition store := N -> option V.
Definition upd (s : store) (k : N) (v : V) : store := fun k' => if N.eqb k' k then Some v else s k'.

(* a thread = a deterministic step function, presented as the tree of its possible futures *)
Inductive prog :=
| Ret (r : R)                                  (* finished with result r *)
| Get (k : N) (f : option V -> prog)           (* atomic read of key k *)
| Put (k : N) (v : V) (p : prog).              (* atomic write of key k *)

(* one atomic action of a thread *)
Definition step1 (p : prog) (s : store) : prog * store :=
  match p with
  | Ret _ => (p, s)
  | Get k f => (f (s k), s)
  | Put k v q => (q, upd s k v)
  end.

(* the thread alone, to completion *)
Fixpoint solo (p : prog) (s : store) : R * store :=
  match p with
  | Ret r => (r, s)
  | Get k f => solo (f (s k)) s
  | Put k v q => solo q (upd s k v)
  end.

(* thread pools are indexed by thread id; a schedule is a list of thread ids *)
Definition pool := nat -> prog.
Definition setp (ps : pool) (i : nat) (p : prog) : pool := fun j => if Nat.eqb j i then p else ps j.

(* a configuration also keeps the log of writes performed: (thread, key), newest first *)
Record config := Cfg { c_pool : pool; c_store : store; c_log : list (nat * N) }.

Definition wrote (p : prog) : option N := match p with Put k _ _ => Some k | _ => None end.

Definition step (i : nat) (c : config) : config :=
  let p := c_pool c i in
  let ps := step1 p (c_store c) in
  Cfg (setp (c_pool c) i (fst ps)) (snd ps)
      (match wrote p with Some k => (i, k) :: c_log c | None => c_log c end).

Definition exec (sched : list nat) (c : config) : config := fold_left (fun c i => step i c) sched c.

Definition init (ps : pool) (s : store) : config := Cfg ps s [].

Definition result (c : config) (i : nat) : option R :=
  match c_pool c i with Ret r => Some r | _ => None end.

(* classification of the action a thread is about to perform, in the state it is performed in *)
Inductive akind := KDone | KRead | KMemoWrite | KDestructiveWrite.

Section Classify.
Variable veqb : V -> V -> bool.
Definition classify (p : prog) (s : store) : akind :=
  match p with
  | Ret _ => KDone
  | Get _ _ => KRead
  | Put k v _ => match s k with
                 | None => KMemoWrite
                 | Some v' => if veqb v' v then KMemoWrite else KDestructiveWrite
                 end
  end.

(* the kinds of the actions executed along a schedule *)
Fixpoint kinds (sched : list nat) (c : config) : list akind :=
  match sched with
  | [] => []
  | i :: r => classify (c_pool c i) (c_store c) :: kinds r (step i c)
  end.
End Classify.

(* ------------------------------------------------------------------------------------------ *)
(* 2. the memo discipline (the per-operation footprint premise)                                *)
(* ------------------------------------------------------------------------------------------ *)
(* [memo k = Some v]: k is a memo key and v the value every computation of it yields (a function
   of immutable data).  [memo k = None]: k is immutable data; its value is [base k], never written. *)
Variable memo : N -> option V.
Variable base : store.

(* [ok kn p r]: p is memo-disciplined and yields r; [kn] = the memo keys the thread knows to be
   present (it has written them or has seen them present; nothing is ever removed).
   - it writes memo keys only, and only their table value;
   - it may read immutable data;
   - when it reads a memo key it does not know to be present it must cope with both answers
     (absent: it computes the value itself; present: it uses it) and both ways lead to r;
   - it may read back a key it knows to be present (s["converted_max"] = v; v = s["converted_max"]). *)
Definition known := N -> bool.
Definition addk (k : N) (kn : known) : known := fun k' => if N.eqb k' k then true else kn k'.
Definition nothing : known := fun _ => false.

Inductive ok : known -> prog -> R -> Prop :=
| ok_ret : forall kn r, ok kn (Ret r) r
| ok_get_imm : forall kn k f r, memo k = None -> ok kn (f (base k)) r -> ok kn (Get k f) r
| ok_get_known : forall kn k v f r, memo k = Some v -> kn k = true -> ok kn (f (Some v)) r -> ok kn (Get k f) r
| ok_get_memo : forall kn k v f r, memo k = Some v ->
    ok kn (f None) r -> ok (addk k kn) (f (Some v)) r -> ok kn (Get k f) r
| ok_put : forall kn k v p r, memo k = Some v -> ok (addk k kn) p r -> ok kn (Put k v p) r.

(* what a thread knows is true of the store *)
Definition knows (kn : known) (s : store) : Prop :=
  forall k, kn k = true -> exists v, memo k = Some v /\ s k = Some v.

(* stores that hold the immutable data and any part of the memo table *)
Definition consistent (s : store) : Prop :=
  forall k, match memo k with
            | None => s k = base k
            | Some v => s k = None \/ s k = Some v
            end.

(* the memo table of the entries written according to a log *)
Definition logged (log : list (nat * N)) (k : N) : bool := existsb (fun e => N.eqb (snd e) k) log.
Definition union_store (s0 : store) (log : list (nat * N)) : store :=
  fun k => match s0 k with
           | Some v => Some v
           | None => if logged log k then memo k else None
           end.

(* an upper bound on the number of actions a thread still performs, whatever it reads *)
Inductive bounded : prog -> nat -> Prop :=
| b_ret : forall r n, bounded (Ret r) n
| b_get : forall k f n, (forall o, bounded (f o) n) -> bounded (Get k f) (S n)
| b_put : forall k v p n, bounded p n -> bounded (Put k v p) (S n).

(* ------------------------------------------------------------------------------------------ *)
(* 3. ownership discipline (part-file writers)                                                  *)
(* ------------------------------------------------------------------------------------------ *)
(* [own k = None]: shared (schema, file metadata template); [own k = Some i]: private to thread i
   (its part file, its row-group object). *)
Variable own : N -> option nat.

Inductive respects (i : nat) : prog -> Prop :=
| rs_ret : forall r, respects i (Ret r)
| rs_get : forall k f, (own k = None \/ own k = Some i) -> (forall o, respects i (f o)) -> respects i (Get k f)
| rs_put : forall k v p, own k = Some i -> respects i p -> respects i (Put k v p).

Definition visible (i : nat) (k : N) : Prop := own k = None \/ own k = Some i.

End Model.

Arguments Ret {V R}. Arguments Get {V R}. Arguments Put {V R}.
Arguments Cfg {V R}. Arguments c_pool {V R}. Arguments c_store {V R}. Arguments c_log {V R}.
Arguments step1 {V R}. Arguments solo {V R}. Arguments step {V R}. Arguments exec {V R}.
Arguments init {V R}. Arguments result {V R}. Arguments setp {V R}. Arguments upd {V}.
Arguments classify {V R}. Arguments kinds {V R}. Arguments wrote {V R}.
Arguments ok {V R}. Arguments knows {V}. Arguments consistent {V}. Arguments union_store {V}. Arguments bounded {V R}.
Arguments respects {V R}.

(* ------------------------------------------------------------------------------------------ *)
(* 3b. the memoising operations of api.py as programs of the model                              *)
(* ------------------------------------------------------------------------------------------ *)
(* api.filter_out_stats, per (row group, column, bound):
       if not hasattr(s, "converted_max"):          Get k            (absent ->)
           b = ensure_bytes(max); vmax = read_plain(b, ...); vmax = convert(vmax, se)   reads of immutable data
           s["converted_max"] = vmax                Put k (f vals)
       vmax = s["converted_max"]                    Get k
   api.ParquetFile.statistics / key_value_metadata / pandas_metadata / categories have the same shape
   (`if self._x is None: self._x = compute(immutable); return self._x`).
   [memo_compute k ks f err cont]: look memo key k up; when absent read the immutable keys ks, store
   f of what was read, read it back; continue with the value.  [err]: the result if the read-back
   found nothing (KeyError in the code; unreachable under the discipline). *)
Section MemoOps.
Variable V R : Type.

Fixpoint read_all (ks : list N) (acc : list (option V)) (cont : list (option V) -> prog V R) : prog V R :=
  match ks with
  | [] => cont (rev acc)
  | k :: r => Get k (fun o => read_all r (o :: acc) cont)
  end.

Definition memo_compute (k : N) (ks : list N) (f : list (option V) -> V) (err : R) (cont : V -> prog V R) : prog V R :=
  Get k (fun o => match o with
                  | Some v => cont v
                  | None => read_all ks [] (fun vals =>
                              Put k (f vals) (Get k (fun o' => match o' with Some v => cont v | None => Ret err end)))
                  end).

(* an operation that consults a sequence of memoised values (all statistics of the row groups a
   filter touches), may stop early ([stop], e.g. `return True` in filter_out_stats) and otherwise
   computes its result from all of them ([fin]) *)
Variable f : N -> list (option V) -> V.
Variable stop : list V -> option R.
Variable fin : list V -> R.
Variable err : R.

Fixpoint memo_seq (l : list (N * list N)) (acc : list V) : prog V R :=
  match l with
  | [] => Ret (fin acc)
  | (k, ks) :: rest =>
    memo_compute k ks (f k) err
      (fun v => match stop (v :: acc) with Some r => Ret r | None => memo_seq rest (v :: acc) end)
  end.

(* the same computation as a pure function of the immutable data *)
Variable base : store V.
Fixpoint pure_seq (l : list (N * list N)) (acc : list V) : R :=
  match l with
  | [] => fin acc
  | (k, ks) :: rest =>
    let v := f k (map base ks) in
    match stop (v :: acc) with Some r => r | None => pure_seq rest (v :: acc) end
  end.
End MemoOps.
Arguments read_all {V R}. Arguments memo_compute {V R}. Arguments memo_seq {V R}. Arguments pure_seq {V R}.

(* ------------------------------------------------------------------------------------------ *)
(* 4. the schema tree of schema.py (impl model of schema_tree, statement by statement)          *)
(* ------------------------------------------------------------------------------------------ *)
(* A schema is the depth-first list of its elements (name id, num_children).  The shared state is,
   per element index, the tuple of the keys of its `children` dict.  [tree_writes] lists the writes
   schema.schema_tree performs, in program order (newest first in the accumulator):

     def schema_tree(schema, i=0):
         root = schema[i]
         root["children"] = OrderedDict()                 -> (i, [])
         while len(root["children"]) < root.num_children:
             i += 1
             s = schema[i]
             root["children"][s.name] = s                 -> (root, keys ++ [name])
             if s.num_children not in [None, 0]:
                 i = schema_tree(schema, i)
         ...
   (names of the children of one element are distinct, so the loop runs num_children times) *)
Definition elem := (N * N)%type.
Definition wlog := list (nat * list N).

Fixpoint tree (fuel : nat) (sch : list elem) (i : nat) (acc : wlog) {struct fuel} : option (nat * wlog) :=
  match fuel with
  | O => None
  | S f =>
    match nth_error sch i with
    | None => None
    | Some (_, nc) =>
      (fix kids (n : nat) (cur : list N) (j : nat) (acc : wlog) {struct n} : option (nat * wlog) :=
         match n with
         | O => Some (j, acc)
         | S n' =>
           match nth_error sch (S j) with
           | None => None
           | Some (nm, nc') =>
             let cur' := cur ++ [nm] in
             let acc' := (i, cur') :: acc in
             if N.eqb nc' 0 then kids n' cur' (S j) acc'
             else match tree f sch (S j) acc' with
                  | None => None
                  | Some (j', acc'') => kids n' cur' j' acc''
                  end
           end
         end) (N.to_nat nc) [] i ((i, []) :: acc)
    end
  end.

Definition tree_writes (sch : list elem) : option wlog :=
  match tree (S (length sch)) sch 0 [] with
  | Some (_, acc) => Some (rev acc)
  | None => None
  end.

(* the store of the schema-tree instance: key = element index, value = children key tuple *)
Definition tstore := store (list N).

(* the thread that (re)builds the tree on the SHARED elements, as SchemaHelper.__init__ did for
   every derived handle on the pinned tree: one Put per write of schema_tree *)
Fixpoint writes_prog {R} (ws : wlog) (r : R) : prog (list N) R :=
  match ws with
  | [] => Ret r
  | (i, ks) :: rest => Put (N.of_nat i) ks (writes_prog rest r)
  end.

(* a reader on the parent handle: SchemaHelper.schema_element([name]) = root["children"][name].
   Results: 0 = found, 1 = KeyError, 2 = no children attribute *)
Definition reader (name : N) : prog (list N) N :=
  Get 0%N (fun o => match o with
                    | Some ks => if existsb (N.eqb name) ks then Ret 0%N else Ret 1%N
                    | None => Ret 2%N
                    end).

(* the store after the parent handle has been built: the final value of every element *)
Definition built (ws : wlog) : tstore :=
  fold_left (fun s w => upd s (N.of_nat (fst w)) (snd w)) ws (fun _ => None).

(* ------------------------------------------------------------------------------------------ *)
(* 5. checker for observed footprint traces (evaluated on the traces of the real code)          *)
(* ------------------------------------------------------------------------------------------ *)
(* A snapshot is the fingerprint of the state reachable from the parent handle at one line event:
   an association list key id -> value id (absent keys are absent).  A trace is the list of
   snapshots of one operation run alone.  [trace_ok]: nothing that was there ever changes or
   disappears, i.e. every transition is a memo add.  [merge]: all traces agree on one table. *)
Definition snapshot := list (N * N).

Fixpoint lookup (k : N) (s : snapshot) : option N :=
  match s with
  | [] => None
  | (k', v) :: r => if N.eqb k' k then Some v else lookup k r
  end.

Definition trans_ok (a b : snapshot) : bool :=
  forallb (fun kv => match lookup (fst kv) b with Some v' => N.eqb v' (snd kv) | None => false end) a.

Fixpoint trace_ok (tr : list snapshot) : bool :=
  match tr with
  | a :: (b :: _) as rest => trans_ok a b && trace_ok rest
  | _ => true
  end.

(* first destructive transition: index of the snapshot and the key that changed or vanished *)
Definition bad_key (a b : snapshot) : option N :=
  match filter (fun kv => negb (match lookup (fst kv) b with Some v' => N.eqb v' (snd kv) | None => false end)) a with
  | [] => None
  | kv :: _ => Some (fst kv)
  end.

Fixpoint first_bad (n : N) (tr : list snapshot) : option (N * N) :=
  match tr with
  | a :: (b :: _) as rest =>
    match bad_key a b with
    | Some k => Some (n, k)
    | None => first_bad (N.succ n) rest
    end
  | _ => None
  end.

(* one table for all snapshots of all traces; None when two snapshots disagree on a key *)
Fixpoint merge1 (tbl : snapshot) (s : snapshot) : option snapshot :=
  match s with
  | [] => Some tbl
  | (k, v) :: r =>
    match lookup k tbl with
    | Some v' => if N.eqb v' v then merge1 tbl r else None
    | None => merge1 ((k, v) :: tbl) r
    end
  end.

Fixpoint merge (tbl : snapshot) (ss : list snapshot) : option snapshot :=
  match ss with
  | [] => Some tbl
  | s :: r => match merge1 tbl s with Some t => merge t r | None => None end
  end.

(* snapshots as stores of the model *)
Definition store_of (s : snapshot) : store N := fun k => lookup k s.
