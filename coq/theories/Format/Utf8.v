(* UTF-8 (RFC 3629) as a spec model: code points -> bytes.  No fastparquet content. *)
From Coq Require Import NArith List.
From Pq Require Import Base.Bytes.
Import ListNotations.
Open Scope N_scope.

(* RFC 3629 *)
Definition utf8 (c : N) : bytes :=
  if c <? 0x80 then [c]
  else if c <? 0x800 then [0xC0 + c / 64; 0x80 + c mod 64]
  else if c <? 0x10000 then [0xE0 + c / 4096; 0x80 + (c / 64) mod 64; 0x80 + c mod 64]
  else [0xF0 + c / 262144; 0x80 + (c / 4096) mod 64; 0x80 + (c / 64) mod 64; 0x80 + c mod 64].

Definition utf8_encode (s : list N) : bytes := flat_map utf8 s.

