(* SPEC: the specification encoder of Format/Enc.v with FileMetaData.key_value_metadata (field 5: list<KeyValue>,
   KeyValue = {1: required string key, 2: optional string value}) - application metadata any writer may attach
   (pyarrow / fastparquet put a JSON document under the key "pandas").  The typed view of the footer the
   specification decoder works from (Format/Meta.v fmd_of_tv) does not look at field 5: what a file encodes does not
   depend on it (Proofs/EncKVProofs.v).                                                                          *)
From Coq Require Import NArith ZArith List.
From Pq Require Import Base.Bytes Base.ListX Thrift.Compact Format.Meta Format.ChunkLayout Format.File Format.Enc.
Import ListNotations.

Definition kv_to_tv (kv : bytes * option bytes) : tv :=
  TStruct ((1%N, TBin (fst kv)) :: match snd kv with Some v => [(2%N, TBin v)] | None => [] end).

Definition fmd_to_tv_kv (kvs : list (bytes * option bytes)) (f : fmd) : tv :=
  TStruct ([(1%N, TI32 (fm_version f)); (2%N, TList 12 (map selem_to_tv (fm_schema f)));
            (3%N, TI64 (fm_nrows f)); (4%N, TList 12 (map rgroup_to_tv (fm_rgs f)));
            (5%N, TList 12 (map kv_to_tv kvs))] ++ optf 6 TBin (fm_created_by f)).

Section Codec.
Variable compress : Z -> bytes -> bytes.

Definition enc_file_kv (kvs : list (bytes * option bytes)) (f : lfile) : bytes :=
  let '(bs, rgs, _) := enc_rgs compress (l_leaves f) (l_rgs f) 4 in
  let m := {| fm_version := 1; fm_schema := root_selem (lenN (l_leaves f)) :: map selem_of_l (l_leaves f);
              fm_nrows := sumZ (map rg_nrows rgs); fm_rgs := rgs; fm_created_by := l_created_by f |} in
  let footer := wr (fmd_to_tv_kv kvs m) in
  app_tr magic (app_tr (concat_tr bs) (app_tr footer (app_tr (le_enc 4 (lenN footer)) magic))).

End Codec.
