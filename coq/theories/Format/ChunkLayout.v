(* Structural layout of a written Parquet file (property C02): what parquet.thrift says the
   ColumnMetaData / RowGroup / FileMetaData bookkeeping fields mean, as a decidable checker over
   the parsed layout, and the impl model of the bookkeeping fastparquet.writer.write_column does
   (running position + `diff` accumulator).  Page payloads are opaque here; only sizes matter.

   parquet.thrift:  total_compressed_size  = "total byte size of all compressed, and potentially
   encrypted, pages in this column chunk (including the headers)";  total_uncompressed_size = the
   same for uncompressed pages;  data_page_offset = "byte offset from beginning of file to first
   data page";  dictionary_page_offset = offset of the dictionary page;  num_values = number of
   values in this column (= rows of the row group for a flat column).                              *)
From Coq Require Import ZArith List Bool Arith Lia.
Import ListNotations.

Inductive pkind := PDict | PData1 | PData2.

Record page := {
  p_kind : pkind;
  p_hdr : Z;        (* bytes of the serialised PageHeader *)
  p_comp : Z;       (* compressed_page_size = payload bytes in the file *)
  p_uncomp : Z;     (* uncompressed_page_size *)
  p_nvals : Z;      (* num_values of the data/dictionary page header *)
  p_enc : Z         (* encoding id *)
}.

Record cmeta := {
  c_num_values : Z;
  c_data_page_offset : Z;
  c_dict_page_offset : option Z;
  c_total_comp : Z;
  c_total_uncomp : Z;
  c_encodings : list Z
}.

Definition is_data (p : page) : bool := match p_kind p with PDict => false | _ => true end.
Fixpoint sumZ (l : list Z) : Z := match l with [] => 0%Z | x :: r => (x + sumZ r)%Z end.
Open Scope Z_scope.

Definition disk_size (p : page) := p_hdr p + p_comp p.
Definition plain_size (p : page) := p_hdr p + p_uncomp p.

Definition chunk_start (c : cmeta) : Z :=
  match c_dict_page_offset c with Some d => Z.min d (c_data_page_offset c) | None => c_data_page_offset c end.

(* ---- the checker: what a reader written from the specification relies on ------------------- *)
Definition check_chunk (c : cmeta) (ps : list page) : bool :=
  let start := chunk_start c in
  (* sizes describe the bytes present *)
  (sumZ (map disk_size ps) =? c_total_comp c) &&
  (sumZ (map plain_size ps) =? c_total_uncomp c) &&
  (* value counts *)
  (sumZ (map p_nvals (filter is_data ps)) =? c_num_values c) &&
  (* a dictionary page, if any, is the first page and dictionary_page_offset points at it;
     data_page_offset points at the first data page *)
  (match ps with
   | [] => false
   | p0 :: rest =>
     forallb is_data rest &&
     match p_kind p0, c_dict_page_offset c with
     | PDict, Some d => (d =? start) && (c_data_page_offset c =? start + disk_size p0) && negb (match rest with [] => true | _ => false end)
     | PDict, None => false
     | _, Some _ => false
     | _, None => c_data_page_offset c =? start
     end
   end) &&
  (* every page's encoding is announced *)
  forallb (fun p => existsb (Z.eqb (p_enc p)) (c_encodings c)) ps &&
  forallb (fun p => (0 <? p_hdr p) && (0 <=? p_comp p) && (0 <=? p_uncomp p) && (0 <=? p_nvals p)) ps.

(* offsets at which the pages sit when they tile the chunk without gaps *)
Fixpoint page_offsets (pos : Z) (ps : list page) : list Z :=
  match ps with [] => [] | p :: r => pos :: page_offsets (pos + disk_size p) r end.

(* ---- impl model of write_column's bookkeeping -------------------------------------------------
   column_chunk_start = f.tell(); diff = 0; dict_page_offset = None; data_page_offset = start
   dictionary page (first page of a categorical): dict_page_offset = start; diff += l0 - l1;
       write header, payload; data_page_offset = f.tell()
   data page v1: diff += l0 - l1;   v2: diff += lb - len(bdata)   (both = uncompressed - compressed page size)
   compressed_size = f.tell() - start; uncompressed_size = compressed_size + diff                  *)
Record wstate := { w_pos : Z; w_diff : Z; w_dict : option Z; w_data : Z }.

Definition w_step (start : Z) (s : wstate) (p : page) : wstate :=
  let pos' := w_pos s + disk_size p in
  match p_kind p with
  | PDict => {| w_pos := pos'; w_diff := w_diff s + (p_uncomp p - p_comp p); w_dict := Some start; w_data := pos' |}
  | _ => {| w_pos := pos'; w_diff := w_diff s + (p_uncomp p - p_comp p); w_dict := w_dict s; w_data := w_data s |}
  end.

Definition wr_bookkeeping (start tot_rows : Z) (encs : list Z) (ps : list page) : cmeta :=
  let s := fold_left (w_step start) ps {| w_pos := start; w_diff := 0; w_dict := None; w_data := start |} in
  let comp := w_pos s - start in
  {| c_num_values := tot_rows; c_data_page_offset := w_data s; c_dict_page_offset := w_dict s;
     c_total_comp := comp; c_total_uncomp := comp + w_diff s; c_encodings := encs |}.

(* ---- row group and file level --------------------------------------------------------------- *)
Record rgmeta := { r_num_rows : Z; r_total_byte_size : Z; r_chunks : list (cmeta * list page) }.

Definition check_rg (r : rgmeta) : bool :=
  forallb (fun cp => check_chunk (fst cp) (snd cp) && (c_num_values (fst cp) =? r_num_rows r)) (r_chunks r) &&
  (r_total_byte_size r =? sumZ (map (fun cp => c_total_uncomp (fst cp)) (r_chunks r))).

(* chunk byte intervals, in file order, must lie in [lo, hi) and not overlap *)
Fixpoint intervals_ok (lo hi : Z) (iv : list (Z * Z)) : bool :=
  match iv with
  | [] => lo <=? hi
  | (a, b) :: r => (lo <=? a) && (a <=? b) && intervals_ok b hi r
  end.

Definition chunk_interval (cp : cmeta * list page) : Z * Z :=
  (chunk_start (fst cp), chunk_start (fst cp) + c_total_comp (fst cp)).

(* file = "PAR1" data "footer" le32 "PAR1"; footer_start computed by the harness from the trailer *)
Record fmeta := { f_len : Z; f_footer_start : Z; f_footer_len : Z; f_num_rows : Z; f_rgs : list rgmeta }.

Definition check_file (f : fmeta) : bool :=
  (f_footer_start f + f_footer_len f + 8 =? f_len f) && (4 <=? f_footer_start f) &&
  forallb check_rg (f_rgs f) &&
  (f_num_rows f =? sumZ (map r_num_rows (f_rgs f))) &&
  intervals_ok 4 (f_footer_start f) (map chunk_interval (concat (map r_chunks (f_rgs f)))).
