(* Format/Nested.v -- SPEC model, written from the Dremel paper (record shredding / assembly) and
   Parquet's LogicalTypes.md (LIST and MAP shapes) only; nothing here looks at fastparquet.

   Column shapes covered (one repeated level):

     <row_opt ? optional : required> group NAME (LIST) {
        repeated group list { <elem_opt ? optional : required> PRIMITIVE element; } }

     <row_opt ? optional : required> group NAME (MAP) {
        repeated group key_value { required PRIMITIVE key; <elem_opt ? optional : required> PRIMITIVE value; } }

   max repetition level = 1.  Definition levels of the leaf (count of non-required ancestors that
   are defined):
        0                      the LIST/MAP group itself is null        (only when row_opt)
        d_empty   = row_opt    the group is there, no repeated child    (empty list)
        d_nullel  = d_empty+1  the repeated child is there, leaf null   (only when elem_opt)
        max_def   = d_empty+1+elem_opt   leaf value present
   A MAP's key column is the LIST shape with elem_opt = false, its value column the LIST shape
   with the value's optionality; both columns have the same repetition structure. *)
From Coq Require Import NArith List Bool Lia.
Import ListNotations.
Open Scope N_scope.

Record shape := mkShape { row_opt : bool; elem_opt : bool }.

Definition d_empty (sh : shape) : N := if row_opt sh then 1 else 0.
Definition d_nullel (sh : shape) : N := d_empty sh + 1.
Definition max_def (sh : shape) : N := d_empty sh + 1 + (if elem_opt sh then 1 else 0).

(* one (repetition level, definition level) pair *)
Definition entry := (N * N)%type.

Section Nested.
Variable V : Type.

Definition elem := option V.               (* None = null element *)
Definition row := option (list elem).      (* None = null row; Some [] = empty list *)

(* ---------- well-formed rows for a shape (nulls only where the schema allows them) ---------- *)
Definition is_some (e : elem) : bool := match e with Some _ => true | None => false end.
Definition wf_row (sh : shape) (r : row) : bool :=
  match r with
  | None => row_opt sh
  | Some es => elem_opt sh || forallb is_some es
  end.
Definition wf_rows (sh : shape) (rows : list row) : bool := forallb (wf_row sh) rows.

(* ---------- shredding (Dremel, figure 3 specialised to one repeated level) ---------- *)
Definition elem_def (sh : shape) (e : elem) : N :=
  match e with Some _ => max_def sh | None => d_nullel sh end.

Definition row_entries (sh : shape) (r : row) : list entry :=
  match r with
  | None => [(0, 0)]
  | Some [] => [(0, d_empty sh)]
  | Some (e :: es) => (0, elem_def sh e) :: map (fun x => (1, elem_def sh x)) es
  end.

Fixpoint elem_values (es : list elem) : list V :=
  match es with
  | [] => []
  | Some v :: t => v :: elem_values t
  | None :: t => elem_values t
  end.
Definition row_values (r : row) : list V := match r with Some es => elem_values es | None => [] end.

Definition shred_entries (sh : shape) (rows : list row) : list entry := flat_map (row_entries sh) rows.
Definition shred_values (rows : list row) : list V := flat_map row_values rows.
Definition shred (sh : shape) (rows : list row) : list entry * list V :=
  (shred_entries sh rows, shred_values rows).

(* ---------- record assembly (Dremel section 4.3: the FSM for a single one-level repeated leaf) ----
   r = 0 starts a new record; r = 1 continues the current list; d says how much of the path
   list? -> repeated child -> leaf is defined.  Malformed streams (continuation of a null or empty
   list, level out of range, values missing or left over) are rejected with None. *)
Definition open_row (sh : shape) (d : N) (vs : list V) : option (row * list V) :=
  if d <? d_empty sh then Some (None, vs)
  else if d =? d_empty sh then Some (Some [], vs)
  else if d =? max_def sh then
    match vs with v :: vs' => Some (Some [Some v], vs') | [] => None end
  else if d <? max_def sh then Some (Some [None], vs)
  else None.

Definition cont_row (sh : shape) (cur : row) (d : N) (vs : list V) : option (row * list V) :=
  match cur with
  | Some (e :: es) =>
    if d =? max_def sh then
      match vs with v :: vs' => Some (Some ((e :: es) ++ [Some v]), vs') | [] => None end
    else if (d_empty sh <? d) && (d <? max_def sh) then Some (Some ((e :: es) ++ [None]), vs)
    else None
  | _ => None
  end.

Fixpoint asm (sh : shape) (cur : row) (es : list entry) (vs : list V) : option (list row) :=
  match es with
  | [] => match vs with [] => Some [cur] | _ :: _ => None end
  | (r, d) :: t =>
    if r =? 0 then
      match open_row sh d vs with
      | Some (c, vs') => option_map (cons cur) (asm sh c t vs')
      | None => None
      end
    else if r =? 1 then
      match cont_row sh cur d vs with
      | Some (c, vs') => asm sh c t vs'
      | None => None
      end
    else None
  end.

Definition assemble_spec (sh : shape) (es : list entry) (vs : list V) : option (list row) :=
  match es with
  | [] => match vs with [] => Some [] | _ :: _ => None end
  | (r, d) :: t =>
    if r =? 0 then
      match open_row sh d vs with
      | Some (c, vs') => asm sh c t vs'
      | None => None
      end
    else None
  end.

End Nested.

Arguments elem_def {V}. Arguments row_entries {V}. Arguments elem_values {V}. Arguments row_values {V}.
Arguments shred_entries {V}. Arguments shred_values {V}. Arguments shred {V}.
Arguments open_row {V}. Arguments cont_row {V}. Arguments asm {V}. Arguments assemble_spec {V}.
Arguments wf_row {V}. Arguments wf_rows {V}. Arguments is_some {V}.

(* ---------- MAP <required key, optional/required value> ---------- *)
Section Maps.
Variables K V : Type.

Definition map_row := option (list (K * option V)).    (* None = null map; pairs in stored order *)

Definition keys_of (r : map_row) : row K := option_map (map (fun kv => Some (fst kv))) r.
Definition vals_of (r : map_row) : row V := option_map (map snd) r.

Definition key_shape (sh : shape) : shape := mkShape (row_opt sh) false.

Definition wf_map_row (sh : shape) (r : map_row) : bool := wf_row sh (vals_of r).

(* the two leaf columns of a MAP column *)
Definition shred_map (sh : shape) (rows : list map_row)
  : (list entry * list K) * (list entry * list V) :=
  (shred (key_shape sh) (map keys_of rows), shred sh (map vals_of rows)).

(* pairing of the k-th key with the k-th value of the same row (LogicalTypes.md: each key_value
   group is one pair); rows whose key list and value list disagree in length or nullness, and null
   keys, are malformed *)
Fixpoint zip_kv (ks : list (elem K)) (vs : list (elem V)) : option (list (K * option V)) :=
  match ks, vs with
  | [], [] => Some []
  | Some k :: ks', v :: vs' => option_map (cons (k, v)) (zip_kv ks' vs')
  | _, _ => None
  end.
Definition zip_row (k : row K) (v : row V) : option map_row :=
  match k, v with
  | None, None => Some None
  | Some ks, Some vs => option_map Some (zip_kv ks vs)
  | _, _ => None
  end.
Fixpoint zip_rows (ks : list (row K)) (vs : list (row V)) : option (list map_row) :=
  match ks, vs with
  | [], [] => Some []
  | k :: ks', v :: vs' =>
    match zip_row k v, zip_rows ks' vs' with
    | Some r, Some rs => Some (r :: rs)
    | _, _ => None
    end
  | _, _ => None
  end.

Definition assemble_map_spec (sh : shape) (kc : list entry * list K) (vc : list entry * list V)
  : option (list map_row) :=
  match assemble_spec (key_shape sh) (fst kc) (snd kc), assemble_spec sh (fst vc) (snd vc) with
  | Some ks, Some vs => zip_rows ks vs
  | _, _ => None
  end.
End Maps.

Arguments keys_of {K V}. Arguments vals_of {K V}. Arguments shred_map {K V}. Arguments zip_kv {K V}.
Arguments zip_row {K V}. Arguments zip_rows {K V}. Arguments assemble_map_spec {K V}.
Arguments wf_map_row {K V}.
