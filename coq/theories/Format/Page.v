(* SPEC (parquet-format README "Data Pages", Encodings.md, parquet.thrift PageHeader): one page of a
   flat column: definition levels, values in the page's encoding, data page v1 / v2 / dictionary page.
   Decoder `dec_*` and encoder `enc_*`.  Written from the format documents only.

   Compression is outside Coq: `decompress codec usize payload` is a parameter (trusted: cramjam);
   codec 0 (UNCOMPRESSED) is the identity by specification and is hard-wired here.                 *)
From Coq Require Import NArith ZArith List Bool String.
From Pq Require Import Base.Bytes Base.Bits Base.ListX Codec.Varint Codec.Zigzag Codec.Bitpack
  Codec.Hybrid Codec.Delta Thrift.Compact Thrift.Idl Thrift.IdlPinned Format.Phys Format.Meta.
Import ListNotations.
Open Scope string_scope.
Open Scope N_scope.

(* three-way result: the file is decodable / violates the format / uses a feature outside the model *)
Inductive rs (A : Type) := ROk (a : A) | RBad (why : string) | RUns (why : string).
Arguments ROk {A}. Arguments RBad {A}. Arguments RUns {A}.
Definition rbind {A B} (r : rs A) (f : A -> rs B) : rs B :=
  match r with ROk a => f a | RBad w => RBad w | RUns w => RUns w end.
Notation "'let!' x := e 'in' k" := (rbind e (fun x => k)) (at level 200, x pattern, e at level 100, k at level 200).
Definition of_opt {A} (why : string) (o : option A) : rs A := match o with Some a => ROk a | None => RBad why end.
Definition guard (b : bool) (why : string) : rs unit := if b then ROk tt else RBad why.
Definition z2n (why : string) (z : Z) : rs N := if (z <? 0)%Z then RBad why else ROk (Z.to_N z).

(* encodings (parquet.thrift Encoding) *)
Definition E_PLAIN : Z := 0.   Definition E_PLAIN_DICT : Z := 2.  Definition E_RLE : Z := 3.
Definition E_BIT_PACKED : Z := 4.  Definition E_DELTA : Z := 5.  Definition E_RLE_DICT : Z := 8.

(* column descriptor: physical type, type_length, max definition level (0 required / 1 optional) *)
Record coldesc := { cd_type : ptype; cd_tlen : N; cd_maxdef : N }.

Definition level_width (maxdef : N) : N := N.size maxdef.

Section Codec.
(* decompress codec uncompressed_size payload; codec <> 0 *)
Variable decompress : Z -> N -> bytes -> option bytes.

Definition inflate (codec : Z) (usize : N) (b : bytes) : rs bytes :=
  if (codec =? 0)%Z then ROk b else of_opt "decompression failed" (decompress codec usize b).

(* ---- levels ---------------------------------------------------------------------------------- *)
(* merge levels and values into cells; None = NULL *)
Fixpoint cells_of (maxdef : N) (levels : list N) (vals : list value) (acc : list (option value))
  : option (list (option value)) :=
  match levels with
  | [] => match vals with [] => Some (rev_append acc []) | _ => None end
  | l :: ls =>
    if l =? maxdef then
      match vals with v :: vs => cells_of maxdef ls vs (Some v :: acc) | [] => None end
    else cells_of maxdef ls vals (None :: acc)
  end.

Definition count_def (maxdef : N) (levels : list N) : N :=
  fold_left (fun a l => if l =? maxdef then N.succ a else a) levels 0.

(* ---- values ----------------------------------------------------------------------------------- *)
Fixpoint nthN {A} (l : list A) (i : N) : option A :=
  match l with [] => None | x :: r => if i =? 0 then Some x else nthN r (N.pred i) end.

Fixpoint lookup_all (dict : list value) (ix : list N) (acc : list value) : option (list value) :=
  match ix with
  | [] => Some (rev_append acc [])
  | i :: r => match nthN dict i with Some v => lookup_all dict r (v :: acc) | None => None end
  end.

Definition int_bits (t : ptype) : option N :=
  match t with INT32 => Some 32 | INT64 => Some 64 | _ => None end.

(* n values of column cd stored with encoding enc at the front of b (b = rest of the page) *)
Definition dec_values (strict : bool) (cd : coldesc) (dict : option (list value)) (enc : Z) (n : N) (b : bytes)
  : rs (list value) :=
  if (enc =? E_PLAIN)%Z then
    match plain_dec (cd_type cd) (cd_tlen cd) n b with
    | Some (vs, _) => ROk vs
    | None => RBad "PLAIN values: page too short"
    end
  else if ((enc =? E_PLAIN_DICT) || (enc =? E_RLE_DICT))%Z then
    match dict with
    | None => RBad "dictionary-encoded page without dictionary page"
    | Some d =>
      match b with
      | [] => if n =? 0 then ROk [] else RBad "dictionary indices: missing bit width"
      | w :: r =>
        if 32 <? w then RBad "dictionary indices: bit width > 32" else
        match hyb_dec strict w n r with
        | Some (ix, _) => of_opt "dictionary index out of range" (lookup_all d ix [])
        | None => RBad "dictionary indices: RLE/bit-packed data too short"
        end
      end
    end
  else if (enc =? E_RLE)%Z then
    match cd_type cd with
    | BOOLEAN =>
      match hyb_dec_len strict 1 n b with
      | Some (vs, _) => ROk (map VNum vs)
      | None => RBad "RLE booleans: data too short"
      end
    | _ => RBad "RLE value encoding on a non-boolean column"
    end
  else if (enc =? E_DELTA)%Z then
    match int_bits (cd_type cd) with
    | Some bits =>
      match delta_dec bits b with
      | Some (zs, _) =>
        if lenN zs =? n then ROk (map (fun z => VNum (of_signed bits z)) zs)
        else RBad "DELTA_BINARY_PACKED: value count differs from the page's"
      | None => RBad "DELTA_BINARY_PACKED: malformed"
      end
    | None => RBad "DELTA_BINARY_PACKED on a non-integer column"
    end
  else if ((enc =? 6) || (enc =? 7) || (enc =? 9))%Z then RUns "DELTA_LENGTH_BYTE_ARRAY / DELTA_BYTE_ARRAY / BYTE_STREAM_SPLIT"
  else RBad "unknown value encoding".

(* ---- pages -------------------------------------------------------------------------------------
   what one page contributes *)
Inductive pcontent :=
| CDict (vals : list value)
| CData (nvals : N) (nnulls : N) (cells : list (option value))
| CSkip.                                       (* index page: skipped *)

Definition dec_dict_page (cd : coldesc) (codec : Z) (h : dictph) (usize : N) (payload : bytes) : rs pcontent :=
  let! raw := inflate codec usize payload in
  let! _ := guard (lenN raw =? usize) "dictionary page: uncompressed_page_size differs from the data" in
  let! n := z2n "dictionary page: negative num_values" (k_nvals h) in
  if negb ((k_enc h =? E_PLAIN) || (k_enc h =? E_PLAIN_DICT))%Z then RBad "dictionary page: encoding is not PLAIN" else
  match plain_dec (cd_type cd) (cd_tlen cd) n raw with
  | Some (vs, _) => ROk (CDict vs)
  | None => RBad "dictionary page: too short for num_values"
  end.

(* definition levels of a required column are not stored: every level is the maximum (0) *)
Definition dec_data_v1 (strict : bool) (cd : coldesc) (codec : Z) (dict : option (list value)) (h : dph)
  (usize : N) (payload : bytes) : rs pcontent :=
  let! raw := inflate codec usize payload in
  let! _ := guard (lenN raw =? usize) "data page: uncompressed_page_size differs from the data" in
  let! n := z2n "data page: negative num_values" (d_nvals h) in
  let! lr := (if cd_maxdef cd =? 0 then ROk (repN (cd_maxdef cd) n [], raw)
              else if negb (d_dle h =? E_RLE)%Z then
                (if (d_dle h =? E_BIT_PACKED)%Z then RUns "BIT_PACKED definition levels (deprecated)" else RBad "unknown level encoding")
              else of_opt "data page: definition levels malformed" (hyb_dec_len strict (level_width (cd_maxdef cd)) n raw)) in
  let! _ := guard (forallb (fun l => l <=? cd_maxdef cd) (fst lr)) "definition level above the maximum" in
  let k := count_def (cd_maxdef cd) (fst lr) in
  let! vs := dec_values strict cd dict (d_enc h) k (snd lr) in
  let! cs := of_opt "data page: values do not match the definition levels" (cells_of (cd_maxdef cd) (fst lr) vs []) in
  ROk (CData n (n - k) cs).

Definition dec_data_v2 (strict : bool) (cd : coldesc) (codec : Z) (dict : option (list value)) (h : dph2)
  (usize : N) (payload : bytes) : rs pcontent :=
  let! n := z2n "data page v2: negative num_values" (d2_nvals h) in
  let! nn := z2n "data page v2: negative num_nulls" (d2_nnulls h) in
  let! nr := z2n "data page v2: negative num_rows" (d2_nrows h) in
  let! dl := z2n "data page v2: negative definition_levels_byte_length" (d2_dlen h) in
  let! rl := z2n "data page v2: negative repetition_levels_byte_length" (d2_rlen h) in
  let! _ := guard (rl =? 0) "data page v2: repetition levels in a flat column" in
  let! _ := guard (nr =? n) "data page v2: num_rows differs from num_values in a flat column" in
  let! _ := guard (dl <=? lenN payload) "data page v2: levels longer than the page" in
  let! _ := guard (dl <=? usize) "data page v2: levels longer than uncompressed_page_size" in
  let lvb := takeN dl payload in
  let body := dropN dl payload in
  let comp := match d2_iscomp h with Some false => false | _ => true end in
  let! raw := (if comp then inflate codec (usize - dl) body else ROk body) in
  let! _ := guard (lenN raw + dl =? usize) "data page v2: uncompressed_page_size differs from the data" in
  let! lv := (if cd_maxdef cd =? 0 then
                let! _ := guard (dl =? 0) "data page v2: definition levels in a required column" in
                ROk (repN (cd_maxdef cd) n [])
              else
                match hyb_dec strict (level_width (cd_maxdef cd)) n lvb with
                | Some (lv, _) => ROk lv
                | None => RBad "data page v2: definition levels malformed"
                end) in
  let! _ := guard (forallb (fun l => l <=? cd_maxdef cd) lv) "definition level above the maximum" in
  let k := count_def (cd_maxdef cd) lv in
  let! _ := guard (n - k =? nn) "data page v2: num_nulls differs from the definition levels" in
  let! vs := dec_values strict cd dict (d2_enc h) k raw in
  let! cs := of_opt "data page v2: values do not match the definition levels" (cells_of (cd_maxdef cd) lv vs []) in
  ROk (CData n nn cs).

Definition dec_page (strict : bool) (cd : coldesc) (codec : Z) (dict : option (list value)) (h : phdr) (payload : bytes)
  : rs pcontent :=
  let! us := z2n "negative uncompressed_page_size" (ph_usize h) in
  match ph_body h with
  | PBDict d => dec_dict_page cd codec d us payload
  | PBData d => dec_data_v1 strict cd codec dict d us payload
  | PBData2 d => dec_data_v2 strict cd codec dict d us payload
  | PBIndex => ROk CSkip
  end.

End Codec.

(* ---- page header on the wire ---------------------------------------------------------------- *)
Definition idl_opts : opts := mkO true true false.   (* undeclared ids tolerated, 0x00 empty list, enum range by the typed view *)

(* header at the front of b: (header, length of its serialisation, rest) *)
Definition dec_phdr (b : bytes) : rs (phdr * N * bytes) :=
  match thrift_dec true b with
  | None => RBad "page header: not a compact-protocol struct"
  | Some (v, rest) =>
    if negb (conforms pinned idl_opts (FStruct "PageHeader") v) then RBad "page header: does not conform to the IDL" else
    match phdr_of_tv v with
    | Some h => ROk (h, lenN b - lenN rest, rest)
    | None => RBad "page header: required field missing"
    end
  end.

Definition enc_phdr (h : phdr) : bytes := wr (phdr_to_tv h).
