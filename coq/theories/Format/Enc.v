(* SPEC encoder: a laid-out file description `lfile` (which runs, which encodings, which page and
   row-group boundaries, v1/v2, compressed flag, codec) and the bytes the format documents prescribe
   for it (`enc_file`), together with the table it denotes (`table_of`).  "For every table and every
   layout" of the round-trip theorem = for every well-formed `lfile`.  No fastparquet content.

   The page content is given in stored form: definition levels as hybrid runs, values per encoding
   (PLAIN values, dictionary indices as hybrid runs of a chosen width, RLE booleans as runs,
   DELTA_BINARY_PACKED values with a block shape).  Compression is a parameter (cramjam).          *)
From Coq Require Import NArith ZArith List Bool.
From Pq Require Import Base.Bytes Base.Bits Base.ListX Codec.Varint Codec.Zigzag Codec.Bitpack
  Codec.Hybrid Codec.Delta Thrift.Compact Format.Phys Format.Meta Format.Page Format.ChunkLayout Format.File.
Import ListNotations.
Open Scope N_scope.

Inductive vstore :=
| SPlain (vs : list value)
| SDict (enc : Z) (w : N) (runs : list hrun)          (* enc = 2 PLAIN_DICTIONARY or 8 RLE_DICTIONARY *)
| SRleBool (runs : list hrun)
| SDelta (bs mpb : N) (vs : list Z)
| SRaw (enc : Z) (b : bytes).                         (* any encoding id with given bytes (refusal tests) *)

Record lpage := { lp_v2 : bool; lp_nvals : N; lp_def : list hrun; lp_store : vstore;
                  lp_iscomp : option bool; lp_trail : bytes }.
Inductive litem := LDict (enc : Z) (vals : list value) | LData (p : lpage).
Record lchunk := { lc_codec : Z; lc_items : list litem; lc_stats : bool }.
Record lleaf := { ll_name : bytes; ll_type : ptype; ll_tlen : N; ll_optional : bool; ll_conv : option Z;
                  ll_logical : option tv; ll_scale : option Z; ll_prec : option Z }.
Record lfile := { l_leaves : list lleaf; l_rgs : list (list lchunk); l_created_by : option bytes }.

Definition desc_of (l : lleaf) : coldesc :=
  {| cd_type := ll_type l; cd_tlen := ll_tlen l; cd_maxdef := if ll_optional l then 1 else 0 |}.

(* ---- denotation --------------------------------------------------------------------------------- *)
Definition runs_vals (rs : list hrun) : list N := concat_tr (map run_vals rs).

Definition page_levels (cd : coldesc) (p : lpage) : list N :=
  if cd_maxdef cd =? 0 then repN (cd_maxdef cd) (lp_nvals p) [] else takeN (lp_nvals p) (runs_vals (lp_def p)).

Definition store_values (cd : coldesc) (dict : option (list value)) (k : N) (s : vstore) : option (list value) :=
  match s with
  | SPlain vs => Some vs
  | SDict _ w runs => match dict with Some d => lookup_all d (takeN k (runs_vals runs)) [] | None => None end
  | SRleBool runs => Some (map VNum (takeN k (runs_vals runs)))
  | SDelta _ _ zs => match int_bits (cd_type cd) with Some bits => Some (map (fun z => VNum (of_signed bits z)) zs) | None => None end
  | SRaw _ _ => None
  end.

Definition page_cells (cd : coldesc) (dict : option (list value)) (p : lpage) : option (list (option value)) :=
  let lv := page_levels cd p in
  match store_values cd dict (count_def (cd_maxdef cd) lv) (lp_store p) with
  | Some vs => cells_of (cd_maxdef cd) lv vs []
  | None => None
  end.

Fixpoint items_cells (cd : coldesc) (dict : option (list value)) (its : list litem) : option (list (option value)) :=
  match its with
  | [] => Some []
  | LDict _ vs :: r => items_cells cd (Some vs) r
  | LData p :: r =>
    match page_cells cd dict p, items_cells cd dict r with
    | Some a, Some b => Some (app_tr a b)
    | _, _ => None
    end
  end.

Fixpoint map2_opt {A B C} (f : A -> B -> option C) (a : list A) (b : list B) : option (list C) :=
  match a, b with
  | [], [] => Some []
  | x :: a', y :: b' => match f x y, map2_opt f a' b' with Some z, Some zs => Some (z :: zs) | _, _ => None end
  | _, _ => None
  end.

Definition leaf_of_l (l : lleaf) : leaf :=
  {| lf_name := ll_name l; lf_desc := desc_of l; lf_conv := ll_conv l; lf_logical := ll_logical l;
     lf_scale := ll_scale l; lf_prec := ll_prec l |}.

(* the table a laid-out file denotes: its leaves and, per row group and column, the cells *)
Definition table_of (f : lfile) : option (list leaf * list (list (list (option value)))) :=
  match map_opt (fun rg => map2_opt (fun l c => items_cells (desc_of l) None (lc_items c)) (l_leaves f) rg) (l_rgs f) with
  | Some rgs => Some (map leaf_of_l (l_leaves f), rgs)
  | None => None
  end.

(* ---- bytes ----------------------------------------------------------------------------------------- *)
Section Codec.
Variable compress : Z -> bytes -> bytes.

Definition deflate (codec : Z) (b : bytes) : bytes := if (codec =? 0)%Z then b else compress codec b.

Definition store_enc (s : vstore) : Z :=
  match s with SPlain _ => E_PLAIN | SDict e _ _ => e | SRleBool _ => E_RLE | SDelta _ _ _ => E_DELTA | SRaw e _ => e end.

Definition store_bytes (cd : coldesc) (s : vstore) : bytes :=
  match s with
  | SPlain vs => plain_enc (cd_type cd) vs
  | SDict _ w runs => w :: hyb_enc_x w runs
  | SRleBool runs => hyb_enc_len_x 1 runs
  | SDelta bs mpb zs => delta_enc (match int_bits (cd_type cd) with Some b => b | None => 64 end) bs mpb zs
  | SRaw _ b => b
  end.

Definition zlen (b : bytes) : Z := Z.of_N (lenN b).

(* header and payload of a data page *)
Definition enc_data_page (cd : coldesc) (codec : Z) (p : lpage) : phdr * bytes :=
  let lv := page_levels cd p in
  let nn := lp_nvals p - count_def (cd_maxdef cd) lv in
  let vb := store_bytes cd (lp_store p) in
  if lp_v2 p then
    let lb := if cd_maxdef cd =? 0 then [] else hyb_enc_x (level_width (cd_maxdef cd)) (lp_def p) in
    let comp := match lp_iscomp p with Some false => false | _ => true end in
    let body := if comp then deflate codec vb else vb in
    ({| ph_usize := zlen lb + zlen vb; ph_csize := zlen lb + zlen body; ph_crc := None;
        ph_body := PBData2 {| d2_nvals := Z.of_N (lp_nvals p); d2_nnulls := Z.of_N nn; d2_nrows := Z.of_N (lp_nvals p);
                              d2_enc := store_enc (lp_store p); d2_dlen := zlen lb; d2_rlen := 0;
                              d2_iscomp := lp_iscomp p |} |},
     app_tr lb body)
  else
    let lb := if cd_maxdef cd =? 0 then [] else hyb_enc_len_x (level_width (cd_maxdef cd)) (lp_def p) in
    let raw := app_tr lb (app_tr vb (lp_trail p)) in
    let payload := deflate codec raw in
    ({| ph_usize := zlen raw; ph_csize := zlen payload; ph_crc := None;
        ph_body := PBData {| d_nvals := Z.of_N (lp_nvals p); d_enc := store_enc (lp_store p); d_dle := E_RLE; d_rle := E_RLE |} |},
     payload).

Definition enc_dict_page (cd : coldesc) (codec : Z) (enc : Z) (vals : list value) : phdr * bytes :=
  let raw := plain_enc (cd_type cd) vals in
  let payload := deflate codec raw in
  ({| ph_usize := zlen raw; ph_csize := zlen payload; ph_crc := None;
      ph_body := PBDict {| k_nvals := Z.of_N (lenN vals); k_enc := enc; k_sorted := None |} |}, payload).

Definition enc_item (cd : coldesc) (codec : Z) (it : litem) : phdr * bytes :=
  match it with LDict e vs => enc_dict_page cd codec e vs | LData p => enc_data_page cd codec p end.

Definition page_bytes (hp : phdr * bytes) : bytes := app_tr (enc_phdr (fst hp)) (snd hp).

Definition item_nulls (cd : coldesc) (it : litem) : N :=
  match it with
  | LDict _ _ => 0
  | LData p => lp_nvals p - count_def (cd_maxdef cd) (page_levels cd p)
  end.
Definition item_nvals (it : litem) : N := match it with LDict _ _ => 0 | LData p => lp_nvals p end.
Definition item_enc (it : litem) : Z := match it with LDict e _ => e | LData p => store_enc (lp_store p) end.

Fixpoint dedup (l : list Z) : list Z :=
  match l with [] => [] | x :: r => if existsb (Z.eqb x) r then dedup r else x :: dedup r end.

Definition sumN (l : list N) : N := fold_left N.add l 0.

(* bytes of a chunk placed at file offset `start`, and its ColumnChunk metadata *)
Definition enc_chunk (l : lleaf) (start : N) (c : lchunk) : bytes * cchunk :=
  let cd := desc_of l in
  let pages := map (enc_item cd (lc_codec c)) (lc_items c) in
  let pbs := map page_bytes pages in
  let b := concat_tr pbs in
  let first_len := match pbs with p0 :: _ => lenN p0 | [] => 0 end in
  let has_dict := match lc_items c with LDict _ _ :: _ => true | _ => false end in
  let tus := fold_left (fun a hp => a + lenN (enc_phdr (fst hp)) + Z.to_N (ph_usize (fst hp))) pages 0 in
  (b, {| cc_path := None; cc_off := Z.of_N start;
         cc_meta := Some {| cm_type := ptype_id (ll_type l);
                            cm_encodings := dedup (E_RLE :: map item_enc (lc_items c));
                            cm_path := [ll_name l]; cm_codec := lc_codec c;
                            cm_nvals := Z.of_N (sumN (map item_nvals (lc_items c)));
                            cm_tus := Z.of_N tus; cm_tcs := Z.of_N (lenN b);
                            cm_data_off := Z.of_N (if has_dict then start + first_len else start);
                            cm_index_off := None;
                            cm_dict_off := if has_dict then Some (Z.of_N start) else None;
                            cm_null_count := if lc_stats c then Some (Z.of_N (sumN (map (item_nulls cd) (lc_items c)))) else None |} |}).

(* the chunks of one row group, laid one after the other from `pos` *)
Fixpoint enc_cols (ls : list lleaf) (cs : list lchunk) (pos : N) : list bytes * list cchunk * N :=
  match ls, cs with
  | l :: ls', c :: cs' =>
    let '(b, cc) := enc_chunk l pos c in
    let '(bs, ccs, pos') := enc_cols ls' cs' (pos + lenN b) in
    (b :: bs, cc :: ccs, pos')
  | _, _ => ([], [], pos)
  end.

Definition rg_rows (cs : list lchunk) : N :=
  match cs with c :: _ => sumN (map item_nvals (lc_items c)) | [] => 0 end.

Fixpoint enc_rgs (ls : list lleaf) (rgs : list (list lchunk)) (pos : N) : list bytes * list rgroup * N :=
  match rgs with
  | [] => ([], [], pos)
  | cs :: r =>
    let '(bs, ccs, pos1) := enc_cols ls cs pos in
    let '(bs2, rs, pos2) := enc_rgs ls r pos1 in
    (app_tr bs bs2,
     {| rg_cols := ccs;
        rg_tbs := sumZ (map (fun c => match cc_meta c with Some m => cm_tus m | None => 0%Z end) ccs);
        rg_nrows := Z.of_N (rg_rows cs) |} :: rs, pos2)
  end.

Definition selem_of_l (l : lleaf) : selem :=
  {| se_type := Some (ptype_id (ll_type l));
     se_tlen := match ll_type l with FLBA => Some (Z.of_N (ll_tlen l)) | _ => None end;
     se_rep := Some (if ll_optional l then 1 else 0)%Z; se_name := ll_name l; se_nchildren := None;
     se_conv := ll_conv l; se_logical := ll_logical l; se_scale := ll_scale l; se_prec := ll_prec l |}.

Definition root_selem (n : N) : selem :=
  {| se_type := None; se_tlen := None; se_rep := None; se_name := [115; 99; 104; 101; 109; 97] (* "schema" *);
     se_nchildren := Some (Z.of_N n); se_conv := None; se_logical := None; se_scale := None; se_prec := None |}.

Definition enc_file (f : lfile) : bytes :=
  let '(bs, rgs, _) := enc_rgs (l_leaves f) (l_rgs f) 4 in
  let m := {| fm_version := 1; fm_schema := root_selem (lenN (l_leaves f)) :: map selem_of_l (l_leaves f);
              fm_nrows := sumZ (map rg_nrows rgs); fm_rgs := rgs; fm_created_by := l_created_by f |} in
  let footer := wr (fmd_to_tv m) in
  app_tr magic (app_tr (concat_tr bs) (app_tr footer (app_tr (le_enc 4 (lenN footer)) magic))).

End Codec.

(* phase 1 of the two-phase protocol: the payloads `enc_file` will hand to `compress` *)
Definition payloads_of (f : lfile) : list (Z * bytes) :=
  concat (map (fun cs =>
    concat (map (fun lc : lleaf * lchunk =>
      let '(l, c) := lc in
      if (lc_codec c =? 0)%Z then [] else
      concat (map (fun it =>
        match it with
        | LDict _ vs => [(lc_codec c, plain_enc (ll_type l) vs)]
        | LData p =>
          let cd := desc_of l in
          let vb := store_bytes cd (lp_store p) in
          if lp_v2 p then
            match lp_iscomp p with Some false => [] | _ => [(lc_codec c, vb)] end
          else
            let lb := if cd_maxdef cd =? 0 then [] else hyb_enc_len_x (level_width (cd_maxdef cd)) (lp_def p) in
            [(lc_codec c, app_tr lb (app_tr vb (lp_trail p)))]
        end) (lc_items c))) (combine (l_leaves f) cs))) (l_rgs f)).
