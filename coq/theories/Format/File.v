(* SPEC (parquet-format README "File format", parquet.thrift): a Parquet file with a flat schema.
     file   := "PAR1" column-chunks... FileMetaData(compact thrift) le32(footer length) "PAR1"
     chunk  := page...   located by min(dictionary_page_offset, data_page_offset), total_compressed_size bytes
     page   := PageHeader(compact thrift) payload(compressed_page_size bytes)
   `scan_file` is the reader written from the specification; `dec_file` projects the decoded cells,
   `valid_file` adds the bookkeeping rules of parquet.thrift (Format/ChunkLayout.v: check_chunk /
   check_rg) and the counts that tie the metadata to the decoded data.  No fastparquet content.   *)
From Coq Require Import NArith ZArith List Bool String.
From Pq Require Import Base.Bytes Base.Bits Base.ListX Codec.Hybrid Thrift.Compact Thrift.Idl Thrift.IdlPinned
  Format.Phys Format.Meta Format.Page Format.ChunkLayout.
Import ListNotations.
Open Scope string_scope.
Open Scope N_scope.

Record leaf := { lf_name : bytes; lf_desc : coldesc; lf_conv : option Z; lf_logical : option tv;
                 lf_scale : option Z; lf_prec : option Z }.

(* flat schema: root element with num_children = number of leaves, every leaf a primitive *)
Definition leaf_of (s : selem) : rs leaf :=
  match se_nchildren s with
  | Some (Zpos _) => RUns "nested schema (group below the root)"
  | _ =>
    match se_type s with
    | None => RBad "schema: leaf without a physical type"
    | Some ty =>
      match ptype_of_id ty with
      | None => RBad "schema: unknown physical type"
      | Some t =>
        let! tl := (match t, se_tlen s with
                    | FLBA, Some z => if (z <=? 0)%Z then RBad "schema: FIXED_LEN_BYTE_ARRAY needs a positive type_length" else ROk (Z.to_N z)
                    | FLBA, None => RBad "schema: FIXED_LEN_BYTE_ARRAY without type_length"
                    | _, _ => ROk 0
                    end) in
        match se_rep s with
        | Some 0%Z => ROk {| lf_name := se_name s; lf_desc := {| cd_type := t; cd_tlen := tl; cd_maxdef := 0 |}; lf_conv := se_conv s; lf_logical := se_logical s; lf_scale := se_scale s; lf_prec := se_prec s |}
        | Some 1%Z => ROk {| lf_name := se_name s; lf_desc := {| cd_type := t; cd_tlen := tl; cd_maxdef := 1 |}; lf_conv := se_conv s; lf_logical := se_logical s; lf_scale := se_scale s; lf_prec := se_prec s |}
        | Some 2%Z => RUns "repeated leaf (nested data)"
        | _ => RBad "schema: leaf without a valid repetition_type"
        end
      end
    end
  end.

Fixpoint map_rs {A B} (f : A -> rs B) (l : list A) : rs (list B) :=
  match l with
  | [] => ROk []
  | x :: r => let! y := f x in let! ys := map_rs f r in ROk (y :: ys)
  end.

Definition leaves_of (sch : list selem) : rs (list leaf) :=
  match sch with
  | [] => RBad "schema: empty"
  | root :: ls =>
    match se_nchildren root with
    | Some k => if (k =? Z.of_N (lenN ls))%Z then map_rs leaf_of ls
                else RUns "schema: root.num_children differs from the number of remaining elements (nested schema)"
    | None => RBad "schema: root without num_children"
    end
  end.

Definition pkind_of (b : pbody) : pkind := match b with PBDict _ => PDict | PBData _ => PData1 | _ => PData2 end.
Definition penc_of (b : pbody) : Z :=
  match b with PBDict h => k_enc h | PBData h => d_enc h | PBData2 h => d2_enc h | PBIndex => 0%Z end.
Definition pnvals_of (b : pbody) : Z :=
  match b with PBDict h => k_nvals h | PBData h => d_nvals h | PBData2 h => d2_nvals h | PBIndex => 0%Z end.

(* what the scan of one chunk yields *)
Record chunk_out := { co_meta : cmd; co_pages : list page; co_cells : list (option value); co_nulls : N }.
Inductive chunk_res := CExternal (path : bytes) | CHere (o : chunk_out).

Section Codec.
Variable decompress : Z -> N -> bytes -> option bytes.

(* pages back to back until the chunk's bytes are used up; every page takes at least its header byte,
   so the chunk itself is structural fuel *)
Fixpoint scan_pages (clock : bytes) (strict : bool) (cd : coldesc) (codec : Z) (dict : option (list value)) (b : bytes)
  (pages : list page) (cells : list (option value)) (nulls : N) : rs (list page * list (option value) * N) :=
  match b with
  | [] => ROk (rev_append pages [], rev_append cells [], nulls)
  | _ =>
    match clock with
    | [] => RBad "page loop did not advance"
    | _ :: clock' =>
      let! hx := dec_phdr b in
      let '(h, hl, rest) := hx in
      let! cs := z2n "negative compressed_page_size" (ph_csize h) in
      let! _ := guard (cs <=? lenN rest) "page extends beyond total_compressed_size" in
      let payload := takeN cs rest in
      let rest' := dropN cs rest in
      let! c := dec_page decompress strict cd codec dict h payload in
      let summary := {| p_kind := pkind_of (ph_body h); p_hdr := Z.of_N hl; p_comp := ph_csize h;
                        p_uncomp := ph_usize h; p_nvals := pnvals_of (ph_body h); p_enc := penc_of (ph_body h) |} in
      match c with
      | CDict vs => scan_pages clock' strict cd codec (Some vs) rest' (summary :: pages) cells nulls
      | CData n nn cs => scan_pages clock' strict cd codec dict rest' (summary :: pages) (rev_append cs cells) (nulls + nn)
      | CSkip => RUns "index page inside a column chunk"
      end
    end
  end.

Definition scan_chunk (strict : bool) (file : bytes) (fstart : N) (lf : leaf) (c : cchunk) : rs chunk_res :=
  match cc_path c with
  | Some p => ROk (CExternal p)
  | None =>
    match cc_meta c with
    | None => RBad "column chunk without meta_data"
    | Some m =>
      let! _ := guard (match cm_path m with [p] => bytes_eqb p (lf_name lf) | _ => false end) "path_in_schema differs from the schema" in
      let! _ := guard (cm_type m =? ptype_id (cd_type (lf_desc lf)))%Z "ColumnMetaData.type differs from the schema" in
      let! doff := z2n "negative data_page_offset" (cm_data_off m) in
      let! dioff := (match cm_dict_off m with Some z => z2n "negative dictionary_page_offset" z | None => ROk doff end) in
      let start := N.min doff dioff in
      let! tcs := z2n "negative total_compressed_size" (cm_tcs m) in
      let! _ := guard ((4 <=? start) && (start + tcs <=? fstart)) "column chunk outside the data region" in
      let b := takeN tcs (dropN start file) in
      let! r := scan_pages b strict (lf_desc lf) (cm_codec m) None b [] [] 0 in
      let '(ps, cells, nulls) := r in
      ROk (CHere {| co_meta := m; co_pages := ps; co_cells := cells; co_nulls := nulls |})
    end
  end.

Fixpoint scan_cols (strict : bool) (file : bytes) (fstart : N) (lfs : list leaf) (cs : list cchunk) : rs (list chunk_res) :=
  match lfs, cs with
  | [], [] => ROk []
  | lf :: lfs', c :: cs' =>
    let! o := scan_chunk strict file fstart lf c in
    let! os := scan_cols strict file fstart lfs' cs' in ROk (o :: os)
  | _, _ => RBad "row group: number of column chunks differs from the schema"
  end.

Record file_out := { fo_len : N; fo_fstart : N; fo_flen : N; fo_meta : fmd; fo_leaves : list leaf;
                     fo_rgs : list (rgroup * list chunk_res) }.

Definition parse_footer (file : bytes) : rs (fmd * N * N) :=
  let n := lenN file in
  let! _ := guard (12 <=? n) "file shorter than 12 bytes" in
  let! _ := guard (bytes_eqb (takeN 4 file) magic) "leading magic is not PAR1" in
  let tail := dropN (n - 8) file in
  let! _ := guard (bytes_eqb (dropN 4 tail) magic) "trailing magic is not PAR1" in
  let flen := le2n_tr (takeN 4 tail) in
  let! _ := guard (flen + 12 <=? n) "footer length larger than the file" in
  let fstart := n - 8 - flen in
  let fb := takeN flen (dropN fstart file) in
  match thrift_dec true fb with
  | None => RBad "footer: not a compact-protocol struct"
  | Some (v, rest) =>
    let! _ := guard (match rest with [] => true | _ => false end) "footer: bytes after the FileMetaData struct" in
    let! _ := guard (conforms pinned idl_opts (FStruct "FileMetaData") v) "footer: does not conform to the IDL" in
    match fmd_of_tv v with
    | Some m => ROk (m, fstart, flen)
    | None => RBad "footer: required field missing"
    end
  end.

Definition scan_file (strict : bool) (file : bytes) : rs file_out :=
  let! ft := parse_footer file in
  let '(m, fstart, flen) := ft in
  let! lfs := leaves_of (fm_schema m) in
  let! rgs := map_rs (fun rg => let! cs := scan_cols strict file fstart lfs (rg_cols rg) in ROk (rg, cs)) (fm_rgs m) in
  ROk {| fo_len := lenN file; fo_fstart := fstart; fo_flen := flen; fo_meta := m; fo_leaves := lfs; fo_rgs := rgs |}.

(* ---- decoded content --------------------------------------------------------------------------- *)
Definition cells_here (c : chunk_res) : rs (list (option value)) :=
  match c with CHere o => ROk (co_cells o) | CExternal _ => RUns "column chunk stored in another file" end.

Definition dec_file (strict : bool) (file : bytes) : rs (list leaf * list (list (list (option value)))) :=
  let! fo := scan_file strict file in
  let! rgs := map_rs (fun rc => map_rs cells_here (snd rc)) (fo_rgs fo) in
  ROk (fo_leaves fo, rgs).

(* ---- validity ------------------------------------------------------------------------------------ *)
Definition cmeta_of (m : cmd) : cmeta :=
  {| c_num_values := cm_nvals m; c_data_page_offset := cm_data_off m; c_dict_page_offset := cm_dict_off m;
     c_total_comp := cm_tcs m; c_total_uncomp := cm_tus m; c_encodings := cm_encodings m |}.

(* first bookkeeping rule of check_chunk that fails (diagnosis only; the verdict uses check_chunk) *)
Definition chunk_reason (c : cmeta) (ps : list page) : string :=
  if negb (sumZ (map disk_size ps) =? c_total_comp c)%Z then "total_compressed_size differs from the pages present" else
  if negb (sumZ (map plain_size ps) =? c_total_uncomp c)%Z then "total_uncompressed_size differs from sum(header + uncompressed_page_size)" else
  if negb (sumZ (map p_nvals (filter is_data ps)) =? c_num_values c)%Z then "num_values differs from the sum over the data pages" else
  if negb (forallb (fun p => existsb (Z.eqb (p_enc p)) (c_encodings c)) ps) then "a page's encoding is not listed in encodings" else
  "dictionary_page_offset / data_page_offset do not point at the dictionary page / first data page".

Definition valid_chunk (rg : rgroup) (c : chunk_res) : rs unit :=
  match c with
  | CExternal _ => ROk tt
  | CHere o =>
    let m := co_meta o in
    let! _ := guard (check_chunk (cmeta_of m) (co_pages o)) (chunk_reason (cmeta_of m) (co_pages o)) in
    let! _ := guard (cm_nvals m =? rg_nrows rg)%Z "ColumnMetaData.num_values differs from RowGroup.num_rows" in
    let! _ := guard (match cm_null_count m with Some z => (z =? Z.of_N (co_nulls o))%Z | None => true end)
                    "statistics.null_count differs from the definition levels" in
    guard (match cm_index_off m with None => true | Some _ => true end) ""
  end.

Definition all_here (cs : list chunk_res) : bool := forallb (fun c => match c with CHere _ => true | _ => false end) cs.

Definition valid_rg (rc : rgroup * list chunk_res) : rs unit :=
  let '(rg, cs) := rc in
  let! _ := map_rs (valid_chunk rg) cs in
  let! _ := guard (negb (all_here cs) ||
                   (rg_tbs rg =? sumZ (map (fun c => match c with CHere o => cm_tus (co_meta o) | _ => 0%Z end) cs))%Z)
                  "RowGroup.total_byte_size differs from the sum of total_uncompressed_size" in
  guard (0 <=? rg_nrows rg)%Z "negative RowGroup.num_rows".

Definition valid_out (fo : file_out) : rs unit :=
  let! _ := map_rs valid_rg (fo_rgs fo) in
  (* a file without row groups is a schema-only summary (_common_metadata): writers put the dataset's
     total there or 0; nothing in the file can contradict it *)
  guard (match fo_rgs fo with [] => true | _ =>
           (fm_nrows (fo_meta fo) =? sumZ (map (fun rc => rg_nrows (fst rc)) (fo_rgs fo)))%Z end)
        "FileMetaData.num_rows differs from the sum over the row groups".

Definition valid_file (strict : bool) (file : bytes) : rs unit :=
  let! fo := scan_file strict file in valid_out fo.

End Codec.

(* ---- phase 1 of the two-phase protocol: where the compressed payloads are ----------------------
   (codec, uncompressed size, file offset, length) of every page body that needs decompression *)
Fixpoint list_pages_chunk (clock : bytes) (codec : Z) (pos : N) (b : bytes) (acc : list (Z * N * N * N))
  : rs (list (Z * N * N * N)) :=
  match b with
  | [] => ROk acc
  | _ =>
    match clock with
    | [] => RBad "page loop did not advance"
    | _ :: clock' =>
      let! hx := dec_phdr b in
      let '(h, hl, rest) := hx in
      let! cs := z2n "negative compressed_page_size" (ph_csize h) in
      let! us := z2n "negative uncompressed_page_size" (ph_usize h) in
      let! _ := guard (cs <=? lenN rest) "page extends beyond total_compressed_size" in
      let item :=
        if (codec =? 0)%Z then [] else
        match ph_body h with
        | PBData2 d =>
          match d2_iscomp d with
          | Some false => []
          | _ => let dl := Z.to_N (d2_dlen d) in [(codec, us - dl, pos + hl + dl, cs - dl)]
          end
        | _ => [(codec, us, pos + hl, cs)]
        end in
      list_pages_chunk clock' codec (pos + hl + cs) (dropN cs rest) (item ++ acc)
    end
  end.

Definition list_pages (file : bytes) : rs (list (Z * N * N * N)) :=
  let! ft := parse_footer file in
  let '(m, fstart, flen) := ft in
  let chunks := List.concat (map rg_cols (fm_rgs m)) in
  fold_left (fun (acc : rs (list (Z * N * N * N))) (c : cchunk) =>
    let! a := acc in
    match cc_path c, cc_meta c with
    | None, Some m =>
      let! doff := z2n "negative data_page_offset" (cm_data_off m) in
      let! dioff := (match cm_dict_off m with Some z => z2n "negative dictionary_page_offset" z | None => ROk doff end) in
      let start := N.min doff dioff in
      let! tcs := z2n "negative total_compressed_size" (cm_tcs m) in
      let! _ := guard ((4 <=? start) && (start + tcs <=? fstart)) "column chunk outside the data region" in
      let b := takeN tcs (dropN start file) in
      list_pages_chunk b (cm_codec m) start b a
    | _, _ => ROk a
    end) chunks (ROk []).
