(* SPEC (parquet-format: README "Types", Encodings.md "PLAIN"): physical types, physical values and
   the PLAIN encoding of a run of values of one physical type.  Written from the format documents
   only; no fastparquet content.

   A value is a bit pattern: BOOLEAN 0/1; INT32/FLOAT a natural below 2^32 (the little-endian reading
   of the 4 bytes); INT64/DOUBLE below 2^64; INT96 below 2^96; BYTE_ARRAY and FIXED_LEN_BYTE_ARRAY the
   bytes themselves.  Decoders are tail recursive (accumulator + one reversal) so that the extracted
   code handles pages of any size.                                                                 *)
From Coq Require Import NArith ZArith List Bool.
From Pq Require Import Base.Bytes Base.Bits Base.ListX Codec.Bitpack Thrift.Compact.
Import ListNotations.
Open Scope N_scope.

Inductive ptype := BOOLEAN | INT32 | INT64 | INT96 | FLOAT | DOUBLE | BYTE_ARRAY | FLBA.

Definition ptype_id (t : ptype) : Z :=
  match t with BOOLEAN => 0 | INT32 => 1 | INT64 => 2 | INT96 => 3 | FLOAT => 4 | DOUBLE => 5
             | BYTE_ARRAY => 6 | FLBA => 7 end%Z.
Definition ptype_of_id (z : Z) : option ptype :=
  match z with
  | 0 => Some BOOLEAN | 1 => Some INT32 | 2 => Some INT64 | 3 => Some INT96 | 4 => Some FLOAT
  | 5 => Some DOUBLE | 6 => Some BYTE_ARRAY | 7 => Some FLBA | _ => None
  end%Z.

Inductive value := VNum (n : N) | VBin (b : bytes).

Definition value_eqb (a b : value) : bool :=
  match a, b with
  | VNum x, VNum y => x =? y
  | VBin x, VBin y => bytes_eqb x y
  | _, _ => false
  end.

(* number of bytes of one PLAIN value of a fixed-width numeric type *)
Definition num_width (t : ptype) : option N :=
  match t with INT32 | FLOAT => Some 4 | INT64 | DOUBLE => Some 8 | INT96 => Some 12 | _ => None end.

(* a value is representable in the type *)
Definition value_ok (t : ptype) (tlen : N) (v : value) : bool :=
  match t, v with
  | BOOLEAN, VNum n => n <? 2
  | BYTE_ARRAY, VBin b => len b <? 2 ^ 31
  | FLBA, VBin b => len b =? tlen
  | _, VNum n => match num_width t with Some k => n <? 256 ^ k | None => false end
  | _, _ => false
  end.

(* ---- PLAIN encoder ------------------------------------------------------------------------ *)
Definition plain_enc1 (t : ptype) (v : value) : bytes :=
  match v with
  | VNum n => match num_width t with Some k => le_enc (N.to_nat k) n | None => [] end
  | VBin b => match t with BYTE_ARRAY => le_enc 4 (len b) ++ b | _ => b end
  end.

Definition num_of (v : value) : N := match v with VNum n => n | VBin _ => 0 end.

Definition plain_enc (t : ptype) (vs : list value) : bytes :=
  match t with
  | BOOLEAN => bp_enc_x 1 (map num_of vs)
  | _ => concat_tr (map (plain_enc1 t) vs)
  end.

(* ---- PLAIN decoder ------------------------------------------------------------------------ *)
(* n values of k bytes each, little-endian *)
Fixpoint nums_dec (k : N) (n : nat) (b : bytes) (acc : list value) : option (list value * bytes) :=
  match n with
  | O => Some (rev_append acc [], b)
  | S m => match take k b with
           | Some (s, r) => nums_dec k m r (VNum (le2n_tr s) :: acc)
           | None => None
           end
  end.

Fixpoint flba_dec (k : N) (n : nat) (b : bytes) (acc : list value) : option (list value * bytes) :=
  match n with
  | O => Some (rev_append acc [], b)
  | S m => match take k b with
           | Some (s, r) => flba_dec k m r (VBin s :: acc)
           | None => None
           end
  end.

Fixpoint bas_dec (n : nat) (b : bytes) (acc : list value) : option (list value * bytes) :=
  match n with
  | O => Some (rev_append acc [], b)
  | S m => match take 4 b with
           | Some (l, r) =>
             match take (le2n_tr l) r with
             | Some (s, r') => bas_dec m r' (VBin s :: acc)
             | None => None
             end
           | None => None
           end
  end.

Definition plain_dec (t : ptype) (tlen : N) (n : N) (b : bytes) : option (list value * bytes) :=
  match t with
  | BOOLEAN =>
    let nb := (n + 7) / 8 in
    match take nb b with
    | Some (s, r) => Some (map VNum (bp_dec 1 n s), r)
    | None => None
    end
  | BYTE_ARRAY => bas_dec (N.to_nat n) b []
  | FLBA => flba_dec tlen (N.to_nat n) b []
  | _ => match num_width t with Some k => nums_dec k (N.to_nat n) b [] | None => None end
  end.
