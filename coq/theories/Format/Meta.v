(* SPEC (parquet.thrift): the typed view of the metadata structures a reader needs - PageHeader and
   its three page headers, SchemaElement, ColumnMetaData, ColumnChunk, RowGroup, FileMetaData - as
   records, with the conversion from a generic compact-protocol value (`*_of_tv`, partial: a missing
   required field or a field of the wrong wire type gives None) and the canonical conversion back
   (`*_to_tv`, what the spec encoder writes).  Field ids are those of Thrift/IdlPinned.v; the strict
   IDL check (`conforms`) is applied separately on the generic value.  No fastparquet content.      *)
From Coq Require Import NArith ZArith List Bool String.
From Pq Require Import Base.Bytes Thrift.Compact.
Import ListNotations.
Open Scope Z_scope.

(* ---- field access --------------------------------------------------------------------------- *)
Fixpoint fld (id : N) (fs : list (N * tv)) : option tv :=
  match fs with
  | [] => None
  | (i, v) :: r => if (i =? id)%N then Some v else fld id r
  end.

Definition as_struct (v : tv) : option (list (N * tv)) := match v with TStruct fs => Some fs | _ => None end.
Definition as_int (v : tv) : option Z :=
  match v with TI8 z | TI16 z | TI32 z | TI64 z => Some z | _ => None end.
Definition as_bin (v : tv) : option bytes := match v with TBin b => Some b | _ => None end.
Definition as_boolv (v : tv) : option bool := match v with TBool b => Some b | _ => None end.
Definition as_tlist (v : tv) : option (list tv) := match v with TList _ l => Some l | _ => None end.

(* required / optional field of a given shape *)
Definition req {A} (f : tv -> option A) (id : N) (fs : list (N * tv)) : option A :=
  match fld id fs with Some v => f v | None => None end.
Definition opt {A} (f : tv -> option A) (id : N) (fs : list (N * tv)) : option (option A) :=
  match fld id fs with
  | Some v => match f v with Some a => Some (Some a) | None => None end
  | None => Some None
  end.

Fixpoint map_opt {A B} (f : A -> option B) (l : list A) : option (list B) :=
  match l with
  | [] => Some []
  | x :: r => match f x, map_opt f r with Some y, Some ys => Some (y :: ys) | _, _ => None end
  end.
Definition as_list_of {A} (f : tv -> option A) (v : tv) : option (list A) :=
  match v with TList _ l => map_opt f l | _ => None end.

Notation "'let?' x := e 'in' k" := (match e with Some x => k | None => None end)
  (at level 200, x pattern, e at level 100, k at level 200).

(* ---- page headers -------------------------------------------------------------------------- *)
Record dph := { d_nvals : Z; d_enc : Z; d_dle : Z; d_rle : Z }.
Record dph2 := { d2_nvals : Z; d2_nnulls : Z; d2_nrows : Z; d2_enc : Z; d2_dlen : Z; d2_rlen : Z;
                 d2_iscomp : option bool }.
Record dictph := { k_nvals : Z; k_enc : Z; k_sorted : option bool }.
Inductive pbody := PBData (h : dph) | PBDict (h : dictph) | PBData2 (h : dph2) | PBIndex.
Record phdr := { ph_usize : Z; ph_csize : Z; ph_crc : option Z; ph_body : pbody }.

Definition dph_of_tv (v : tv) : option dph :=
  let? fs := as_struct v in
  let? n := req as_int 1 fs in let? e := req as_int 2 fs in
  let? d := req as_int 3 fs in let? r := req as_int 4 fs in
  Some {| d_nvals := n; d_enc := e; d_dle := d; d_rle := r |}.

Definition dph2_of_tv (v : tv) : option dph2 :=
  let? fs := as_struct v in
  let? n := req as_int 1 fs in let? nn := req as_int 2 fs in let? nr := req as_int 3 fs in
  let? e := req as_int 4 fs in let? dl := req as_int 5 fs in let? rl := req as_int 6 fs in
  let? ic := opt as_boolv 7 fs in
  Some {| d2_nvals := n; d2_nnulls := nn; d2_nrows := nr; d2_enc := e; d2_dlen := dl; d2_rlen := rl;
          d2_iscomp := ic |}.

Definition dictph_of_tv (v : tv) : option dictph :=
  let? fs := as_struct v in
  let? n := req as_int 1 fs in let? e := req as_int 2 fs in let? s := opt as_boolv 3 fs in
  Some {| k_nvals := n; k_enc := e; k_sorted := s |}.

(* PageType: 0 DATA_PAGE (field 5), 1 INDEX_PAGE (6), 2 DICTIONARY_PAGE (7), 3 DATA_PAGE_V2 (8);
   the header announced by `type` must be present *)
Definition phdr_of_tv (v : tv) : option phdr :=
  let? fs := as_struct v in
  let? ty := req as_int 1 fs in let? us := req as_int 2 fs in let? cs := req as_int 3 fs in
  let? crc := opt as_int 4 fs in
  let? body :=
    (if ty =? 0 then let? h := req dph_of_tv 5 fs in Some (PBData h)
     else if ty =? 1 then Some PBIndex
     else if ty =? 2 then let? h := req dictph_of_tv 7 fs in Some (PBDict h)
     else if ty =? 3 then let? h := req dph2_of_tv 8 fs in Some (PBData2 h)
     else None) in
  Some {| ph_usize := us; ph_csize := cs; ph_crc := crc; ph_body := body |}.

Definition optf {A} (id : N) (f : A -> tv) (o : option A) : list (N * tv) :=
  match o with Some a => [(id, f a)] | None => [] end.

Definition dph_to_tv (h : dph) : tv :=
  TStruct [(1%N, TI32 (d_nvals h)); (2%N, TI32 (d_enc h)); (3%N, TI32 (d_dle h)); (4%N, TI32 (d_rle h))].
Definition dph2_to_tv (h : dph2) : tv :=
  TStruct ([(1%N, TI32 (d2_nvals h)); (2%N, TI32 (d2_nnulls h)); (3%N, TI32 (d2_nrows h)); (4%N, TI32 (d2_enc h));
            (5%N, TI32 (d2_dlen h)); (6%N, TI32 (d2_rlen h))] ++ optf 7 TBool (d2_iscomp h)).
Definition dictph_to_tv (h : dictph) : tv :=
  TStruct ([(1%N, TI32 (k_nvals h)); (2%N, TI32 (k_enc h))] ++ optf 3 TBool (k_sorted h)).

Definition phdr_to_tv (p : phdr) : tv :=
  TStruct ([(1%N, TI32 (match ph_body p with PBData _ => 0 | PBIndex => 1 | PBDict _ => 2 | PBData2 _ => 3 end));
            (2%N, TI32 (ph_usize p)); (3%N, TI32 (ph_csize p))] ++ optf 4 TI32 (ph_crc p) ++
           match ph_body p with
           | PBData h => [(5%N, dph_to_tv h)]
           | PBIndex => [(6%N, TStruct [])]
           | PBDict h => [(7%N, dictph_to_tv h)]
           | PBData2 h => [(8%N, dph2_to_tv h)]
           end).

(* ---- schema, column chunk, row group, file -------------------------------------------------- *)
(* logicalType is kept as the generic value (a union of mostly empty structs); `logical_summary` reads
   the union member and, for TIME/TIMESTAMP, the unit *)
Record selem := { se_type : option Z; se_tlen : option Z; se_rep : option Z; se_name : bytes;
                  se_nchildren : option Z; se_conv : option Z; se_logical : option tv;
                  se_scale : option Z; se_prec : option Z }.
(* statistics: only null_count matters for the structure (min/max are property C04) *)
Record cmd := { cm_type : Z; cm_encodings : list Z; cm_path : list bytes; cm_codec : Z; cm_nvals : Z;
                cm_tus : Z; cm_tcs : Z; cm_data_off : Z; cm_index_off : option Z; cm_dict_off : option Z;
                cm_null_count : option Z }.
Record cchunk := { cc_path : option bytes; cc_off : Z; cc_meta : option cmd }.
Record rgroup := { rg_cols : list cchunk; rg_tbs : Z; rg_nrows : Z }.
Record fmd := { fm_version : Z; fm_schema : list selem; fm_nrows : Z; fm_rgs : list rgroup; fm_created_by : option bytes }.

Definition selem_of_tv (v : tv) : option selem :=
  let? fs := as_struct v in
  let? ty := opt as_int 1 fs in let? tl := opt as_int 2 fs in let? rp := opt as_int 3 fs in
  let? nm := req as_bin 4 fs in let? nc := opt as_int 5 fs in let? cv := opt as_int 6 fs in
  let? sc := opt as_int 7 fs in let? pr := opt as_int 8 fs in
  Some {| se_type := ty; se_tlen := tl; se_rep := rp; se_name := nm; se_nchildren := nc; se_conv := cv;
          se_logical := fld 10 fs; se_scale := sc; se_prec := pr |}.

(* (union member id, time unit id 1 MILLIS / 2 MICROS / 3 NANOS or 0) *)
Definition logical_summary (v : tv) : option (N * N) :=
  match v with
  | TStruct [(id, TStruct fs)] =>
    match fld 2 fs with
    | Some (TStruct [(u, _)]) => Some (id, if (id =? 7)%N || (id =? 8)%N then u else 0%N)
    | _ => Some (id, 0%N)
    end
  | _ => None
  end.

Definition null_count_of_tv (v : tv) : option (option Z) :=
  let? fs := as_struct v in opt as_int 3 fs.

Definition cmd_of_tv (v : tv) : option cmd :=
  let? fs := as_struct v in
  let? ty := req as_int 1 fs in let? en := req (as_list_of as_int) 2 fs in
  let? pa := req (as_list_of as_bin) 3 fs in let? co := req as_int 4 fs in
  let? nv := req as_int 5 fs in let? tu := req as_int 6 fs in let? tc := req as_int 7 fs in
  let? dp := req as_int 9 fs in let? ip := opt as_int 10 fs in let? di := opt as_int 11 fs in
  let? st := opt null_count_of_tv 12 fs in
  Some {| cm_type := ty; cm_encodings := en; cm_path := pa; cm_codec := co; cm_nvals := nv; cm_tus := tu;
          cm_tcs := tc; cm_data_off := dp; cm_index_off := ip; cm_dict_off := di;
          cm_null_count := match st with Some (Some n) => Some n | _ => None end |}.

Definition cchunk_of_tv (v : tv) : option cchunk :=
  let? fs := as_struct v in
  let? fp := opt as_bin 1 fs in let? off := req as_int 2 fs in let? md := opt cmd_of_tv 3 fs in
  Some {| cc_path := fp; cc_off := off; cc_meta := md |}.

Definition rgroup_of_tv (v : tv) : option rgroup :=
  let? fs := as_struct v in
  let? cs := req (as_list_of cchunk_of_tv) 1 fs in let? tb := req as_int 2 fs in let? nr := req as_int 3 fs in
  Some {| rg_cols := cs; rg_tbs := tb; rg_nrows := nr |}.

Definition fmd_of_tv (v : tv) : option fmd :=
  let? fs := as_struct v in
  let? ve := req as_int 1 fs in let? sc := req (as_list_of selem_of_tv) 2 fs in
  let? nr := req as_int 3 fs in let? rg := req (as_list_of rgroup_of_tv) 4 fs in
  let? cb := opt as_bin 6 fs in
  Some {| fm_version := ve; fm_schema := sc; fm_nrows := nr; fm_rgs := rg; fm_created_by := cb |}.

Definition selem_to_tv (s : selem) : tv :=
  TStruct (optf 1 TI32 (se_type s) ++ optf 2 TI32 (se_tlen s) ++ optf 3 TI32 (se_rep s) ++
           [(4%N, TBin (se_name s))] ++ optf 5 TI32 (se_nchildren s) ++ optf 6 TI32 (se_conv s) ++
           optf 7 TI32 (se_scale s) ++ optf 8 TI32 (se_prec s) ++ optf 10 (fun v => v) (se_logical s)).

Definition cmd_to_tv (c : cmd) : tv :=
  TStruct ([(1%N, TI32 (cm_type c)); (2%N, TList 5 (map TI32 (cm_encodings c)));
            (3%N, TList 8 (map TBin (cm_path c))); (4%N, TI32 (cm_codec c)); (5%N, TI64 (cm_nvals c));
            (6%N, TI64 (cm_tus c)); (7%N, TI64 (cm_tcs c)); (9%N, TI64 (cm_data_off c))] ++
           optf 10 TI64 (cm_index_off c) ++ optf 11 TI64 (cm_dict_off c) ++
           optf 12 (fun n => TStruct [(3%N, TI64 n)]) (cm_null_count c)).

Definition cchunk_to_tv (c : cchunk) : tv :=
  TStruct (optf 1 TBin (cc_path c) ++ [(2%N, TI64 (cc_off c))] ++ optf 3 cmd_to_tv (cc_meta c)).

Definition rgroup_to_tv (r : rgroup) : tv :=
  TStruct [(1%N, TList 12 (map cchunk_to_tv (rg_cols r))); (2%N, TI64 (rg_tbs r)); (3%N, TI64 (rg_nrows r))].

Definition fmd_to_tv (f : fmd) : tv :=
  TStruct ([(1%N, TI32 (fm_version f)); (2%N, TList 12 (map selem_to_tv (fm_schema f)));
            (3%N, TI64 (fm_nrows f)); (4%N, TList 12 (map rgroup_to_tv (fm_rgs f)))] ++ optf 6 TBin (fm_created_by f)).
