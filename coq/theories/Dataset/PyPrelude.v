(* Prelude of translators/readloops.py: the fragment of Python the translated loops of api.py use.
   A local variable is `option Z` (None = not bound yet: reading it is Python's UnboundLocalError);
   evaluating an expression yields `option Z` / `option bool` (None = the evaluation raised).        *)
From Coq Require Import ZArith List Bool.
Import ListNotations.
Open Scope Z_scope.

Definition oz := option Z.
Definition o2 (f : Z -> Z -> Z) (a b : oz) : oz :=
  match a, b with Some x, Some y => Some (f x y) | _, _ => None end.
Definition oadd := o2 Z.add.
Definition osub := o2 Z.sub.
Definition oneg (a : oz) : oz := option_map Z.opp a.
Definition ocmp (f : Z -> Z -> bool) (a b : oz) : option bool :=
  match a, b with Some x, Some y => Some (f x y) | _, _ => None end.
Definition zneb (a b : Z) : bool := negb (Z.eqb a b).
(* `a and b` / `a or b` on conditions, left to right with short circuit (the right operand is not evaluated - cannot raise -
   when the left one decides); a chained comparison `x <= y <= z` is `x <= y and y <= z` *)
Definition oandb (a b : option bool) : option bool :=
  match a with Some true => b | Some false => Some false | None => None end.
Definition oorb (a b : option bool) : option bool :=
  match a with Some true => Some true | Some false => b | None => None end.

(* numpy basic slicing v[lo:hi] of a 1-d array of length len, step 1: the index range after CPython's
   clamping (PySlice_AdjustIndices), as (start, length) *)
Definition np_slice (len lo hi : Z) : Z * Z :=
  let adj v := if v <? 0 then Z.max 0 (v + len) else Z.min v len in
  let a := adj lo in let b := adj hi in
  (a, Z.max 0 (b - a)).

(* arr[lo:hi][:] = xs : numpy refuses when the lengths differ (no broadcasting of a longer/shorter 1-d array,
   except a length-1 source, which the reader never produces for a longer target - excluded by the length test) *)
Definition write_slice {R} (lo hi : Z) (xs : list R) (out : list (option R)) : option (list (option R)) :=
  let '(a, n) := np_slice (Z.of_nat (length out)) lo hi in
  if Z.of_nat (length xs) =? n
  then Some (firstn (Z.to_nat a) out ++ map Some xs ++ skipn (Z.to_nat (a + n)) out)
  else None.
