(* Dataset/CatRead.v — impl model of how a categorical column is read across row groups
   (core.read_col with use_cat, api.to_pandas; properties C07 and C14).

   The output column is ONE pandas Categorical for all row groups: an integer array of codes plus
   one label list.  For each row group in turn, read_col
     * on a dictionary page:  catdef._set_categories(pd.Index(dic), fastpath=True)
                               -> the label list of the whole output column is REPLACED;
     * on the data pages:      the dictionary indices are copied into the code array as they are.
   Hence after the last row group every code - whichever row group it came from - is interpreted
   with the dictionary read last.                                                             *)
From Coq Require Import NArith List Bool Arith.
Import ListNotations.

Definition label := N.
Inductive cell := CNull | CLab (l : label) | CBad (code : nat).      (* CBad: code beyond the label list *)

(* a row group's column chunk: its dictionary (None: no dictionary page) and its codes (None = NULL) *)
Definition chunk := (option (list label) * list (option nat))%type.

Definition cell_of (labels : list label) (oc : option nat) : cell :=
  match oc with
  | None => CNull
  | Some c => match nth_error labels c with Some l => CLab l | None => CBad c end
  end.

(* labels of the output column after reading the chunks in order, starting from `init` *)
Definition final_labels (init : list label) (chunks : list chunk) : list label :=
  fold_left (fun cur ch => match fst ch with Some d => d | None => cur end) chunks init.

Definition read_cat (init : list label) (chunks : list chunk) : list cell :=
  map (cell_of (final_labels init chunks)) (concat (map snd chunks)).

(* what the property asks for: every row group's codes mean that row group's labels *)
Definition expected_cat (chunks : list chunk) : list cell :=
  concat (map (fun ch => map (cell_of (match fst ch with Some d => d | None => [] end)) (snd ch)) chunks).
