(* Dataset/ChunkNames.v — a row group's column chunks are matched to the columns of the output by NAME (C14, wave 4).

   core.read_row_group_arrays walks `rg.columns` and, for each chunk, takes name = ".".join(chunk.meta_data.path_in_schema); the
   chunk is read into out[name] if that column was asked for.  Nothing depends on the POSITION of the chunk in the row group, so files
   written with their columns in another order (another writer, a frame with permuted columns) merge into the same table.        *)
From Coq Require Import NArith Bool Arith List.
From Pq Require Import Base.Bytes.
Import ListNotations.

Section ChunkNames.
  Variable V : Type.                       (* a cell *)
  Definition cname := list N.              (* the dotted column name, as bytes *)
  Definition cname_eqb : cname -> cname -> bool := list_eqb N.eqb.
  Definition chunk := (cname * list V)%type.
  Definition rowgroup := list chunk.

  (* the loop of read_row_group_arrays, for one requested column: every chunk carrying that name is read into out[name], a later one
     over an earlier one (a well-formed row group has exactly one) *)
  Definition named (c : cname) (rg : rowgroup) : list chunk := filter (fun ch => cname_eqb (fst ch) c) rg.
  Definition read_col (c : cname) (rg : rowgroup) : option (list V) :=
    match rev (named c rg) with ch :: _ => Some (snd ch) | [] => None end.

  (* to_pandas(columns): every row group in order, every requested column by name; None = a column missing from a row group *)
  Fixpoint all_some_l {A} (l : list (option A)) : option (list A) :=
    match l with [] => Some [] | Some a :: r => option_map (cons a) (all_some_l r) | None :: _ => None end.
  Definition read_column (c : cname) (rgs : list rowgroup) : option (list V) :=
    option_map (@concat V) (all_some_l (map (read_col c) rgs)).
  Definition read_table (cols : list cname) (rgs : list rowgroup) : option (list (cname * list V)) :=
    all_some_l (map (fun c => option_map (pair c) (read_column c rgs)) cols).

  (* the REJECTED alternative (class of seeded changes C14-8 / C06-7): the k-th chunk of a row group is taken for the k-th column of
     a layout remembered from another row group *)
  Definition read_col_by_position (layout : list cname) (c : cname) (rg : rowgroup) : option (list V) :=
    match find (fun kn => cname_eqb (snd kn) c) (combine (seq 0 (length layout)) layout) with
    | Some (k, _) => option_map snd (nth_error rg k)
    | None => None
    end.
End ChunkNames.
