(* Dataset/FS.v — a file system as  path |-> content  and the calls fastparquet issues on it.

   Paths are byte strings relative to the dataset root ("k=0/part.3.parquet", "_metadata").
   Only regular files are modelled; a directory exists implicitly when something lies below it
   (mkdir therefore has no effect on the file map).  A call trace is what the wrappers passed as
   open_with / mkdirs (and the interpreter's audit events for rename / remove) record while the
   real code runs.

   OS semantics assumed (trusted base):  open 'wb' creates or truncates; sequential writes on a
   handle opened with 'wb' append to the file; rename is atomic per call and moves a file or a
   whole directory; remove deletes a file or a whole directory; no call changes a file it does
   not name.                                                                                  *)
From Coq Require Import NArith List Bool Arith.
From Pq Require Import Base.Bytes.
Import ListNotations.

Definition path := bytes.
Definition slash : N := 47.

Fixpoint is_prefix (a b : bytes) : bool :=
  match a, b with
  | [], _ => true
  | x :: a', y :: b' => N.eqb x y && is_prefix a' b'
  | _ :: _, [] => false
  end.

(* q is p itself or lies inside the directory p *)
Definition under (p q : path) : bool := bytes_eqb p q || is_prefix (p ++ [slash]) q.

Definition fs := list (path * bytes).

Fixpoint lookup (p : path) (s : fs) : option bytes :=
  match s with
  | [] => None
  | (q, v) :: r => if bytes_eqb p q then Some v else lookup p r
  end.

Definition set_file (p : path) (v : bytes) (s : fs) : fs :=
  (p, v) :: filter (fun e => negb (bytes_eqb p (fst e))) s.

Definition remove_under (p : path) (s : fs) : fs :=
  filter (fun e => negb (under p (fst e))) s.

(* rename a b: everything at or below a moves to the same place at or below b (what was there
   before is replaced) *)
Definition rename_under (a b : path) (s : fs) : fs :=
  map (fun e => if under a (fst e) then (b ++ skipn (length a) (fst e), snd e) else e)
      (remove_under b s).

Inductive call :=
| Mkdir (p : path)
| OpenW (p : path) (trunc : bool)      (* open for writing; trunc = mode 'wb' (create/truncate) *)
| Write (p : path) (d : bytes)         (* sequential write on the handle opened on p *)
| Close (p : path)
| Rename (src dst : path)
| Remove (p : path).

Definition step (s : fs) (c : call) : fs :=
  match c with
  | Mkdir _ => s
  | OpenW p true => set_file p [] s
  | OpenW p false => match lookup p s with Some _ => s | None => set_file p [] s end
  | Write p d => match lookup p s with Some old => set_file p (old ++ d) s | None => s end
  | Close _ => s
  | Rename a b => rename_under a b s
  | Remove p => remove_under p s
  end.

Definition run_trace (tr : list call) (s : fs) : fs := fold_left step tr s.

(* does call c possibly change the file q ? *)
Definition affects (c : call) (q : path) : bool :=
  match c with
  | Mkdir _ => false
  | OpenW p _ => bytes_eqb p q
  | Write p _ => bytes_eqb p q
  | Close _ => false
  | Rename a b => under a q || under b q
  | Remove p => under p q
  end.

(* the names of the two summary files of a multi-file dataset, relative to its root *)
Definition md_name : path := [95; 109; 101; 116; 97; 100; 97; 116; 97].                   (* "_metadata" *)
Definition cmd_name : path := [95; 99; 111; 109; 109; 111; 110] ++ md_name.                (* "_common_metadata" *)

Definition is_open_w (c : call) : option path := match c with OpenW p _ => Some p | _ => None end.
Definition is_md_open (c : call) : bool :=
  match c with OpenW p _ => bytes_eqb p md_name | _ => false end.

(* handles open after a trace: opened for writing and not closed since *)
Definition handles_step (h : list path) (c : call) : list path :=
  match c with
  | OpenW p _ => p :: h
  | Close p => filter (fun q => negb (bytes_eqb p q)) h
  | _ => h
  end.
Definition open_handles (tr : list call) : list path := fold_left handles_step tr [].
