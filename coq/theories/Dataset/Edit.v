(* Dataset/Edit.v — edits of a multi-file (hive) dataset (property C09).

   Impl model of writer.write / write_multi / overwrite, api.write_row_groups, remove_row_groups,
   _sort_part_names (REPAIRED, fix-dsedit2: files keyed by path) and of the pinned _sort_part_names
   (files keyed by part number; executable only, for the refutation), as transformations of

     state = directory (path |-> the rows the file holds)
           + summary   (the row-group list of _metadata: path and the rows the row group was written with)
           + the num_rows field of the summary.

   A file's content is the list of the ids of the rows it holds (the harness gives every row a
   unique id); `fs` of FS.v is reused with "bytes" = row ids.  New data arrives already cut into
   row groups and, inside each row group, into (partition directory, rows) in pandas' groupby order
   (glue in the harness; directory [] = not partitioned).

   The abstract dataset (the "plain model" of the property) is the list of (partition directory, rows)
   in row-group order; `spec_step` edits it without any file, name or rename.                      *)
From Coq Require Import NArith ZArith List Bool Arith.
From Pq Require Import Base.Bytes Dataset.FS Dataset.FsPaths.
Import ListNotations.
Local Open Scope N_scope.

Definition rows := list N.
Definition entry := (path * rows)%type.
(* st_part: None = no dataset has been written yet; Some b = the dataset is (b = true) / is not partitioned - what the pandas
   metadata 'partition_columns' of _metadata records (fix 05c32a7 uses it when no row group is left to infer it from).
   st_sch: the schema of the summary (an abstract id); a data file's content is modelled as  schema id :: row ids  *)
Record state := { st_dir : fs; st_sum : list entry; st_num : Z; st_part : option bool; st_sch : N }.
Definition empty : state := {| st_dir := []; st_sum := []; st_num := 0%Z; st_part := None; st_sch := 0 |}.

Definition rgroup := list (path * rows).      (* one row group of new data: (partition directory, rows) *)

Inductive skey := SKNone | SKPart | SKRows.   (* sort_key of write_row_groups: none / partition directory / num_rows *)

Inductive op :=
| OWrite (sch : N) (rgs : list rgroup)                     (* write(dir, df, file_scheme='hive', partition_on=...) into an empty directory; sch = the frame's schema *)
| OAppend (rgs : list rgroup)                              (* write(..., append=True) *)
| OOverwrite (rgs : list rgroup)                           (* write(..., append='overwrite') *)
| ORemove (sel : list nat) (sort_pnames : bool)            (* pf.remove_row_groups([pf.row_groups[i] for i in sel], sort_pnames=...) *)
| OWriteRgs (rgs : list rgroup) (k : skey) (sort_pnames : bool).   (* pf.write_row_groups(df, offsets, sort_key=..., sort_pnames=...) *)

(* ---- paths ---------------------------------------------------------------------------------- *)
Fixpoint drop_to_slash (l : bytes) : bytes :=
  match l with [] => [] | x :: r => if x =? slash then r else drop_to_slash r end.
(* api.partitions(path): the text before the last '/', nothing when there is none *)
Definition dir_of (p : path) : path := rev (drop_to_slash (rev p)).

Definition s_tmp : bytes := [46; 116; 109; 112].                                  (* ".tmp" *)
Definition final_name (i : N) (p : path) : path := join (dir_of p) (part_name i).
Definition tmp_name (i : N) (p : path) : path := final_name i p ++ s_tmp.

Definition mem_p (p : path) (l : list path) : bool := existsb (bytes_eqb p) l.

(* ---- stable sort (Python's sorted(..., key=)) ------------------------------------------------ *)
Section Sort.
  Context {A : Type} (le : A -> A -> bool).
  Fixpoint insert (x : A) (l : list A) : list A :=
    match l with [] => [x] | y :: r => if le x y then x :: l else y :: insert x r end.
  Fixpoint isort (l : list A) : list A := match l with [] => [] | x :: r => insert x (isort r) end.
End Sort.

(* index of the first element satisfying P, counted from i; dflt when there is none *)
Fixpoint index_from {A} (P : A -> bool) (dflt i : N) (l : list A) : N :=
  match l with [] => dflt | x :: r => if P x then i else index_from P dflt (i + 1) r end.

Fixpoint bytes_leb (a b : bytes) : bool :=          (* str <= str (code points = utf-8 byte order) *)
  match a, b with
  | [], _ => true
  | _ :: _, [] => false
  | x :: a', y :: b' => if x <? y then true else if y <? x then false else bytes_leb a' b'
  end.

Definition key_le {B} (k : skey) (dirf : B -> path) (nf : B -> N) (x y : B) : bool :=
  match k with
  | SKNone => true
  | SKPart => bytes_leb (dirf x) (dirf y)
  | SKRows => nf x <=? nf y
  end.

(* ---- write_multi ---------------------------------------------------------------------------- *)
Fixpoint new_entries (off : N) (rgs : list rgroup) : list entry :=
  match rgs with
  | [] => []
  | g :: r => map (fun e => (join (fst e) (part_name off), snd e)) g ++ new_entries (off + 1) r
  end.

(* make_part_file(f, df, fmd.schema, fmd=fmd): every part file carries the SUMMARY's schema *)
Definition put_files (sch : N) (es : list entry) (d : fs) : fs := fold_left (fun s e => set_file (fst e) (sch :: snd e) s) es d.

Definition total (sum : list entry) : Z := fold_left (fun z e => (z + Z.of_nat (length (snd e)))%Z) sum 0%Z.

(* ---- _sort_part_names ------------------------------------------------------------------------ *)
Definition rename_file (a b : path) (s : fs) : option fs :=
  match lookup a s with
  | Some v => Some (set_file b v (filter (fun e => negb (bytes_eqb a (fst e))) s))
  | None => None                                   (* FileNotFoundError *)
  end.

Fixpoint rename_all (mv : list (path * path)) (s : fs) : option fs :=
  match mv with
  | [] => Some s
  | (a, b) :: r => match rename_file a b s with Some s' => rename_all r s' | None => None end
  end.

(* repaired: one entry per FILE (path) with the index of the first row group it holds *)
Fixpoint first_idx (i : N) (sum : list entry) (seen : list path) : list (N * path) :=
  match sum with
  | [] => []
  | (p, _) :: r => if mem_p p seen then first_idx (i + 1) r seen else (i, p) :: first_idx (i + 1) r (p :: seen)
  end.

Definition opt_N_eqb (a : option N) (b : N) : bool := match a with Some x => x =? b | None => false end.

(* None = PART_ID does not match a referenced path (TypeError) *)
Definition renames (sum : list entry) : option (list (N * path)) :=
  if forallb (fun e => match part_id (fst e) with Some _ => true | None => false end) sum
  then Some (filter (fun ip => negb (opt_N_eqb (part_id (snd ip)) (fst ip))) (first_idx 0 sum []))
  else None.

Definition relabel (rn : list (N * path)) (e : entry) : entry :=
  match find (fun ip => bytes_eqb (snd ip) (fst e)) rn with
  | Some ip => (final_name (fst ip) (fst e), snd e)
  | None => e
  end.

Definition sort_pnames_fixed (s : state) : option state :=
  match renames (st_sum s) with
  | None => None
  | Some rn =>
    match rename_all (map (fun ip => (snd ip, tmp_name (fst ip) (snd ip))) rn) (st_dir s) with
    | None => None
    | Some d1 =>
      match rename_all (map (fun ip => (tmp_name (fst ip) (snd ip), final_name (fst ip) (snd ip))) rn) d1 with
      | None => None
      | Some d2 => Some {| st_dir := d2; st_sum := map (relabel rn) (st_sum s); st_num := st_num s;
                           st_part := st_part s; st_sch := st_sch s |}
      end
    end
  end.

(* pinned: part_ids() is a dict keyed by the part NUMBER, filled from the reversed row-group list
   (insertion order = first occurrence from the end, value = the smallest row-group index) *)
Fixpoint upsert (n : N) (v : N * path) (l : list (N * (N * path))) : list (N * (N * path)) :=
  match l with
  | [] => [(n, v)]
  | (m, w) :: r => if m =? n then (m, v) :: r else (m, w) :: upsert n v r
  end.

Fixpoint indexed (i : N) (sum : list entry) : list (N * path) :=
  match sum with [] => [] | (p, _) :: r => (i, p) :: indexed (i + 1) r end.

Definition pids_old (sum : list entry) : option (list (N * (N * path))) :=
  fold_left (fun acc ip => match acc, part_id (snd ip) with
                           | Some l, Some n => Some (upsert n ip l)
                           | _, _ => None
                           end) (rev (indexed 0 sum)) (Some []).

Fixpoint set_nth_path (i : nat) (p : path) (sum : list entry) : list entry :=
  match sum, i with
  | [], _ => []
  | (_, r) :: t, O => (p, r) :: t
  | e :: t, S i' => e :: set_nth_path i' p t
  end.

Definition sort_pnames_old (s : state) : option state :=
  match pids_old (st_sum s) with
  | None => None
  | Some pids =>
    let rn := map snd (filter (fun x => negb (fst x =? fst (snd x))) pids) in
    match rename_all (map (fun ip => (snd ip, tmp_name (fst ip) (snd ip))) rn) (st_dir s) with
    | None => None
    | Some d1 =>
      match rename_all (map (fun ip => (tmp_name (fst ip) (snd ip), final_name (fst ip) (snd ip))) rn) d1 with
      | None => None
      | Some d2 =>
        Some {| st_dir := d2;
                st_sum := fold_left (fun sm ip => set_nth_path (N.to_nat (fst ip)) (final_name (fst ip) (snd ip)) sm) rn (st_sum s);
                st_num := st_num s; st_part := st_part s; st_sch := st_sch s |}
      end
    end
  end.

(* ---- the operations --------------------------------------------------------------------------- *)
Section Step.
  Variable sortp : state -> option state.        (* which _sort_part_names *)

  Definition maybe_sortp (b : bool) (s : state) : option state := if b then sortp s else Some s.

  Definition partitioned (rgs : list rgroup) : bool :=
    existsb (fun g => existsb (fun e => match fst e with [] => false | _ => true end) g) rgs.

  (* the partition columns of the dataset: from the referenced paths or, when no row group is left, from the pandas metadata
     (ParquetFile.partition_names); new data must be partitioned the same way (writer.write: partition_on != ...;
     api.write_row_groups: column check).  No dataset yet: ParquetFile(...) fails. *)
  Definition cats_known (s : state) (rgs : list rgroup) : bool :=
    match st_part s with Some b => Bool.eqb b (partitioned rgs) | None => false end.

  Definition remove_at (sel : list nat) (sum : list entry) : list entry :=
    map snd (filter (fun ie => negb (existsb (Nat.eqb (fst ie)) sel)) (combine (seq 0 (length sum)) sum)).

  Definition selected (sel : list nat) (sum : list entry) : list entry :=
    map snd (filter (fun ie => existsb (Nat.eqb (fst ie)) sel) (combine (seq 0 (length sum)) sum)).

  Definition drop_files (ps : list path) (d : fs) : fs := filter (fun e => negb (mem_p (fst e) ps)) d.

  (* write_multi(append=True, write_fmd=False) followed by the optional sort *)
  Definition add_rgs (s : state) (rgs : list rgroup) (le : entry -> entry -> bool) : option state :=
    match find_max_part (map fst (st_sum s)) with
    | None => None
    | Some off =>
      let es := new_entries off rgs in
      let sum := isort le (st_sum s ++ es) in
      Some {| st_dir := put_files (st_sch s) es (st_dir s); st_sum := sum; st_num := total sum;
              st_part := st_part s; st_sch := st_sch s |}
    end.

  Definition first_index_of (old : list entry) (e : entry) : N :=
    index_from (fun x : entry => bytes_eqb (dir_of (fst x)) (dir_of (fst e))) (N.of_nat (length old)) 0 old.

  Definition step (s : state) (o : op) : option state :=
    match o with
    | OWrite sch rgs =>
        match st_part s, st_dir s, st_sum s with
        | None, [], [] =>
          let es := new_entries 0 rgs in
          Some {| st_dir := put_files sch es []; st_sum := es; st_num := total es;
                  st_part := Some (partitioned rgs); st_sch := sch |}
        | _, _, _ => None
        end
    | OAppend rgs =>
        if cats_known s rgs then add_rgs s rgs (fun _ _ => true) else None
    | OWriteRgs rgs k sp =>
        if cats_known s rgs then
          match add_rgs s rgs (key_le k (fun e : entry => dir_of (fst e)) (fun e => N.of_nat (length (snd e)))) with
          | Some s1 => maybe_sortp sp s1
          | None => None
          end
        else None
    | OOverwrite rgs =>
        if partitioned rgs && (match st_part s with Some true => true | _ => false end) then
          let old := st_sum s in
          match add_rgs s rgs (fun x y => first_index_of old x <=? first_index_of old y) with
          | None => None
          | Some s1 =>
            let newdirs := map (fun e => dir_of (fst e)) (new_entries 0 rgs) in
            let gone := filter (fun e => mem_p (dir_of (fst e)) newdirs) old in
            let keep := filter (fun e => negb (mem_p (fst e) (map fst gone))) (st_sum s1) in
            sortp {| st_dir := drop_files (map fst gone) (st_dir s1); st_sum := keep;
                     st_num := (st_num s1 - total gone)%Z; st_part := st_part s1; st_sch := st_sch s1 |}
          end
        else None
    | ORemove sel sp =>
        match st_part s with
        | None => None                                  (* no dataset: ParquetFile(...) fails *)
        | Some _ =>
          let gone := selected sel (st_sum s) in
          maybe_sortp sp {| st_dir := drop_files (map fst gone) (st_dir s); st_sum := remove_at sel (st_sum s);
                            st_num := (st_num s - total gone)%Z; st_part := st_part s; st_sch := st_sch s |}
        end
    end.

  (* a refused operation leaves the dataset as it was *)
  Definition step' (s : state) (o : op) : state := match step s o with Some s' => s' | None => s end.
  Definition run (ops : list op) (s : state) : state := fold_left step' ops s.
End Step.

(* ---- what a fresh open reads -------------------------------------------------------------------
   row group by row group: the file named by the summary; Some rows when it holds exactly the rows
   the row group was written with, None otherwise (missing file, or another file's content under that name) *)
Definition read_entry (d : fs) (sch : N) (e : entry) : option rows :=
  match lookup (fst e) d with
  | Some (c :: r) => if (c =? sch) && bytes_eqb r (snd e) then Some r else None      (* the file's schema is the summary's, and its rows the stated ones *)
  | _ => None
  end.
Definition read (s : state) : list (path * option rows) :=
  map (fun e => (dir_of (fst e), read_entry (st_dir s) (st_sch s) e)) (st_sum s).

(* ---- the plain model ---------------------------------------------------------------------------- *)
Definition sstate := list (path * rows).          (* (partition directory, rows) in row-group order *)
Definition abs (s : state) : sstate := map (fun e => (dir_of (fst e), snd e)) (st_sum s).

Definition flat (rgs : list rgroup) : sstate := concat rgs.

Definition sfirst_index_of (old : sstate) (g : path * rows) : N :=
  index_from (fun x : path * rows => bytes_eqb (fst x) (fst g)) (N.of_nat (length old)) 0 old.

Definition spec_step (a : sstate) (o : op) : option sstate :=
  match o with
  | OWrite _ rgs => match a with [] => Some (flat rgs) | _ => None end
  | OAppend rgs => Some (a ++ flat rgs)
  | OWriteRgs rgs k _ => Some (isort (key_le k (fun g : path * rows => fst g) (fun g => N.of_nat (length (snd g)))) (a ++ flat rgs))
  | OOverwrite rgs =>
      let newdirs := map fst (flat rgs) in
      Some (isort (fun x y => sfirst_index_of a x <=? sfirst_index_of a y)
                  (filter (fun g => negb (mem_p (fst g) newdirs)) a ++ flat rgs))
  | ORemove sel _ => Some (map snd (filter (fun ig => negb (existsb (Nat.eqb (fst ig)) sel)) (combine (seq 0 (length a)) a)))
  end.

(* ---- the invariant: metadata and directory agree ------------------------------------------------- *)
Definition well_named (p : path) : Prop := exists d n, p = join d (part_name n) /\ existsb (N.eqb 10) d = false /\ existsb (N.eqb slash) (part_name n) = false.

Definition inv (s : state) : Prop :=
  (forall e, In e (st_sum s) -> lookup (fst e) (st_dir s) = Some (st_sch s :: snd e))   (* referenced file exists, has the summary's schema, holds the stated rows *)
  /\ (forall p, lookup p (st_dir s) <> None -> In p (map fst (st_sum s)))           (* no unreferenced file *)
  /\ NoDup (map fst (st_sum s))
  /\ st_num s = total (st_sum s)
  /\ (forall e, In e (st_sum s) -> well_named (fst e))
  /\ (st_part s = None -> st_sum s = []).

(* decidable version evaluated by the extracted model on every state of a history *)
Fixpoint nodup_p (l : list path) : bool :=
  match l with [] => true | p :: r => negb (mem_p p r) && nodup_p r end.
Definition check_inv (s : state) : bool :=
  forallb (fun e => match lookup (fst e) (st_dir s) with Some r => bytes_eqb r (st_sch s :: snd e) | None => false end) (st_sum s)
  && forallb (fun f => mem_p (fst f) (map fst (st_sum s))) (st_dir s)
  && nodup_p (map fst (st_sum s))
  && Z.eqb (st_num s) (total (st_sum s)).
