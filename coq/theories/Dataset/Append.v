(* Dataset/Append.v — impl model of the single-file append (writer.write_simple with append=True,
   property C07).

     mode 'rb+'                      the file is opened WITHOUT truncation
     f.seek(-8, 2); head_size = le32(f.read(4)); f.seek(-(head_size+8), 2)
                                     the cursor is put on the first byte of the old footer
     for row_group in data: make_row_group(f, ...)      many sequential f.write calls
     foot_size = write_thrift(f, fmd); f.write(le32 foot_size); f.write(b'PAR1')
     (no truncate on this path.  Since the repair of C18 the old footer bytes are read first and, if
      anything raises, written back at the same position followed by truncate(); the success path
      modelled here issues the same writes as before)

   OS semantics as in Impl/KV.v: a write at the cursor overwrites in place, extends the file when
   it runs past the end, and advances the cursor by the number of bytes written.              *)
From Coq Require Import NArith List Bool Arith.
From Pq Require Import Base.Bytes Impl.KV.
Import ListNotations.

(* sequential writes on one handle, starting at the cursor pos *)
Fixpoint seq_write (file : bytes) (pos : nat) (chunks : list bytes) : bytes :=
  match chunks with
  | [] => file
  | c :: r => seq_write (os_write file pos c) (pos + length c) r
  end.

Definition trailer (footer : bytes) : list bytes := [footer; le_enc 4 (N.of_nat (length footer)); magic].

(* the whole append: `chunks` = every byte string the row-group writer hands to f.write, in order *)
Definition append_simple (file : bytes) (chunks : list bytes) (footer' : bytes) : option bytes :=
  match footer_loc false file with
  | Some loc => Some (seq_write file loc (chunks ++ trailer footer'))
  | None => None
  end.

(* ---- reading a single file: the footer lists, per row group, where its bytes are ------------
   The thrift content is opaque (C10): `parse_footer`/`enc_footer` are section variables with the
   round-trip hypothesis; a row group descriptor is (offset, length) of its byte range; `dec_rg`
   (page decoding, C01/C03) is an arbitrary function of those bytes.                           *)
Definition slice (off len : nat) (f : bytes) : bytes := firstn len (skipn off f).

Fixpoint place (pos : nat) (rgs : list bytes) : list (nat * nat) :=
  match rgs with
  | [] => []
  | b :: r => (pos, length b) :: place (pos + length b) r
  end.

Section Rows.
  Variable row : Type.
  Variable dec_rg : bytes -> list row.
  Variable enc_footer : list (nat * nat) -> bytes.
  Variable parse_footer : bytes -> option (list (nat * nat)).

  Definition footer_of (f : bytes) : option (nat * list (nat * nat)) :=
    match footer_loc false f with
    | Some loc =>
      match parse_footer (firstn (length f - 8 - loc) (skipn loc f)) with
      | Some descs => Some (loc, descs)
      | None => None
      end
    | None => None
    end.

  Definition rows_of (f : bytes) (descs : list (nat * nat)) : list row :=
    concat (map (fun d => dec_rg (slice (fst d) (snd d) f)) descs).

  Definition read_simple (f : bytes) : option (list row) :=
    match footer_of f with Some (_, descs) => Some (rows_of f descs) | None => None end.

  (* one append of the row groups rgs (each one byte string): the new footer lists the old
     descriptors followed by those of the new row groups, in order *)
  Definition append_rgs (f : bytes) (rgs : list bytes) : option bytes :=
    match footer_of f with
    | Some (loc, descs) => append_simple f rgs (enc_footer (descs ++ place loc rgs))
    | None => None
    end.

  Definition appends (f : bytes) (batches : list (list bytes)) : option bytes :=
    fold_left (fun of rgs => match of with Some f => append_rgs f rgs | None => None end) batches (Some f).
End Rows.

(* ---- the validated relation of the single-file append (DESIGN 4.2) ---------------------------
   What C07 needs of the bytes the real append leaves, whatever else the writer does (padding, chunking
   of its writes, where exactly the new row groups start):  the old footer is found at loc, everything
   below loc is unchanged, and the new file again ends in a footer found at or after loc.
   `check_append_rel` is evaluated on (bytes before, bytes after) of every real append.           *)
Definition check_append_rel (before after : bytes) : bool :=
  match footer_loc false before, footer_loc false after with
  | Some loc, Some loc' => bytes_eqb (firstn loc after) (firstn loc before) && Nat.leb loc loc'
  | _, _ => false
  end.

Definition append_rel (before after : bytes) : Prop :=
  exists loc loc', footer_loc false before = Some loc /\ footer_loc false after = Some loc'
    /\ (loc <= loc')%nat /\ firstn loc after = firstn loc before.
