(* Dataset/CrashGen.v — the GENERAL commit-point relation for an append to a multi-file dataset (property C19, wave 3).

   `safe_trace` / `safe_trace_sym` (Crash.v) describe how today's code commits: it opens _metadata 'wb' and writes it in
   place.  The property needs less: the summary "starts being rewritten" with the FIRST CALL THAT CAN CHANGE _metadata,
   whatever that call is - a write-open, but also a rename ONTO it (write a temporary file, then os.replace) or its
   removal.  `safe_gen` says:
     1. before that commit point no call touches _metadata or a referenced data file;
     2. when it is reached, every file opened for writing before has been closed (new parts and any temporary file are complete);
     3. after it no call touches a referenced data file.
   Nothing is said about which other files are written (temporary files, _common_metadata, new parts).

   READ-SIDE events (open for reading, read) are part of an event trace but have no effect on the file map: an I/O fault at
   a read event interrupts the operation between two effects.                                                           *)
From Coq Require Import NArith List Bool Arith.
From Pq Require Import Base.Bytes Dataset.FS Dataset.Crash.
Import ListNotations.

(* can this call change _metadata ? (write-open / write of it, rename of or onto it or a directory above, removal) *)
Definition touches_md (c : call) : bool := affects c md_name.

(* handles that may still be open at the commit point: only the other summary file's (_common_metadata may be rewritten before
   or after _metadata); every new part file and every temporary file has been closed *)
Definition handles_ok (h : list path) : bool := forallb (fun p => bytes_eqb p cmd_name) h.

(* h = the handles open so far *)
Fixpoint check_gen (refs : list path) (h : list path) (tr : list call) : bool :=
  match tr with
  | [] => true
  | c :: r =>
    untouched c refs &&
    (if touches_md c then handles_ok h && forallb (fun x => untouched x refs) r
     else check_gen refs (handles_step h c) r)
  end.

Definition check_safe_gen (refs : list path) (tr : list call) : bool := check_gen refs [] tr.

Definition safe_gen_h (refs : list path) (h : list path) (tr : list call) : Prop :=
  forall tr1 c tr2, tr = tr1 ++ c :: tr2 ->
    (forall q, In q refs -> affects c q = false)
    /\ (existsb touches_md tr1 = false -> touches_md c = true -> handles_ok (fold_left handles_step tr1 h) = true).

Definition safe_gen (refs : list path) (tr : list call) : Prop := safe_gen_h refs [] tr.

(* ---- event traces: effects interleaved with read-side events ---- *)
Inductive ev :=
| Eff (c : call)                (* a file-changing call (FS.call) *)
| RdOpen (p : path)             (* open for reading *)
| Rd (p : path).                (* read on a handle opened for reading (or 'rb+') *)

Fixpoint effects (es : list ev) : list call :=
  match es with
  | [] => []
  | Eff c :: r => c :: effects r
  | _ :: r => effects r
  end.

Definition run_events (es : list ev) (s : fs) : fs := run_trace (effects es) s.

(* ---- the model of a summary rewritten through a temporary file + rename ---- *)
Definition write_then_rename (tmp dst : path) (chunks : list bytes) : list call :=
  (OpenW tmp true :: map (Write tmp) chunks ++ [Close tmp]) ++ [Rename tmp dst].

(* an append that commits through a temporary file: the calls writing the new part files, then the summary *)
Definition tmp_commit_trace (parts : list call) (tmp : path) (md : list bytes) : list call :=
  parts ++ write_then_rename tmp md_name md.
