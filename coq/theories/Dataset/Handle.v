(* Handle coherence (properties C17, C06; used by every property that talks about "the same handle").

   A ParquetFile handle is modelled as
        gr   : the GROUND state - what a fresh open would be built from: the fields of the thrift FileMetaData
               (fmd.row_groups, fmd.key_value_metadata, fmd.schema, ...), the constructor context (fn, open,
               pandas_nulls, ...) and one ghost component `origin` = the row groups the inherited column dtypes
               were derived from (own row groups after an open or an edit; the PARENT's after a selection);
        memo : the memoised attributes, each caching a function `compute a` of the ground state
               (lazy ones: _statistics, _kvm, _pdm, _categories, ..., dynamic fields cached on fmd;
                eager ones, refilled by _set_attrs: row_groups, cats, dtypes, _base_dtype, ...).
   Operations
        observers    read attributes through the memo table (and fill it),
        derivations  __getitem__, pickle (__getstate__/__setstate__), copy, deepcopy  -> a NEW handle,
        mutators     write_row_groups, remove_row_groups (and their FAILED variants)   -> the same handle, edited.
   Every operation is described by an `opinfo`: which ground components it may change and what it does with each
   attribute (Keep it / Reset it to None / Refill it from the new ground state).  The `inventory` (attributes,
   what each is computed from, the opinfo of every operation) is REGENERATED from fastparquet/api.py by
   translators/handle2coq.py on every run; `inventory_ok` is the decidable condition
        every attribute an operation keeps is computed from components the operation does not write, and
        a derivation writes nothing of the part of the ground state a derived handle must inherit,
   proved sufficient (Proofs/HandleProofs.v) for: for EVERY program over any number of live handles, every observer
   answer equals the answer recomputed from that handle's current ground state (= a fresh handle).              *)
From Coq Require Import List String Bool Arith.
Import ListNotations.
Open Scope string_scope.
Open Scope list_scope.

Definition name := string.

Inductive pol := Keep | Reset | Refill.

Record opinfo := mk_op {
  op_name : name;
  op_writes : list name;            (* ground components the operation may change *)
  op_pols : list (name * pol);      (* what it does with the named attributes ... *)
  op_default : pol }.               (* ... and with every other one *)

Record inventory := mk_inv {
  inv_memos : list name;                    (* memoised attributes (lazy and eager) *)
  inv_reads : list (name * list name);      (* attribute / property / method -> the names its body reads *)
  inv_ground : list name;                   (* the ground components (leaves of inv_reads) *)
  inv_derivs : list opinfo;
  inv_mutators : list opinfo;               (* successful AND failed variants *)
  inv_preserved : list name;                (* ground components a derived handle inherits unchanged *)
  inv_obs_writes : list (name * list name) }.  (* observer (method / module-level function taking the handle) -> the attributes
                                                whose cached OBJECT it mutates in place (item assignment, .remove/.pop/..., del) *)

Definition mem (a : name) (l : list name) : bool := existsb (String.eqb a) l.

Fixpoint assoc {T} (a : name) (l : list (name * T)) : option T :=
  match l with
  | [] => None
  | (b, v) :: t => if String.eqb a b then Some v else assoc a t
  end.

Definition pol_of (o : opinfo) (a : name) : pol :=
  match assoc a (op_pols o) with Some p => p | None => op_default o end.

Definition disjointb (l1 l2 : list name) : bool := forallb (fun a => negb (mem a l2)) l1.

(* names reachable from `a` through the read edges (fuel = nesting depth of property calls) *)
Fixpoint reach (fuel : nat) (edges : list (name * list name)) (a : name) : list name :=
  match fuel with
  | O => [a]
  | S k => a :: flat_map (reach k edges) (match assoc a edges with Some l => l | None => [] end)
  end.

Definition reach_fuel := 12%nat.

(* the ground components attribute `a` is computed from *)
Definition deps (inv : inventory) (a : name) : list name :=
  filter (fun c => mem c (inv_ground inv)) (reach reach_fuel (inv_reads inv) a).

Definition op_ok (inv : inventory) (o : opinfo) : bool :=
  forallb (fun a => match pol_of o a with
                    | Keep => disjointb (deps inv a) (op_writes o)
                    | _ => true
                    end) (inv_memos inv).

Definition all_ops (inv : inventory) : list opinfo := inv_derivs inv ++ inv_mutators inv.

Definition inventory_ok (inv : inventory) : bool :=
  forallb (op_ok inv) (all_ops inv) &&
  forallb (fun d => disjointb (op_writes d) (inv_preserved inv)) (inv_derivs inv) &&
  forallb (fun p => match snd p with [] => true | _ => false end) (inv_obs_writes inv).     (* observers do not write *)

(* the offending (operation, attribute) pairs - what the check reports when it fails *)
Definition offenders (inv : inventory) : list (name * name) :=
  flat_map (fun o => flat_map (fun a => match pol_of o a with
                                        | Keep => if disjointb (deps inv a) (op_writes o) then [] else [(op_name o, a)]
                                        | _ => []
                                        end) (inv_memos inv)) (all_ops inv)
  ++ flat_map (fun d => map (fun c => (op_name d, c)) (filter (fun c => mem c (inv_preserved inv)) (op_writes d)))
              (inv_derivs inv)
  ++ flat_map (fun p => map (fun a => (fst p, a)) (snd p)) (inv_obs_writes inv).

(* ------------------------------------------------------------------------------------------
   Semantics: programs over a store of live handles.                                          *)
Section Sem.
  Variable inv : inventory.
  Variables X A : Type.                       (* attribute values / operation arguments *)
  Definition ground := name -> X.
  Variable compute : name -> ground -> X.     (* what attribute `a` is for a ground state *)
  Variable eff : name -> A -> ground -> ground.   (* what operation `o` with argument `arg` does to the ground state *)

  Record handle := mk_h { gr : ground; memo : name -> option X }.

  Definition lookup (h : handle) (a : name) : X :=
    match memo h a with Some v => v | None => compute a (gr h) end.

  (* reading attribute `a` through its accessor fills the memo table *)
  Definition fill (h : handle) (a : name) : handle :=
    if mem a (inv_memos inv)
    then mk_h (gr h) (fun b => if String.eqb b a then Some (lookup h a) else memo h b)
    else h.

  (* in-place mutation of the object cached as attribute `a` (`scr` = what the mutation does to the cached value) *)
  Definition obs_writes_of (ob : name) : list name :=
    match assoc ob (inv_obs_writes inv) with Some l => l | None => [] end.
  Definition scribble (scr : X -> X) (h : handle) (a : name) : handle :=
    mk_h (gr h) (fun b => if String.eqb b a then option_map scr (memo h b) else memo h b).

  (* an observer `ob` reads some attributes and answers with a function of them and of the ground state; it is NOT assumed
     pure: whatever the inventory says it mutates in place is scribbled over (arbitrary `scr`) *)
  Definition observe (h : handle) (ob : name) (reads : list name) (f : list X -> ground -> X) (scr : X -> X) : handle * X :=
    (fold_left (scribble scr) (obs_writes_of ob) (fold_left fill reads h), f (map (lookup h) reads) (gr h)).

  Definition apply_op (o : opinfo) (arg : A) (h : handle) : handle :=
    let g' := eff (op_name o) arg (gr h) in
    mk_h g' (fun a => if mem a (inv_memos inv)
                      then match pol_of o a with
                           | Keep => memo h a
                           | Reset => None
                           | Refill => Some (compute a g')
                           end
                      else None).

  Inductive step :=
  | SObs (i : nat) (ob : name) (reads : list name) (f : list X -> ground -> X) (scr : X -> X)
  | SDerive (i : nat) (o : opinfo) (arg : A)       (* new handle appended to the store *)
  | SMutate (i : nat) (o : opinfo) (arg : A).      (* handle i edited in place (also the failed variants) *)

  Definition step_ok (s : step) : Prop :=
    match s with
    | SObs _ _ _ _ _ => True
    | SDerive _ o _ => In o (inv_derivs inv)
    | SMutate _ o _ => In o (inv_mutators inv)
    end.

  Fixpoint replace {T} (i : nat) (x : T) (l : list T) : list T :=
    match l, i with
    | [], _ => []
    | _ :: t, O => x :: t
    | y :: t, S k => y :: replace k x t
    end.

  Definition run1 (s : step) (st : list handle) : list handle * list X :=
    match s with
    | SObs i ob reads f scr =>
      match nth_error st i with
      | None => (st, [])
      | Some h => let (h', ans) := observe h ob reads f scr in (replace i h' st, [ans])
      end
    | SDerive i o arg =>
      match nth_error st i with
      | None => (st, [])
      | Some h => (st ++ [apply_op o arg h], [])
      end
    | SMutate i o arg =>
      match nth_error st i with
      | None => (st, [])
      | Some h => (replace i (apply_op o arg h) st, [])
      end
    end.

  Fixpoint run (p : list step) (st : list handle) : list handle * list X :=
    match p with
    | [] => (st, [])
    | s :: p' => let (st1, a1) := run1 s st in
                 let (st2, a2) := run p' st1 in (st2, a1 ++ a2)
    end.

  (* the specification: no memo table, every answer recomputed from the ground state *)
  Definition spec1 (s : step) (gs : list ground) : list ground * list X :=
    match s with
    | SObs i _ reads f _ =>
      match nth_error gs i with
      | None => (gs, [])
      | Some g => (gs, [f (map (fun a => compute a g) reads) g])
      end
    | SDerive i o arg =>
      match nth_error gs i with
      | None => (gs, [])
      | Some g => (gs ++ [eff (op_name o) arg g], [])
      end
    | SMutate i o arg =>
      match nth_error gs i with
      | None => (gs, [])
      | Some g => (replace i (eff (op_name o) arg g) gs, [])
      end
    end.

  Fixpoint run_spec (p : list step) (gs : list ground) : list ground * list X :=
    match p with
    | [] => (gs, [])
    | s :: p' => let (g1, a1) := spec1 s gs in
                 let (g2, a2) := run_spec p' g1 in (g2, a1 ++ a2)
    end.

  Definition coherent (h : handle) : Prop :=
    forall a v, memo h a = Some v -> v = compute a (gr h).

  (* a freshly opened handle: nothing memoised *)
  Definition fresh (g : ground) : handle := mk_h g (fun _ => None).
End Sem.

Arguments mk_h {X}.
Arguments gr {X}.
Arguments memo {X}.
Arguments SObs {X A}.
Arguments SDerive {X A}.
Arguments SMutate {X A}.
