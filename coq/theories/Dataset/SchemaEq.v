(* Dataset/SchemaEq.v — what `pf._schema != pfs[0]._schema` decides (util.metadata_from_many with verify_schema; property C14).

   _schema is the list of SchemaElement objects of the footer; list inequality compares element by element with ThriftObject.__eq__,
   i.e. cencoding.dict_eq on the underlying {field id: value} dicts: a field that is missing equals a field that is None, nested structs
   (logicalType and its members) are compared recursively, text may be str or bytes, dynamic (non-integer) keys are ignored.
   Model: an element is the finite map from PATHS of field ids (nested structs / list positions) to atoms that are not None. *)
From Coq Require Import NArith ZArith Bool Arith List.
From Pq Require Import Base.Bytes.
Import ListNotations.

Inductive atom := AZ (z : Z) | AB (b : list N) | AUnit.      (* number / boolean, text (as bytes), a struct without fields (TimeUnit member) *)
Definition atom_eqb (a b : atom) : bool :=
  match a, b with
  | AZ x, AZ y => Z.eqb x y
  | AB x, AB y => list_eqb N.eqb x y
  | AUnit, AUnit => true
  | _, _ => false
  end.
Definition path := list N.
Definition elem := list (path * atom).
Definition path_eqb : path -> path -> bool := list_eqb N.eqb.

Fixpoint get (p : path) (e : elem) : option atom :=
  match e with [] => None | (q, a) :: r => if path_eqb p q then Some a else get p r end.
Definition oatom_eqb (x y : option atom) : bool :=
  match x, y with Some a, Some b => atom_eqb a b | None, None => true | _, _ => false end.

(* dict_eq: every field present on either side has the same value on both *)
Definition elem_eqb (e1 e2 : elem) : bool :=
  forallb (fun p => oatom_eqb (get p e1) (get p e2)) (map fst e1 ++ map fst e2).
(* list == list: same length, element-wise *)
Fixpoint schema_eqb (s1 s2 : list elem) : bool :=
  match s1, s2 with
  | [], [] => true
  | a :: r, b :: r' => elem_eqb a b && schema_eqb r r'
  | _, _ => false
  end.

(* the specification: the two elements assign the same value to every attribute path *)
Definition elem_equiv (e1 e2 : elem) : Prop := forall p, get p e1 = get p e2.
Definition schema_equiv (s1 s2 : list elem) : Prop := Forall2 elem_equiv s1 s2.
