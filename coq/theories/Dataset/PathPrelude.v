(* Dataset/PathPrelude.v — prelude of translators/partnames2coq.py: the fragment of Python used by the small pure
   path functions of fastparquet (writer.find_max_part, the part-name format of writer.write_multi, util.join_path,
   util.path_string, the regular expression api.PART_ID) with the meaning the translator gives it.
   Text is `bytes` (ASCII / UTF-8 code units), integers are N (part numbers are never negative).             *)
From Coq Require Import NArith List Bool.
From Pq Require Import Base.Bytes Dataset.FS Dataset.FsPaths.
Import ListNotations.
Open Scope N_scope.

(* `if l:` on a list / dict / str *)
Definition py_truthy {A} (l : list A) : bool := match l with [] => false | _ :: _ => true end.

(* max(l) on a NON-EMPTY collection of ints (Python raises ValueError on an empty one; the translated code tests
   truthiness first - the value 0 given here for [] is never used by a translated function, and the re-proved
   theorems do not depend on it) *)
Definition py_max (l : list N) : N := match l with [] => 0 | n :: r => fold_left N.max r n end.

(* 'PRE%iSUF' % n *)
Definition py_fmt_i (pre suf : bytes) (n : N) : bytes := pre ++ dec n ++ suf.

(* s.replace(a, b) for one-character a, b;  s.rstrip(c) for a one-character c;  sep.join(parts) *)
Definition py_replace1 (a b : N) (s : bytes) : bytes := map (fun x => if x =? a then b else x) s.
Fixpoint drop_while_eq (c : N) (s : bytes) : bytes :=
  match s with x :: r => if x =? c then drop_while_eq c r else s | [] => [] end.
Definition py_rstrip1 (c : N) (s : bytes) : bytes := rev (drop_while_eq c (rev s)).
Fixpoint py_join (sep : bytes) (parts : list bytes) : bytes :=
  match parts with
  | [] => []
  | [p] => p
  | p :: r => p ++ sep ++ py_join sep r
  end.

(* tokens of the regular-expression fragment api.PART_ID is written in *)
Inductive retok :=
| RStarAny                  (* .*   greedy, '.' does not match a newline *)
| RAny                      (* .    *)
| RLit (c : N)              (* a literal character *)
| RGroupDigits1             (* (?P<i>[\d]+)  one or more decimal digits, captured *)
| REnd.                     (* $    *)

Definition lits (s : bytes) : list retok := map RLit s.

(* the expression FsPaths.part_id mirrors:  .*part.(?P<i>[\d]+).parquet$  *)
Definition pinned_part_re : list retok :=
  [RStarAny] ++ lits s_part ++ [RAny; RGroupDigits1; RAny] ++ lits s_parquet ++ [REnd].

Fixpoint retok_eqb (a b : retok) : bool :=
  match a, b with
  | RStarAny, RStarAny | RAny, RAny | RGroupDigits1, RGroupDigits1 | REnd, REnd => true
  | RLit x, RLit y => x =? y
  | _, _ => false
  end.

(* a path component does not end with '/' (what rstrip("/") would remove) *)
Definition no_trailing (c : N) (s : bytes) : Prop :=
  match rev s with x :: _ => (x =? c) = false | [] => True end.
