(* What "the corresponding part of the full read" means (property C06), written without any
   reference to row-group descriptors, offsets, handles' internals or the loops of api.py:
   the only inputs are
     parts   the full read cut at the per-row-group row counts the metadata reports
             (parts = chunks counts (rows of to_pandas()))
     ops     the handle operations applied (slices, picks, pickle/copy round trips), and
     r       the terminal read.                                                              *)
From Coq Require Import List ZArith Arith Bool.
From Pq Require Import Dataset.Read.
Import ListNotations.

Fixpoint chunks {A} (counts : list nat) (l : list A) : list (list A) :=
  match counts with
  | [] => []
  | c :: r => firstn c l :: chunks r (skipn c l)
  end.

(* selecting row groups = selecting the corresponding parts; copies and pickling select everything *)
Definition sel_hop {A} (op : hop) (l : list A) : res (list A) :=
  match op with
  | HSlice s => match py_slice s l with Some r => Ok r | None => Fail ValueError end
  | HPick i => match py_pick i l with Some d => Ok [d] | None => Fail IndexError end
  | HPickle | HCopy | HDeepcopy => Ok l
  | HKeep m => Ok (keep_mask m l)
  end.

Fixpoint sel_hops {A} (ops : list hop) (l : list A) : res (list A) :=
  match ops with
  | [] => Ok l
  | op :: r => bind (sel_hop op l) (sel_hops r)
  end.

Section Spec.
  Variables R Name : Type.
  Variable neqb : Name -> Name -> bool.

  Definition nonempty {A} (l : list A) : bool := match l with [] => false | _ => true end.

  (* sp = the selected parts of the full read *)
  Definition spec_out (cols pcols index : list Name) (sp : list (list R)) (r : rd Name) : res (out R Name) :=
    let hm := mk_handle sp cols pcols index in
    match r with
    | RToPandas o =>
      bind (out_columns neqb hm o) (fun ci => Ok (OFrames [mk_frame (fst ci) (snd ci) (map Some (concat sp))]))
    | RIter o =>
      match sp with
      | [] => Ok (OFrames [])
      | _ => bind (out_columns neqb hm o) (fun ci =>
               Ok (OFrames (map (fun p => mk_frame (fst ci) (snd ci) (map Some p))
                                (filter (fun p => nonempty p && nonempty (fst ci)) sp))))
      end
    | RHead n o =>
      bind (out_columns neqb hm o) (fun ci => Ok (OFrames [mk_frame (fst ci) (snd ci) (firstn n (map Some (concat sp)))]))
    | RCount => Ok (ONat (length (concat sp)))
    | RLen => Ok (ONat (length sp))
    end.

  Definition spec_run (cols pcols index : list Name) (parts : list (list R)) (ops : list hop) (r : rd Name)
    : res (out R Name) :=
    bind (sel_hops ops parts) (fun sp => spec_out cols pcols index sp r).
End Spec.

Arguments spec_out {R Name}. Arguments spec_run {R Name}.
