(* Impl model of the read side of fastparquet.api.ParquetFile (property C06):
     to_pandas            the row-group loop writing into pre-allocated views (`start += thislen`),
                          column / index selection (`_get_index`, `_pre_allocate`, OrderedDict de-duplication)
     __getitem__          Python list slicing / integer picking of `row_groups`
     iter_row_groups      `i = self.row_groups.index(rg); df = self[i].to_pandas(); if not df.empty: yield df`
     head                 prefix-sum loop over the row groups, `self[:i+1].to_pandas().head(nrows)`
     count, __len__, info
     pickle / copy / deepcopy of a handle (state = the row-group list; pickling goes through the
                          thrift serialiser, a section variable with its round-trip hypothesis in the proofs)

   What is NOT modelled: core.read_row_group (decoding of a column chunk) - it is the section variable
   `rows`: "what reading the chunks this descriptor points to delivers".  A row is an abstract value
   (the harness uses the row id); a cell is determined by (row, column name).                        *)
From Coq Require Import List ZArith Arith Bool.
Import ListNotations.

(* ------------------------------------------------------------------------------------------
   Python sequence indexing, transcribed from CPython (Objects/sliceobject.c: PySlice_Unpack,
   PySlice_AdjustIndices; Objects/listobject.c: list_subscript).                              *)

Record pyslice := mk_slice { s_start : option Z; s_stop : option Z; s_step : option Z }.

Open Scope Z_scope.

(* PySlice_AdjustIndices, the treatment of one end point *)
Definition adjust_endpoint (len step v : Z) : Z :=
  if v <? 0 then
    let v' := v + len in
    if v' <? 0 then (if step <? 0 then -1 else 0) else v'
  else if v >=? len then (if step <? 0 then len - 1 else len)
  else v.

(* returns (start, step, slicelength); None = ValueError("slice step cannot be zero") *)
Definition slice_adjust (len : Z) (s : pyslice) : option (Z * Z * Z) :=
  let step := match s_step s with None => 1 | Some k => k end in
  if step =? 0 then None else
  let start := match s_start s with
               | None => if step <? 0 then len - 1 else 0      (* PY_SSIZE_T_MAX / 0 after adjustment *)
               | Some v => adjust_endpoint len step v
               end in
  let stop := match s_stop s with
              | None => if step <? 0 then -1 else len           (* PY_SSIZE_T_MIN / MAX after adjustment *)
              | Some v => adjust_endpoint len step v
              end in
  let n := if step <? 0
           then (if stop <? start then (start - stop - 1) / (- step) + 1 else 0)
           else (if start <? stop then (stop - start - 1) / step + 1 else 0) in
  Some (start, step, n).

Close Scope Z_scope.

(* the positions list_subscript copies: start + i*step for i < slicelength *)
Definition slice_indices (len : nat) (s : pyslice) : option (list nat) :=
  match slice_adjust (Z.of_nat len) s with
  | None => None
  | Some (start, step, n) =>
    Some (map (fun i => Z.to_nat (start + Z.of_nat i * step)%Z) (seq 0 (Z.to_nat n)))
  end.

Definition select {A} (l : list A) (idx : list nat) : list A :=
  flat_map (fun i => match nth_error l i with Some x => [x] | None => [] end) idx.

(* row-group level filters: `filter_row_groups` keeps some of the handle's row groups; the decision for each of them, in order *)
Fixpoint keep_mask {A} (m : list bool) (l : list A) : list A :=
  match m, l with
  | b :: m', x :: l' => if b then x :: keep_mask m' l' else keep_mask m' l'
  | _, _ => []
  end.

Definition py_slice {A} (s : pyslice) (l : list A) : option (list A) :=
  option_map (select l) (slice_indices (length l) s).

(* l[i] for an integer i; None = IndexError *)
Definition py_pick {A} (i : Z) (l : list A) : option A :=
  let len := Z.of_nat (length l) in
  let j := if (i <? 0)%Z then (i + len)%Z else i in
  if (j <? 0)%Z || (len <=? j)%Z then None else nth_error l (Z.to_nat j).

(* ------------------------------------------------------------------------------------------ *)

Inductive err := IndexError | ValueError | ShapeError | PickleError | UnboundLocalError.
Inductive res (A : Type) := Ok (a : A) | Fail (e : err).
Arguments Ok {A}. Arguments Fail {A}.
Definition bind {A B} (r : res A) (f : A -> res B) : res B :=
  match r with Ok a => f a | Fail e => Fail e end.

Fixpoint mapM {A B} (f : A -> res B) (l : list A) : res (list B) :=
  match l with
  | [] => Ok []
  | x :: r => bind (f x) (fun y => bind (mapM f r) (fun ys => Ok (y :: ys)))
  end.

Definition sum (l : list nat) : nat := fold_right Nat.add 0 l.

Section Read.
  Variables D R Name B : Type.
  Variable deqb : D -> D -> bool.        (* ThriftObject.__eq__ on row-group descriptors (structural) *)
  Variable neqb : Name -> Name -> bool.  (* column names *)
  Variable rows : D -> list R.           (* what core.read_row_group delivers for this descriptor's chunks *)
  Variable nrows : D -> nat.             (* rg.num_rows, the count REPORTED by the metadata *)
  Variable ser : list D -> B.            (* bytes(fmd.to_bytes())   -- ThriftObject.__reduce_ex__ *)
  Variable deser : B -> option (list D). (* from_buffer *)

  (* ---------------- the output views and the row-group loop of to_pandas -------------------- *)

  (* views[start:start+thislen] handed to read_row_group_file, which fills it with the decoded
     rows; numpy refuses an assignment whose length differs from the view's (ShapeError).  *)
  Definition assign_slice (start len : nat) (xs : list R) (out : list (option R)) : option (list (option R)) :=
    if (start + len <=? length out) && (length xs =? len)
    then Some (firstn start out ++ map Some xs ++ skipn (start + len) out)
    else None.

  (* for rg in rgs: parts = views[start:start+thislen]; read(rg, assign=parts); start += thislen *)
  Fixpoint fill (rgs : list D) (start : nat) (out : list (option R)) : option (list (option R)) :=
    match rgs with
    | [] => Some out
    | rg :: rest =>
      match assign_slice start (nrows rg) (rows rg) out with
      | Some out' => fill rest (start + nrows rg) out'
      | None => None
      end
    end.

  (* size = sum(rg.num_rows for rg in rgs); df, views = pre_allocate(size, ...); loop *)
  Definition read_rows (rgs : list D) : option (list (option R)) :=
    fill rgs 0 (repeat None (sum (map nrows rgs))).

  (* ---------------- handles, column and index selection ------------------------------------ *)

  Record handle := mk_handle {
    h_rgs : list D;          (* self.row_groups *)
    h_cols : list Name;      (* columns stored in the files (self.columns), in schema order *)
    h_pcols : list Name;     (* partition columns encoded in the paths of the row groups *)
    h_index : list Name      (* non-range index columns named by the pandas metadata *)
  }.

  Definition with_rgs (h : handle) (l : list D) : handle :=
    mk_handle l (h_cols h) (h_pcols h) (h_index h).

  (* _read_partitions: self.cats is derived from the paths of the CURRENT row groups *)
  Definition cats_of (h : handle) : list Name :=
    match h_rgs h with [] => [] | _ => h_pcols h end.

  Definition mem (n : Name) (l : list Name) : bool := existsb (neqb n) l.

  (* OrderedDict(zip(cols, ...)): a repeated key keeps its first position *)
  Fixpoint dedup (l : list Name) : list Name :=
    match l with
    | [] => []
    | x :: r => x :: filter (fun y => negb (neqb x y)) (dedup r)
    end.

  Inductive idxopt := IdxDefault | IdxFalse | IdxNames (l : list Name).
  Record ropts := mk_ropts { o_cols : option (list Name); o_index : idxopt }.

  (* to_pandas lines 738-745 + _pre_allocate: (data columns in output order, index names).
     `keep` = the pinned tree, where a partition column chosen as index was ALSO appended to the data
     columns (and the index never filled); the repaired tree appends only those not in the index. *)
  Definition out_columns_gen (keep : bool) (h : handle) (o : ropts) : res (list Name * list Name) :=
    let cats := cats_of h in
    let all := h_cols h ++ cats in
    let index := match o_index o with IdxDefault => h_index h | IdxFalse => [] | IdxNames l => l end in
    let columns0 := match o_cols o with Some c => c | None => all end in
    let columns := columns0 ++ filter (fun i => negb (mem i columns0)) index in
    if forallb (fun c => mem c all) columns then
      let cols := filter (fun c => negb (mem c index)) columns in
      let cs := filter (fun c => mem c columns) cats in                           (* pre_allocate: cats restricted to the request *)
      let cs_cols := if keep then cs else filter (fun c => negb (mem c index)) cs in   (* _pre_allocate *)
      Ok (dedup (cols ++ cs_cols), index)
    else Fail ValueError.
  Definition out_columns := out_columns_gen false.
  Definition out_columns_pinned := out_columns_gen true.

  Record frame := mk_frame { f_cols : list Name; f_index : list Name; f_rows : list (option R) }.

  Definition to_pandas (h : handle) (o : ropts) : res frame :=
    bind (out_columns h o) (fun ci =>
      match read_rows (h_rgs h) with
      | Some rs => Ok (mk_frame (fst ci) (snd ci) rs)
      | None => Fail ShapeError
      end).

  (* ---------------- __getitem__ ------------------------------------------------------------- *)

  Definition getitem_slice (h : handle) (s : pyslice) : res handle :=
    match py_slice s (h_rgs h) with Some l => Ok (with_rgs h l) | None => Fail ValueError end.

  Definition getitem_pick (h : handle) (i : Z) : res handle :=
    match py_pick i (h_rgs h) with Some d => Ok (with_rgs h [d]) | None => Fail IndexError end.

  (* ---------------- iter_row_groups ---------------------------------------------------------- *)

  (* list.index(x): first position holding an element EQUAL to x *)
  Fixpoint index_of (d : D) (l : list D) : option nat :=
    match l with
    | [] => None
    | d' :: r => if deqb d' d then Some O else option_map S (index_of d r)
    end.

  (* DataFrame.empty: any axis of length 0 *)
  Definition frame_empty (f : frame) : bool :=
    match f_rows f, f_cols f with [], _ => true | _, [] => true | _, _ => false end.

  Definition iter_row_groups (h : handle) (o : ropts) : res (list frame) :=
    bind (mapM (fun rg =>
                  match index_of rg (h_rgs h) with
                  | None => Fail ValueError
                  | Some i => bind (getitem_pick h (Z.of_nat i)) (fun h' => to_pandas h' o)
                  end) (h_rgs h))
         (fun fs => Ok (filter (fun f => negb (frame_empty f)) fs)).

  (* ---------------- head ---------------------------------------------------------------------- *)

  (* total_rows = 0
     for i, rg in enumerate(self.row_groups):
         total_rows += rg.num_rows
         if total_rows >= nrows: break
     -> the value of i afterwards; `last` is the value i holds when the loop body never ran
        (None = unbound: the pinned tree; Some (-1) = the repaired tree)                     *)
  Fixpoint head_loop (rgs : list D) (i : nat) (total n : nat) (last : option Z) : option Z :=
    match rgs with
    | [] => last
    | rg :: rest =>
      let total' := total + nrows rg in
      if n <=? total' then Some (Z.of_nat i)
      else head_loop rest (S i) total' n (Some (Z.of_nat i))
    end.

  Definition frame_head (n : nat) (f : frame) : frame :=       (* DataFrame.head(n), n >= 0 *)
    mk_frame (f_cols f) (f_index f) (firstn n (f_rows f)).

  Definition head_gen (init : option Z) (h : handle) (n : nat) (o : ropts) : res frame :=
    match head_loop (h_rgs h) 0 0 n init with
    | None => Fail UnboundLocalError
    | Some i =>
      bind (getitem_slice h (mk_slice None (Some (i + 1)%Z) None)) (fun h' =>
      bind (to_pandas h' o) (fun f => Ok (frame_head n f)))
    end.

  Definition head := head_gen (Some (-1)%Z).       (* repaired: `i = -1` before the loop *)
  Definition head_pinned := head_gen None.         (* pinned tree: i unbound when there is no row group *)

  (* ---------------- counts -------------------------------------------------------------------- *)

  Definition count (h : handle) : nat := sum (map nrows (h_rgs h)).     (* count(), info['rows'] *)
  Definition len (h : handle) : nat := length (h_rgs h).                (* __len__, info['row_groups'] *)

  (* ---------------- pickle / copy ------------------------------------------------------------- *)

  Definition pickle (h : handle) : res handle :=
    match deser (ser (h_rgs h)) with Some l => Ok (with_rgs h l) | None => Fail PickleError end.

  (* ---------------- access programs ----------------------------------------------------------- *)

  (* HKeep m: the reads `to_pandas / iter_row_groups / count (filters=F)` work on the row groups filter_row_groups keeps
     (m = its decision per row group of the handle); what the decision must be is C05's subject *)
  Inductive hop := HSlice (s : pyslice) | HPick (i : Z) | HPickle | HCopy | HDeepcopy | HKeep (m : list bool).
  Inductive rd := RToPandas (o : ropts) | RIter (o : ropts) | RHead (n : nat) (o : ropts) | RCount | RLen.
  Inductive out := OFrames (l : list frame) | ONat (n : nat).

  Definition apply_hop (h : handle) (op : hop) : res handle :=
    match op with
    | HSlice s => getitem_slice h s
    | HPick i => getitem_pick h i
    | HPickle => pickle h
    | HCopy => Ok h            (* copy.copy: new object, same fmd *)
    | HDeepcopy => Ok h        (* copy.deepcopy: structurally equal fmd *)
    | HKeep m => Ok (with_rgs h (keep_mask m (h_rgs h)))
    end.

  Fixpoint apply_hops (h : handle) (ops : list hop) : res handle :=
    match ops with
    | [] => Ok h
    | op :: r => bind (apply_hop h op) (fun h' => apply_hops h' r)
    end.

  Definition run_rd (h : handle) (r : rd) : res out :=
    match r with
    | RToPandas o => bind (to_pandas h o) (fun f => Ok (OFrames [f]))
    | RIter o => bind (iter_row_groups h o) (fun fs => Ok (OFrames fs))
    | RHead n o => bind (head h n o) (fun f => Ok (OFrames [f]))
    | RCount => Ok (ONat (count h))
    | RLen => Ok (ONat (len h))
    end.

  Definition run_prog (h : handle) (ops : list hop) (r : rd) : res out :=
    bind (apply_hops h ops) (fun h' => run_rd h' r).

End Read.

Arguments mk_handle {D Name}. Arguments h_rgs {D Name}. Arguments h_cols {D Name}.
Arguments h_pcols {D Name}. Arguments h_index {D Name}. Arguments with_rgs {D Name}.
Arguments mk_frame {R Name}. Arguments f_cols {R Name}. Arguments f_index {R Name}. Arguments f_rows {R Name}.
Arguments IdxDefault {Name}. Arguments IdxFalse {Name}. Arguments IdxNames {Name}.
Arguments mk_ropts {Name}. Arguments o_cols {Name}. Arguments o_index {Name}.
Arguments OFrames {R Name}. Arguments ONat {R Name}.
Arguments RToPandas {Name}. Arguments RIter {Name}. Arguments RHead {Name}. Arguments RCount {Name}. Arguments RLen {Name}.
Arguments assign_slice {R}. Arguments fill {D R}. Arguments read_rows {D R}.
Arguments cats_of {D Name}. Arguments mem {Name}. Arguments dedup {Name}. Arguments out_columns_gen {D Name}. Arguments out_columns {D Name}. Arguments out_columns_pinned {D Name}.
Arguments to_pandas {D R Name}. Arguments getitem_slice {D Name}. Arguments getitem_pick {D Name}.
Arguments index_of {D}. Arguments frame_empty {R Name}. Arguments iter_row_groups {D R Name}.
Arguments head_loop {D}. Arguments frame_head {R Name}. Arguments head_gen {D R Name}.
Arguments head {D R Name}. Arguments head_pinned {D R Name}. Arguments count {D Name}. Arguments len {D Name}.
Arguments pickle {D Name B}. Arguments apply_hop {D Name B}. Arguments apply_hops {D Name B}.
Arguments run_rd {D R Name}. Arguments run_prog {D R Name B}.
