(* Dataset/CatGuard.v — decision procedure for "every row of a categorical column read across row groups / files
   shows its own label" on the model of Dataset/CatRead.v (the reader uses the dictionary it read last for all codes).
   Proved exact in Proofs/CatReadMerge.v (`read_cat_guard_b`); evaluated by the C14 check on the dictionaries and
   codes of the files of every generated dataset (pqref command cat_guard).                                        *)
From Coq Require Import NArith Arith List Bool.
From Pq Require Import Dataset.CatRead.
Import ListNotations.

Definition own_labels (ch : chunk) : list label := match fst ch with Some d => d | None => [] end.

(* the same as a decision procedure (what the harness evaluates on the dictionaries of the files) *)
Definition opt_label_eqb (a b : option label) : bool :=
  match a, b with Some x, Some y => N.eqb x y | None, None => true | _, _ => false end.
Definition codes_agree_b (final : list label) (ch : chunk) : bool :=
  forallb (fun oc => match oc with
                     | None => true
                     | Some c => opt_label_eqb (nth_error (own_labels ch) c) (nth_error final c)
                     end) (snd ch).
Definition guard_b (init : list label) (chunks : list chunk) : bool :=
  forallb (codes_agree_b (final_labels init chunks)) chunks.

