(* Impl model of util.metadata_from_many (property C14): both code paths.

   A file is known by what api.ParquetFile(fn) shows of it: whether its file_scheme is
   'simple'/'empty' (a single file) or not (a dataset with its own relative chunk paths), its
   schema, and its row groups (number of rows, file_path of the first column chunk, the data).

   legacy path (verify_schema, or no fsspec filesystem, or fewer than 3 files, or the first file is
   a dataset):  every row group of every file, in order, re-pathed to  rel_i  (single file) or
   rel_i + "/" + old path (dataset); optional schema comparison; schema of the first file.
   fast path: only columns[0].file_path is set, to  fn[len(basepath):].lstrip("/")  computed on
   the ORIGINAL strings; the longest schema wins; no schema comparison.                        *)
From Coq Require Import NArith ZArith Bool Ascii String Arith List.
From Pq Require Import Base.Bytes Impl.Partition Impl.Paths.
Import ListNotations.

Section Merge.
  Variable S : Type.                       (* schema *)
  Variable seqb : S -> S -> bool.          (* pf._schema != pfs[0]._schema *)
  Variable slen : S -> nat.                (* len(fmd.schema) *)
  Variable X : Type.                       (* the data of a row group *)

  Record rgroup := { rg_rows : N; rg_path : option str; rg_data : X }.
  Record pfile := { pf_simple : bool; pf_schema : S; pf_rgs : list rgroup }.

  Inductive mres :=
  | MOk (basepath : str) (schema : S) (rgs : list rgroup) (num_rows : N)
  | MValueError            (* 'Incompatible schemas' *)
  | MError.                (* IndexError (empty list), AssertionError (root), AttributeError (no path) *)

  Definition set_path (p : str) (rg : rgroup) : rgroup :=
    {| rg_rows := rg_rows rg; rg_path := Some p; rg_data := rg_data rg |}.

  (* legacy: one file's row groups re-pathed; None = a dataset row group without file_path *)
  Definition repath (pf : pfile) (fn : str) : option (list rgroup) :=
    if pf_simple pf then Some (map (set_path fn) (pf_rgs pf))
    else all_some (map (fun rg => match rg_path rg with
                                  | Some old => Some (set_path (fn ++ c_slash :: old) rg)
                                  | None => None
                                  end) (pf_rgs pf)).

  Definition total_rows (rgs : list rgroup) : N := fold_right (fun rg a => (rg_rows rg + a)%N) 0%N rgs.

  Definition lstrip_slash (s : str) : str := drop_while (Ascii.eqb c_slash) s.
  (* fast: f[len(basepath):].lstrip("/") *)
  Definition fast_rel (basepath : str) (f : str) : str := lstrip_slash (skipn (length basepath) f).

  Definition legacy_merge (verify : bool) (basepath : str) (rel : list str) (pfs : list pfile) : mres :=
    match pfs with
    | [] => MError
    | pf0 :: rest =>
      if verify && negb (forallb (fun pf => seqb (pf_schema pf) (pf_schema pf0)) rest) then MValueError else
      match all_some (map (fun pr => repath (fst pr) (snd pr)) (combine pfs rel)) with
      | Some l => let rgs := concat l in MOk basepath (pf_schema pf0) rgs (total_rows rgs)
      | None => MError
      end
    end.

  Definition fast_merge (basepath : str) (file_list : list str) (pfs : list pfile) : mres :=
    match pfs with
    | [] => MError
    | pf0 :: rest =>
      let schema := fold_left (fun s pf => if Nat.ltb (slen s) (slen (pf_schema pf)) then pf_schema pf else s) rest (pf_schema pf0) in
      let rgs := concat (map (fun pr => map (set_path (fast_rel basepath (snd pr))) (pf_rgs (fst pr))) (combine pfs file_list)) in
      MOk basepath schema rgs (total_rows rgs)
    end.

  (* which path runs: verify_schema or fs is None or len(file_list) < 3 or the first file is a dataset *)
  Definition is_legacy (verify fs : bool) (pfs : list pfile) : bool :=
    verify || negb fs || Nat.ltb (length pfs) 3 || match pfs with pf0 :: _ => negb (pf_simple pf0) | [] => true end.

  Definition metadata_from_many (file_list : list str) (pfs : list pfile) (verify fs : bool) (root : option str) : mres :=
    match analyse_paths file_list root with
    | AOk basepath rel =>
      if is_legacy verify fs pfs then legacy_merge verify basepath rel pfs
      else fast_merge basepath file_list pfs
    | _ => MError
    end.
End Merge.
