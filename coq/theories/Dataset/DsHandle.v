(* Dataset/DsHandle.v — operations made through ONE long-lived ParquetFile handle (properties C09 / C07, wave 3).

   A handle carries its OWN copy of the summary (pf.fmd: row-group list + num_rows); `write_row_groups` / `remove_row_groups`
   compute from the HANDLE's summary (part numbers via find_max_part of the handle's row groups, the list that is sorted,
   renumbered and written to _metadata) and from the directory.  The disk-level model (Edit.v `step`) reads the summary
   from disk for every operation (a fresh ParquetFile per step).  The handle-level model is a refinement of it exactly when
   the handle's summary is kept equal to what it wrote - `step_h` below (the code as repaired); two faulty rules are
   modelled for the refutations:
     * `step_h_stale`   - the operation works on a COPY of the handle's metadata (the handle never learns what it wrote);
     * `fail_keep`      - a failed write_row_groups leaves the row groups it had finished in the handle's metadata
                          (write_multi appends them in place; pinned behaviour before repo fix 8453df6).               *)
From Coq Require Import NArith ZArith List Bool Arith.
From Pq Require Import Base.Bytes Dataset.FS Dataset.FsPaths Dataset.Edit.
Import ListNotations.
Local Open Scope N_scope.

Record handle := { h_sum : list entry; h_num : Z }.

Definition open_h (s : state) : handle := {| h_sum := st_sum s; h_num := st_num s |}.

(* what the operation sees: the directory and schema of the disk, the row groups of the HANDLE *)
Definition view (s : state) (h : handle) : state :=
  {| st_dir := st_dir s; st_sum := h_sum h; st_num := h_num h; st_part := st_part s; st_sch := st_sch s |}.

Section H.
  Variable sortp : state -> option state.

  (* the repaired code: the handle's metadata is updated in place by what it writes *)
  Definition step_h (sh : state * handle) (o : op) : option (state * handle) :=
    match step sortp (view (fst sh) (snd sh)) o with
    | Some s' => Some (s', open_h s')
    | None => None
    end.

  (* faulty: the operation ran on a copy - the disk gets the new summary, the handle keeps its old one *)
  Definition step_h_stale (sh : state * handle) (o : op) : option (state * handle) :=
    match step sortp (view (fst sh) (snd sh)) o with
    | Some s' => Some (s', snd sh)
    | None => None
    end.

  Definition step_h' (f : state * handle -> op -> option (state * handle)) (sh : state * handle) (o : op) : state * handle :=
    match f sh o with Some x => x | None => sh end.
  Definition run_h (f : state * handle -> op -> option (state * handle)) (ops : list op) (sh : state * handle) : state * handle :=
    fold_left (step_h' f) ops sh.

  (* a FAILED write_row_groups through the handle: `done` row groups were written completely (part files exist, unreferenced)
     before the failure; _metadata is not rewritten.  keep = true: they stay in the handle's metadata (pinned);
     keep = false: the handle is put back as it was (fix 8453df6) *)
  Definition fail_write (keep : bool) (sh : state * handle) (done : list rgroup) : state * handle :=
    let '(s, h) := sh in
    match find_max_part (map fst (h_sum h)) with
    | None => sh
    | Some off =>
      let es := new_entries off done in
      let s1 := {| st_dir := put_files (st_sch s) es (st_dir s); st_sum := st_sum s; st_num := st_num s;
                   st_part := st_part s; st_sch := st_sch s |} in
      (s1, if keep then {| h_sum := h_sum h ++ es; h_num := h_num h |} else h)
    end.
End H.

Definition coherent (sh : state * handle) : Prop := snd sh = open_h (fst sh).

(* ---- a failed operation of ANY kind that writes new data, at ANY failure position (wave 4) ----
   write_row_groups / append / overwrite write their new part files first; the failure comes after `j` of them were created
   (the last one possibly torn: `torn` replaces its content).  Nothing else has happened: the summary is rewritten and old
   files are removed / renamed only after all new files exist.  The handle is put back (repo fixes 8453df6, 632495d's twin
   for single files): its state is the state before the operation.                                                       *)
Definition op_rgs (o : op) : option (list rgroup) :=
  match o with
  | OAppend r | OOverwrite r | OWriteRgs r _ _ => Some r
  | OWrite _ _ | ORemove _ _ => None
  end.

Definition written_prefix (es : list entry) (j : nat) (torn : option rows) : list entry :=
  match torn, rev (firstn j es) with
  | Some t, last :: before => rev ((fst last, t) :: before)
  | _, _ => firstn j es
  end.

Definition fail_op (sh : state * handle) (o : op) (j : nat) (torn : option rows) : state * handle :=
  let '(s, h) := sh in
  match op_rgs o, find_max_part (map fst (h_sum h)) with
  | Some rgs, Some off =>
    ({| st_dir := put_files (st_sch s) (written_prefix (new_entries off rgs) j torn) (st_dir s);
        st_sum := st_sum s; st_num := st_num s; st_part := st_part s; st_sch := st_sch s |}, h)
  | _, _ => sh
  end.
