(* Dataset/Reject.v — rejected operations (property C18).

   Impl model of what fastparquet does, in the code's own order, when it is asked to change (or
   read) an existing dataset and refuses:

     writer.write            file_scheme name check; ParquetFile(...) (reads only); append scheme check;
                             append partitioning check; [plain write] check_column_names, make_metadata
                             (duplicate names, find_type per column)
     api.write_row_groups    column-set check, then write_simple(append=True) / write_multi(append=True)
     writer.overwrite        scheme check, "partitions defined" check, data.loc[:, partitions],
                             write_row_groups(write_fmd=False), remove_row_groups(...)
     api.to_pandas           check_column_names for the selection; filter columns
     writer.write_simple     (append) seek to the old footer, REMEMBER IT (fix a3be3a1), write the new row
                             groups over it; on an exception write the old footer back, truncate, re-raise
     writer.write_multi      part files one after the other (mkdirs, open 'wb', writes, close); a failure
                             inside make_row_group leaves the `with` blocks, i.e. the handle is closed

   An operation is a program: a list of checks and effects executed in order; the first failing
   check raises.  Late failures (conversion/encoding/compression errors inside make_row_group)
   are a failure position inside the effect stage.                                            *)
From Coq Require Import NArith List Bool Arith.
From Pq Require Import Base.Bytes Dataset.FS Dataset.FsPaths Dataset.Crash.
Import ListNotations.

(* ------------------------------------------------------------------------------------------ *)
(* 1. programs                                                                                *)
(* ------------------------------------------------------------------------------------------ *)
Inductive stmt :=
| Check (ok : bool)                       (* `if not ok: raise ...` *)
| Eff (cs : list call) (raised : bool).   (* file-system calls; raised = an exception left this stage *)

(* (calls issued, did the operation end in an exception) *)
Fixpoint exec (p : list stmt) : list call * bool :=
  match p with
  | [] => ([], false)
  | Check true :: r => exec r
  | Check false :: _ => ([], true)
  | Eff cs true :: _ => (cs, true)
  | Eff cs false :: r => let '(t, b) := exec r in (cs ++ t, b)
  end.

(* ------------------------------------------------------------------------------------------ *)
(* 2. what validation looks at                                                                *)
(* ------------------------------------------------------------------------------------------ *)
Inductive scheme := SSimple | SHive | SDrill | SFlat | SEmpty | SMixed.
Definition scheme_eqb (a b : scheme) : bool :=
  match a, b with
  | SSimple, SSimple | SHive, SHive | SDrill, SDrill | SFlat, SFlat | SEmpty, SEmpty | SMixed, SMixed => true
  | _, _ => false
  end.

(* the dataset as the freshly opened ParquetFile sees it *)
Record dset := {
  d_scheme : scheme;          (* pf.file_scheme *)
  d_is_md : bool;             (* pf.fn ends in "_metadata" *)
  d_cats : list bytes;        (* list(pf.cats): partition columns, in order *)
  d_cols : list bytes;        (* pf.columns *)
  d_refs : list path          (* files referenced by the row groups *)
}.

(* a column label of the new frame: text, or something else (an int, a tuple ...) *)
Inductive cname := CStr (s : bytes) | COther (tag : N).
Definition cname_eqb (a b : cname) : bool :=
  match a, b with
  | CStr x, CStr y => bytes_eqb x y
  | COther x, COther y => N.eqb x y
  | _, _ => false
  end.

Record frame := {
  f_cols : list cname;        (* data.columns, in order *)
  f_typed : list bool         (* per column: writer.find_type accepts its dtype *)
}.

Definition s_simple : bytes := [115; 105; 109; 112; 108; 101].
Definition s_hive : bytes := [104; 105; 118; 101].
Definition s_drill : bytes := [100; 114; 105; 108; 108].

Inductive request :=
| Append (scheme_req : bytes) (partition_on : list bytes) (fr : frame)
| Overwrite (fr : frame)
| PlainWrite (scheme_req : bytes) (partition_on : list bytes) (has_nulls : option (list bytes)) (fr : frame)
| Read (columns : list bytes) (filter_cols : list bytes)
| Merge (schemas_same : bool).          (* writer.merge(file_list): ParquetFile(file_list, verify_schema=True), then the summary files *)

Definition scheme_name_ok (s : bytes) : bool := bytes_eqb s s_simple || bytes_eqb s s_hive || bytes_eqb s s_drill.

Definition count_c (c : cname) (l : list cname) : nat := length (filter (cname_eqb c) l).
Definition is_str (c : cname) : bool := match c with CStr _ => true | COther _ => false end.

(* sorted(self.columns + partition_on) == sorted(data.columns): equal as multisets (a label that
   is not text cannot be in the existing file; sorting a mix of text and non-text raises TypeError -
   an exception before any file call either way) *)
Definition cols_match (have : list bytes) (new : list cname) : bool :=
  let h := map CStr have in
  forallb is_str new && forallb (fun c => Nat.eqb (count_c c h) (count_c c new)) (h ++ new).

Definition mem_b (x : bytes) (l : list bytes) : bool := existsb (bytes_eqb x) l.
Definition subset_b (a b : list bytes) : bool := forallb (fun x => mem_b x b) a.
Fixpoint nodup_c (l : list cname) : bool :=
  match l with [] => true | c :: r => negb (existsb (cname_eqb c) r) && nodup_c r end.
Definition strs (l : list cname) : list bytes :=
  flat_map (fun c => match c with CStr s => [s] | COther _ => [] end) l.

(* which write path api.write_row_groups takes *)
Definition goes_simple (d : dset) : bool :=
  match d_scheme d with SSimple => true | SEmpty => negb (d_is_md d) | _ => false end.

(* ---- the refusals listed by the property, as a declarative predicate (order-free) --------- *)
Definition rejected (rq : request) (d : dset) : bool :=
  match rq with
  | Append sreq pon fr =>
      negb (scheme_name_ok sreq)
      || (if bytes_eqb sreq s_simple
          then negb (scheme_eqb (d_scheme d) SSimple || scheme_eqb (d_scheme d) SEmpty)
          else negb (scheme_eqb (d_scheme d) SHive || scheme_eqb (d_scheme d) SEmpty || scheme_eqb (d_scheme d) SFlat)
               || negb (list_eqb bytes_eqb pon (d_cats d)))
      || negb (cols_match (d_cols d ++ d_cats d) (f_cols fr))
  | Overwrite fr =>
      goes_simple d
      || match d_cats d with [] => true | _ => false end
      || negb (subset_b (d_cats d) (strs (f_cols fr)))
      || negb (cols_match (d_cols d ++ d_cats d) (f_cols fr))
  | PlainWrite sreq pon hn fr =>
      negb (scheme_name_ok sreq)
      || negb (subset_b pon (strs (f_cols fr)))
      || match hn with Some l => negb (subset_b l (strs (f_cols fr))) | None => false end
      || negb (nodup_c (f_cols fr))
      || negb (forallb is_str (f_cols fr))
      || negb (forallb (fun b => b) (f_typed fr))
  | Read cols fcols =>
      negb (subset_b cols (d_cols d ++ d_cats d)) || negb (subset_b fcols (d_cols d ++ d_cats d))
  | Merge same => negb same
  end.

(* ---- the operations as programs, in the order of the code ----------------------------------
   `eff` is the effect stage that follows validation (section 3 builds it); for Overwrite it is the
   write_multi stage, `eff2` the removal / renaming / summary rewrite that follows it.          *)
Definition program (rq : request) (d : dset) (eff eff2 : list call * bool) : list stmt :=
  match rq with
  | Append sreq pon fr =>
      [ Check (scheme_name_ok sreq) ] ++                                                  (* writer.write 1269 *)
      (if bytes_eqb sreq s_simple
       then [ Check (scheme_eqb (d_scheme d) SSimple || scheme_eqb (d_scheme d) SEmpty) ]
       else [ Check (scheme_eqb (d_scheme d) SHive || scheme_eqb (d_scheme d) SEmpty || scheme_eqb (d_scheme d) SFlat);
              Check (list_eqb bytes_eqb pon (d_cats d)) ]) ++
      [ Check (cols_match (d_cols d ++ d_cats d) (f_cols fr));                              (* api.write_row_groups *)
        Eff (fst eff) (snd eff) ]
  | Overwrite fr =>
      [ Check (negb (goes_simple d));
        Check (match d_cats d with [] => false | _ => true end);
        Check (subset_b (d_cats d) (strs (f_cols fr)));                                     (* data.loc[:, defined_partitions] *)
        Check (cols_match (d_cols d ++ d_cats d) (f_cols fr));
        Eff (fst eff) (snd eff);                                                            (* write_row_groups(write_fmd=False) *)
        Eff (fst eff2) (snd eff2) ]                                                         (* remove_row_groups(sort_pnames, write_fmd) *)
  | PlainWrite sreq pon hn fr =>
      [ Check (scheme_name_ok sreq);
        Check (subset_b pon (strs (f_cols fr)));                                            (* util.check_column_names *)
        Check (match hn with Some l => subset_b l (strs (f_cols fr)) | None => true end);
        Check (nodup_c (f_cols fr));                                                        (* make_metadata *)
        Check (forallb is_str (f_cols fr));                                                 (* get_column_metadata, column by column *)
        Check (forallb (fun b => b) (f_typed fr));                                          (* find_type, column by column (fused) *)
        Eff (fst eff) (snd eff) ]
  | Read cols fcols =>
      [ Check (subset_b cols (d_cols d ++ d_cats d));
        Check (subset_b fcols (d_cols d ++ d_cats d)) ]
  | Merge same =>
      [ Check same;                                                                         (* util.metadata_from_many: 'Incompatible schemas' *)
        Eff (fst eff) (snd eff) ]                                                           (* _write_common_metadata *)
  end.

(* ------------------------------------------------------------------------------------------ *)
(* 3. effect stages with a late failure                                                       *)
(* ------------------------------------------------------------------------------------------ *)
Local Open Scope nat_scope.

(* ---- 3a. write_multi(append=True): one file per (row group, partition value) ---------------
   A file to be written: its directory (relative to the dataset root, [] when not partitioned),
   whether mkdirs is called for it, and the payloads of its successive f.write calls.          *)
Record pfile := { pf_dir : path; pf_mk : bool; pf_writes : list bytes }.

(* row group i of the new data is written to part.(off+i).parquet in each of its directories *)
Fixpoint plan (off : N) (rgs : list (list pfile)) : list (path * pfile) :=
  match rgs with
  | [] => []
  | g :: r => map (fun f => (join (pf_dir f) (part_name off), f)) g ++ plan (off + 1)%N r
  end.

Definition file_calls (e : path * pfile) (k : option nat) : list call :=
  let '(p, f) := e in
  (if pf_mk f then [Mkdir (pf_dir f)] else []) ++
  OpenW p true :: map (Write p) (match k with Some k => firstn k (pf_writes f) | None => pf_writes f end) ++ [Close p].

(* the calls up to a failure after k writes into the r-th file (the handle is closed by `with`) *)
Definition fail_trace (pl : list (path * pfile)) (r k : nat) : list call :=
  flat_map (fun e => file_calls e None) (firstn r pl) ++
  match nth_error pl r with Some e => file_calls e (Some k) | None => [] end.

(* write_multi's i_offset when appending *)
Definition multi_fail (refs : list path) (rgs : list (list pfile)) (r k : nat) : list call * bool :=
  match find_max_part refs with
  | Some off => (fail_trace (plan off rgs) r k, true)
  | None => ([], true)                       (* PART_ID does not match a referenced path: TypeError before any call *)
  end.

Definition no_nl (p : path) : bool := negb (existsb (N.eqb 10%N) p).

(* ---- 3b. write_simple(append=True): positional writes on one file --------------------------
   OS semantics assumed: a write at position pos replaces the bytes there and extends the file when
   it reaches past the end (a gap is zero-filled); truncate(n) cuts or zero-extends to n bytes.   *)
Inductive fop := PWrite (pos : nat) (d : bytes) | PTrunc (n : nat).

Definition pad (n : nat) (f : bytes) : bytes := f ++ repeat 0%N (n - length f).
Definition pwrite (pos : nat) (d f : bytes) : bytes := firstn pos (pad pos f) ++ d ++ skipn (pos + length d) f.
Definition ptrunc (n : nat) (f : bytes) : bytes := firstn n (pad n f).
Definition fstep (f : bytes) (o : fop) : bytes :=
  match o with PWrite pos d => pwrite pos d f | PTrunc n => ptrunc n f end.
Definition run_fops (ops : list fop) (f : bytes) : bytes := fold_left fstep ops f.

(* f.seek(-8, 2); head_size = <I; f.seek(-(head_size+8), 2) : None = the seek raises (no write yet) *)
Definition foot_start (f : bytes) : option nat :=
  let n := length f in
  if Nat.ltb n 8 then None else
  let hs := N.to_nat (le2n (firstn 4%nat (skipn (n - 8)%nat f))) in
  if Nat.ltb n (hs + 8) then None else Some (n - (hs + 8)).

(* successive writes starting at pos *)
Fixpoint seq_writes (pos : nat) (ds : list bytes) : list fop :=
  match ds with [] => [] | d :: r => PWrite pos d :: seq_writes (pos + length d) r end.

(* the repaired code (fix a3be3a1): ds = payloads of the f.write calls of the new row groups and
   footer; fail = Some k: an exception after k of them *)
Definition simple_append_fixed (f : bytes) (ds : list bytes) (fail : option nat) : list fop :=
  match foot_start f with
  | None => []
  | Some p =>
    match fail with
    | None => seq_writes p ds
    | Some k => seq_writes p (firstn k ds) ++ [PWrite p (skipn p f); PTrunc (p + length (skipn p f))]
    end
  end.

(* the pinned code: nothing is put back *)
Definition simple_append_old (f : bytes) (ds : list bytes) (fail : option nat) : list fop :=
  match foot_start f with
  | None => []
  | Some p => seq_writes p (match fail with None => ds | Some k => firstn k ds end)
  end.

(* The relation evaluated on the positional trace recorded from the real failed append
   (DESIGN 4.2): some position p inside the old file such that nothing before p is touched, and the
   last two calls write the old bytes from p back and cut the file at its old length.            *)
Definition op_from (p : nat) (o : fop) : bool :=
  match o with PWrite q _ => Nat.leb p q | PTrunc m => Nat.leb p m end.

Definition check_restoring (f : bytes) (ops : list fop) : bool :=
  match rev ops with
  | [] => true
  | PTrunc n :: PWrite p d :: body =>
      Nat.eqb n (length f) && Nat.leb p (length f) && bytes_eqb d (skipn p f) && forallb (op_from p) body
  | _ => false
  end.
