(* Impl model of the part-file naming of fastparquet (writer.write_multi, writer.find_max_part,
   api.part_ids, api.PART_ID, util.join_path).

     part  = 'part.%i.parquet' % (i + i_offset)
     PART_ID = re.compile(r'.*part.(?P<i>[\d]+).parquet$');  PART_ID.match(path)['i']
     find_max_part(row_groups) = max(part ids of the referenced paths) + 1, or 0 when there are none

   The regular expression is mirrored from the END of the path ('$' anchors it, '.*' is greedy):
   "parquet", one arbitrary character, a run of decimal digits, one arbitrary character, "part".
   '.' does not match a newline, so a path holding a newline never matches (Python: None -> the
   caller raises TypeError) - except ONE trailing newline, before which '$' matches too.
   Not modelled: non-ASCII text ('.' is one character, \d any Unicode decimal digit, on str).                                                                   *)
From Coq Require Import NArith List Bool Arith Decimal DecimalN.
From Pq Require Import Base.Bytes Dataset.FS.
Import ListNotations.
Open Scope N_scope.

Fixpoint uint_bytes (u : uint) : bytes :=
  match u with
  | Nil => []
  | D0 u => 48 :: uint_bytes u | D1 u => 49 :: uint_bytes u | D2 u => 50 :: uint_bytes u
  | D3 u => 51 :: uint_bytes u | D4 u => 52 :: uint_bytes u | D5 u => 53 :: uint_bytes u
  | D6 u => 54 :: uint_bytes u | D7 u => 55 :: uint_bytes u | D8 u => 56 :: uint_bytes u
  | D9 u => 57 :: uint_bytes u
  end.

Definition digit_con (b : N) : option (uint -> uint) :=
  if b =? 48 then Some D0 else if b =? 49 then Some D1 else if b =? 50 then Some D2 else
  if b =? 51 then Some D3 else if b =? 52 then Some D4 else if b =? 53 then Some D5 else
  if b =? 54 then Some D6 else if b =? 55 then Some D7 else if b =? 56 then Some D8 else
  if b =? 57 then Some D9 else None.

Definition is_digit (b : N) : bool := match digit_con b with Some _ => true | None => false end.

Fixpoint bytes_uint (l : bytes) : option uint :=
  match l with
  | [] => Some Nil
  | b :: r => match digit_con b, bytes_uint r with Some d, Some u => Some (d u) | _, _ => None end
  end.

(* '%i' % n  and  int(text) *)
Definition dec (n : N) : bytes := uint_bytes (N.to_uint n).
Definition undec (l : bytes) : option N := option_map N.of_uint (bytes_uint l).

Definition s_part : bytes := [112; 97; 114; 116].                          (* "part" *)
Definition s_parquet : bytes := [112; 97; 114; 113; 117; 101; 116].         (* "parquet" *)
Definition dot : N := 46.

Definition part_name (n : N) : bytes := s_part ++ [dot] ++ dec n ++ [dot] ++ s_parquet.

(* util.join_path for two components: empty components are dropped *)
Definition join (d f : path) : path := match d with [] => f | _ => d ++ [slash] ++ f end.

Fixpoint strip_prefix (a b : bytes) : option bytes :=
  match a, b with
  | [], _ => Some b
  | x :: a', y :: b' => if x =? y then strip_prefix a' b' else None
  | _ :: _, [] => None
  end.

Fixpoint span_digits (l : bytes) : bytes * bytes :=
  match l with
  | b :: r => if is_digit b then let '(d, rest) := span_digits r in (b :: d, rest) else ([], l)
  | [] => ([], [])
  end.

Definition part_id (p : path) : option N :=
  let r := match List.rev p with 10 :: r' => r' | r0 => r0 end in      (* '$' also matches before ONE trailing newline *)
  if existsb (N.eqb 10) r then None else
  match strip_prefix (List.rev s_parquet) r with
  | Some (_ :: r1) =>
    let '(drev, r2) := span_digits r1 in
    if is_prefix (List.rev s_part) r2 && Nat.leb 2 (length drev)
    then undec (List.rev (removelast drev))            (* greedy '.*': the run's first digit plays the '.' after "part" *)
    else match r2 with
         | _ :: r3 => if is_prefix (List.rev s_part) r3 && Nat.leb 1 (length drev) then undec (List.rev drev) else None
         | [] => None
         end
  | _ => None
  end.

(* api.part_ids / writer.find_max_part on the list of referenced paths.
   None = some referenced path does not match (the code raises TypeError before any file call). *)
Fixpoint part_ids (refs : list path) : option (list N) :=
  match refs with
  | [] => Some []
  | p :: r => match part_id p, part_ids r with Some n, Some l => Some (n :: l) | _, _ => None end
  end.

Definition find_max_part (refs : list path) : option N :=
  match part_ids refs with
  | Some [] => Some 0
  | Some (n :: l) => Some (fold_left N.max l n + 1)
  | None => None
  end.

(* ---- repo fix 59b66a8 (wave 4): api.part_ids IGNORES row groups whose file is not named part.<i>.parquet (files written by
   another tool or by hand) instead of raising TypeError; writer.find_max_part therefore numbers new files after the highest id
   among the MATCHING references.  `find_max_part` above (None when some reference does not match) is kept for the models whose
   datasets consist of part.<i>.parquet files only; the two agree there (OpsProofs.skip_agrees). *)
Fixpoint part_ids_skip (refs : list path) : list N :=
  match refs with
  | [] => []
  | p :: r => match part_id p with Some n => n :: part_ids_skip r | None => part_ids_skip r end
  end.

Definition find_max_part_skip (refs : list path) : N :=
  match part_ids_skip refs with
  | [] => 0
  | n :: l => fold_left N.max l n + 1
  end.
