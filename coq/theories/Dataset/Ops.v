(* Dataset/Ops.v — impl model of the multi-file append as the sequence of file-system calls the code
   issues (writer.write_multi with append=True, writer.partition_on_columns, then
   api.ParquetFile._write_common_metadata -> writer.write_common_metadata twice).

     i_offset = find_max_part(fmd.row_groups)              (FsPaths.find_max_part on the references)
     for i, row_group in enumerate(data):
         part = 'part.%i.parquet' % (i + i_offset)
         partition_on:  for every non-empty group (sorted by key):
                            mkdirs(join(dn, path)); open_with(join(dn, path, part), 'wb'); writes; close
         else:          open_with(join(dn, part), 'wb'); writes; close
     open_with(_metadata, 'wb'); writes; close;  open_with(_common_metadata, 'wb'); writes; close

   This deterministic trace is NOT what the theorems of C19/C07 are stated for (they hold for every
   trace in `safe_trace`); it is the witness that the relation is inhabited by what the code does,
   and the subject of `append_is_safe` / `append_complete`.                                       *)
From Coq Require Import NArith List Bool Arith.
From Pq Require Import Base.Bytes Dataset.FS Dataset.FsPaths.
Import ListNotations.

(* one new part file: its directory relative to the root ([] when not partitioned) and the byte
   strings handed to write(), in order *)
Definition part := (path * list bytes)%type.

Definition write_file (p : path) (chunks : list bytes) : list call :=
  OpenW p true :: map (Write p) chunks ++ [Close p].

(* (directory, file path, chunks) of every new file, in the order they are written; row group
   number i of the append (counting from 0) is named part.<off+i>.parquet in every directory *)
Fixpoint new_files (off : N) (rgs : list (list part)) : list (path * path * list bytes) :=
  match rgs with
  | [] => []
  | rg :: r => map (fun pt => (fst pt, join (fst pt) (part_name off), snd pt)) rg ++ new_files (off + 1) r
  end.

Definition block_calls (partitioned : bool) (b : path * path * list bytes) : list call :=
  let '(d, f, cs) := b in (if partitioned then [Mkdir d] else []) ++ write_file f cs.

Definition summary_calls (md cmd : list bytes) : list call :=
  write_file md_name md ++ write_file cmd_name cmd.

Definition append_trace (refs : list path) (partitioned : bool) (rgs : list (list part))
           (md cmd : list bytes) : option (list call) :=
  match find_max_part refs with
  | Some off => Some (concat (map (block_calls partitioned) (new_files off rgs)) ++ summary_calls md cmd)
  | None => None          (* a referenced path does not match PART_ID: TypeError before any call *)
  end.

Definition new_paths (off : N) (rgs : list (list part)) : list path := map (fun b => snd (fst b)) (new_files off rgs).
Definition new_contents (off : N) (rgs : list (list part)) : list bytes := map (fun b => concat (snd b)) (new_files off rgs).

(* directories come from partition values: the model of PART_ID needs them free of newlines *)
Definition good_dir (d : path) : bool := negb (existsb (N.eqb 10) d).
Definition good_dirs (rgs : list (list part)) : bool := forallb (forallb (fun pt => good_dir (fst pt))) rgs.

(* ---- any sequence of multi-file appends: each step's references are the previous ones followed by its new files ---- *)
Definition step_in := (bool * list (list part) * list bytes * list bytes)%type.

Fixpoint run_appends (steps : list step_in) (refs : list path) (s : fs) : option (list path * fs) :=
  match steps with
  | [] => Some (refs, s)
  | (pt, rgs, md, cmd) :: r =>
    match find_max_part refs, append_trace refs pt rgs md cmd with
    | Some off, Some tr => run_appends r (refs ++ new_paths off rgs) (run_trace tr s)
    | _, _ => None
    end
  end.

Fixpoint all_new_contents (steps : list step_in) (refs : list path) : list bytes :=
  match steps with
  | [] => []
  | (pt, rgs, md, cmd) :: r =>
    match find_max_part refs with
    | Some off => new_contents off rgs ++ all_new_contents r (refs ++ new_paths off rgs)
    | None => []
    end
  end.

