(* Dataset/Crash.v — interrupted call traces, the decidable predicate `safe_trace`, and what a
   fresh open of a multi-file dataset depends on (properties C19, C18, C07).                    *)
From Coq Require Import NArith List Bool Arith.
From Pq Require Import Base.Bytes Dataset.FS.
Import ListNotations.

(* what may be left behind by a call that was interrupted / reported a failure *)
Inductive partial : call -> fs -> fs -> Prop :=
| P_none  : forall c s, partial c s s                               (* failed before any effect *)
| P_full  : forall c s, partial c s (step s c)                      (* effect done, failure reported afterwards *)
| P_short : forall p d j s, partial (Write p d) s (step s (Write p (firstn j d))).   (* short write *)

(* the append was interrupted in its k-th call (k = length tr1 + 1) *)
Definition crash_at (tr1 : list call) (c : call) (s s' : fs) : Prop := partial c (run_trace tr1 s) s'.

(* ---------- the most general damage model ----------
   A crash (power loss with unflushed buffers, torn or reordered writes, a failing call with any
   partial effect) may leave EVERY file named by a call issued so far in ANY state - or missing -
   but changes no file that none of those calls names.                                          *)
Definition damaged_by (issued : list call) (s s' : fs) : Prop :=
  forall q, (forall x, In x issued -> affects x q = false) -> lookup q s' = lookup q s.


(* ---- the trace before / from the first write-open of _metadata ------------------------- *)
Fixpoint split_md (tr : list call) : list call * list call :=
  match tr with
  | [] => ([], [])
  | c :: r => if is_md_open c then ([], tr) else let '(a, b) := split_md r in (c :: a, b)
  end.

Definition untouched (c : call) (qs : list path) : bool := forallb (fun q => negb (affects c q)) qs.

Definition is_nil {A} (l : list A) : bool := match l with [] => true | _ => false end.

(* The checker evaluated on recorded traces.  refs = the data files referenced by the summary
   before the operation.
     1. before the first write-open of _metadata no call touches a referenced file or one of the
        two summary files;
     2. _metadata is opened for writing only when every file opened before has been closed;
     3. from then on no call touches a referenced data file, and only the two summary files are
        written at all ("parts first, summary last").                                           *)
Definition post_ok (c : call) : bool :=
  match c with
  | Mkdir _ | Close _ => true
  | OpenW p _ | Write p _ => bytes_eqb p md_name || bytes_eqb p cmd_name
  | Rename _ _ | Remove _ => false
  end.

Definition check_safe_trace (refs : list path) (tr : list call) : bool :=
  let '(pre, post) := split_md tr in
  forallb (fun c => untouched c (md_name :: cmd_name :: refs)) pre
  && (is_nil post || is_nil (open_handles pre))
  && forallb (fun c => untouched c refs && post_ok c) post.

(* the same as a proposition over positions of the trace *)
Definition safe_trace (refs : list path) (tr : list call) : Prop :=
  forall tr1 c tr2, tr = tr1 ++ c :: tr2 ->
    (forall q, In q refs -> affects c q = false)
    /\ (existsb is_md_open tr1 = false ->
          (is_md_open c = false -> affects c md_name = false /\ affects c cmd_name = false)
          /\ (is_md_open c = true -> open_handles tr1 = []))
    /\ (existsb is_md_open tr1 = true -> post_ok c = true).

(* strongest form for validation failures (C18): no file-changing call at all *)
Definition no_write_call (c : call) : bool :=
  match c with Mkdir _ | Close _ => true | _ => false end.
Definition check_no_write (tr : list call) : bool := forallb no_write_call tr.

(* ---------- the relation with the two summary files in either order ----------
   `safe_trace` asks for _metadata first, _common_metadata second (what the code does).  Which of the
   two is rewritten first is irrelevant for the property (a fresh open reads _metadata only), so the
   tie evaluates this weaker relation: "parts first, summary files last":
     1. before the first write-open of a summary file no call touches a referenced file or a summary file;
     2. at that moment every file opened before has been closed;
     3. from then on only the two summary files are written, no referenced file is touched;
     4. every write goes to a handle that is open (a write-open of the same path came before).     *)
Definition is_sum_open (c : call) : bool :=
  match c with OpenW p _ => bytes_eqb p md_name || bytes_eqb p cmd_name | _ => false end.

Fixpoint split_sum (tr : list call) : list call * list call :=
  match tr with
  | [] => ([], [])
  | c :: r => if is_sum_open c then ([], tr) else let '(a, b) := split_sum r in (c :: a, b)
  end.

(* writes only on paths opened before *)
Fixpoint wf_writes (opened : list path) (tr : list call) : bool :=
  match tr with
  | [] => true
  | OpenW p _ :: r => wf_writes (p :: opened) r
  | Write p _ :: r => existsb (bytes_eqb p) opened && wf_writes opened r
  | _ :: r => wf_writes opened r
  end.

Definition check_safe_trace_sym (refs : list path) (tr : list call) : bool :=
  let '(pre, post) := split_sum tr in
  forallb (fun c => untouched c (md_name :: cmd_name :: refs)) pre
  && (is_nil post || is_nil (open_handles pre))
  && forallb (fun c => untouched c refs && post_ok c) post
  && wf_writes [] tr.

Definition safe_trace_sym (refs : list path) (tr : list call) : Prop := check_safe_trace_sym refs tr = true.


(* ---- what a fresh open reads ------------------------------------------------------------
   A fresh open of a directory parses _metadata and then reads exactly the files it references:
   the result is a function of the summary's bytes and of the bytes of the referenced files.
   `parse_md` and `decode` are arbitrary (thrift parsing is C10, page decoding C01/C03).         *)
Section Read.
  Variable R : Type.
  Variable parse_md : bytes -> option (list path).
  Variable decode : bytes -> list (option bytes) -> R.

  Definition refs_of (s : fs) : option (list path) :=
    match lookup md_name s with Some b => parse_md b | None => None end.

  Definition read_dataset (s : fs) : option R :=
    match lookup md_name s with
    | Some b =>
      match parse_md b with
      | Some refs => Some (decode b (map (fun p => lookup p s) refs))
      | None => None
      end
    | None => None
    end.
End Read.
