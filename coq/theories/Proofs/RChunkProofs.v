From Coq Require Import String.
From Coq Require Import NArith ZArith Arith List Lia Bool.
From Pq Require Import Base.Bytes Base.Bits Base.ListX Proofs.BytesProofs Proofs.ListXProofs Proofs.CodecProofs
  Proofs.CompactProofs Codec.Varint Codec.Bitpack Codec.Hybrid Thrift.Compact
  Format.Phys Format.Meta Format.Page Format.ChunkLayout Format.File Format.Enc Impl.RPages.
From Pq Require Import Proofs.HybridProofs Proofs.FormatCodecProofs Proofs.FormatPageProofs Proofs.FormatChunkProofs
  Proofs.FormatFileProofs Proofs.RPagesProofs.
From Pq Require Import Impl.RChunk.
Import ListNotations.
Open Scope N_scope.
Open Scope list_scope.

Lemma cells_of_length m : forall lv vs acc cs, cells_of m lv vs acc = Some cs ->
  length cs = (length acc + length lv)%nat.
Proof.
  induction lv as [|l lv IH]; intros vs acc cs H; cbn [cells_of] in H.
  - destruct vs; [|discriminate]. injection H as <-. rewrite rev_append_rev, app_nil_r, rev_length. cbn; lia.
  - destruct (l =? m).
    + destruct vs as [|v vs]; [discriminate|]. rewrite (IH _ _ _ H). cbn [length]. lia.
    + rewrite (IH _ _ _ H). cbn [length]. lia.
Qed.

Lemma page_levels_len cd p : levels_wf cd p -> N.of_nat (length (page_levels cd p)) = lp_nvals p.
Proof.
  intros LW. unfold page_levels. destruct LW as [H0|(H1 & Hr & Hn & Hl)].
  - rewrite H0. cbn [N.eqb]. rewrite repN_ok, app_nil_r, repeat_length. apply N2Nat.id.
  - rewrite H1. cbn [N.eqb Pos.eqb]. rewrite takeN_ok, runs_vals_ok, firstn_length_le by lia. apply N2Nat.id.
Qed.

Lemma content_cells_len cd dict it c : item_wf cd it -> item_content cd dict it = Some c ->
  lenN (content_cells c) = item_nvals it.
Proof.
  intros W C. destruct it as [e vs|p]; cbn [item_content item_nvals item_wf] in *.
  - injection C as <-. reflexivity.
  - destruct (page_cells cd dict p) as [cs|] eqn:PC; [|discriminate]. injection C as <-. cbn [content_cells].
    unfold page_cells in PC. destruct (store_values _ _ _ _); [|discriminate].
    rewrite lenN_ok, (cells_of_length _ _ _ _ _ PC). cbn [length]. destruct W as [LW _]. now apply page_levels_len.
Qed.

Section WithCodecs5.
Variable compress : Z -> bytes -> bytes.
Variable decompress : Z -> N -> bytes -> option bytes.
Hypothesis codec_rt : forall codec b, decompress codec (lenN b) (compress codec b) = Some b.

Lemma read_page_deflate codec b : read_page_bytes decompress codec (lenN b) (deflate compress codec b) = ROk b.
Proof.
  unfold read_page_bytes, deflate. destruct (codec =? 0)%Z; [reflexivity|]. now rewrite codec_rt, N.eqb_refl.
Qed.

Lemma enc_v1_shape cd codec p : lp_v2 p = false ->
  enc_data_page compress cd codec p
  = ({| ph_usize := Z.of_N (lenN (v1_raw cd p)); ph_csize := Z.of_N (lenN (deflate compress codec (v1_raw cd p)));
        ph_crc := None; ph_body := PBData (v1_header p) |}, deflate compress codec (v1_raw cd p)).
Proof.
  intros V. unfold enc_data_page. rewrite V. cbn zeta. unfold v1_raw, v1_header, zlen.
  rewrite !app_tr_ok. destruct (cd_maxdef cd =? 0); rewrite ?hyb_enc_len_x_ok; reflexivity.
Qed.

(* what the reader needs of a page beyond its being encodable *)
Definition item_reader_ok (inplace : bool) (cd : coldesc) (it : litem) : Prop :=
  match it with
  | LDict _ _ => True
  | LData p => (lp_v2 p = true -> inplace = true -> match lp_store p with SPlain _ => num_width (cd_type cd) <> None | _ => True end) /\
               (lp_v2 p = true -> match lp_store p with SDelta _ _ _ => v2_nn cd p = 0 | _ => True end)
  end.

Lemma contents_empty cd : forall its dict contents,
  Forall (item_wf cd) its -> items_contents cd dict its = Some contents -> sumN (map item_nvals its) = 0 ->
  concat (map content_cells contents) = [].
Proof.
  induction its as [|it r IH]; intros dict contents W C S; cbn [items_contents] in C.
  - injection C as <-. reflexivity.
  - destruct (item_content cd dict it) as [c|] eqn:IC; [|discriminate].
    destruct (items_contents cd (next_dict dict c) r) as [cr|] eqn:ICr; [|discriminate].
    cbn [option_map] in C. injection C as <-. cbn [map] in S. rewrite sumN_cons in S.
    inversion W as [|? ? Wi Wr]; subst.
    pose proof (content_cells_len cd dict it c Wi IC) as L.
    cbn [map concat]. rewrite (IH _ _ Wr ICr) by lia. rewrite app_nil_r.
    destruct (content_cells c); [reflexivity|]. rewrite lenN_ok in L. cbn [length] in L. lia.
Qed.

Theorem rd_chunk_spec inplace cd codec rows : forall its clock dict num acc contents,
  Forall (item_wf cd) its ->
  Forall (fun it => phdr_wf (fst (enc_item compress cd codec it)) = true) its ->
  Forall (item_reader_ok inplace cd) its ->
  items_contents cd dict its = Some contents ->
  (length (concat (map (item_bytes compress cd codec) its)) <= length clock)%nat ->
  rows = num + sumN (map item_nvals its) ->
  rd_chunk decompress clock inplace cd codec rows dict (concat (map (item_bytes compress cd codec) its)) num acc
  = ROk (rev acc ++ concat (map content_cells contents)).
Proof.
  induction its as [|it r IH]; intros clock dict num acc contents W HW RO C L ROWS.
  - cbn [items_contents] in C. injection C as <-. cbn [map sumN fold_left] in ROWS.
    destruct clock; cbn [rd_chunk map concat]; (destruct (N.leb_spec rows num) as [_|X]; [|unfold sumN in ROWS; cbn in ROWS; lia]);
      now rewrite rev_append_rev, !app_nil_r.
  - assert (STOP : rows <= num -> rd_chunk decompress clock inplace cd codec rows dict
                     (concat (map (item_bytes compress cd codec) (it :: r))) num acc
                   = ROk (rev acc ++ concat (map content_cells contents))).
    { intros LE. rewrite (contents_empty cd (it :: r) dict contents W C) by lia.
      destruct clock; cbn [rd_chunk]; (destruct (N.leb_spec rows num) as [_|X]; [|lia]); now rewrite rev_append_rev, !app_nil_r. }
    destruct (N.le_gt_cases rows num) as [LE|GT]; [now apply STOP|]. clear STOP.
    assert (Wit : item_wf cd it) by (inversion W; assumption).
    assert (Wr : Forall (item_wf cd) r) by (inversion W; assumption).
    assert (Hit : phdr_wf (fst (enc_item compress cd codec it)) = true) by (inversion HW; assumption).
    assert (Hr : Forall (fun it => phdr_wf (fst (enc_item compress cd codec it)) = true) r) by (inversion HW; assumption).
    assert (ROit : item_reader_ok inplace cd it) by (inversion RO; assumption).
    assert (ROr : Forall (item_reader_ok inplace cd) r) by (inversion RO; assumption).
    cbn [items_contents] in C.
    destruct (item_content cd dict it) as [c|] eqn:IC; [|discriminate].
    destruct (items_contents cd (next_dict dict c) r) as [cr|] eqn:ICr; [|discriminate].
    cbn [option_map] in C. injection C as <-.
    set (hp := enc_item compress cd codec it) in *.
    destruct (enc_phdr_nonempty (fst hp)) as (x & l & Hxl).
    set (restb := concat (map (item_bytes compress cd codec) r)) in *.
    assert (B : concat (map (item_bytes compress cd codec) (it :: r)) = x :: (l ++ snd hp ++ restb)).
    { cbn [map concat]. unfold item_bytes at 1. fold hp. unfold page_bytes. rewrite app_tr_ok, Hxl.
      cbn [app]. now rewrite <- app_assoc. }
    rewrite B in *. destruct clock as [|c0 clock']; [cbn [length] in L; lia|].
    cbn [rd_chunk]. destruct (N.leb_spec rows num) as [X|_]; [lia|].
    replace (x :: l ++ snd hp ++ restb) with (enc_phdr (fst hp) ++ (snd hp ++ restb)) by (rewrite Hxl; reflexivity).
    rewrite phdr_roundtrip by exact Hit. cbn [rbind].
    unfold hp at 1. rewrite (enc_item_csize compress). fold hp. cbn [rbind].
    rewrite takeN_app_exact, dropN_app_exact.
    assert (L' : (length restb <= length clock')%nat) by (cbn [length] in L; rewrite !app_length in L; lia).
    cbn [map] in ROWS. rewrite sumN_cons in ROWS.
    destruct it as [e vs|p].
    + (* dictionary page *)
      cbn [item_content] in IC. injection IC as <-. cbn [next_dict] in ICr.
      unfold hp in *. cbn [enc_item] in *. unfold enc_dict_page in *. cbn zeta in *. cbn [fst snd ph_usize ph_body k_nvals] in *.
      unfold zlen. rewrite z2n_of_N. cbn [rbind]. rewrite read_page_deflate. cbn [rbind]. rewrite z2n_of_N. cbn [rbind].
      cbn [item_wf] in Wit. destruct Wit as [_ Hv].
      pose proof (plain_roundtrip (cd_type cd) (cd_tlen cd) vs [] Hv) as PR. rewrite app_nil_r, <- lenN_ok in PR. rewrite PR.
      rewrite (IH clock' (Some vs) num acc cr Wr Hr ROr ICr L') by (cbn [item_nvals] in ROWS; lia).
      reflexivity.
    + (* data page *)
      cbn [item_content] in IC. destruct (page_cells cd dict p) as [cs|] eqn:PC; [|discriminate]. injection IC as <-.
      cbn [next_dict] in ICr. cbn [item_wf] in Wit. cbn [item_reader_ok] in ROit. destruct ROit as (RO2 & RO3).
      cbn [item_nvals] in ROWS.
      destruct (lp_v2 p) eqn:V2.
      * (* v2 *)
        unfold hp in *. cbn [enc_item] in *. rewrite (enc_v2_shape compress cd codec p V2) in *.
        cbn [fst snd ph_usize ph_csize ph_body] in *.
        rewrite z2n_add. cbn [rbind].
        pose proof (rd_page_v2_spec compress decompress codec_rt inplace cd dict codec p cs V2 Wit PC (RO2 eq_refl) (RO3 eq_refl)) as RD.
        rewrite ?lenN_app. rewrite RD. cbn [rbind v2_header d2_nvals]. rewrite z2n_of_N. cbn [rbind].
        rewrite (IH clock' dict (num + lp_nvals p) (rev_append cs acc) cr Wr Hr ROr ICr L') by lia.
        cbn [map concat content_cells]. rewrite rev_append_rev, rev_app_distr, rev_involutive, <- app_assoc. reflexivity.
      * (* v1 *)
        unfold hp in *. cbn [enc_item] in *. rewrite (enc_v1_shape cd codec p V2) in *.
        cbn [fst snd ph_usize ph_csize ph_body] in *.
        rewrite z2n_of_N. cbn [rbind]. rewrite read_page_deflate. cbn [rbind].
        rewrite (rd_col_page_v1_spec cd dict p cs Wit PC). cbn [rbind v1_header d_nvals]. rewrite z2n_of_N. cbn [rbind].
        rewrite (IH clock' dict (num + lp_nvals p) (rev_append cs acc) cr Wr Hr ROr ICr L') by lia.
        cbn [map concat content_cells]. rewrite rev_append_rev, rev_app_distr, rev_involutive, <- app_assoc. reflexivity.
Qed.
End WithCodecs5.
