(* Part 5: re-serialising what read_thrift built from another writer's bytes.  For every value tree in
   the class `reser_ok` (field ids 1..13 ascending, integers i32/i64 only, lists non-empty of
   i32 (C int range) / binary / struct) the object read_thrift builds from its encoding serialises
   back to exactly the same bytes: every wire type is restored from the markers read_thrift sets
   ("i32" / "i32list").  Outside the class the pinned code changes bytes: i8/i16 fields, list<i64>,
   field ids >= 14, element type of empty lists (see the refutations in props/C10.v).               *)
From Coq Require Import NArith ZArith List Bool Lia.
From Pq Require Import Base.Bytes Thrift.Varint Thrift.Compact Proofs.CompactProofs Impl.CThrift Impl.CThriftSpec
  Proofs.CThriftProofs Proofs.CThriftRead Proofs.CThriftRoundtrip Proofs.CThriftMain.
Import ListNotations.
Open Scope N_scope.

Section Ids.
Variable fids : list Z.
Hypothesis Hasc : asc 0 fids.
Local Notation w_thrift := (CThrift.w_thrift fids).
Local Notation t_thrift := (CThriftSpec.t_thrift fids).
Local Notation w_top := (CThrift.w_top fids).
Local Notation t_top := (CThriftSpec.t_top fids).
Local Notation ser := (CThrift.ser fids).
Local Notation to_bytes := (CThrift.to_bytes fids).
Local Notation dom := (CThriftSpec.dom fids).
Local Notation w_thrift_spec := (CThriftProofs.w_thrift_spec fids Hasc).
Local Notation ser_spec := (CThriftProofs.ser_spec fids Hasc).
Local Notation t_good := (CThriftRoundtrip.t_good fids Hasc).
Local Notation t_eq := (CThriftRoundtrip.t_eq fids Hasc).
Local Notation to_bytes_fits := (CThriftRoundtrip.to_bytes_fits fids).
Local Notation t_thrift_S := (CThriftRoundtrip.t_thrift_S fids).
Local Notation dom_fields := (CThriftRoundtrip.dom_fields fids).
Local Notation t_dict := (CThriftRoundtrip.t_dict fids).
Local Notation ser_dict := (CThriftMain.ser_dict fids Hasc).
Local Notation roundtrip := (CThriftMain.roundtrip fids Hasc).
(* the largest field id the loop writes, and completeness of the id list up to it *)
Variable maxid : N.
Hypothesis Hmax : forall id, 0 < id -> id <= maxid -> In (Z.of_N id) fids.

Fixpoint reser_ok (t : tv) : bool :=
  match t with
  | TBool _ => true
  | TI8 _ => false
  | TI16 _ => false
  | TI32 z => in_i64 z
  | TI64 z => in_i64 z
  | TDouble _ => false
  | TBin _ => true
  | TList ety l =>
      match l with [] => ety =? 0 | _ => (ety =? 5) || (ety =? 8) || (ety =? 12) end &&
      (fix all (l : list tv) : bool :=
         match l with
         | [] => true
         | x :: r => (match x with
                      | TI32 z => (ety =? 5) && in_cint z
                      | TBin _ => ety =? 8
                      | TStruct _ => (ety =? 12) && reser_ok x
                      | _ => false
                      end) && all r
         end) l
  | TStruct fs =>
      (fix allf (last : N) (fs : list (N * tv)) : bool :=
         match fs with
         | [] => true
         | (id, x) :: r => (last <? id) && (id <=? maxid) && reser_ok x && allf id r
         end) 0 fs
  end.
Definition reser_elem (ety : N) (x : tv) : bool :=
  match x with
  | TI32 z => (ety =? 5) && in_cint z
  | TBin _ => ety =? 8
  | TStruct _ => (ety =? 12) && reser_ok x
  | _ => false
  end.
Definition reser_elems (ety : N) : list tv -> bool :=
  fix all (l : list tv) : bool := match l with [] => true | x :: r => reser_elem ety x && all r end.
Definition reser_fields : N -> list (N * tv) -> bool :=
  fix allf (last : N) (fs : list (N * tv)) : bool :=
    match fs with
    | [] => true
    | (id, x) :: r => (last <? id) && (id <=? maxid) && reser_ok x && allf id r
    end.
Lemma reser_list ety l : reser_ok (TList ety l) =
  match l with [] => ety =? 0 | _ => (ety =? 5) || (ety =? 8) || (ety =? 12) end && reser_elems ety l.
Proof. reflexivity. Qed.
Lemma reser_struct fs : reser_ok (TStruct fs) = reser_fields 0 fs.
Proof. reflexivity. Qed.

(* markers read_thrift restores for a struct *)
Definition m32 (fs : list (N * tv)) : bool := has_nib 5 fs && negb (has_nib 6 fs).
Definition m32l (fs : list (N * tv)) : option (list Z) := if has_nib 5 fs && has_nib 6 fs then Some (ids_nib 5 fs) else None.

Definition struct_back (td : pv -> option tv) (n : nat) : Prop :=
  forall fs, (depth (TStruct fs) <= n)%nat -> reser_ok (TStruct fs) = true -> td (pv_of (TStruct fs)) = Some (TStruct fs).

(* ---- the field loop rebuilds the field list ---------------------------------------------------- *)
Lemma lookup_app_skip i pre rest : Forall (fun p : Z * pv => fst p <> i) pre -> lookup i (pre ++ rest) = lookup i rest.
Proof.
  induction pre as [|[k v] pre IH]; intros H; [reflexivity|]. inversion H as [|p l Hp Hl]; subst. cbn [fst] in Hp.
  cbn [app lookup]. destruct (Z.eqb_spec k i); [contradiction|]. apply IH. exact Hl.
Qed.

Lemma lookup_none_above : forall fs last i, reser_fields last fs = true -> (i <= Z.of_N last)%Z ->
  lookup i (pv_of_fields fs) = None.
Proof.
  induction fs as [|[id x] fs IH]; intros last i H Hi; [reflexivity|].
  cbn [reser_fields] in H. fold reser_fields in H.
  apply andb_true_iff in H. destruct H as [H Hr]. apply andb_true_iff in H. destruct H as [H _].
  apply andb_true_iff in H. destruct H as [Hlt _]. apply N.ltb_lt in Hlt.
  rewrite pv_of_fields_cons. cbn [lookup]. destruct (Z.eqb_spec (Z.of_N id) i); [lia|]. apply (IH id i Hr). lia.
Qed.

Lemma reser_fields_weaken : forall fs p q, p <= q -> reser_fields q fs = true -> reser_fields p fs = true.
Proof.
  destruct fs as [|[id x] fs]; intros p q Hpq H; [reflexivity|]. cbn [reser_fields] in *. fold reser_fields in *.
  apply andb_true_iff in H. destruct H as [H Hr]. apply andb_true_iff in H. destruct H as [H Hx].
  apply andb_true_iff in H. destruct H as [Hlt H13]. apply N.ltb_lt in Hlt.
  rewrite Hr, Hx, H13. assert ((p <? id) = true) as -> by (apply N.ltb_lt; lia). reflexivity.
Qed.

Lemma reser_fields_ids : forall fs last, reser_fields last fs = true ->
  Forall (fun p => last < fst p /\ fst p <= maxid) fs.
Proof.
  induction fs as [|[id x] fs IH]; intros last H; constructor.
  - cbn [reser_fields] in H. fold reser_fields in H.
    apply andb_true_iff in H. destruct H as [H _]. apply andb_true_iff in H. destruct H as [H _].
    apply andb_true_iff in H. destruct H as [Hlt H13]. apply N.ltb_lt in Hlt. apply N.leb_le in H13. cbn [fst]. lia.
  - cbn [reser_fields] in H. fold reser_fields in H.
    apply andb_true_iff in H. destruct H as [H Hr]. apply andb_true_iff in H. destruct H as [H _].
    apply andb_true_iff in H. destruct H as [Hlt _]. apply N.ltb_lt in Hlt.
    pose proof (IH id Hr) as F. eapply Forall_impl; [|exact F]. intros p [P1 P2]. split; [lia|exact P2].
Qed.

Lemma t_fields_back tf : forall ids prev fs pre, (0 <= prev)%Z -> asc prev ids ->
  reser_fields (Z.to_N prev) fs = true ->
  Forall (fun p => In (Z.of_N (fst p)) ids) fs ->
  Forall (fun p => tf (Z.of_N (fst p)) (pv_of (snd p)) = Some (snd p)) fs ->
  Forall (fun p : Z * pv => (fst p <= prev)%Z) pre ->
  t_fields tf ids (pre ++ pv_of_fields fs) = Some fs.
Proof.
  induction ids as [|i r IH]; intros prev fs pre Hp Ha Hr Hcov Htf Hpre.
  - destruct fs as [|p fs]; [reflexivity|]. inversion Hcov as [|p' l' Hin _]; subst. destruct Hin.
  - cbn [asc] in Ha. destruct Ha as [Hi Ha]. cbn [t_fields].
    assert (Hskip : lookup i (pre ++ pv_of_fields fs) = lookup i (pv_of_fields fs)).
    { apply lookup_app_skip. eapply Forall_impl; [|exact Hpre]. intros p Hle. cbn in Hle. lia. }
    rewrite Hskip.
    destruct fs as [|[id x] fs].
    + cbn [pv_of_fields lookup]. apply (IH prev [] pre Hp (asc_weaken r prev i ltac:(lia) Ha) eq_refl); [constructor|constructor|exact Hpre].
    + pose proof (reser_fields_ids _ _ Hr) as Hids. inversion Hids as [|p0 l0 [Hid1 Hid2] Hids']; subst. cbn [fst] in Hid1, Hid2.
      cbn [reser_fields] in Hr. fold reser_fields in Hr.
      apply andb_true_iff in Hr. destruct Hr as [Hr0 Hrest].
      inversion Hcov as [|p1 l1 Hin Hcov']; subst. cbn [fst] in Hin.
      inversion Htf as [|p2 l2 Ht Htf']; subst. cbn [fst snd] in Ht.
      destruct (Z.eqb_spec (Z.of_N id) i) as [Ei|Ni].
      * rewrite pv_of_fields_cons. cbn [lookup]. rewrite Ei, Z.eqb_refl. rewrite <- Ei.
        assert (Hrec : t_fields tf r ((pre ++ [(Z.of_N id, pv_of x)]) ++ pv_of_fields fs) = Some fs).
        { apply (IH i fs (pre ++ [(Z.of_N id, pv_of x)]) ltac:(lia) Ha).
          - rewrite <- Ei, N2Z.id. exact Hrest.
          - pose proof (reser_fields_ids _ _ Hrest) as Hgt.
            clear - Hcov' Hgt Ei. induction fs as [|q fs IHf]; constructor;
              inversion Hcov' as [|q' l' Hq Hl]; inversion Hgt as [|q'' l'' [G1 G2] Hg]; subst.
            + destruct Hq as [Hq|Hq]; [lia|exact Hq].
            + apply IHf; assumption.
          - exact Htf'.
          - apply Forall_app. split; [eapply Forall_impl; [|exact Hpre]; intros p Hle; cbn in Hle |- *; lia|].
            constructor; [cbn; lia|constructor]. }
        rewrite <- app_assoc in Hrec. cbn [app] in Hrec. rewrite pv_of_fields_cons in *.
        rewrite Ht, Hrec, N2Z.id.
        pose proof (pv_of_not_none x) as Hnn. destruct (pv_of x); try reflexivity. congruence.
      * assert (Hgt : (i < Z.of_N id)%Z).
        { destruct Hin as [Hin|Hin]; [lia|]. clear - Hin Ha. revert Hin. generalize (Z.of_N id). intros z Hin.
          revert i Ha. induction r as [|y r IHr]; intros i Ha; [destruct Hin|]. cbn [asc] in Ha. destruct Ha as [Hy Ha].
          destruct Hin as [->|Hin]; [lia|]. specialize (IHr Hin y Ha). lia. }
        assert (Hri : reser_fields (Z.to_N i) ((id, x) :: fs) = true).
        { cbn [reser_fields]. fold reser_fields. rewrite Hrest.
          apply andb_true_iff in Hr0. destruct Hr0 as [Hr0 Hx]. apply andb_true_iff in Hr0. destruct Hr0 as [_ H13].
          rewrite Hx, H13. assert ((Z.to_N i <? id) = true) as -> by (apply N.ltb_lt; lia). reflexivity. }
        rewrite (lookup_none_above ((id, x) :: fs) (Z.to_N i) i Hri ltac:(lia)).
        apply (IH prev ((id, x) :: fs) pre Hp (asc_weaken r prev i ltac:(lia) Ha)).
        -- cbn [reser_fields]. fold reser_fields. rewrite Hr0, Hrest. reflexivity.
        -- constructor; [destruct Hin as [Hin|Hin]; [lia|exact Hin]|].
           pose proof (reser_fields_ids _ _ Hrest) as Hgt'.
           clear - Hcov' Hgt' Hgt. induction fs as [|q fs IHf]; constructor;
             inversion Hcov' as [|q' l' Hq Hl]; inversion Hgt' as [|q'' l'' [G1 G2] Hg]; subst.
           ++ destruct Hq as [Hq|Hq]; [lia|exact Hq].
           ++ apply IHf; assumption.
        -- exact Htf.
        -- exact Hpre.
Qed.

(* ---- values ------------------------------------------------------------------------------------- *)
Lemma items_back f ety n : (forall x, (depth x <= n)%nat -> reser_elem ety x = true -> f (pv_of_elem x) = Some x) ->
  forall l, (depth_elems l <= n)%nat -> reser_elems ety l = true -> t_items f (pv_of_elems l) = Some l.
Proof.
  intros H. induction l as [|x l IH]; intros Hd Hr; [reflexivity|].
  cbn [reser_elems] in Hr. fold (reser_elems ety) in Hr. apply andb_true_iff in Hr. destruct Hr as [Hx Hl].
  cbn [depth_elems] in Hd. fold depth_elems in Hd.
  cbn [pv_of_elems t_items]. fold pv_of_elems. rewrite (H x ltac:(lia) Hx), (IH ltac:(lia) Hl). reflexivity.
Qed.

Lemma list_back td n ety l : struct_back td n -> (depth_elems l <= n)%nat -> reser_ok (TList ety l) = true ->
  t_list_with td (pv_of_elems l) = Some (TList ety l).
Proof.
  intros Hs Hd Hr. rewrite reser_list in Hr. apply andb_true_iff in Hr. destruct Hr as [He Hl].
  destruct l as [|x0 l0].
  - apply N.eqb_eq in He. subst ety. reflexivity.
  - assert (Hx0 : reser_elem ety x0 = true).
    { cbn [reser_elems] in Hl. fold (reser_elems ety) in Hl. apply andb_true_iff in Hl. tauto. }
    destruct x0 as [b|z|z|z|z|b|s|ety' l'|fs]; cbn [reser_elem] in Hx0; try discriminate Hx0.
    + apply andb_true_iff in Hx0. destruct Hx0 as [E5 _]. apply N.eqb_eq in E5. subst ety.
      cbn [pv_of_elems pv_of_elem pv_of t_list_with]. fold pv_of_elems.
      change (PInt z :: pv_of_elems l0) with (pv_of_elems (TI32 z :: l0)).
      rewrite (items_back t_int_elem 5 n); [reflexivity| |exact Hd|exact Hl].
      intros x _ Hx. destruct x; cbn [reser_elem] in Hx; try discriminate Hx.
      apply andb_true_iff in Hx. destruct Hx as [_ Hc]. cbn [pv_of_elem pv_of t_int_elem]. rewrite Hc. reflexivity.
    + apply N.eqb_eq in Hx0. subst ety.
      cbn [pv_of_elems pv_of_elem t_list_with]. fold pv_of_elems.
      change (PStr s :: pv_of_elems l0) with (pv_of_elems (TBin s :: l0)).
      rewrite (items_back t_str_elem 8 n); [reflexivity| |exact Hd|exact Hl].
      intros x _ Hx. destruct x; cbn [reser_elem] in Hx; try discriminate Hx. reflexivity.
    + apply andb_true_iff in Hx0. destruct Hx0 as [E12 _]. apply N.eqb_eq in E12. subst ety.
      cbn [pv_of_elems pv_of_elem t_list_with]. fold pv_of_elems. rewrite pv_of_struct.
      rewrite <- pv_of_struct.
      change (pv_of (TStruct fs) :: pv_of_elems l0) with (pv_of_elems (TStruct fs :: l0)).
      rewrite (items_back td 12 n); [reflexivity| |exact Hd|exact Hl].
      intros x Hdx Hx. destruct x as [| | | | | | | |fs']; cbn [reser_elem] in Hx; try discriminate Hx.
      apply andb_true_iff in Hx. destruct Hx as [_ Hok]. cbn [pv_of_elem]. apply Hs; [exact Hdx|exact Hok].
Qed.

Lemma ids_nib_in n fs k x : In (k, x) fs -> nib x = n -> existsb (Z.eqb (Z.of_N k)) (ids_nib n fs) = true.
Proof.
  intros Hin Hn. apply existsb_exists. exists (Z.of_N k). split; [|apply Z.eqb_refl].
  unfold ids_nib. apply in_map_iff. exists (k, x). split; [reflexivity|].
  apply filter_In. split; [exact Hin|]. cbn [snd]. rewrite Hn. apply N.eqb_refl.
Qed.

Lemma has_nib_in n fs k x : In (k, x) fs -> nib x = n -> has_nib n fs = true.
Proof. intros Hin Hn. apply existsb_exists. exists (k, x). split; [exact Hin|]. cbn [snd]. rewrite Hn. apply N.eqb_refl. Qed.

Lemma ids_nib_notin n fs k : (forall x, In (k, x) fs -> nib x <> n) -> NoDup (map fst fs) ->
  existsb (Z.eqb (Z.of_N k)) (ids_nib n fs) = false.
Proof.
  intros H _. destruct (existsb (Z.eqb (Z.of_N k)) (ids_nib n fs)) eqn:E; [|reflexivity]. exfalso.
  apply existsb_exists in E. destruct E as (z & Hz & Ez). apply Z.eqb_eq in Ez. subst z.
  unfold ids_nib in Hz. apply in_map_iff in Hz. destruct Hz as ([k' x'] & Ek & Hf). cbn [fst] in Ek.
  apply filter_In in Hf. destruct Hf as [Hin Hn]. cbn [snd] in Hn. apply N.eqb_eq in Hn.
  assert (k' = k) by lia. subst k'. exact (H x' Hin Hn).
Qed.

Lemma field_back td n fs k x : struct_back td n -> (depth x <= n)%nat -> In (k, x) fs -> reser_ok x = true ->
  (forall y, In (k, y) fs -> y = x) ->
  t_field td (m32 fs) (m32l fs) (Z.of_N k) (pv_of x) = Some x.
Proof.
  intros Hs Hd Hin Hr Huniq.
  destruct x as [b|z|z|z|z|b|s|ety l|fs']; cbn [reser_ok] in Hr; try discriminate Hr.
  - reflexivity.
  - cbn [pv_of t_field]. rewrite Hr. f_equal.
    assert (H5 : has_nib 5 fs = true) by (apply (has_nib_in 5 fs k (TI32 z) Hin eq_refl)).
    assert (int_nib (m32 fs) (m32l fs) (Z.of_N k) = 5) as ->; [|reflexivity].
    unfold int_nib, m32, m32l. rewrite H5. cbn [andb]. destruct (has_nib 6 fs); cbn [negb].
    + rewrite (ids_nib_in 5 fs k (TI32 z) Hin eq_refl). reflexivity.
    + reflexivity.
  - cbn [pv_of t_field]. rewrite Hr. f_equal.
    assert (H6 : has_nib 6 fs = true) by (apply (has_nib_in 6 fs k (TI64 z) Hin eq_refl)).
    assert (int_nib (m32 fs) (m32l fs) (Z.of_N k) = 6) as ->; [|reflexivity].
    unfold int_nib, m32, m32l. rewrite H6. destruct (has_nib 5 fs); cbn [andb negb]; [|reflexivity].
    assert (existsb (Z.eqb (Z.of_N k)) (ids_nib 5 fs) = false) as ->; [|reflexivity].
    destruct (existsb (Z.eqb (Z.of_N k)) (ids_nib 5 fs)) eqn:E; [|reflexivity]. exfalso.
    apply existsb_exists in E. destruct E as (z' & Hz & Ez). apply Z.eqb_eq in Ez. subst z'.
    unfold ids_nib in Hz. apply in_map_iff in Hz. destruct Hz as ([k' x'] & Ek & Hf). cbn [fst] in Ek.
    apply filter_In in Hf. destruct Hf as [Hin' Hn]. cbn [snd] in Hn. apply N.eqb_eq in Hn.
    assert (k' = k) by lia. subst k'. rewrite (Huniq x' Hin') in Hn. discriminate Hn.
  - reflexivity.
  - rewrite pv_of_list. cbn [t_field]. rewrite depth_list in Hd.
    apply (list_back td (pred n) ety l); [|lia|exact Hr].
    intros fs0 H0 H1. apply Hs; [lia|exact H1].
  - rewrite pv_of_struct. cbn [t_field]. rewrite <- pv_of_struct. apply Hs; [exact Hd|exact Hr].
Qed.

Lemma reser_fields_uniq : forall fs last k x y, reser_fields last fs = true -> In (k, x) fs -> In (k, y) fs -> y = x.
Proof.
  induction fs as [|[id v] fs IH]; intros last k x y Hr Hx Hy; [destruct Hx|].
  pose proof Hr as Hr'. cbn [reser_fields] in Hr. fold reser_fields in Hr.
  apply andb_true_iff in Hr. destruct Hr as [_ Hrest].
  pose proof (reser_fields_ids _ _ Hrest) as Hgt.
  assert (Hno : forall z, In (id, z) fs -> False).
  { intros z Hz. pose proof (proj1 (Forall_forall _ fs) Hgt (id, z) Hz) as [G _]. cbn [fst] in G. lia. }
  destruct Hx as [Ex|Hx]; destruct Hy as [Ey|Hy].
  - congruence.
  - injection Ex as -> ->. exfalso. exact (Hno y Hy).
  - injection Ey as -> ->. exfalso. exact (Hno x Hx).
  - apply (IH id k x y Hrest Hx Hy).
Qed.

Lemma reser_fields_forall : forall fs last, reser_fields last fs = true -> Forall (fun p => reser_ok (snd p) = true) fs.
Proof.
  induction fs as [|[id x] fs IH]; intros last H; constructor;
    cbn [reser_fields] in H; fold reser_fields in H; apply andb_true_iff in H; destruct H as [H Hr];
    apply andb_true_iff in H; destruct H as [_ Hx]; [exact Hx|apply (IH id Hr)].
Qed.

Lemma depth_fields_forall : forall fs n, (depth_fields fs <= n)%nat -> Forall (fun p => (depth (snd p) <= n)%nat) fs.
Proof.
  induction fs as [|[id x] fs IH]; intros n H; constructor; cbn [depth_fields] in H; fold depth_fields in H.
  - cbn [snd]. lia.
  - apply IH. lia.
Qed.

Theorem t_thrift_back : forall d, struct_back (t_dict d) d -> forall fs, (depth_fields fs <= d)%nat -> reser_ok (TStruct fs) = true ->
  t_thrift (S d) (m32 fs) (m32l fs) (pv_of_fields fs) = Some (TStruct fs).
Proof.
  intros d Hs fs Hd Hr. rewrite reser_struct in Hr. rewrite t_thrift_S.
  rewrite <- (app_nil_l (pv_of_fields fs)).
  rewrite (t_fields_back (t_field (t_dict d) (m32 fs) (m32l fs)) fids 0%Z fs [] ltac:(lia) Hasc Hr); [reflexivity| | |constructor].
  - pose proof (reser_fields_ids _ _ Hr) as Hids. eapply Forall_impl; [|exact Hids].
    intros [id x] [G1 G2]. cbn [fst] in *. apply Hmax; lia.
  - pose proof (reser_fields_forall _ _ Hr) as Hok. pose proof (depth_fields_forall fs d Hd) as Hdf.
    apply Forall_forall. intros [k x] Hin. cbn [fst snd].
    apply (field_back (t_dict d) d fs k x Hs).
    + exact (proj1 (Forall_forall _ fs) Hdf (k, x) Hin).
    + exact Hin.
    + exact (proj1 (Forall_forall _ fs) Hok (k, x) Hin).
    + intros y Hy. apply (reser_fields_uniq fs 0 k x y Hr Hin Hy).
Qed.

Theorem struct_back_all : forall d, struct_back (t_dict d) d.
Proof.
  induction d as [|d IH]; intros fs Hd Hr.
  - rewrite depth_struct in Hd. lia.
  - rewrite depth_struct in Hd. rewrite pv_of_struct. unfold t_dict. fold (m32 fs). fold (m32l fs).
    apply (t_thrift_back d IH fs ltac:(lia) Hr).
Qed.

Lemma reser_gen d fs : (depth (TStruct fs) <= d)%nat -> reser_ok (TStruct fs) = true ->
  t_thrift d (m32 fs) (m32l fs) (pv_of_fields fs) = Some (TStruct fs).
Proof. intros Hd Hr. exact (struct_back_all d fs Hd Hr). Qed.

(* the object read_thrift builds from a tree of the class serialises back to the tree's encoding *)
Theorem reserialise fs : (depth (TStruct fs) <= w_depth)%nat -> reser_ok (TStruct fs) = true ->
  ser (pv_of (TStruct fs)) = Some (wr (TStruct fs)).
Proof.
  intros Hd Hr. rewrite pv_of_struct. fold (m32 fs). fold (m32l fs).
  rewrite ser_dict, (reser_gen w_depth fs Hd Hr). reflexivity.
Qed.
End Ids.

Lemma in_ids13 id : 0 < id -> id <= 13 -> In (Z.of_N id) ids13.
Proof.
  intros H0 H13.
  assert (Z.of_N id = 1 \/ Z.of_N id = 2 \/ Z.of_N id = 3 \/ Z.of_N id = 4 \/ Z.of_N id = 5 \/ Z.of_N id = 6 \/ Z.of_N id = 7 \/
          Z.of_N id = 8 \/ Z.of_N id = 9 \/ Z.of_N id = 10 \/ Z.of_N id = 11 \/ Z.of_N id = 12 \/ Z.of_N id = 13)%Z as H by lia.
  unfold ids13. cbn [In]. intuition.
Qed.



Lemma in_ids14 id : 0 < id -> id <= 14 -> In (Z.of_N id) ids14.
Proof.
  intros H0 H14.
  assert (Z.of_N id = 1 \/ Z.of_N id = 2 \/ Z.of_N id = 3 \/ Z.of_N id = 4 \/ Z.of_N id = 5 \/ Z.of_N id = 6 \/ Z.of_N id = 7 \/
          Z.of_N id = 8 \/ Z.of_N id = 9 \/ Z.of_N id = 10 \/ Z.of_N id = 11 \/ Z.of_N id = 12 \/ Z.of_N id = 13 \/ Z.of_N id = 14)%Z as H by lia.
  unfold ids14. cbn [In]. intuition.
Qed.
