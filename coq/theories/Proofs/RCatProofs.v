(* C01 at chunk level, categorical read: the reader model of read_col with use_cat (Impl/RCat.v) applied to the
   bytes of the writer model of a categorical column (Impl/WChunk.v) returns the labels and the codes array. *)
From Coq Require Import String.
From Coq Require Import NArith ZArith Arith List Lia Bool.
From Pq Require Import Base.Bytes Base.Bits Base.ListX Proofs.BytesProofs Proofs.ListXProofs Proofs.CodecProofs
  Proofs.CompactProofs Codec.Varint Codec.Bitpack Codec.Hybrid Thrift.Compact
  Format.Phys Format.Meta Format.Page Format.ChunkLayout Format.File Format.Enc
  Impl.WLevels Impl.WPagesFmt Impl.WChunk Impl.RPages Impl.RChunk Impl.RSelf Impl.RCat.
From Pq Require Import Proofs.HybridProofs Proofs.FormatCodecProofs Proofs.FormatPageProofs Proofs.FormatChunkProofs
  Proofs.FormatFileProofs Proofs.RPagesProofs Proofs.RChunkProofs Proofs.WChunkProofs.
From Pq Require Proofs.WLevelsProofs.
Import ListNotations.
Open Scope N_scope.
Open Scope list_scope.

Lemma somes_map {A B} (f : A -> B) (l : list (option A)) : map f (somes l) = somes (map (option_map f) l).
Proof. induction l as [|[a|] r IH]; cbn [somes map option_map]; [reflexivity| |exact IH]. now rewrite IH. Qed.

Lemma scatter_codes_mask (codes : list (option N)) :
  scatter_codes 1 (Some (mask_of codes)) (somes codes) = ROk (map code_z codes).
Proof.
  unfold scatter_codes.
  set (cells := map (option_map VNum) codes).
  assert (M : mask_of codes = mask_of cells).
  { unfold cells, mask_of. rewrite map_map. apply map_ext. intros [a|]; reflexivity. }
  assert (S : map VNum (somes codes) = somes cells).
  { unfold cells. apply somes_map. }
  rewrite M, S, (cells_of_mask (A:=unit) cells []). cbn [rev app]. f_equal.
  unfold cells. rewrite map_map. apply map_ext. intros [a|]; reflexivity.
Qed.

Lemma codes_full (codes : list (option N)) : length (somes codes) = length codes ->
  map Z.of_N (somes codes) = map code_z codes.
Proof.
  intros H. destruct (all_some codes H) as [E _]. rewrite <- E at 2. rewrite map_map. reflexivity.
Qed.

(* the page's column as the codes array *)
Definition page_codes (p : wpage) : list Z := match p with WDictP codes => map code_z codes | WPlainP _ => [] end.
Definition is_dict_page (p : wpage) : Prop := match p with WDictP _ => True | WPlainP _ => False end.

(* read_data_page on a categorical v1 page of the writer: the codes, by either way of reading them *)
Lemma data_page_v1_dict selfmade skip_nulls c codes :
  wc_v2 c = false -> wp_ok c (WDictP codes) ->
  (skip_nulls = true -> w_nonnull (WDictP codes) = w_rows (WDictP codes)) ->
  exists defi,
    rd_data_page_sm selfmade skip_nulls (cd_of c) (w_v1_header (WDictP codes))
                    (w_defs c (WDictP codes) ++ w_values c (WDictP codes) ++ [0; 0; 0; 0; 0; 0; 0; 0])
    = ROk (defi, RIdx (somes codes)) /\
    ((defi = None /\ lenN (somes codes) = lenN codes) \/ (defi = Some (mask_of codes) /\ wc_optional c = true)).
Proof.
  intros V1 (N0 & NB & REQ & OK) SK. set (p := WDictP codes) in *.
  destruct (rd_def_writer c p skip_nulls (w_values c p ++ [0; 0; 0; 0; 0; 0; 0; 0]) V1 N0 NB REQ SK) as (defi & RD & DEFI).
  exists defi. split; [|exact DEFI].
  unfold rd_data_page_sm. cbn [w_v1_header d_nvals d_enc]. rewrite z2n_of_N. cbn [rbind].
  rewrite RD. cbn [rbind]. pose proof (w_nonnull_le p) as LE.
  replace (w_rows p - (w_rows p - w_nonnull p)) with (w_nonnull p) by lia.
  unfold p in *. cbn [w_enc w_values w_nonnull w_rows w_mask] in *.
  destruct OK as (K & CK2 & LB).
  assert (CK : Forall (fun x => x < 256 ^ N.of_nat (wc_k c)) (somes codes)) by (eapply Forall_impl; [|exact CK2]; cbn beta; intros; lia).
  cbn [Z.eqb E_PLAIN E_RLE_DICT E_PLAIN_DICT orb Pos.eqb].
  unfold wr_dict_indices. cbn [app].
  assert (BW : ((8 * N.of_nat (wc_k c) =? 8) || (8 * N.of_nat (wc_k c) =? 16) || (8 * N.of_nat (wc_k c) =? 32)) = true)
    by (destruct K as [-> | [-> | ->]]; reflexivity).
  assert (BK : 8 * N.of_nat (wc_k c) / 8 = N.of_nat (wc_k c)) by (rewrite N.mul_comm; apply N.div_mul; lia).
  assert (BZ : negb (8 * N.of_nat (wc_k c) =? 0) = true) by (destruct K as [-> | [-> | ->]]; reflexivity).
  rewrite BW. cbn [andb]. rewrite <- app_assoc.
  rewrite guard_idx_uleb by (rewrite ?lenN_ok; apply le_groups). rewrite andb_true_r.
  destruct selfmade.
  - rewrite uleb_roundtrip, BK, lenN_ok.
    change [0; 0; 0; 0; 0; 0; 0; 0] with (zeros 8).
    rewrite (rd_codes_raw_writer (wc_k c) (somes codes) 8 K CK (or_intror eq_refl)). reflexivity.
  - rewrite BZ, lenN_ok. destruct (somes codes) as [|x xs] eqn:SC.
    + cbn [length]. change (N.of_nat 0) with 0. rewrite hyb_dec_zero. reflexivity.
    + rewrite <- SC in *.
      pose proof (WLevelsProofs.dict_indices_dec (wc_k c) (somes codes) [0; 0; 0; 0; 0; 0; 0; 0]) as DD.
      destruct (hyb_dec false (8 * N.of_nat (wc_k c)) (N.of_nat (length (somes codes))) _) as [[ix r]|];
        [|specialize (DD ltac:(rewrite SC; cbn; lia) CK); discriminate DD].
      specialize (DD ltac:(rewrite SC; cbn; lia) CK). cbn [option_map fst] in DD. injection DD as ->. reflexivity.
Qed.

Theorem cat_page_v1_writer selfmade skip_nulls c codes :
  wc_v2 c = false -> wp_ok c (WDictP codes) ->
  (skip_nulls = true -> w_nonnull (WDictP codes) = w_rows (WDictP codes)) ->
  rd_cat_page_v1 selfmade skip_nulls (cd_of c) (w_v1_header (WDictP codes))
                 (w_defs c (WDictP codes) ++ w_values c (WDictP codes) ++ [0; 0; 0; 0; 0; 0; 0; 0])
  = ROk (map code_z codes).
Proof.
  intros V1 OK SK. destruct (data_page_v1_dict selfmade skip_nulls c codes V1 OK SK) as (defi & RD & DEFI).
  unfold rd_cat_page_v1. rewrite RD. cbn [rbind].
  destruct DEFI as [[-> FULL]|[-> OPT]].
  - cbn [scatter_codes]. f_equal. apply codes_full. rewrite !lenN_ok in FULL. lia.
  - cbn [cd_of cd_maxdef]. rewrite OPT. apply scatter_codes_mask.
Qed.

(* ---- a categorical v2 page ---------------------------------------------------------------------------------- *)
Lemma put_codes_writer c codes :
  wp_ok c (WDictP codes) ->
  put_codes (cd_maxdef (cd_of c)) (lenN codes) (lenN codes - lenN (somes codes))
            (if wc_optional c && negb (lenN codes - lenN (somes codes) =? 0) then Some (mask_of codes) else None)
            (somes codes)
  = ROk (map code_z codes).
Proof.
  intros (N0 & NB & REQ & OK). cbn [w_rows w_nonnull] in *. unfold put_codes.
  pose proof (somes_le codes) as LE. rewrite !lenN_ok in *.
  destruct (N.of_nat (length codes) - N.of_nat (length (somes codes)) =? 0) eqn:Z0.
  - apply N.eqb_eq in Z0. assert (E : length (somes codes) = length codes) by lia.
    rewrite E, N.eqb_refl. f_equal. now apply codes_full.
  - apply N.eqb_neq in Z0. destruct (wc_optional c) eqn:OPT.
    + cbn [andb negb cd_of cd_maxdef]. rewrite ?OPT. apply scatter_codes_mask.
    + specialize (REQ eq_refl). lia.
Qed.

Section WithCodecs8.
Variable compress : Z -> bytes -> bytes.
Variable decompress : Z -> N -> bytes -> option bytes.
Hypothesis codec_rt : forall codec b, decompress codec (lenN b) (compress codec b) = Some b.

Theorem cat_page_v2_writer selfmade c codes :
  wc_v2 c = true -> wp_ok c (WDictP codes) ->
  rd_page_v2_cat decompress selfmade (N.of_nat (wc_k c)) (cd_of c) (wc_codec c) (w_v2_header c (WDictP codes))
             (lenN (w_defs c (WDictP codes)) + lenN (w_values c (WDictP codes)))
             (lenN (w_defs c (WDictP codes)) + lenN (deflate compress (wc_codec c) (w_values c (WDictP codes))))
             (w_defs c (WDictP codes) ++ deflate compress (wc_codec c) (w_values c (WDictP codes)))
  = ROk (map code_z codes).
Proof.
  intros V2 WOK. pose proof (put_codes_writer c codes WOK) as PUT.
  destruct WOK as (N0 & NB & REQ & OK). set (p := WDictP codes) in *.
  pose proof (w_nonnull_le p) as LE.
  unfold rd_page_v2_cat, cat_prefix. cbn [w_v2_header d2_enc d2_nvals d2_nnulls d2_dlen d2_rlen d2_iscomp].
  assert (E1 : negb ((w_enc p =? E_PLAIN_DICT) || (w_enc p =? E_RLE_DICT) || (w_enc p =? E_RLE) || (w_enc p =? E_PLAIN) ||
                     (w_enc p =? E_DELTA))%Z = false) by reflexivity.
  assert (E2 : negb ((w_enc p =? E_PLAIN_DICT) || (w_enc p =? E_RLE_DICT))%Z = false) by reflexivity.
  rewrite E1, E2. rewrite !z2n_of_N. cbn [rbind]. change (z2n _ 0%Z) with (@ROk N 0). cbn [rbind].
  replace (w_rows p - (w_rows p - w_nonnull p)) with (w_nonnull p) by lia.
  rewrite !N.sub_0_r, ?N.add_0_r.
  replace (lenN (w_defs c p) + lenN (deflate compress (wc_codec c) (w_values c p)) - lenN (w_defs c p))
    with (lenN (deflate compress (wc_codec c) (w_values c p))) by lia.
  replace (lenN (w_defs c p) + lenN (w_values c p) - lenN (w_defs c p)) with (lenN (w_values c p)) by lia.
  rewrite takeN_app_exact, dropN_app_exact, takeN_all.
  set (lvopt := if wc_optional c && negb (w_rows p - w_nonnull p =? 0) then Some (w_mask p) else None).
  assert (LV : (if negb (cd_maxdef (cd_of c) =? 0) && negb (w_rows p - w_nonnull p =? 0)
                then match hyb_dec false (N.size (cd_maxdef (cd_of c))) (w_rows p) (w_defs c p) with
                     | Some (l, _) => ROk (Some l)
                     | None => RBad "level reader ran out of data"%string
                     end
                else ROk None) = ROk lvopt).
  { unfold lvopt, w_defs. cbn [cd_of cd_maxdef]. destruct (wc_optional c) eqn:OPT; cbn [N.eqb negb andb]; [|reflexivity].
    destruct (w_rows p - w_nonnull p =? 0) eqn:Z0; cbn [negb]; [reflexivity|].
    apply N.eqb_neq in Z0. assert (NE : (w_nonnull p =? w_rows p) = false) by (apply N.eqb_neq; lia).
    rewrite NE, V2. change (N.size 1) with 1.
    pose proof (WLevelsProofs.defs_nulls_v2_dec false (w_mask p) []) as D.
    rewrite app_nil_r, w_mask_length in D. rewrite D; [reflexivity| |].
    - apply mask_bits.
    - pose proof (w_mask_length p). lia. }
  rewrite LV. cbn [rbind].
  assert (RAW : forall (A : Type) (K : bytes -> rs A),
            rbind (if match Some (negb (wc_codec c =? 0)%Z) with Some false => false | _ => true end && negb (wc_codec c =? 0)%Z
                   then of_opt "decompression failed"%string
                          (decompress (wc_codec c) (lenN (w_values c p)) (deflate compress (wc_codec c) (w_values c p)))
                   else ROk (deflate compress (wc_codec c) (w_values c p))) K = K (w_values c p)).
  { intros A K. unfold deflate. destruct (wc_codec c =? 0)%Z; cbn [andb negb]; rewrite ?codec_rt; reflexivity. }
  rewrite RAW. unfold lvopt, p in *. cbn [w_values w_nonnull w_rows w_mask] in *.
  destruct OK as (K & CK2 & LB).
  assert (CK : Forall (fun x => x < 256 ^ N.of_nat (wc_k c)) (somes codes)) by (eapply Forall_impl; [|exact CK2]; cbn beta; intros; lia).
  assert (KP : 0 < N.of_nat (wc_k c)) by (destruct K as [-> | [-> | ->]]; cbn; lia).
  destruct (lenN (somes codes) =? 0) eqn:K0.
  - (* every cell of the page is missing *)
    cbn [rbind fst snd]. unfold cat_tail. cbn [N.eqb orb andb negb rbind]. change (repN 0 (lenN (somes codes)) []) with (repN 0 (lenN (somes codes)) []).
    apply N.eqb_eq in K0. rewrite K0. cbn [repN]. rewrite K0 in PUT.
    rewrite lenN_ok in K0. destruct (somes codes) eqn:SCs; [|cbn [length] in K0; lia].
    replace (lenN codes - (lenN codes - 0)) with 0 by lia.
    change (repN 0 0 []) with (@nil N). exact PUT.
  - unfold wr_dict_indices. cbn [rbind fst snd]. unfold cat_tail. cbn [rbind fst snd].
    replace (lenN codes - (lenN codes - lenN (somes codes))) with (lenN (somes codes)) by lia.
    assert (BW : ((8 * N.of_nat (wc_k c) =? 8) || (8 * N.of_nat (wc_k c) =? 16) || (8 * N.of_nat (wc_k c) =? 32)) = true)
      by (destruct K as [-> | [-> | ->]]; reflexivity).
    assert (BK : 8 * N.of_nat (wc_k c) / 8 = N.of_nat (wc_k c)) by (rewrite N.mul_comm; apply N.div_mul; lia).
    assert (BZ : negb (8 * N.of_nat (wc_k c) =? 0) = true) by (destruct K as [-> | [-> | ->]]; reflexivity).
    assert (LC : lenN (wr_codes (wc_k c) (somes codes)) = N.of_nat (wc_k c) * lenN (somes codes))
      by (rewrite !lenN_ok, WLevelsProofs.wr_codes_length; lia).
    assert (RC : forall m, m = length (somes codes) ->
               raw_codes (N.of_nat (wc_k c)) m (wr_codes (wc_k c) (somes codes)) [] = Some (somes codes)).
    { intros m ->. rewrite <- (app_nil_r (wr_codes _ _)). now rewrite raw_codes_wr. }
    rewrite BW. rewrite guard_idx_uleb by (rewrite ?lenN_ok; apply le_groups). rewrite andb_true_r.
    destruct selfmade; cbn [andb].
    + rewrite uleb_roundtrip, LC.
      destruct (N.of_nat (wc_k c) * lenN (somes codes) =? lenN codes * N.of_nat (wc_k c)) eqn:SAME.
      * apply N.eqb_eq in SAME. assert (FULL : lenN (somes codes) = lenN codes) by nia.
        assert (KZ : (N.of_nat (wc_k c) =? 0) = false) by (apply N.eqb_neq; lia).
        rewrite N.eqb_refl. replace (lenN codes - lenN (somes codes)) with 0 by lia. cbn [andb N.eqb].
        rewrite KZ. rewrite RC by (rewrite lenN_ok, Nat2N.id; rewrite !lenN_ok in FULL; lia).
        f_equal. apply codes_full. rewrite !lenN_ok in FULL. lia.
      * cbn [andb]. rewrite ?andb_false_l. rewrite BK.
        assert (TK : takeN (lenN (somes codes) * N.of_nat (wc_k c)) (wr_codes (wc_k c) (somes codes)) = wr_codes (wc_k c) (somes codes)).
        { rewrite takeN_ok. apply firstn_all2. rewrite !lenN_ok in *. rewrite WLevelsProofs.wr_codes_length. lia. }
        rewrite TK, LC.
        rewrite N.mul_comm, N.mod_mul by lia. cbn [N.eqb negb].
        rewrite N.div_mul by lia. rewrite RC by (rewrite lenN_ok, Nat2N.id; reflexivity). exact PUT.
    + rewrite BZ. cbn [andb negb].
      pose proof (WLevelsProofs.dict_indices_dec (wc_k c) (somes codes) []) as DD. rewrite app_nil_r in DD.
      apply N.eqb_neq in K0. rewrite (lenN_ok (somes codes)) in *.
      destruct (hyb_dec false (8 * N.of_nat (wc_k c)) (N.of_nat (length (somes codes))) _) as [[ix r]|];
        [|specialize (DD ltac:(lia) CK); discriminate DD].
      specialize (DD ltac:(lia) CK). cbn [option_map fst] in DD. injection DD as ->.
      assert (K0b : (N.of_nat (length (somes codes)) =? 0) = false) by (apply N.eqb_neq; exact K0).
      rewrite ?K0b. cbn [negb rbind]. exact PUT.
Qed.
End WithCodecs8.

(* ---- the page loop ---------------------------------------------------------------------------------------------- *)
Section WithCodecs9.
Variable compress : Z -> bytes -> bytes.
Variable decompress : Z -> N -> bytes -> option bytes.
Hypothesis codec_rt : forall codec b, decompress codec (lenN b) (compress codec b) = Some b.

Theorem rd_pages_cat selfmade skip_nulls c rows dic : forall ps clock num acc,
  Forall (wp_ok c) ps -> Forall is_dict_page ps ->
  Forall (fun p => phdr_wf (fst (w_data_page compress c p)) = true) ps ->
  (skip_nulls = true -> wc_v2 c = false -> Forall (fun p => w_nonnull p = w_rows p) ps) ->
  (length (concat (map (wp_bytes compress c) ps)) <= length clock)%nat ->
  rows = num + sumN (map w_rows ps) ->
  rd_chunk_cat decompress clock selfmade skip_nulls (N.of_nat (wc_k c)) (cd_of c) (wc_codec c) rows dic
               (concat (map (wp_bytes compress c) ps)) num acc
  = ROk (dic, rev acc ++ concat (map page_codes ps)).
Proof.
  induction ps as [|p r IH]; intros clock num acc W DP HW SK L ROWS.
  - unfold sumN in ROWS. cbn in ROWS.
    destruct clock; cbn [rd_chunk_cat map concat]; (destruct (N.leb_spec rows num) as [_|X]; [|lia]);
      now rewrite rev_append_rev, !app_nil_r.
  - assert (Wp : wp_ok c p) by (inversion W; assumption).
    assert (Wr : Forall (wp_ok c) r) by (inversion W; assumption).
    assert (Dp : is_dict_page p) by (inversion DP; assumption).
    assert (Dr : Forall is_dict_page r) by (inversion DP; assumption).
    assert (Hp : phdr_wf (fst (w_data_page compress c p)) = true) by (inversion HW; assumption).
    assert (Hr : Forall (fun p => phdr_wf (fst (w_data_page compress c p)) = true) r) by (inversion HW; assumption).
    assert (SKp : skip_nulls = true -> wc_v2 c = false -> w_nonnull p = w_rows p) by (intros A B; specialize (SK A B); inversion SK; assumption).
    assert (SKr : skip_nulls = true -> wc_v2 c = false -> Forall (fun p => w_nonnull p = w_rows p) r) by (intros A B; specialize (SK A B); inversion SK; assumption).
    cbn [map] in ROWS. rewrite sumN_cons in ROWS.
    assert (P0 : 0 < w_rows p) by (destruct Wp as (A & _); exact A).
    cbn [map concat] in L |- *. unfold wp_bytes at 1. unfold wp_bytes at 1 in L.
    set (hp := w_data_page compress c p) in *.
    set (restb := concat (map (wp_bytes compress c) r)) in *.
    destruct (page_bytes_shape hp restb) as (x & l & B & E). rewrite B in *.
    destruct clock as [|c0 clock']; [cbn [length] in L; lia|].
    cbn [rd_chunk_cat]. destruct (N.leb_spec rows num) as [X|_]; [lia|].
    replace (x :: l ++ snd hp ++ restb) with (enc_phdr (fst hp) ++ (snd hp ++ restb)) by (rewrite E; reflexivity).
    rewrite phdr_roundtrip by exact Hp. cbn [rbind].
    assert (L' : (length restb <= length clock')%nat) by (cbn [length] in L; rewrite !app_length in L; lia).
    destruct p as [pc|codes]; [contradiction Dp|]. cbn [page_codes].
    unfold hp, w_data_page. destruct (wc_v2 c) eqn:V2; cbn zeta; cbn [fst snd ph_usize ph_csize ph_body].
    + rewrite !z2n_add. cbn [rbind]. set (body := deflate compress (wc_codec c) (w_values c (WDictP codes))).
      rewrite <- (lenN_app (w_defs c (WDictP codes)) body), takeN_app_exact, dropN_app_exact, (lenN_app (w_defs c (WDictP codes)) body). unfold body.
      pose proof (cat_page_v2_writer compress decompress codec_rt selfmade c codes V2 Wp) as RD.
      unfold w_v2_header in RD. rewrite RD.
      cbn [rbind d2_nvals]. rewrite z2n_of_N. cbn [rbind].
      rewrite (IH clock' (num + w_rows (WDictP codes)) (rev_append (map code_z codes) acc) Wr Dr Hr SKr L') by lia.
      rewrite rev_append_rev, rev_app_distr, rev_involutive, <- app_assoc. reflexivity.
    + rewrite !z2n_of_N. cbn [rbind]. rewrite takeN_app_exact, dropN_app_exact.
      rewrite (read_page_deflate compress decompress codec_rt). cbn [rbind].
      pose proof (cat_page_v1_writer selfmade skip_nulls c codes V2 Wp) as RD.
      unfold w_v1_header in RD. rewrite RD by (intros A; apply (SKp A eq_refl)).
      cbn [rbind d_nvals]. rewrite z2n_of_N. cbn [rbind].
      rewrite (IH clock' (num + w_rows (WDictP codes)) (rev_append (map code_z codes) acc) Wr Dr Hr SKr L') by lia.
      rewrite rev_append_rev, rev_app_distr, rev_involutive, <- app_assoc. reflexivity.
Qed.

Theorem chunk_cat_roundtrip selfmade skip_nulls c clock labels :
  wchunk_ok compress c -> wc_labels c = Some labels -> Forall is_dict_page (wc_pages c) -> 0 < w_chunk_rows c ->
  (skip_nulls = true -> wc_v2 c = false -> Forall (fun p => w_nonnull p = w_rows p) (wc_pages c)) ->
  (length (w_chunk compress c) <= length clock)%nat ->
  rd_chunk_cat decompress clock selfmade skip_nulls (N.of_nat (wc_k c)) (cd_of c) (wc_codec c) (w_chunk_rows c) None
               (w_chunk compress c) 0 []
  = ROk (Some labels, concat (map page_codes (wc_pages c))).
Proof.
  intros (W & HW & LAB) LBL DP R0 SK L. unfold w_chunk in *. unfold w_chunk_rows in *. rewrite LBL in *.
  destruct LAB as [HD VD].
  set (hp := w_dict_page compress c labels) in *.
  set (restb := concat (map (fun p => w_page_bytes (w_data_page compress c p)) (wc_pages c))) in *.
  destruct (page_bytes_shape hp restb) as (x & l & B & E). rewrite B in *.
  destruct clock as [|c0 clock']; [cbn [length] in L; lia|].
  cbn [rd_chunk_cat]. destruct (N.leb_spec (sumN (map w_rows (wc_pages c))) 0) as [X|_]; [lia|].
  replace (x :: l ++ snd hp ++ restb) with (enc_phdr (fst hp) ++ (snd hp ++ restb)) by (rewrite E; reflexivity).
  rewrite phdr_roundtrip by exact HD. cbn [rbind].
  assert (L' : (length restb <= length clock')%nat) by (cbn [length] in L; rewrite !app_length in L; lia).
  unfold hp, w_dict_page. cbn zeta. cbn [fst snd ph_usize ph_csize ph_body k_nvals].
  rewrite !z2n_of_N. cbn [rbind]. rewrite takeN_app_exact, dropN_app_exact.
  rewrite (read_page_deflate compress decompress codec_rt). cbn [rbind]. rewrite ?z2n_of_N. cbn [rbind].
  cbn [cd_of cd_type cd_tlen].
  destruct (w_plain_dec (wc_type c) (wc_tlen c) labels [] VD) as (r' & PR). rewrite app_nil_r in PR. rewrite PR.
  pose proof (rd_pages_cat selfmade skip_nulls c (sumN (map w_rows (wc_pages c))) (Some labels) (wc_pages c) clock' 0 []
                W DP HW SK) as RD.
  unfold wp_bytes in RD. fold restb in RD. rewrite RD by (try exact L'; lia). reflexivity.
Qed.
End WithCodecs9.
