(* Proofs about the string layer of Impl/Partition.v: split/join, join_path on legal segments,
   decimal integers (int(str(z)) = z through DecimalString / DecimalZ).                        *)
From Coq Require Import Decimal DecimalString DecimalZ DecimalPos.
From Coq Require Import NArith ZArith Bool Ascii String Arith Lia List.
From Pq Require Import Base.Bytes Proofs.BytesProofs Impl.Partition.
Import ListNotations.

Lemma str_eqb_spec a b : reflect (a = b) (str_eqb a b).
Proof. apply list_eqb_spec, Ascii.eqb_spec. Qed.

Lemma str_eqb_refl a : str_eqb a a = true.
Proof. destruct (str_eqb_spec a a); congruence. Qed.

Lemma mem_str_In x l : mem_str x l = true <-> In x l.
Proof.
  unfold mem_str. rewrite existsb_exists. split.
  - intros [y [Hy He]]. destruct (str_eqb_spec x y); [subst; exact Hy|discriminate].
  - intros H. exists x. split; [exact H|apply str_eqb_refl].
Qed.

Lemma has_char_In c s : has_char c s = true <-> In c s.
Proof.
  unfold has_char. rewrite existsb_exists. split.
  - intros [y [Hy He]]. destruct (Ascii.eqb_spec c y); [subst; exact Hy|discriminate].
  - intros H. exists c. split; [exact H|apply Ascii.eqb_refl].
Qed.

Lemma has_char_false c s : ~ In c s -> has_char c s = false.
Proof. intros H. destruct (has_char c s) eqn:E; [|reflexivity]. apply has_char_In in E. tauto. Qed.

(* ------------------------------------------------------------------ split / join *)
Lemma split_on_nonnil c s : split_on c s <> [].
Proof.
  induction s as [|a r IH]; cbn; [discriminate|].
  destruct (Ascii.eqb a c); [discriminate|]. destruct (split_on c r); discriminate.
Qed.

Lemma split_on_nohit c s : ~ In c s -> split_on c s = [s].
Proof.
  induction s as [|a r IH]; cbn; [reflexivity|]. intros H.
  destruct (Ascii.eqb_spec a c) as [E|E]; [exfalso; apply H; now left|].
  rewrite IH by tauto. reflexivity.
Qed.

Lemma split_on_app c a b : ~ In c a -> split_on c (a ++ c :: b) = a :: split_on c b.
Proof.
  induction a as [|x a IH]; cbn; intros H.
  - now rewrite Ascii.eqb_refl.
  - destruct (Ascii.eqb_spec x c) as [E|E]; [exfalso; apply H; now left|].
    rewrite IH by tauto. reflexivity.
Qed.

Lemma split_join c l : l <> [] -> Forall (fun s => ~ In c s) l -> split_on c (join_with c l) = l.
Proof.
  induction l as [|x r IH]; [congruence|]. intros _ H. inversion H as [|? ? Hx Hr]; subst.
  destruct r as [|y r'].
  - cbn. now apply split_on_nohit.
  - change (join_with c (x :: y :: r')) with (x ++ c :: join_with c (y :: r')).
    rewrite split_on_app by exact Hx. rewrite IH; [reflexivity|discriminate|exact Hr].
Qed.

Lemma join_with_app_last c l x : l <> [] -> join_with c (l ++ [x]) = join_with c l ++ c :: x.
Proof.
  induction l as [|y r IH]; [congruence|]. intros _.
  destruct r as [|z r'].
  - reflexivity.
  - change (join_with c ((y :: z :: r') ++ [x])) with (y ++ c :: join_with c ((z :: r') ++ [x])).
    rewrite IH by discriminate.
    change (join_with c (y :: z :: r')) with (y ++ c :: join_with c (z :: r')).
    now rewrite <- app_assoc.
Qed.

Lemma in_join_with c l a : In a (join_with c l) -> a = c \/ exists s, In s l /\ In a s.
Proof.
  induction l as [|x r IH]; cbn; [tauto|].
  destruct r as [|y r'].
  - intros H. right. exists x. split; [now left|exact H].
  - intros H. apply in_app_or in H. destruct H as [H|[H|H]].
    + right. exists x. split; [now left|exact H].
    + now left.
    + destruct (IH H) as [E|[s [Hs Ha]]]; [now left|]. right. exists s. split; [now right|exact Ha].
Qed.

(* ------------------------------------------------------------------ join_path on legal parts *)
Lemma drop_while_head f s : (match s with a :: _ => f a = false | [] => True end) -> drop_while f s = s.
Proof. destruct s as [|a r]; cbn; [reflexivity|]. now intros ->. Qed.

Lemma rstrip_slash_id s : (forall d, last s d <> c_slash \/ s = []) -> rstrip_slash s = s.
Proof.
  intros H. unfold rstrip_slash.
  induction s as [|x l _] using rev_ind; [reflexivity|].
  rewrite rev_app_distr. cbn [rev app].
  destruct (Ascii.eqb_spec c_slash x) as [E|E].
  - exfalso. destruct (H x) as [H1|H1].
    + rewrite last_last in H1. congruence.
    + destruct l; discriminate.
  - cbn [drop_while]. destruct (Ascii.eqb_spec c_slash x); [congruence|].
    cbn [rev]. now rewrite rev_involutive.
Qed.

Definition clean (s : str) : Prop := ~ In c_slash s /\ ~ In c_bslash s.

Lemma map_bslash_id s : ~ In c_bslash s ->
  map (fun a => if Ascii.eqb a c_bslash then c_slash else a) s = s.
Proof.
  induction s as [|a r IH]; cbn; [reflexivity|]. intros H.
  destruct (Ascii.eqb_spec a c_bslash) as [E|E]; [exfalso; apply H; now left|].
  rewrite IH by tauto. reflexivity.
Qed.

Lemma last_In {A} (s : list A) d : s <> [] -> In (last s d) s.
Proof.
  induction s as [|a r IH]; [congruence|]. intros _. destruct r as [|b r'].
  - now left.
  - right. apply IH. discriminate.
Qed.

Lemma norm_part_clean s : clean s -> norm_part s = s.
Proof.
  intros [H1 H2]. unfold norm_part. rewrite map_bslash_id by exact H2.
  apply rstrip_slash_id. intros d. destruct s as [|a r]; [now right|]. left.
  intros E. apply H1. rewrite <- E. apply last_In. discriminate.
Qed.

Lemma join_path_clean l : Forall (fun s => clean s /\ s <> []) l -> join_path l = join_with c_slash l.
Proof.
  intros H. unfold join_path. f_equal.
  induction H as [|x r [Hc Hn] Hr IH]; [reflexivity|].
  cbn [filter]. destruct x as [|a x']; [congruence|]. cbn [nonempty map].
  rewrite IH. now rewrite norm_part_clean.
Qed.

(* the second level of join_path: a '/'-joined directory followed by the part name *)
Lemma last_app_cons {A} (a : list A) x b d : last (a ++ x :: b) d = last (x :: b) d.
Proof.
  induction a as [|y a IH]; [reflexivity|].
  cbn [app]. rewrite <- IH. destruct (a ++ x :: b) eqn:E; [destruct a; discriminate|reflexivity].
Qed.

Lemma join_with_last_nonnil c l : l <> [] -> last l [] <> [] -> join_with c l <> [].
Proof.
  destruct l as [|x r]; [congruence|]. intros _ H. destruct r as [|y r'].
  - exact H.
  - change (join_with c (x :: y :: r')) with (x ++ c :: join_with c (y :: r')).
    intros E. symmetry in E. now apply app_cons_not_nil in E.
Qed.

Lemma last_join_with c l d : l <> [] -> last l [] <> [] -> last (join_with c l) d = last (last l []) d.
Proof.
  induction l as [|x r IH]; [congruence|]. intros _ H.
  destruct r as [|y r'].
  - reflexivity.
  - change (join_with c (x :: y :: r')) with (x ++ c :: join_with c (y :: r')).
    change (last (x :: y :: r') []) with (last (y :: r') []) in *.
    rewrite last_app_cons.
    assert (Hj : join_with c (y :: r') <> []) by (apply join_with_last_nonnil; [discriminate|exact H]).
    rewrite <- IH; [|discriminate|exact H].
    destruct (join_with c (y :: r')); [congruence|reflexivity].
Qed.

Lemma norm_part_joined l : l <> [] -> Forall (fun s => clean s /\ s <> []) l ->
  norm_part (join_with c_slash l) = join_with c_slash l.
Proof.
  intros Hn H. unfold norm_part. rewrite map_bslash_id.
  - apply rstrip_slash_id. intros d. left.
    assert (Hlast : In (last l []) l) by (apply last_In; exact Hn).
    rewrite Forall_forall in H. destruct (H _ Hlast) as [[Hs _] Hne].
    rewrite last_join_with by assumption.
    intros E. apply Hs. rewrite <- E. now apply last_In.
  - intros Hin. apply in_join_with in Hin. destruct Hin as [E|[s [Hs Ha]]]; [discriminate|].
    rewrite Forall_forall in H. destruct (H _ Hs) as [[_ Hb] _]. tauto.
Qed.

Lemma join_with_nonnil c l : l <> [] -> Forall (fun s => s <> []) l -> join_with c l <> [].
Proof.
  destruct l as [|x r]; [congruence|]. intros _ H. inversion H; subst.
  destruct r; cbn; [assumption|]. destruct x; [congruence|discriminate].
Qed.

Lemma nonempty_true s : s <> [] -> nonempty s = true.
Proof. destruct s; [congruence|reflexivity]. Qed.

Lemma join_path_two l part : l <> [] -> Forall (fun s => clean s /\ s <> []) l -> clean part -> part <> [] ->
  join_path [join_path l; part] = join_with c_slash (l ++ [part]).
Proof.
  intros Hn H Hp Hpn. rewrite (join_path_clean l H).
  unfold join_path. cbn [filter].
  assert (Hj : join_with c_slash l <> []).
  { apply join_with_nonnil; [exact Hn|]. eapply Forall_impl; [|exact H]. cbn. tauto. }
  rewrite (nonempty_true _ Hj), (nonempty_true _ Hpn). cbn [map].
  rewrite norm_part_joined by assumption. rewrite norm_part_clean by exact Hp.
  rewrite join_with_app_last by exact Hn. reflexivity.
Qed.

(* ------------------------------------------------------------------ decimal integers *)
Lemma uint_digits u : Forall (fun a => is_digit a = true) (list_ascii_of_string (NilEmpty.string_of_uint u)).
Proof. induction u; cbn; constructor; (reflexivity || assumption). Qed.

Lemma uint_nonnil u : u <> Nil -> list_ascii_of_string (NilEmpty.string_of_uint u) <> [].
Proof. destruct u; cbn; congruence. Qed.

Lemma undersc_digits b ds : Forall (fun a => is_digit a = true) ds -> (ds <> [] \/ b = true) ->
  undersc b ds = Some ds.
Proof.
  intros H. revert b. induction H as [|a r Ha Hr IH]; intros b Hb.
  - destruct Hb as [Hb|Hb]; [congruence|subst; reflexivity].
  - cbn. rewrite Ha. rewrite IH by now right. reflexivity.
Qed.

Lemma strip_id s : Forall (fun a => is_ws a = false) s -> strip s = s.
Proof.
  intros H. unfold strip.
  rewrite (drop_while_head is_ws s).
  - rewrite drop_while_head; [apply rev_involutive|].
    destruct (rev s) as [|a r] eqn:E; [exact I|].
    rewrite Forall_forall in H. apply H. apply in_rev. rewrite E. now left.
  - destruct s as [|a r]; [exact I|]. now inversion H.
Qed.

Lemma digit_not_ws a : is_digit a = true -> is_ws a = false.
Proof.
  unfold is_digit, is_ws. intros H.
  apply andb_true_iff in H. destruct H as [H1 H2].
  apply N.leb_le in H1. apply N.leb_le in H2.
  apply orb_false_iff. split.
  - apply andb_false_iff. right. apply N.leb_gt. lia.
  - apply N.eqb_neq. lia.
Qed.

Lemma parse_int_ascii_uint (neg : bool) u : u <> Nil ->
  parse_int_ascii ((if neg then ["-"%char] else []) ++ list_ascii_of_string (NilEmpty.string_of_uint u))
  = Some (if neg then Z.opp (Z.of_uint u) else Z.of_uint u).
Proof.
  intros Hu. unfold parse_int_ascii.
  set (ds := list_ascii_of_string (NilEmpty.string_of_uint u)).
  assert (Hd : Forall (fun a => is_digit a = true) ds) by apply uint_digits.
  assert (Hn : ds <> []) by now apply uint_nonnil.
  assert (Hws : Forall (fun a => is_ws a = false) ((if neg then ["-"%char] else []) ++ ds)).
  { apply Forall_app. split.
    - destruct neg; constructor; [reflexivity|constructor].
    - eapply Forall_impl; [|exact Hd]. apply digit_not_ws. }
  rewrite strip_id by exact Hws.
  destruct neg; cbn [app].
  - rewrite Ascii.eqb_refl. cbn [fst snd].
    rewrite undersc_digits by (auto). unfold ds. rewrite string_of_list_ascii_of_string.
    now rewrite NilEmpty.usu.
  - destruct ds as [|a r] eqn:E; [congruence|].
    assert (Ha : is_digit a = true) by now inversion Hd.
    assert (Hm : Ascii.eqb a "-"%char = false).
    { destruct (Ascii.eqb_spec a "-"%char) as [->|]; [discriminate Ha|reflexivity]. }
    assert (Hp : Ascii.eqb a "+"%char = false).
    { destruct (Ascii.eqb_spec a "+"%char) as [->|]; [discriminate Ha|reflexivity]. }
    rewrite Hm, Hp. cbn [fst snd]. rewrite <- E in *.
    rewrite undersc_digits by (auto). unfold ds. rewrite string_of_list_ascii_of_string.
    now rewrite NilEmpty.usu.
Qed.

Lemma show_Z_shape z : exists (neg : bool) u, u <> Nil /\
  show_Z z = (if neg then ["-"%char] else []) ++ list_ascii_of_string (NilEmpty.string_of_uint u) /\
  z = (if neg then Z.opp (Z.of_uint u) else Z.of_uint u).
Proof.
  pose proof (DecimalZ.of_to z) as Hz. unfold show_Z.
  destruct z as [|p|p]; cbn [Z.to_int] in *.
  - exists false, (D0 Nil). split; [discriminate|]. split; reflexivity.
  - exists false, (Pos.to_uint p). split; [apply Unsigned.to_uint_nonnil|]. split; [reflexivity|].
    cbn in Hz. now rewrite Hz.
  - exists true, (Pos.to_uint p). split; [apply Unsigned.to_uint_nonnil|]. split; [reflexivity|].
    cbn in Hz. now rewrite Hz.
Qed.

Lemma parse_int_ascii_show_Z z : parse_int_ascii (show_Z z) = Some z.
Proof.
  destruct (show_Z_shape z) as [neg [u [Hu [Hs Hz]]]]. rewrite Hs, parse_int_ascii_uint by exact Hu.
  now rewrite <- Hz.
Qed.

Lemma show_Z_chars z a : In a (show_Z z) -> a = "-"%char \/ is_digit a = true.
Proof.
  destruct (show_Z_shape z) as [neg [u [_ [Hs _]]]]. rewrite Hs. intros H.
  apply in_app_or in H. destruct H as [H|H].
  - destruct neg; [|contradiction]. destruct H as [H|[]]. now left.
  - right. pose proof (uint_digits u) as Hd. rewrite Forall_forall in Hd. now apply Hd.
Qed.

(* on a text of 7-bit characters below DEL the Unicode transformation of int() is the identity *)
Lemma utf8_cps_ascii l : Forall (fun b => (b < 127)%N) l -> utf8_cps l = l.
Proof.
  induction 1 as [|b l Hb _ IH]; [reflexivity|]. cbn [utf8_cps].
  destruct (N.ltb_spec b 128) as [_|H]; [now rewrite IH|lia].
Qed.

Lemma py_decimal_ascii_id s : Forall (fun a => (N_of_ascii a < 127)%N) s -> py_decimal_ascii s = s.
Proof.
  intros H. unfold py_decimal_ascii. rewrite utf8_cps_ascii.
  - induction H as [|a s Ha _ IH]; [reflexivity|]. cbn [map]. rewrite IH. f_equal.
    unfold ascii_of_cp. destruct (N.ltb_spec (N_of_ascii a) 127) as [_|H']; [apply ascii_N_embedding|lia].
  - induction H as [|a s Ha _ IH]; constructor; assumption.
Qed.

Lemma digit_below_del a : is_digit a = true -> (N_of_ascii a < 127)%N.
Proof. unfold is_digit. intros H. apply andb_true_iff in H. destruct H as [_ H]. apply N.leb_le in H. lia. Qed.

Lemma show_Z_ascii z : Forall (fun a => (N_of_ascii a < 127)%N) (show_Z z).
Proof.
  apply Forall_forall. intros a Ha. apply show_Z_chars in Ha. destruct Ha as [->|Ha]; [cbn; lia|now apply digit_below_del].
Qed.

(* int(str(z)) = z *)
Lemma parse_int_show_Z z : parse_int (show_Z z) = Some z.
Proof. unfold parse_int. rewrite py_decimal_ascii_id by apply show_Z_ascii. apply parse_int_ascii_show_Z. Qed.

Lemma show_Z_nonnil z : show_Z z <> [].
Proof.
  destruct (show_Z_shape z) as [neg [u [Hu [Hs _]]]]. rewrite Hs.
  pose proof (uint_nonnil u Hu). destruct neg; cbn; [discriminate|assumption].
Qed.

Lemma show_Z_clean z : clean (show_Z z) /\ ~ In c_eq (show_Z z).
Proof.
  unfold clean. repeat split; intros H; apply show_Z_chars in H; destruct H as [H|H]; discriminate.
Qed.
