(* cencoding.read_rle_bit_packed_hybrid (impl model) = the specification's hybrid decoder on every
   stream of well-formed runs (RLE of any width <= 32; bit-packed of width 0 < w <= 24, or the
   width-1 / item-size-1 fast path), for every output capacity. *)
From Coq Require Import NArith ZArith Arith List Lia Bool.
From Pq Require Import Base.Bytes Base.Bits Base.Err Base.ListX
  Proofs.BytesProofs Proofs.ListXProofs Proofs.CodecProofs Proofs.HybridProofs
  Proofs.CBitpackProofs Proofs.CRleProofs Proofs.CVarintProofs Proofs.CBoolProofs Proofs.SafetyProofs
  Codec.Varint Codec.Bitpack Codec.Hybrid Codec.Plain
  Impl.CVarint Impl.CBitpack Impl.CRle Impl.CHybrid.
Import ListNotations.
Open Scope N_scope.

Definition irun_ok (w isz : N) (r : hrun) : Prop :=
  match r with
  | RLE c v => c < 2 ^ 30 /\ v < 2 ^ w /\ w <= 32
  | BP vs => vs <> [] /\ Forall (fun v => v < 2 ^ w) vs /\ N.of_nat (length vs) < 2 ^ 30 /\
             ((w = 1 /\ isz = 1) \/ (0 < w <= 24 /\ ~ (w = 1 /\ isz = 1)))
  end.

(* ---- arithmetic ---- *)
Ltac Zify.zify_post_hook ::= Z.to_euclidean_division_equations.
Lemma to_i32_small h : h < 2 ^ 31 -> to_i32 h = Z.of_N h.
Proof.
  intros H. unfold to_i32. change (N.ones 32) with (N.ones 32). rewrite N.land_ones.
  change (2 ^ 31) with 2147483648 in *. change (2 ^ 32) with 4294967296.
  rewrite N.mod_small by lia. destruct (N.ltb_spec h 2147483648); lia.
Qed.

Lemma div_sub_mul a isz kk : isz = 1 \/ isz = 4 -> isz * kk <= a -> (a - isz * kk) / isz = a / isz - kk.
Proof. intros [E|E] H; subst isz; lia. Qed.

Lemma mul_div_le' a isz : isz = 1 \/ isz = 4 -> isz * (a / isz) <= a.
Proof. intros [E|E]; subst isz; lia. Qed.

Lemma groups_bound n g : (n < 2 ^ 30)%N -> (8 * g <= n + 7)%N -> (g < 2 ^ 28)%N.
Proof. change (2 ^ 30) with 1073741824. change (2 ^ 28) with 268435456. lia. Qed.

Lemma even_2c c : Z.even (Z.of_N (2 * c)) = true.
Proof. rewrite N2Z.inj_mul. apply Z.even_mul. Qed.
Lemma odd_2g1 g : Z.even (Z.of_N (2 * g + 1)) = false.
Proof. rewrite N2Z.inj_add, N2Z.inj_mul, Z.even_add, Z.even_mul. reflexivity. Qed.
Ltac Zify.zify_post_hook ::= idtac.

Lemma tr_small isz v : v < 256 -> tr isz v = v.
Proof.
  intros H. unfold tr. destruct (isz =? 4); [reflexivity|].
  change 255 with (N.ones 8). rewrite N.land_ones. apply N.mod_small. exact H.
Qed.

Lemma map_repeat {A B} (f : A -> B) v n : map f (repeat v n) = repeat (f v) n.
Proof. induction n; cbn; congruence. Qed.

Lemma run_enc_ok w r : bytes_ok (run_enc w r).
Proof.
  destruct r as [c v|vs]; cbn [run_enc]; apply Forall_app; split; try apply uleb_enc_ok.
  - apply le_enc_ok.
  - unfold bp_enc. apply le_enc_ok.
Qed.

Lemma hyb_enc_ok w rs : bytes_ok (hyb_enc w rs).
Proof.
  unfold hyb_enc. induction rs as [|r rs IH]; [constructor|].
  cbn [map concat]. apply Forall_app. split; [apply run_enc_ok|exact IH].
Qed.

(* ---- one run ---- *)
Lemma rle_run_ok w isz c v cap' Y :
  isz = 1 \/ isz = 4 -> c < 2 ^ 30 -> v < 2 ^ w -> w <= 32 -> bytes_ok Y ->
  c_read_rle (le_enc (N.to_nat (vbytes w)) v ++ Y) (Z.of_N (2 * c)) w cap' isz =
  Ok {| d_vals := repeat (tr isz v) (N.to_nat (N.min c (cap' / isz)));
        d_used := vbytes w; d_written := isz * N.min c (cap' / isz) |}.
Proof.
  intros Hisz Hc Hv Hw HY.
  rewrite read_rle_correct; try assumption.
  - rewrite firstn_app, le_enc_length, Nat.sub_diag. cbn [firstn]. rewrite app_nil_r.
    rewrite firstn_all2 by (rewrite le_enc_length; lia).
    rewrite le2n_le_enc, N.mod_small by (apply rle_value_fits; exact Hv). reflexivity.
  - change (2 ^ 30) with 1073741824 in Hc. change (2 ^ 31) with 2147483648. lia.
  - apply Forall_app. split; [apply le_enc_ok|exact HY].
  - rewrite app_length, le_enc_length. lia.
Qed.

Ltac Zify.zify_post_hook ::= Z.to_euclidean_division_equations.
Lemma need_le g c : (N.min (8 * g) c + 7) / 8 <= g.
Proof. lia. Qed.
Lemma g_bytes g : (8 * g + 7) / 8 = g.
Proof. lia. Qed.
Ltac Zify.zify_post_hook ::= idtac.

Lemma map_tr_small isz l : Forall (fun v => v < 256) l -> map (tr isz) l = l.
Proof. induction 1 as [|x l Hx Hl IH]; [reflexivity|]. cbn [map]. now rewrite tr_small, IH. Qed.

Lemma bp_run_ok w isz vs g cap' Y :
  isz = 1 \/ isz = 4 -> vs <> [] -> Forall (fun v => v < 2 ^ w) vs -> N.of_nat (length vs) < 2 ^ 30 ->
  ((w = 1 /\ isz = 1) \/ (0 < w <= 24 /\ ~ (w = 1 /\ isz = 1))) ->
  length (pad8 vs) = (8 * g)%nat -> bytes_ok Y ->
  c_read_bitpacked (bp_enc w (pad8 vs) ++ Y) (Z.of_N (2 * N.of_nat g + 1)) w cap' isz =
  Ok {| d_vals := map (tr isz) (firstn (N.to_nat (N.min (8 * N.of_nat g) (cap' / isz))) (pad8 vs));
        d_used := N.of_nat g * w; d_written := isz * N.min (8 * N.of_nat g) (cap' / isz) |}.
Proof.
  intros Hisz Hne Hvs Hn Hcase Hg HY. set (p := pad8 vs) in *.
  assert (Hp : Forall (fun v => v < 2 ^ w) p) by (apply pad8_ok; exact Hvs).
  assert (Hg0 : 0 < N.of_nat g).
  { destruct vs as [|x vs']; [contradiction|]. unfold p, pad8 in Hg. rewrite app_length in Hg. cbn [length] in Hg. lia. }
  assert (Hg28 : N.of_nat g < 2 ^ 28).
  { apply (groups_bound (N.of_nat (length vs))); [exact Hn|].
    assert (length p <= length vs + 7)%nat.
    { unfold p, pad8. rewrite app_length, zeros_length.
      pose proof (Nat.mod_upper_bound (8 - length vs mod 8) 8 ltac:(lia)). lia. }
    lia. }
  assert (Hlen : N.of_nat (length (bp_enc w p)) = N.of_nat g * w).
  { rewrite bp_enc_length, Hg. replace (N.of_nat (8 * g)) with (8 * N.of_nat g) by lia. apply nbytes_groups. }
  assert (Hok : bytes_ok (bp_enc w p ++ Y)).
  { apply Forall_app. split; [unfold bp_enc; apply le_enc_ok|exact HY]. }
  set (kk := N.min (8 * N.of_nat g) (cap' / isz)).
  assert (Hkk : kk <= N.of_nat (length p)) by (rewrite Hg; unfold kk; lia).
  destruct Hcase as [[Ew Ei]|[Hw Hnf]].
  - (* width 1, item size 1: read_bitpacked1 *)
    subst w isz. unfold c_read_bitpacked. cbn [N.eqb Pos.eqb andb].
    rewrite rb_count_ok by exact Hg28.
    destruct (N.leb_spec (2 ^ 31) (8 * N.of_nat g)) as [Hbig|_].
    { change (2 ^ 28) with 268435456 in Hg28. change (2 ^ 31) with 2147483648 in Hbig. lia. }
    rewrite read_bitpacked1_correct; [|exact Hok|].
    2:{ rewrite app_length, Nat2N.inj_add, Hlen, N.mul_1_r. pose proof (need_le (N.of_nat g) cap'). lia. }
    unfold kk in *. rewrite N.div_1_r in *. f_equal. f_equal.
    + unfold bool_dec. rewrite bp_dec_prefix by (try exact Hp; exact Hkk).
      symmetry. apply map_tr_small. apply Forall_forall. intros x Hx.
      rewrite <- (firstn_skipn (N.to_nat (N.min (8 * N.of_nat g) cap')) p) in Hp.
      apply Forall_app in Hp. destruct Hp as [Hp1 _]. rewrite Forall_forall in Hp1.
      specialize (Hp1 x Hx). cbn in Hp1. lia.
    + rewrite g_bytes. lia.
    + lia.
  - rewrite read_bitpacked_correct; try assumption; try lia.
    + fold kk. f_equal. f_equal. f_equal. apply bp_dec_prefix; [exact Hp|exact Hkk].
    + rewrite app_length, Nat2N.inj_add, Hlen. lia.
Qed.

Definition run_dec (w isz cap' : N) (h : N) (inp1 : bytes) : res dres :=
  if Z.even (Z.of_N h) then c_read_rle inp1 (Z.of_N h) w cap' isz
  else c_read_bitpacked inp1 (Z.of_N h) w cap' isz.

Lemma run_step_ok w isz r cap' Y :
  isz = 1 \/ isz = 4 -> irun_ok w isz r -> bytes_ok Y ->
  exists h body,
    run_enc w r = uleb_enc h ++ body /\ h < 2 ^ 31 /\ bytes_ok body /\
    run_dec w isz cap' h (body ++ Y) =
    Ok {| d_vals := map (tr isz) (firstn (N.to_nat (N.min (lenN (run_vals r)) (cap' / isz))) (run_vals r));
          d_used := lenN body;
          d_written := isz * N.min (lenN (run_vals r)) (cap' / isz) |}.
Proof.
  intros Hisz Hr HY. destruct r as [c v|vs]; cbn [irun_ok run_enc run_vals] in *.
  - destruct Hr as (Hc & Hv & Hw).
    exists (2 * c), (le_enc (N.to_nat (vbytes w)) v). split; [reflexivity|]. split.
    { change (2 ^ 30) with 1073741824 in Hc. change (2 ^ 31) with 2147483648. lia. }
    split; [apply le_enc_ok|].
    unfold run_dec. rewrite even_2c. rewrite rle_run_ok by assumption.
    rewrite lenN_ok, repeat_length, N2Nat.id, lenN_ok, le_enc_length, N2Nat.id.
    f_equal. f_equal.
    rewrite firstn_repeat by lia. now rewrite map_repeat.
  - destruct Hr as (Hne & Hvs & Hn & Hcase).
    destruct (pad8_length vs) as [g Hg].
    exists (2 * N.of_nat g + 1), (bp_enc w (pad8 vs)).
    assert (Hg28 : N.of_nat g < 2 ^ 28).
    { apply (groups_bound (N.of_nat (length vs))); [exact Hn|].
      assert (length (pad8 vs) <= length vs + 7)%nat.
      { unfold pad8. rewrite app_length, zeros_length.
        pose proof (Nat.mod_upper_bound (8 - length vs mod 8) 8 ltac:(lia)). lia. }
      lia. }
    split.
    { rewrite Hg. replace (N.of_nat (8 * g)) with (8 * N.of_nat g) by lia. now rewrite div8. }
    split.
    { change (2 ^ 28) with 268435456 in Hg28. change (2 ^ 31) with 2147483648. lia. }
    split; [unfold bp_enc; apply le_enc_ok|].
    unfold run_dec. rewrite odd_2g1. rewrite (bp_run_ok w isz vs g) by assumption.
    rewrite !lenN_ok, Hg, bp_enc_length, Hg.
    replace (N.of_nat (8 * g)) with (8 * N.of_nat g) by lia. rewrite nbytes_groups. reflexivity.
Qed.

Lemma firstn_app_split {A} (a b : list A) (ka kb : nat) :
  (ka <= length a)%nat -> ((ka < length a)%nat -> kb = 0%nat) ->
  firstn (ka + kb)%nat (a ++ b) = firstn ka a ++ firstn kb b.
Proof.
  intros H1 H2. rewrite firstn_app.
  destruct (Nat.eq_dec ka (length a)) as [E|E].
  - subst ka. rewrite firstn_all2 by lia. rewrite firstn_all. f_equal. f_equal. lia.
  - rewrite (H2 ltac:(lia)). rewrite Nat.add_0_r. replace (ka - length a)%nat with 0%nat by lia. reflexivity.
Qed.

(* ---- the loop ---- *)
Lemma hybrid_f_ok w isz cap Len : isz = 1 \/ isz = 4 -> forall rs clock used written acc rest,
  Forall (irun_ok w isz) rs -> bytes_ok rest -> (length rs <= length clock)%nat ->
  used + lenN (hyb_enc w rs) = Len -> written <= cap ->
  exists u, u <= Len /\
    c_hybrid_f clock w Len isz (hyb_enc w rs ++ rest) used cap written acc =
    Ok {| d_vals := rev acc ++ map (tr isz)
                      (firstn (N.to_nat (N.min (lenN (allvals rs)) ((cap - written) / isz))) (allvals rs));
          d_used := u;
          d_written := written + isz * N.min (lenN (allvals rs)) ((cap - written) / isz) |}.
Proof.
  intros Hisz. induction rs as [|r1 rs IH]; intros clock used written acc rest Hwf Hrest Hclk Hlen Hwr.
  - exists used. cbn [hyb_enc map concat] in Hlen. unfold lenN in Hlen. cbn [fold_left] in Hlen.
    split; [lia|].
    assert (E : (used <? Len) = false) by (apply N.ltb_ge; lia).
    destruct clock; cbn [c_hybrid_f]; rewrite E; cbn [andb];
      cbn [allvals map concat firstn]; unfold lenN; cbn [fold_left];
      rewrite N.min_0_l, N.mul_0_r, N.add_0_r, rev_append_rev; reflexivity.
  - pose proof (Forall_inv Hwf) as Hr1. pose proof (Forall_inv_tail Hwf) as Hrs.
    destruct clock as [|c0 clock]; [cbn [length] in Hclk; lia|]. cbn [length] in Hclk.
    assert (Hisz0 : isz <> 0) by (destruct Hisz; lia).
    destruct (N.ltb_spec written cap) as [Hroom|Hfull].
    2:{ (* output full: the loop stops here *)
      exists used. split; [lia|].
      cbn [c_hybrid_f]. replace (written <? cap) with false by (symmetry; apply N.ltb_ge; lia).
      rewrite andb_false_r.
      replace (cap - written) with 0 by lia. rewrite N.div_0_l by exact Hisz0.
      rewrite N.min_0_r, N.mul_0_r, N.add_0_r. cbn [N.to_nat firstn map].
      now rewrite rev_append_rev. }
    destruct (run_step_ok w isz r1 (cap - written) (hyb_enc w rs ++ rest) Hisz Hr1) as (h & body & Henc & Hh & Hbody & Hdec).
    { apply Forall_app. split; [apply hyb_enc_ok|exact Hrest]. }
    unfold hyb_enc in *. cbn [map concat] in *. fold (hyb_enc w rs) in *.
    rewrite Henc in *. rewrite <- !app_assoc.
    rewrite lenN_ok, !app_length, !Nat2N.inj_add in Hlen. rewrite <- !lenN_ok in Hlen.
    assert (Hupos : 1 <= lenN (uleb_enc h)) by (rewrite lenN_ok; pose proof (uleb_len_pos h); lia).
    cbn [c_hybrid_f].
    replace (used <? Len) with true by (symmetry; apply N.ltb_lt; lia).
    replace (written <? cap) with true by (symmetry; apply N.ltb_lt; lia). cbn [andb].
    rewrite varint_reads_spec_encoding.
    2:{ change (2 ^ 31) with 2147483648 in Hh. change (2 ^ 64) with 18446744073709551616. lia. }
    2:{ apply Forall_app. split; [exact Hbody|]. apply Forall_app. split; [apply hyb_enc_ok|exact Hrest]. }
    rewrite to_i32_small by exact Hh.
    rewrite dropN_app_exact.
    fold (run_dec w isz (cap - written) h (body ++ hyb_enc w rs ++ rest)). rewrite Hdec.
    cbn [d_used d_written d_vals].
    rewrite lenN_ok, dropN_app_exact.
    set (A := (cap - written) / isz) in *.
    set (n1 := lenN (run_vals r1)) in *.
    set (kk := N.min n1 A) in *.
    assert (Hkk : isz * kk <= cap - written).
    { eapply N.le_trans; [apply N.mul_le_mono_l, N.le_min_r|]. apply mul_div_le'. exact Hisz. }
    destruct (IH clock (used + N.of_nat (length (uleb_enc h)) + N.of_nat (length body)) (written + isz * kk)
                (rev_append (map (tr isz) (firstn (N.to_nat kk) (run_vals r1))) acc) rest Hrs Hrest ltac:(lia))
      as (u & Hu & Hrec).
    { rewrite <- !lenN_ok. lia. }
    { lia. }
    exists u. split; [exact Hu|]. rewrite Hrec. f_equal.
    assert (EA : (cap - (written + isz * kk)) / isz = A - kk).
    { replace (cap - (written + isz * kk)) with (cap - written - isz * kk) by lia.
      unfold A. apply div_sub_mul; assumption. }
    rewrite EA. rewrite allvals_cons.
    set (n2 := lenN (allvals rs)) in *.
    assert (En : lenN (run_vals r1 ++ allvals rs) = n1 + n2).
    { unfold n1, n2. rewrite !lenN_ok, app_length. lia. }
    rewrite En.
    assert (Ek : N.min (n1 + n2) A = kk + N.min n2 (A - kk)) by (unfold kk; lia).
    rewrite Ek. f_equal.
    + rewrite rev_append_rev, rev_app_distr, rev_involutive, <- app_assoc. f_equal.
      rewrite <- map_app. f_equal.
      rewrite N2Nat.inj_add. symmetry. apply firstn_app_split.
      * unfold kk, n1. rewrite lenN_ok. lia.
      * unfold kk, n1. rewrite lenN_ok. intros Hlt. lia.
    + lia.
Qed.

(* MAIN THEOREM.  Any stream of well-formed runs (RLE counts < 2^30, any width <= 32; bit-packed runs of
   width 0 < w <= 24, or width 1 with item size 1), followed by anything, any output capacity: the C loop
   returns Ok, stores exactly min(total, capacity) values - the values of the runs in order (low byte for
   item size 1) - and stops inside the stream. *)
Theorem hybrid_correct w isz cap rs rest :
  isz = 1 \/ isz = 4 -> Forall (irun_ok w isz) rs -> rs <> [] -> bytes_ok rest ->
  exists u, u <= lenN (hyb_enc w rs) /\
    c_read_hybrid (hyb_enc w rs ++ rest) w (lenN (hyb_enc w rs)) cap isz =
    Ok {| d_vals := map (tr isz) (firstn (N.to_nat (N.min (lenN (allvals rs)) (cap / isz))) (allvals rs));
          d_used := u;
          d_written := isz * N.min (lenN (allvals rs)) (cap / isz) |}.
Proof.
  intros Hisz Hwf Hne Hrest. unfold c_read_hybrid.
  assert (Hpos : lenN (hyb_enc w rs) <> 0).
  { rewrite lenN_ok. pose proof (hyb_enc_length_ge w rs). destruct rs; [contradiction|]. cbn [length] in *. lia. }
  destruct (N.eqb_spec (lenN (hyb_enc w rs)) 0) as [E|_]; [contradiction|].
  destruct (hybrid_f_ok w isz cap (lenN (hyb_enc w rs)) Hisz rs (0 :: hyb_enc w rs ++ rest) 0 0 [] rest Hwf Hrest)
    as (u & Hu & Hrun).
  - cbn [length]. rewrite app_length. pose proof (hyb_enc_length_ge w rs). lia.
  - lia.
  - lia.
  - exists u. split; [exact Hu|]. rewrite Hrun. rewrite N.sub_0_r, N.add_0_l. reflexivity.
Qed.

(* with the 4-byte length prefix (length argument 0 = "read the length first") *)
Theorem hybrid_prefixed_correct w isz cap rs rest :
  isz = 1 \/ isz = 4 -> Forall (irun_ok w isz) rs -> rs <> [] -> bytes_ok rest ->
  lenN (hyb_enc w rs) < 2 ^ 32 ->
  exists u, u <= 4 + lenN (hyb_enc w rs) /\
    c_read_hybrid (hyb_enc_len w rs ++ rest) w 0 cap isz =
    Ok {| d_vals := map (tr isz) (firstn (N.to_nat (N.min (lenN (allvals rs)) (cap / isz))) (allvals rs));
          d_used := u;
          d_written := isz * N.min (lenN (allvals rs)) (cap / isz) |}.
Proof.
  intros Hisz Hwf Hne Hrest H32. unfold c_read_hybrid, hyb_enc_len. cbn [N.eqb].
  rewrite <- app_assoc.
  set (E := hyb_enc w rs) in *. set (P := le_enc 4 (N.of_nat (length E))).
  assert (HlenP : length P = 4%nat) by apply le_enc_length.
  assert (H1 : (lenN (P ++ E ++ rest) <? 4) = false).
  { apply N.ltb_ge. rewrite lenN_ok, app_length, HlenP. lia. }
  assert (H2 : firstn 4 (P ++ E ++ rest) = P).
  { rewrite firstn_app, HlenP. rewrite (firstn_all2 P) by lia. rewrite Nat.sub_diag, firstn_O. apply app_nil_r. }
  assert (H3 : dropN 4 (P ++ E ++ rest) = E ++ rest).
  { change 4 with (N.of_nat 4). rewrite <- HlenP. apply dropN_app_exact. }
  assert (H4 : le2n P = N.of_nat (length E)).
  { unfold P. rewrite le2n_le_enc. change (256 ^ N.of_nat 4) with (2 ^ 32).
    apply N.mod_small. rewrite <- lenN_ok. exact H32. }
  rewrite H1, H2, H3, H4.
  assert (Hpos : (1 <= length E)%nat).
  { pose proof (hyb_enc_length_ge w rs). fold E in H. destruct rs; [contradiction|]. cbn [length] in *. lia. }
  destruct (hybrid_f_ok w isz cap (N.of_nat (length E)) Hisz rs (0 :: E ++ rest) 0 0 [] rest Hwf Hrest)
    as (u & Hu & Hrun).
  - cbn [length]. rewrite app_length. pose proof (hyb_enc_length_ge w rs). fold E in H. lia.
  - fold E. rewrite lenN_ok. lia.
  - lia.
  - exists (4 + u). split; [rewrite lenN_ok; lia|]. fold E in Hrun. rewrite Hrun. cbn [d_vals d_used d_written].
    rewrite N.sub_0_r, N.add_0_l. reflexivity.
Qed.

(* C12 corollary: inside the limits the hybrid reader stays inside both buffers *)
Theorem hybrid_safe w isz cap rs rest :
  isz = 1 \/ isz = 4 -> Forall (irun_ok w isz) rs -> rs <> [] -> bytes_ok rest ->
  exists d, c_read_hybrid (hyb_enc w rs ++ rest) w (lenN (hyb_enc w rs)) cap isz = Ok d /\
            d_written d <= cap /\ d_used d <= lenN (hyb_enc w rs ++ rest).
Proof.
  intros Hisz Hwf Hne Hrest.
  destruct (hybrid_correct w isz cap rs rest Hisz Hwf Hne Hrest) as (u & Hu & Hrun).
  eexists. split; [exact Hrun|]. cbn [d_written d_used]. split.
  - apply written_le_cap. destruct Hisz; lia.
  - rewrite !lenN_ok, app_length in *. lia.
Qed.

(* a stream a LENIENT reader accepts (one bit-packed group announced, only the byte of the single real value
   present - what impala / older parquet-mr emit at the end of a page): the C loop walks through all 8 values
   of the group and reads behind the buffer *)
Lemma unpadded_last_group_overread :
  hyb_dec false 8 1 [3; 5] = Some ([5], []) /\ c_read_hybrid [3; 5] 8 2 4 4 = OOB.
Proof. split; vm_compute; reflexivity. Qed.
