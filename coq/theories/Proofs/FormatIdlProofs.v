(* The footer the specification encoder writes conforms to the IDL table (Thrift/IdlPinned.v): every
   field id declared, every wire type the declared one, ids increasing, required fields present. *)
From Coq Require Import String.
From Coq Require Import NArith ZArith Arith List Lia Bool.
From Pq Require Import Base.Bytes Thrift.Compact Thrift.Idl Thrift.IdlPinned Format.Meta Format.Page.
Import ListNotations.
Open Scope list_scope.

Section Conf.
Variable T : idl.
Variable o : opts.

Lemma conforms_list_eq e ety l :
  conforms T o (FList e) (TList ety l) =
  (ety_matches e ety || (lenient_empty o && (ety =? 0)%N && match l with [] => true | _ => false end))
  && forallb (conforms T o e) l.
Proof.
  cbn [conforms]. f_equal; try reflexivity.
  all: induction l as [|x r IH]; [reflexivity|]; cbn [forallb]; now rewrite <- IH.
Qed.

Lemma conforms_struct_eq n fs sd : find_struct (structs T) n = Some sd ->
  conforms T o (FStruct n) (TStruct fs) =
  forallb (fun p => match find_field (s_fields sd) (fst p) with
                    | Some f => conforms T o (f_ty f) (snd p)
                    | None => allow_unknown o
                    end) fs
  && increasing None (map fst fs) && required_present (s_fields sd) (map fst fs)
  && (negb (s_union sd) || (length fs =? 1)%nat).
Proof.
  intros H. cbn [conforms]. rewrite H. do 3 f_equal; try reflexivity.
  all: induction fs as [|[id x] r IH]; [reflexivity|]; cbn [forallb fst snd]; now rewrite <- IH.
Qed.
End Conf.

Notation conf := (conforms pinned idl_opts).

Lemma conf_map_struct n (A : Type) (g : A -> tv) (l : list A) :
  (forall x, conf (FStruct n) (g x) = true) -> conf (FList (FStruct n)) (TList 12 (map g l)) = true.
Proof.
  intros H. rewrite conforms_list_eq. cbn [ety_matches wire N.eqb Pos.eqb orb andb].
  apply forallb_forall. intros v Hv. apply in_map_iff in Hv. destruct Hv as (x & <- & _). apply H.
Qed.

Lemma conf_enum_list e (l : list Z) : conf (FList (FEnum e)) (TList 5 (map TI32 l)) = true.
Proof.
  rewrite conforms_list_eq. cbn [ety_matches wire N.eqb Pos.eqb orb andb].
  apply forallb_forall. intros v Hv. apply in_map_iff in Hv. destruct Hv as (x & <- & _). reflexivity.
Qed.

Lemma conf_string_list (l : list bytes) : conf (FList FString) (TList 8 (map TBin l)) = true.
Proof.
  rewrite conforms_list_eq. cbn [ety_matches wire N.eqb Pos.eqb orb andb].
  apply forallb_forall. intros v Hv. apply in_map_iff in Hv. destruct Hv as (x & <- & _). reflexivity.
Qed.

Ltac destr_opts :=
  repeat match goal with
         | x : option Z |- _ => destruct x
         | x : option bool |- _ => destruct x as [[|]|]
         | x : option bytes |- _ => destruct x
         end.

(* one struct level: look the struct up, evaluate everything but the children, rewrite the children *)
Ltac struct_step name :=
  let sd := fresh "sd" in let E := fresh "E" in
  destruct (find_struct (structs pinned) name) as [sd|] eqn:E; [|vm_compute in E; discriminate];
  rewrite (conforms_struct_eq pinned idl_opts name _ sd E);
  vm_compute in E; injection E as <-.

Lemma conf_cmd c : conf (FStruct "ColumnMetaData") (cmd_to_tv c) = true.
Proof.
  destruct c as [ty en pa co nv tu tc dp ip di nc]. unfold cmd_to_tv.
  cbn [cm_type cm_encodings cm_path cm_codec cm_nvals cm_tus cm_tcs cm_data_off cm_index_off cm_dict_off cm_null_count].
  struct_step "ColumnMetaData"%string.
  destr_opts; cbn [optf app forallb fst snd find_field s_fields f_id f_ty N.eqb Pos.eqb];
    rewrite conf_enum_list, conf_string_list; reflexivity.
Qed.

Lemma conf_cchunk c : conf (FStruct "ColumnChunk") (cchunk_to_tv c) = true.
Proof.
  destruct c as [pa off md]. unfold cchunk_to_tv. cbn [cc_path cc_off cc_meta].
  struct_step "ColumnChunk"%string.
  destruct pa, md as [m|]; cbn [optf app forallb fst snd find_field s_fields f_id f_ty N.eqb Pos.eqb];
    rewrite ?conf_cmd; reflexivity.
Qed.

Lemma conf_rgroup r : conf (FStruct "RowGroup") (rgroup_to_tv r) = true.
Proof.
  destruct r as [cs tb nr]. unfold rgroup_to_tv. cbn [rg_cols rg_tbs rg_nrows].
  struct_step "RowGroup"%string.
  cbn [forallb fst snd find_field s_fields f_id f_ty N.eqb Pos.eqb].
  rewrite (conf_map_struct "ColumnChunk" _ cchunk_to_tv cs conf_cchunk). reflexivity.
Qed.

(* the logical type of a leaf is carried as a generic value: it must itself conform *)
Definition logical_ok (s : selem) : Prop :=
  match se_logical s with Some v => conf (FStruct "LogicalType") v = true | None => True end.

Lemma conf_selem s : logical_ok s -> conf (FStruct "SchemaElement") (selem_to_tv s) = true.
Proof.
  destruct s as [ty tl rp nm nc cv lg sc pr]. unfold logical_ok, selem_to_tv.
  cbn [se_type se_tlen se_rep se_name se_nchildren se_conv se_logical se_scale se_prec]. intros L.
  struct_step "SchemaElement"%string.
  destruct lg as [v|]; destr_opts; cbn [optf app forallb fst snd find_field s_fields f_id f_ty N.eqb Pos.eqb];
    rewrite ?L; reflexivity.
Qed.

Theorem conf_fmd m : Forall logical_ok (fm_schema m) -> conf (FStruct "FileMetaData") (fmd_to_tv m) = true.
Proof.
  destruct m as [ve sc nr rgs cb]. unfold fmd_to_tv. cbn [fm_version fm_schema fm_nrows fm_rgs fm_created_by]. intros L.
  struct_step "FileMetaData"%string.
  assert (S : conf (FList (FStruct "SchemaElement")) (TList 12 (map selem_to_tv sc)) = true).
  { rewrite conforms_list_eq. cbn [ety_matches wire N.eqb Pos.eqb orb andb].
    apply forallb_forall. intros v Hv. apply in_map_iff in Hv. destruct Hv as (x & <- & Hx).
    apply conf_selem. rewrite Forall_forall in L. now apply L. }
  destruct cb; cbn [optf app forallb fst snd find_field s_fields f_id f_ty N.eqb Pos.eqb];
    rewrite S, (conf_map_struct "RowGroup" _ rgroup_to_tv rgs conf_rgroup); reflexivity.
Qed.
